#!/bin/sh
# usage: bin/try_seed.sh <patch.diff> <property id> [tier] [filter]   -- applies the patch to /repo, runs the check, reverts
set -u
P="$1"; ID="$2"; TIER="${3:-quick}"; FILT="${4:-}"
git -C /repo apply "$P" || { echo "patch does not apply"; exit 3; }
/verif/bin/check "$ID" "$TIER" $FILT; rc=$?
git -C /repo checkout -- . 
echo "check exit=$rc"
exit $rc
