#!/bin/bash
# usage: confirm_seeds.sh <seed dir> [<seed dir> ...]
# confirms each seeded change in a scratch worktree: applies, builds, full ctest passes, demo fails; reverted: demo passes.
# Results -> <seed dir>/confirm.txt .  The scratch worktree is removed at the end.
exec 9>/tmp/confirm_seeds.lock; flock 9   # one confirmation run at a time (they share the scratch worktree)
WT=/tmp/confirm_wt
J=${J:-10}
if [ ! -d $WT ]; then
  git -C /repo worktree add --detach $WT HEAD >/dev/null 2>&1 || exit 3
  (cd $WT && cmake -G Ninja -B _build -DCMAKE_BUILD_TYPE=RelWithDebInfo . >/dev/null && cmake --build _build -j$J >/dev/null 2>&1) || { echo "base build failed"; exit 3; }
fi
for S in "$@"; do
  OUT=$S/confirm.txt
  : > $OUT
  echo "seed: $S   base: $(git -C $WT rev-parse --short HEAD)" >> $OUT
  git -C $WT checkout -- . 
  if ! git -C $WT apply $S/patch.diff 2>>$OUT; then echo "RESULT: patch does not apply" >> $OUT; continue; fi
  if ! (cd $WT && cmake --build _build -j$J >/dev/null 2>>$OUT); then echo "RESULT: does not compile" >> $OUT; git -C $WT checkout -- .; continue; fi
  (cd $WT && ctest --test-dir _build -j$J --timeout 900 2>&1 | tail -3) >> $OUT
  TESTS_OK=$(grep -c "100% tests passed" $OUT)
  CMD=$(python3 -c "import json,sys; print(json.load(open('$S/meta.json'))['demo_cmd'])" 2>/dev/null)
  D=$(mktemp -d /tmp/confirm_demo.XXXX); cp $S/demo.* $D/ 2>/dev/null
  (cd $D && eval "${CMD//TREE/$WT}") >> $OUT 2>&1; RC_CHANGED=$?
  echo "demo on changed tree: exit $RC_CHANGED" >> $OUT
  git -C $WT checkout -- .
  (cd $WT && cmake --build _build -j$J >/dev/null 2>>$OUT)
  (cd $D && eval "${CMD//TREE/$WT}") >> $OUT 2>&1; RC_CLEAN=$?
  echo "demo on unchanged tree: exit $RC_CLEAN" >> $OUT
  rm -rf $D
  if [ "$TESTS_OK" = "1" ] && [ $RC_CHANGED -ne 0 ] && [ $RC_CLEAN -eq 0 ]; then echo "RESULT: CONFIRMED" >> $OUT; else echo "RESULT: NOT CONFIRMED (tests_ok=$TESTS_OK changed=$RC_CHANGED clean=$RC_CLEAN)" >> $OUT; fi
done
rm -rf $WT/_build; git -C /repo worktree remove --force $WT; git -C /repo worktree prune
