#!/usr/bin/env python3
"""usage: archive_seed.py <src dir> <Cxx-n> <caught|missed> <by/why>   -- copies a confirmed seeded change into /verif/seeded/ with its detection status"""
import json, os, shutil, sys
src, name, status, by = sys.argv[1:5]
dst = '/verif/seeded/' + name
os.makedirs(dst, exist_ok=True)
for f in os.listdir(src):
    if f.endswith('.x') or f.endswith('.o'):
        continue
    if os.path.isfile(os.path.join(src, f)):
        shutil.copy(os.path.join(src, f), dst)
m = json.load(open(os.path.join(dst, 'meta.json')))
m['breaks_property'] = name.split('-')[0]
conf = os.path.join(src, 'confirm.txt')
m['confirmed_by_me'] = open(conf).read().strip().splitlines()[-1] if os.path.exists(conf) else 'not confirmed'
m['what_i_ran'] = 'bin/confirm_seeds.sh (scratch worktree, apply, build, full ctest passes, demo fails; revert, rebuild, demo passes)'
m['detection'] = {'status': status, 'by': by}
txt = json.dumps(m, indent=1)
txt = txt.replace(src.rstrip('/') + '/', dst + '/').replace(src.rstrip('/'), dst)
# hand-ported variants keep the original directory name in their commands
orig = src.rstrip('/')
if orig.endswith('p'):
    txt = txt.replace(orig[:-1] + '/', dst + '/').replace(orig[:-1], dst)
open(os.path.join(dst, 'meta.json'), 'w').write(txt)
print(dst, m['confirmed_by_me'])
