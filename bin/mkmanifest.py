#!/usr/bin/env python3
"""Regenerates /verif/MANIFEST.json from the table below (single source of truth for what is claimed)."""
import json, os
ROOT = os.path.dirname(os.path.dirname(os.path.abspath(__file__)))

NOTE_COMMON = ("Trusted base: the extractor/interpreter in /verif/gm2v (guarded per run by bit-exact differential execution "
               "against the compiled real code where a fidelity guard is registered), z3/cvc5/cbmc; back end B treats doubles as reals "
               "(A-REAL) and libm/special functions as uninterpreted symbols constrained by the listed axioms (A-LIBM, A-SPECFN); "
               "decimal literals of sqrt/pi constants are taken as those constants (A-CONST). ")

CLAIMS = {
 'C01': dict(
   text="Contracts on the real one-variable loop functions (extracted from /repo on every run): for ALL x in [1e-14,1e12] every path "
        "(closed form and Taylor window) is within 1e-7 relative of the published definition (back end B: WP + z3 over reals with "
        "series enclosures of ln and Li2); documented values at 0, 1/4, 1, NaN on [-1e12,-1e-14] and an empty write frame are IEEE-754 "
        "facts proved by CBMC code contracts (back end A, goto-instrument --dfcc --enforce-contract).  f_PS equals its published dilogarithm form on 0<z<1/4 (inversion/reflection "
        "of Li2 substituted, identity in y, Li2(-q), logs) and the Clausen form above 1/4; f_S, f_sferm, f_CSl, F1, F1~, F2, F3 are their published combinations of f_PS, ln, Li2 on every "
        "closed-form path and within 1e-7 on every expansion path (large-/small-z enclosures of f_PS from the Barr-Zee integral).  Real dilogarithm: every path is a documented functional "
        "equation of Li2 applied inside its domain (matched by content) around the code's Pade core, which is within 5e-14 of the power series on the whole interval the paths use; Clausen "
        "function: documented argument reduction (odd, 2 pi periodic, reflection; the two-term 2 pi within 1e-19) around two Pade kernels within 1e-14 of the Bernoulli series; complex "
        "dilogarithm: every branch enters the Bernoulli series inside its domain of fast convergence, is exactly sgn S(u) + rest with the documented inversion/reflection formula, the real Horner scheme is the "
        "polynomial, the coefficient table is B_2k/(2k+1)!, and the truncation leaves a relative remainder <= 1e-13.  IEEE level (not the real-arithmetic abstraction): for EVERY double of the domain "
        "(18 loop functions on [1e-14,1e12], dilog and Cl2 on +-[1e-300,1e300]) the value returned is finite -- execution of the extracted functions on sets of doubles (gm2v/fpset.py), no sampling.  The transcribed definitions are compared on every run with the repository's own reference file math/ffunctions.m (C01.spec_source.*).",
   note=NOTE_COMMON + "Undecided remainder (not claimed): IEEE rounding inside each branch (in particular cancellation in the closed forms at large argument and the relative accuracy of Cl2 "
        "next to its zeros, where the rounded argument dominates); relative accuracy of the real dilogarithm next to "
        "the zero of Re Li2 at x = 12.595 (absolute 5e-14 Li2(y) only).",
   technique="code contracts on extracted real functions: WP/SMT (z3 NRA) + CBMC DFCC contracts", design='5 C01'),
 'C02': dict(
   text="Contracts on the real multi-variable loop functions: sort's contract (ascending permutation); SYMMETRY of Fa, Fb, FPZ, FSZ, FCWl, Iabc, Phi under every rearrangement and tie "
        "pattern of the arguments (relational symbolic execution through the real sort: same feasible paths, equivalent path conditions, identical result terms) and of the Kaellen function; "
        "HOMOGENEITY of Iabc (degree -2) and Phi (degree 1); DEFINITION on every generic path as a ring identity (Fa/Fb vs G3/G4, Ixyz vs I2abc, the Barr-Zee difference quotients, "
        "phi_pos/phi_neg/Phi vs Davydychev-Tausk as in 1607.06292 (68)-(70) through a chain of callee contracts); every near-degenerate EXPANSION (Fa11, Fb11, Fax, Fbx, I0y, I1y, Ixx, l00, "
        "l0v, lv0, the u==v series) has exactly the Taylor coefficients of the definition to the documented order, so limits are approached continuously; documented values at equal, "
        "1/4 and zero arguments.  BOUNDED stand-in (not a proof): size of the neglected remainders/cancellation on a deterministic sweep of the compiled functions against the 130-digit definition.  PROVED in addition: FPZ(x,x) and FSZ(x,x) equal the documented equal-argument forms for all x in [1e-6,1e12] outside |x-1/4| < 1e-8, the large-argument series of FSZ within 1e-7 (Barr-Zee enclosure of f_PS); f_CSd, f_CSu, phi_over_y equal their definitions.  The transcribed definitions (Fa, Fb, I2abc, FPZ/FSZ/FCWl generic and equal-argument forms, f_CSd, f_CSu, Phi with LambdaK and alpha+-) are compared on every run with the repository's own reference file math/ffunctions.m (C02.spec_source).",
   note=NOTE_COMMON + "Truncation remainders and floating-point cancellation are only covered by the bounded sweep (labelled bounded; ~25000 tuples).  f_CSd, f_CSu and phi_over_y equal their definitions of math/ffunctions.m (1607.06292 (61), (62)) on the generic paths and "
        "phi_over_y returns the documented limits in its two guard windows (that these ARE the limits of Phi/y is A-SPECFN, checked by the replay sweep).  phi_neg's special branches (u==v, u==1) and the inversion identities of Phi are used as documented (A-SPECFN), checked only by the sweep. "
        "One open finding (FCWl for arguments >= 1e4), two fixed (Fa/Fb small arguments, Phi small-u expansion).",
   technique="relational symbolic execution + ring normalisation against transcribed definitions; Taylor-coefficient contracts via sympy series of the definition; bounded native sweep for remainders", design='5 C02'),
 'C03': dict(
   text="Contracts on the real one-loop kernels: amu1LChi0 and amu1LChipm (with n^L, n^R, c^L, c^R, A/B combinations, x_im, x_k executed) equal the published neutralino/chargino "
        "formulas written independently in the standard hep-ph/0609168 form, for ALL values of the reported masses, complex neutralino mixing, real smuon/chargino mixings, gauge and Yukawa "
        "couplings; THDM amu1L equals the flavour-summed Eq.(27) of arXiv:1607.06292 minus the SM term for complex Yukawa matrices, amu1L_approx equals Eq.(27)-(30); the THDM parameter "
        "filler hands exactly the documented getters to the kernel.  Loop functions are uninterpreted; the identities are discharged by ring normalisation.  The model the formula is evaluated for is consistent: after calculate_masses, convert_to_onshell and convert_to_non_tan_beta_resummed T_f = Y_f A_f entry by entry with the FINAL (resummed) Yukawa couplings, on every returning path (native replay).",
   note=NOTE_COMMON + "The relation of masses/mixings to the Lagrangian parameters is C04 + A-LINALG (Haber-Kane/Takagi conventions assumed as documented); the numerical tolerance 1e-8 of the statement "
        "concerns rounding, which is not covered; sympy ring normalisation is in the trusted base.",
   technique="symbolic execution of the extracted kernels vs independent spec; ring normalisation (sympy)", design='5 C03'),
 'C04': dict(
   text="Contracts on the real generated MSSM mass-matrix code, for ALL real Lagrangian parameters: every entry of the nine sfermion matrices, the sneutrino, gauge-boson, "
        "fermion, gluino, neutralino and chargino mass matrices equals an independently written Lagrangian expression (one generic spec per sector with the generation "
        "index, hence generation-exchange symmetry); after the tree-level EWSB elimination both EWSB equations vanish and the Higgs-sector trace/determinant sum rules "
        "(m_h^2+m_H^2 = m_A^2+m_Z^2, m_H+^2 = m_A^2+m_W^2, Goldstones at MZ^2, MW^2) hold; each monitored sector flags a tachyon on exactly the paths with a negative "
        "eigenvalue and stores sqrt|w|; calculate_DRbar_masses restores mHd2, mHu2 (RAII frame) and writes no other parameter; the Goldstone reordering permutes masses and ROWS of ZA/ZP.  Goldstone reordering also for a spectrum accurate only to the eigen-solver's error bound (C04.goldstone_reordering.rounded_spectrum).  The problems class behind the flags keeps a SET: after flag_tachyon(n) the list holds exactly the previous names plus n, for every set of sectors (exhaustive execution of the extracted code).",
   note=NOTE_COMMON + "A-LINALG (C12) assumed for fs_diagonalize_hermitian/fs_svd/fs_diagonalize_symmetric: reconstruction Z^dagger diag(m^2) Z, unitarity and ordering of the reported factors "
        "are exactly that assumption applied to the proved matrices; IEEE rounding not covered.",
   technique="symbolic execution of the extracted generated code + z3 NRA against an independent Lagrangian spec; exception/flag effects as ghost state", design='5 C04'),
 'C05': dict(
   text="Contracts on the DR-bar -> on-shell conversion code: state SELECTION (right-like smuon for every orthogonal mixing matrix; bino-like neutralino by complex modulus, applied to the pole "
        "mixing matrix when it is filled); exact INVERSION identities through the real mass-matrix functions (sneutrino matrix == pole^2 after convert_ml2; the fixed-point updates assign exactly "
        "the M2/mu/M1 entries and subtract exactly the D-/F-term part of the smuon (1,1) entry); WARN-OR-FIT as ghost flag traces (convert_me2: one flag operation, on its own flag, set iff the "
        "achieved precision exceeds the goal, root finder tried iff the FPI missed; convert_Mu_M1_M2: if the flag is cleared the FINAL chargino and bino-like neutralino masses are within the goal, "
        "else the reported precision is their distance -- by a LOOP CONTRACT (inductive invariant + frame + variant, no unrolling: any number of iterations) with the spectrum routines as "
        "functions of the parameters; likewise the fixed-point loop for mse2(2,2): its loop contract shows that the achieved precision handed to convert_me2 IS the distance of the final "
        "right-like smuon from its pole mass, the wrapper keeps that, and convert_me2 clears its flag only if that distance is within the goal); "
        "PRESERVATION frames (no later step of convert_to_onshell writes what a fitted mass matrix reads).",
   note=NOTE_COMMON + "Convergence of the iterations, conditioning and parameter recovery are numerical statements outside contracts (not decided); diagonalisations under A-LINALG. "
        "The root-finder variant convert_me2_root_modify (with its local functor class) is executed symbolically as well; ASSUMED is only boost's toms748_solve (returns a bracket or throws std::exception, evaluates only the functor copy it is given).  One open finding: the Yukawa update after the smuon fit moves the right-like smuon off its pole mass without warning.",
   technique="loop contracts (invariant/frame/variant, Hoare rule over the extracted while loops) + symbolic execution with callee contracts (flag operations as ghost traces), ring identities through the real mass-matrix code, frame inference", design='5 C05'),
 'C06': dict(
   text="Relational contracts f(state) == f(flipped state) on the real MSSM functions, proved as rational-function identities for ALL parameter values: every leading-log one-loop term, "
        "amu1Lapprox with and without resummation, tan_beta_cor, Delta_mu/tau/b, the two-loop fermion/sfermion approximations and their log corrections are invariant under negating "
        "Mu, M1, M2, M3, A_f, T_f; every sfermion mass matrix keeps trace and determinant, the chargino matrix its singular-value invariants, the neutralino matrix becomes -P Y P (all masses "
        "invariant); amu1LChi0, amu1LChipm, the photonic and 2L(a) contributions are invariant under the induced change of the mixing matrices (N -> iNP, U_sf -> U_sf diag(1,-1), U -> U s3, V -> -V s3). "
        "Callee contracts on the public functions (independent of how helpers are split): Iabc is even in each argument (everything that reaches its sorting step, every path condition and the result), abs_sqrt(x)^2 == |x| and abs_sqrt(x) >= 0.",
   note=NOTE_COMMON + "That the real diagonalisation routines return the induced mixing matrices for the flipped matrices is A-LINALG (unique up to the phase conventions the functions are shown invariant "
        "under only for these representatives); loop functions uninterpreted (A-SPECFN); rounding differences (relative 1e-9 in the property) not covered: identities are exact over the reals.",
   technique="relational symbolic execution of the extracted code on a state and its sign-flipped copy + ring normalisation of the difference", design='5 C06'),
 'C07': dict(
   text="Decoupling as a units (mass-dimension) contract on the real MSSM a_mu, correction and uncertainty functions: the extracted code is interpreted over dimensions (masses 1, squared "
        "masses 2, couplings and mixings 0); every sum, difference, comparison and conditional joins equal dimensions, logarithms and loop functions receive dimensionless arguments, "
        "Iabc has dimension -2, and every function returns a dimensionless number on ALL paths.  Hence each contribution is exactly homogeneous of degree 0 under a common rescaling of all "
        "dimensionful inputs, i.e. it falls like 1/k^2 through its explicit m_mu^2 prefactor when only the SUSY scale is raised; the 2L uncertainty is >= its floor.  The one-variable loop "
        "functions the contributions call (F1C..F4N, f_PS, f_S, f_sferm) are their published, at most logarithmically growing definitions on every path incl. expansion windows "
        "(C01's definition contracts re-registered as callee contracts).  Callee contracts: the spectrum entering a_mu is the spectrum of the mass matrices (the eigen-solver receives get_mass_matrix_X() itself on every path: smuon, stau, sbottom, stop, chargino, neutralino sectors); m_SUSY = log_scale(model) is the positive minimum of |M1|, |M2|, |mu|, sqrt(me2(1,1)), sqrt(ml2(1,1)) for parameters of either sign.",
   note=NOTE_COMMON + "NOT decided: the size of the O((MZ/M_SUSY)^2) corrections and the numerical ratios of the quantifier (asymptotic statements); the units interpretation shares the extractor/interpreter "
        "with the other back ends; field dimensions are assigned from the documentation of MSSMNoFV_onshell.",
   technique="abstract interpretation of the extracted code over mass dimensions (units contract), all paths", design='5 C07'),
 'C08': dict(
   text="Contracts on the real THDM construction code for ALL admissible mass-basis inputs: the lambda_1..5 inversion composed with the tree-level "
        "EWSB and the three Higgs mass matrices has exactly the input spectrum (R(alpha)^T M2_hh R(alpha) = diag(mh^2,mH^2), Goldstone eigenvectors and "
        "masses MZ, MW, physical masses mA, mH+), MW/MZ reproduced from the SM input, calculate_Mhh returns (mh,mH) without tachyon flag and the heavy "
        "eigenvector is +-(cos alpha, sin alpha) under the eigen-solver's documented contract, the Goldstone reordering puts MZ/MW at index 0, the mixing-angle "
        "getters return the input sin/cos(beta-alpha) for EITHER eigenvector sign, and for all six Yukawa types the fermion mass matrices equal the SM ones "
        "with no division by zero.  Two obligations failed on the pinned tree with replayed counterexamples (mixing angle, aligned zeta=cot beta) and were repaired by fix: commits.  Lemmas re-registered: both THDM constructors hand the basis fields to the members of the same name (C09.constructor.*), and no function keeps state between constructions (static frame of C19), so the single-construction contracts hold for every construction in a process.  The Goldstone reordering is also proved for a spectrum that is only as accurate as the eigen-solver's documented error bound (|g - MZ| <= 1e-9 MZ): the Goldstone state goes to index 0 whichever state is lighter (C08.goldstone_reordering.rounded_spectrum).",
   note=NOTE_COMMON + "A-LINALG (C12) is assumed for fs_diagonalize_hermitian and the SVD (singular values of a matrix with M^dagger M = diag(m^2) are |m|); "
        "cos(beta-alpha) >= 1e-6 is required for the mixing-angle clause (at cos(beta-alpha)=0 the sign of sin(beta-alpha) is a field redefinition); "
        "the gauge-basis round trip is functional determinism of the same mass-matrix code; IEEE rounding is not covered.",
   technique="WP/symbolic execution of extracted real methods + z3 NRA with lemma chaining; numeric refutation + native replay for counterexamples", design='5 C08'),
 'C09': dict(
   text="Relational contracts on the real THDM Yukawa getters, for ALL parameter values: get_zeta_f equals Table 1 of arXiv:1607.06292; a type I/II/X/Y model and "
        "the aligned model with those zeta_f return identical zeta_f, rho_f and all twelve Yukawa matrices; the aligned model (zeta_f, Delta_f) and the general model "
        "with the encoding Pi_f return identical rho_f and Yukawa matrices; two models differing only in parameters documented as ignored return identical "
        "getters and identical Gamma_f/Pi_f after init_yukawas; validate() only warns.  Every a_mu routine reads the Yukawa sector only through these getters.  CONSTRUCTORS: THDM(Gauge_basis|Mass_basis, SM, Config) copies yukawa_type, zeta_f, Delta_f from the field of the same name, stores the SM input and the configuration passed, and calls init_gauge_couplings() then set_basis(basis) with that basis.  GETTERS: the twelve Yukawa getters have the published form Y^h = M s/v + rho c/sqrt2, Y^H = M c/v - rho s/sqrt2 with ONE pair (s, c) for quarks and leptons, Y^A = +-rho/sqrt2, Y^H+ = -rho_u^dagger V, V rho_d, rho_l.",
   note=NOTE_COMMON + "The chain from equal getters to equal a_mu is by functional determinism of the a_mu routines (they read the model only through getters: C19); "
        "running masses enter through get_mu/md/ml by contract (independent of the parametrisation).",
   technique="relational lemmas by symbolic execution of the extracted real getters + z3", design='5 C09'),
 'C10': dict(
   text="SM-limit clause as relational contracts on the real kernels, for ALL parameter values: with y_f^h = diag(m_f)/v (cos(beta-alpha)=0), the model relation "
        "v^2 = 4 MW^2 sw^2/(4 pi alpha) and m_h = m_hSM = m, amu1L and amu2L_F_neutral are independent of the common mass m (the light-Higgs terms cancel the subtracted "
        "SM terms identically, loop functions uninterpreted); amu2L_B_EWadd is proportional to cos(beta-alpha) zeta_l; amu2L_B_Yuk(cba) - amu2L_B_Yuk(0) at m_H = m_hSM "
        "reduces to the single term YF2 zeta_l cba (the difference coefficients a001, a501, a5z1 vanish); the three parameter fillers hand exactly the documented model getters to the kernels; "
        "callee contracts re-registered: dxlog series (C11), definitions of f_PS, f_S, f_CSl, F1, F1~, F2, F3 (C01).  Fourteen two-loop bosonic kernels (T0, T1, T5, T6, T9, T10, YF1, YFW, YFZ, YF2, YF3, b, Fm0, Fmp) "
        "equal, on every path and for ALL arguments, the definitions of the repository's own reference file math/THDMTwoLoopB.m (parsed on every run) as ring identities in the arguments and ln, Li2, f_PS, Phi "
        "(argument shifts = identity; lemma Phi(x,y,y) = x/(2y) f_PS(y/x)(x-4y) assumed) -- so the decoupling of the published formulas is what the code computes.  The assemblies amu2L_B_Yuk == amu2LBYuk (Eq. 52, 91-98; Lambda567 := Lambda5 + Lambda67/(tb - 1/tb)) and amu2L_B_nonYuk == amu2LBNonYuk (Eq. 71; the code's TX/T4/dxlog combination reproduces the reference sums of T2+, T2-, T4) "
        "are ring identities with the kernels as callees by contract; replay: real code vs 40-digit evaluation of the reference file (agreement 1e-10 at the replay points).  BOUNDED stand-in for the decoupling ratio itself: "
        "real library on 8 gauge-basis families x 4 heavy scales, |a(M sqrt10)| <= 0.45 |a(M)| per component (one open finding: rounding noise at 31.6 TeV, KNOWN-FINDING).",
   note=NOTE_COMMON + "NOT decided by contracts (stated): the decoupling rate (v/M)^2 of the genuine BSM terms (an asymptotic statement: bounded sweep only, labelled bounded); T7/T8 (complex square roots) and amu2L_B_EWadd (a different but equivalent basis of special functions) are compared with the reference file only numerically (EWadd: bounded, 4 points at 40 digits; T7/T8 inside the nonYuk replay); the chain model -> y_f^h = m_f/v at cos(beta-alpha)=0 "
        "uses C09's getter contracts; ring normalisation (sympy) is in the trusted base for the two rational-function identities.",
   technique="relational lemmas: symbolic execution of extracted kernels + z3 NRA / ring normalisation (sympy); reference formulas parsed from math/THDMTwoLoopB.m; bounded native sweep for the decoupling ratio", design='5 C10'),
 'C11': dict(
   text="Contracts on the THDM two-loop bosonic kernels and all their helpers (YF1, YFZ, YFW, YF2, YF3, T0, T1, dxlog, TX, T4-T6, T9, T10, fb, Fm0, Fmp, amu2L_B_nonYuk, "
        "amu2L_B_Yuk, amu2L_B_EWadd): on every path and for ALL mass ratios in [1e-6,1e4] with 3/5 < cw2 < 19/20 every denominator is non-zero and every logarithm/square root is in its "
        "domain -- each shift guard removes the pole it is meant for and no unguarded pole remains (with and, per function, without the assumption that two removable singularities do not "
        "coincide); helpers are called inside their preconditions (modular); the guard in amu2L_B_EWadd only moves the argument (the unguarded temporary is dead downstream); the quark Barr-Zee functions FCWu, FCWd, f_CSu, f_CSd, phi_over_y "
        "under their documented/physical preconditions (xu yd == xd yu; down-type quark lighter than half the W and H+- masses) and their call sites fuHp/fdHp; dxlog's series "
        "has the Taylor coefficients of its definition.  Counterexamples are replayed on the real code along the property's one-parameter path with the property's own 1%-band criterion.  MSSM: tan_alpha() returns the negative root of t x^2 + 2x - t = 0 (t = tan 2 alpha) on BOTH sides of M_A = M_Z for all tan(beta) != 1; at M_A bit-identical to M_Z exactly -1 for ALL tan(beta) in [1e-3,1e3] and M_Z in [1e-3,1e5] in IEEE round-to-nearest arithmetic (execution of the extracted function on sets of doubles, gm2v/fpset.py; no sampling).  The 20 one-argument loop/special functions return a finite number for EVERY double of their domain (same back end).  FLOATING-POINT side contract (standard model, u = 2^-53; not an A-REAL statement): the two guards with which phi_over_y recognises a zero of its denominator are above the rounding noise of the tested expression (guard constant >= 4 u mag(E)), so the exact coincidence m_H+ = m_t +- m_b takes the analytic limit.  BOUNDED stand-in for the 1% band itself: the property's own test through the public API on 4 THDM and 4 MSSM base points (601 + 3697 one-parameter paths through the degenerate configurations formed from their masses, 9 distances each): all values finite and inside the band, except one open finding (smooth curvature near the pole of the resummed bottom Yukawa coupling, KNOWN-FINDING).  MSSM leading-log two-loop functions (amu2LFSfapprox, Delta_g1, Delta_g2, the three Delta_yuk, Delta_tan(beta)): for parameters of either sign every logarithm and square root is in its domain on every path (1270 side obligations), m_SUSY = log_scale by its contract (the positive minimum of the special masses).",
   note=NOTE_COMMON + "NOT decided: the 1% band itself (size of the cancellations between pole terms after a shift of 1e-8) and everything about rounding; the neutral fermionic two-loop, the one-loop THDM and "
        "the MSSM functions are covered for this property only through the loop-function contracts of C01/C02 (equal-argument branches).  T7/T8 (complex square roots) only through their call-site preconditions. "
        "Four fixed findings (Kaellen zeros, m_h = 2 m_W, guard onto the pole at m_h = m_Z, guard order in YF3).",
   technique="symbolic execution of the extracted kernels; side obligations (denominator != 0, log/sqrt domains) discharged by z3 NRA on all paths; modular call-site preconditions; IEEE set-enclosure execution of the extracted function (all doubles of a box) for tan_alpha at M_A == M_Z; counterexample replay on the real code", design='5 C11'),
 'C12': dict(
   text="The wrapper layers of src/gm2_linalg.hpp (fs_diagonalize_hermitian, fs_svd, fs_diagonalize_symmetric and the internal reorder_*/ *_errbd functions) are executed symbolically "
        "with Eigen's two solvers replaced by their documented contracts (svd_eigen: m = U diag(S) Vh, unitary factors, S descending >= 0; hermitian_eigen: m = Z diag(W) Z^dagger, Z unitary, "
        "W ascending).  For the instantiations the models use (hermitian 2x2; SVD complex 3x3 and real 2x2; Takagi real symmetric 2x2 and 4x4) and on EVERY path -- all orderings of the "
        "eigen/singular values including ties, every sign pattern of the eigenvalues (negative eigenvalues get the phase i) -- the returned factors reproduce the input matrix in the documented "
        "convention (ring identity in the solver's output), singular values are non-negative, the documented ascending order holds, the values are a rearrangement of the solver's, and the "
        "Gram matrix of every returned factor is a re-indexing (up to unimodular phases off the diagonal) of the solver factor's Gram matrix, i.e. unitarity is preserved.  "
        "ERROR BOUNDS (the real LAPACK-DDISNA port disna and the *_errbd layers, hermitian 2x2/3x3, SVD 2x2/3x3, Takagi 2x2): on every path the value bound equals EPS ||m||_2 >= 0 and every "
        "vector bound lies in [0,1] -- finite and non-negative for every sign pattern, tie and zero of the spectrum.",
   note=NOTE_COMMON + "ASSUMED, not proved: the contracts of Eigen's JacobiSVD and SelfAdjointEigenSolver (iterative/closed-form solvers inside Eigen's expression templates are outside CBMC and the "
        "extractor) -- this is what remains of A-LINALG.  Not covered: floating-point accuracy of the factors (the meaning of the error bounds), sizes/instantiations the models do not use. "
        "Fidelity guard: Eigen's real solver output for 18 concrete matrices (random, identity, diagonal with negative and zero entries, hierarchical) is fed through the stubs and the "
        "interpreter's wrapper results agree bit for bit with the real fs_* functions.",
   technique="symbolic execution of the wrapper code under assumed solver contracts; ring normalisation for the factorisation identities; structural Gram-matrix argument for unitarity; z3 for orderings", design='5 C12'),
 'C13': dict(
   text="Contracts on the SLHA reader: every process_*_tuple(object, key, value) has exactly the documented effect (README tables: the documented member gets the documented function of "
        "value, every other member unchanged; nothing changes for undocumented keys, swept over -2..59 and the PDG codes); convert_to<T>(token) returns only if the WHOLE token was "
        "converted and in range, else EReadError (std::sto* by their documented prefix-parsing contract); read_bool/read_integer accept exactly 0/1 resp. the integers in [min,max]; "
        "read_block(name,.,scale) reads EVERY block of that name in file order whose Q matches the scale (later assignments override, split entries are all taken, other scales and names "
        "ignored); read_scale never reads a field the header line does not have; is_at_scale = (scale~0 or |scale-Q|<0.01).  Two obligations failed on the pinned tree with replayed "
        "counterexamples (tokens with trailing characters; out-of-range float->int conversion) and were repaired by fix: commits.  FILL LAYER: fill_slha, fill_gm2calc and fill(SM | Gauge_basis | Mass_basis | Config_options) read exactly the documented blocks, each through the documented tuple processor into the documented target or matrix parameter; HMIX, AE, AU, AD, MSOFT with the scale of the HMIX header, everything else without a scale; Mu, B mu = mA^2 tb/(1+tb^2), the scale and alpha (only if positive) are stored as documented; the Wolfenstein parameters reach set_ckm_from_wolfenstein in the documented order.  BOUNDED (not proved): the real program on the three shipped inputs extended by a foreign block whose name has the name of a read block as a proper prefix gives the result of the unextended input (the assumed look-up contract of SLHAea exercised on the real code).",
   note=NOTE_COMMON + "SLHAea (tokenizer, comments, whitespace, block-name case folding, ordered containers) enters by an assumed contract: layout independence below the (block,key)->value level is "
        "SLHAea's and is not claimed; block layouts are explored as representative structures with symbolic values, not for all files.",
   technique="effect contracts by symbolic execution of extracted readers + z3; library containers by assumed (Python-modelled) contracts; exception-effect inference", design='5 C13'),
 'C14': dict(
   text="The contract-decidable part of C14: every float->int conversion executed by the readers is defined (in range) for ALL doubles; option readers accept exactly their documented values; "
        "block readers never index a line beyond its fields and write matrices/vectors in bounds only; numeric token conversion throws only EReadError; no exception class raised inside "
        "main()'s try block escapes its handlers; every failure exit emits a diagnostic; fill_block_entry, through which the SPINFO diagnostics are written, sets exactly the named block's entry for every position of that block in the file (frame over the whole SLHA view, native replay).  The read_integer conversion obligation failed on the pinned tree (UBSan-confirmed) and was fixed.  An exception that reaches the boundary of a noexcept function is the effect std::terminate, which no handler stops: main() must not reach one.  MSSMNoFV_setup::run executed with the REAL writer of every output format: whenever it returns EXIT_FAILURE a diagnostic was emitted (std::cerr output of run, or SPINFO[3]/[4] filled by the SLHA writer) for every combination of problem/warning (program replay: stau tachyon with forced output).",
   note=NOTE_COMMON + "NOT decided and not claimed: termination within bounded time, leaks, uninitialised memory, behaviour of the SLHAea tokenizer and iostreams on arbitrary bytes, signals -- "
        "they need execution, which is outside this technique family.",
   technique="side obligations of symbolic execution (conversion/index ranges) + exception-effect inference on main", design='5 C14'),
 'C15': dict(
   text="Contracts on the reporting code: calculate_amu/calculate_uncertainty dispatch on loop order and resummation (enumerated exhaustively); every total equals the sum "
        "of its parts (MSSM 1L, 2L, leading-log sums, THDM 2L, bosonic and fermionic kernels); in both detailed writers (std::cout as an output-effect trace, on the normal "
        "AND the exception-retry path) the headline is a1L+a2L with the 2L uncertainty, every printed section sum equals the items printed above it, every percentage equals "
        "100 x its own component / the stated reference; minimal and SLHA writers print exactly calculate_amu / calculate_uncertainty into the documented block/entry per format; "
        "fill_block_entry changes exactly one entry of exactly the named block (frame over the whole SLHA view).  One obligation failed on the pinned tree (fermionic percentage) "
        "with a replayed counterexample and was repaired by a fix: commit.  Callee overloads that take further numeric arguments are functions of those arguments (they agree with the API functions only at the library's own a_mu values: C18).  The verbose flag (one axis of the 480 option combinations) cannot change a reported number: every statement it guards, in every function of the library and the program, is a VERBOSE(...) log statement without assignment, non-const call or control transfer (effect inference; replay on the real program).",
   note=NOTE_COMMON + "Model-taking callees are ghost values (pure functions of the const model: C19); iostream/boost::format text formatting to the printed precision and SLHAea "
        "containers are assumed (SLHAea::Coll by an ordered-list contract); echo of input blocks is SLHAea's write_to_stream (external, not claimed).",
   technique="output-effect traces by symbolic execution of the extracted writers + z3; ghost-valued callee contracts", design='5 C15'),
 'C16': dict(
   text="Exception and diagnostic effects as ghost state, for ALL inputs: MSSM check_input throws EInvalidInput for each documented defect (MW>=MZ, vanishing MW, MZ, m_mu, mu, M1, M2, "
        "tan beta, vd) when force-output is off and emits exactly the matching WARNING when it is on, nothing otherwise; check_problems maps a flagged tachyon to EPhysicalProblem and "
        "negative soft masses / massless chargino to EInvalidInput unless force-output; THDM set_basis (mass and gauge basis) likewise for mh>mH, tan beta<=0, |sin(beta-alpha)|>1, "
        "negative masses and tachyons; int_to_cpp_yukawa_type is the identity on 1..6 and throws ESetupError otherwise; the monitored MSSM sectors flag a tachyon exactly when an "
        "eigenvalue is negative; MSSMNoFV_setup::run returns failure exactly when a problem is flagged and print_error emits a diagnostic for every output format.  THDM input: the program builds the model from the mass basis iff some of (mh, mH, mA, mH+, sin(beta-alpha)) is non-zero and lambda_1..5 are all zero, from the gauge basis iff the converse holds, and refuses every other input (undecidable basis).  THDM sectors hh, Ah, Hm: for any symmetric 2x2 mass matrix a tachyon is flagged exactly when SOME eigenvalue is negative (whatever its position in the solver's order), under the sector's name, and the stored masses are sqrt|w_i|.",
   note=NOTE_COMMON + "'infinite tan(beta)' and 'result is finite' are IEEE notions outside back end B (C11/C18 territory); the THDM spectrum calculation and validate() enter set_basis by contract; "
        "main()'s try/catch is covered through print_error and the setup classes, command-line parsing is not modelled.",
   technique="exception/diagnostic effects by symbolic path exploration of the extracted real methods + z3", design='5 C16'),
 'C17': dict(
   text="Contracts on all 137 extern \"C\" functions: nothrow by exception-effect inference over the extracted bodies (callee throw contracts inferred bottom-up, try/catch filtering, "
        "logging macros that stream a model included); every calculation wrapper returns exactly its C++ counterpart on the same model with the extra arguments in order; "
        "each MSSM C setter followed by the matching getter returns the value set and changes no other entry (through the real C++ accessors, all index combinations); the five "
        "error-code wrappers map exception classes to codes one-to-one and hand the C++ method exactly their own arguments, everything else being left to the C++ defaults of the public header (C call without parameters == C++ call without parameters; replay: C vs C++ on slowly converging spectra); the THDM struct conversions copy every C field to the C++ field of the same name; the string getters "
        "write only inside [msg, msg+len) for every len including 0 (CBMC, bit-precise unsigned arithmetic).  13 obligations failed on the pinned tree (12 leaking forwarders, "
        "len==0 wrap-around), every one replayed on the real code, and were repaired by three fix: commits.  THDM handles: for every previous value of the caller's handle variable a failing constructor leaves *model == 0 and returns the code of the exception class; success stores the new object; a null out-parameter is rejected without a write.",
   note=NOTE_COMMON + "Library calls without a body in the extracted sources are assumed not to throw and allocation failure is ignored (listed in the evidence); 'bit-for-bit' beyond the wrapper body "
        "is the identity of the callee symbol; call-sequence state (histories) enters through symbolic model objects, not through explored sequences; std::string::copy by its documented contract.",
   technique="exception-effect inference + symbolic execution of extracted wrappers; CBMC code contracts for the buffer bound", design='5 C17'),
 'C18': dict(
   text="All clauses of C18 are postconditions of the ten real uncertainty functions: floors (2.3e-10 / 2e-12), non-negativity, finiteness, "
        "1L = |a2L| + delta2L, 0L = documented sum are proved in IEEE-754 arithmetic by CBMC code contracts for all doubles satisfying the stated "
        "preconditions; the 2L formulas and the agreement of computing/given overloads are proved by WP + z3 (reals).  Lemma: no function keeps state between calls (static/thread_local frame of C19), so the relations hold for every call history.",
   note=NOTE_COMMON + "Model getters and a_mu callees are ghost constants (value of a pure callee on the unchanged const model); finiteness of the a_mu inputs is a precondition.",
   technique="CBMC code contracts (IEEE) + WP/SMT lemmas", design='5 C18'),
 'C19': dict(
   text="Purity as frame contracts: every scalar loop/special/running-mass function of the C profile (63 functions) has the write frame __CPROVER_assigns() enforced by CBMC/DFCC for all "
        "arguments, with function-local statics hoisted to file scope by the extractor so that a memo or cache is a frame violation; every a_mu, contribution and uncertainty function "
        "taking a model (32 MSSM, 7x3 THDM, plus the THDM mass and mixing-angle getters) leaves every data member of the model (nested objects included) unchanged on every path (isnan/isfinite tests on members are explored both ways, so a lazy cache behind a NaN sentinel is a frame violation), writes no "
        "file-scope variable and executes no static declaration (symbolic execution with before/after comparison of the whole object).  Determinism and history independence follow "
        "from the empty frames; thread-safety is argued from them (no shared writable state) -- no schedule is explored.  Local variables with static OR thread storage duration must be const and initialised from compile-time constants only (data members, this and calls of non-library functions count as run-time data); no function touches ambient thread/process state (floating-point environment and its sticky flags, errno, clocks, random generators, environment, locale, thread ids).",
   note=NOTE_COMMON + "Loop functions, decomposition routines and THDM kernels enter the model-level frames by their own frame contracts; supporting syntactic scan of src/ and include/ for mutable/const_cast/thread_local and "
        "non-const namespace-scope variables; data races inside Eigen/libstdc++ and the ThreadSanitizer-style exploration named in the quantifier are outside contract-based verification.",
   technique="frame conditions: CBMC DFCC assigns-clause enforcement + symbolic execution frame comparison", design='5 C19'),
 'C20': dict(
   text="CKM unitarity is proved as 9 complex polynomial identities for ALL angles and phases from sin^2+cos^2=1 (contract of the real "
        "get_ckm_from_angles); get_ckm_from_wolfenstein throws only EInvalidInput, rejects every out-of-range parameter, and every asin/sqrt it "
        "evaluates on accepted input is in its domain (this obligation exposed a NaN-matrix defect, repaired by a fix: commit); cw/sw/e/gY/g2/v/g3 "
        "relations for all 0<MW<MZ; running masses: boundary value, positivity, strict monotonicity and the composition law under the power "
        "laws of pow; Lambda_QCD fallback-with-warning as an exception-effect contract; running-mass bypass in THDM::get_mu/md/ml.",
   note=NOTE_COMMON + "Undecided remainder: IEEE rounding (the 1e-14 of the statement), the boost root finder (assumed: returns a bracket or throws), the theta_13=0 fallback for non-finite V13 (an IEEE mechanism), calculate_alpha_s_SM5_at only by an assumed contract (value in (0,1)).",
   technique="WP/symbolic execution of the extracted real functions + z3 NRA; exception/diagnostic effects as ghost state", design='5 C20'),
}

NOT_APPLICABLE = {
}

def main():
    props = [json.loads(l) for l in open(os.path.join(ROOT, 'properties.jsonl'))]
    checks = []
    na = []
    for p in props:
        pid = p['id']
        if pid in CLAIMS:
            c = CLAIMS[pid]
            checks.append({
                'property_id': pid,
                'quick_cmd': '/verif/bin/check %s quick' % pid,
                'thorough_cmd': '/verif/bin/check %s thorough' % pid,
                'evidence_file': '/verif/evidence/%s.json' % pid,
                'replay_cmd_template': 'cat {path}',
                'engine': 'gm2v',
                'level_claimed': {'category': 'proof', 'text': c['text'], 'design_ref': 'DESIGN.md section ' + c['design']},
                'level_note': c['note'],
                'technique': c['technique'],
            })
        elif pid in NOT_APPLICABLE:
            na.append({'property_id': pid, 'reason': NOT_APPLICABLE[pid]})
        else:
            na.append({'property_id': pid, 'reason': 'contracts for this property are not built yet (build in progress; see DESIGN.md section 7) -- not claimed until its check exists'})
    m = {
        'version': 1,
        'setup_cmd': 'python3-vt -m compileall -q /verif/gm2v /verif/contracts',
        'hooks': {'guard': 'GM2CALC_VERIF',
                  'enable': 'none needed: contracts live in /verif/contracts and the real functions are extracted from /repo\'s working tree on every run',
                  'baseline_off_cmd': 'ctest --test-dir /repo/_build -j8 --timeout 900',
                  'source_commits': [], 'add_only': True},
        'engines': [{'name': 'gm2v', 'path': '/verif/gm2v', 'serves_properties': sorted(CLAIMS),
                     'kind_free_text': 'contract-based deductive verification: C++-subset extractor -> (A) C + CBMC code contracts, (B) weakest-precondition/symbolic execution -> z3/cvc5'}],
        'checks': checks,
        'notes': 'exit 2 from a check means undecided/extraction/tool error (never a violation). GM2V_REPO may point the machinery at another tree for testing; registered commands always use /repo.',
        'not_applicable': na,
    }
    json.dump(m, open(os.path.join(ROOT, 'MANIFEST.json'), 'w'), indent=1)

if __name__ == '__main__':
    main()
