"""C07 -- MSSM contributions decouple like 1/M_SUSY^2: the exact statement behind it, as a units (dimension) contract.

Every a_mu / uncertainty / correction function of src/MSSMNoFV is interpreted over MASS DIMENSIONS instead of numbers (same extracted AST,
same interpreter, values = dimensions): inputs carry their documented dimension (masses 1, squared masses 2, couplings and mixings 0),
`+`, `-`, comparisons and conditionals require equal dimensions, `*`, `/`, sqrt, pow combine them, logarithms and loop functions require a
dimensionless argument.  ensures: no dimensional inconsistency on ANY path and a dimensionless result.  Hence each function is
homogeneous of degree 0 under a common rescaling of all dimensionful inputs: with the explicit m_mu^2 prefactor it scales like 1/k^2 when
only the SUSY parameters are scaled -- and a mass used for a squared mass, a missing 1/m^2, or an un-normalised logarithm (the faults
C07's rationale names) are type errors.  The asymptotic O((MZ/M)^2) bound itself is not a contract (stated in DESIGN.md).
"""
from fractions import Fraction as Fr
import z3
from gm2v.ob import obligation, PROVED, FAILED, UNDECIDED, ERROR
from gm2v.interp import Interp, Thrown
from gm2v.values import Cx, Mat, Obj, Dim, DimError, UnknownBool, EvalError
from gm2v.world import strip_ns

DIM0 = {'g1', 'g2', 'g3', 'EL', 'EL0', 'Yu', 'Yd', 'Ye', 'PhaseGlu'}
DIM2 = {'BMu', 'mHd2', 'mHu2', 'mq2', 'ml2', 'md2', 'mu2', 'me2'}
DIM1 = {'Mu', 'MassB', 'MassWB', 'MassG', 'vd', 'vu', 'scale', 'mb_DRbar_MZ', 'TYu', 'TYd', 'TYe', 'Ae', 'Au', 'Ad'}

def field_dim(path):
    name = path.split('.')[-1]
    if name in DIM0 or name[0] in 'ZU' or name in ('ZN', 'UM', 'UP'):
        return 0
    if name in DIM2:
        return 2
    if name in DIM1 or name.startswith('M'):
        return 1
    return None

def dim_fields(path, ty, it):
    n = strip_ns(ty.name)
    d = field_dim(path)
    if ty.ptr or d is None and n not in ('double', 'std::complex', 'Eigen::Matrix', 'Eigen::Array'):
        return None
    if d is None:
        return None
    if n == 'double':
        return Dim(d)
    if n == 'std::complex':
        return Cx(Dim(d), Dim(d))
    if n in ('Eigen::Matrix', 'Eigen::Array'):
        r, c = it.const_int(ty.args[1]), it.const_int(ty.args[2])
        cplx = it.type_is_complex(ty.args[0])
        el = (lambda: Cx(Dim(d), Dim(d))) if cplx else (lambda: Dim(d))
        return Mat(r, c, [[el() for _ in range(c)] for _ in range(r)], 'matrix' if n == 'Eigen::Matrix' else 'array', cplx)
    return None

def loop_stub(name, nargs_dim0=True, out=0):
    def stub(it, args, this):
        for a in args:
            if isinstance(a, Dim) and a.d not in (None, 0):
                raise DimError('loop function %s called with an argument of mass dimension %s at %s:%d' % (name, a.d, it.cur_file(), it.cur_line))
        return Dim(out)
    return stub

LOOP0 = ['F1C', 'F2C', 'F3C', 'F4C', 'F1N', 'F2N', 'F3N', 'F4N', 'Fa', 'Fb', 'G3', 'G4', 'f_PS', 'f_S', 'f_sferm', 'dilog']

def iabc_stub(it, args, this):
    for a in args:
        if isinstance(a, Dim) and a.d not in (None, 1):
            raise DimError('Iabc called with an argument of mass dimension %s (masses expected) at %s:%d' % (a.d, it.cur_file(), it.cur_line))
    return Dim(-2)

def linalg_dim(it, args, this):
    """decomposition routines: singular/eigen values carry the dimension of the matrix, mixing matrices are dimensionless"""
    m = args[0]
    d = m.elems()[0]
    d = d.re if isinstance(d, Cx) else d
    for k, a in enumerate(args[1:]):
        if isinstance(a, Mat):
            val = (d if k == 0 else Dim(0))
            a.d = [[(Cx(val, val) if a.cplx else val) for _ in range(a.c)] for _ in range(a.r)]
    return None

MSSM_FNS = [('src/MSSMNoFV/gm2_1loop.cpp', n) for n in ['calculate_amu_1loop', 'amu1LChi0', 'amu1LChipm', 'amu1Lapprox', 'amu1Lapprox_non_tan_beta_resummed', 'amu1LWHnu', 'amu1LWHmuL',
                                                        'amu1LBHmuL', 'amu1LBHmuR', 'amu1LBmuLmuR', 'tan_beta_cor', 'delta_mu_correction', 'delta_tau_correction', 'delta_bottom_correction']] + \
           [('src/MSSMNoFV/gm2_2loop.cpp', n) for n in ['calculate_amu_2loop', 'amu2LFSfapprox', 'amu2LFSfapprox_non_tan_beta_resummed', 'amu2LChipmPhotonic', 'amu2LChi0Photonic', 'amu2LaSferm',
                                                        'amu2LaCha', 'delta_g1', 'delta_g2', 'delta_yuk_higgsino', 'delta_yuk_bino_higgsino', 'delta_yuk_wino_higgsino', 'delta_tan_beta']] + \
           [('src/MSSMNoFV/gm2_uncertainty.cpp', 'calculate_uncertainty_amu_2loop')]

def run_units(ctx, file, fn, args_of, stubs, max_paths=3000):
    it = Interp(ctx.w, mode='float', stubs=stubs, feasibility=False, div_sides=False)
    it.mode = 'float'
    args = args_of(it)
    fds = [f for f in ctx.w.find(fn, file) if len(f.params) == len(args)]
    if len(fds) != 1:
        return None, 'extraction: %d definitions of %s/%d in %s' % (len(fds), fn, len(args), file)
    results, errors = [], []
    it.pending = [[]]
    n = 0
    while it.pending:
        n += 1
        if n > max_paths:
            return None, 'too many paths'
        it.prefix = it.pending.pop()
        it.sym = it.new_sym()
        it.frames = []
        try:
            r = it.invoke(fds[0], list(args), None)
            results.append(r)
        except Thrown:
            results.append('throw')
        except DimError as e:
            errors.append('%s (path %s)' % (e, it.sym.taken))
    return (results, errors), None

def make_units(file, fn):
    @obligation('C07.units.%s' % fn, fns=[(file, fn)])
    def ob(ctx, file=file, fn=fn):
        """units contract: with masses of dimension 1, squared masses 2, couplings/mixings 0 the function is dimensionally consistent on every
        path and returns a dimensionless number (degree-0 homogeneity under a common rescaling of all masses)"""
        stubs = {n: loop_stub(n) for n in LOOP0}
        stubs['Iabc'] = iabc_stub
        stubs.update({'fs_diagonalize_hermitian': linalg_dim, 'fs_svd': linalg_dim, 'fs_diagonalize_symmetric': linalg_dim})
        out, err = run_units(ctx, file, fn, lambda it: [it.new_object('MSSMNoFV_onshell', dim_fields)], stubs)
        if err:
            ctx.record('', ERROR, 'B', 0, err)
            return
        results, errors = out
        bad = list(errors)
        for r in results:
            if isinstance(r, Dim) and r.d not in (None, 0):
                bad.append('result has mass dimension %s (a_mu is dimensionless)' % r.d)
            elif not isinstance(r, (Dim, str, int, float)):
                bad.append('result %r is not a dimension' % (r,))
        ctx.record('', PROVED if not bad else FAILED, 'B', 0, ('; '.join(sorted(set(bad)))[:900]) if bad else '%d paths, all dimensionally consistent, result dimensionless' % len(results),
                   solver='units interpretation', model={'inconsistency': sorted(set(bad))[:3]} if bad else None)
    return ob

for _file, _fn in MSSM_FNS:
    make_units(_file, _fn)

@obligation('C07.units.Iabc', fns=[('src/gm2_ffunctions.cpp', 'Iabc'), ('src/gm2_ffunctions.cpp', 'Ixyz'), ('src/gm2_ffunctions.cpp', 'Ixy'), ('src/gm2_ffunctions.cpp', 'Ixx'),
                                   ('src/gm2_ffunctions.cpp', 'I1y'), ('src/gm2_ffunctions.cpp', 'I0y')])
def _(ctx):
    """units contract of Iabc (the callee contract used above): three masses in, mass dimension -2 out, on every branch of the case analysis
    (Iabc(ka,kb,kc) = Iabc(a,b,c)/k^2)"""
    out, err = run_units(ctx, 'src/gm2_ffunctions.cpp', 'Iabc', lambda it: [Dim(1), Dim(1), Dim(1)], {})
    if err:
        ctx.record('', ERROR, 'B', 0, err)
        return
    results, errors = out
    bad = list(errors) + ['result dimension %s' % r.d for r in results if isinstance(r, Dim) and r.d not in (None, -2)]
    ctx.record('', PROVED if not bad else FAILED, 'B', 0, '; '.join(sorted(set(bad)))[:600] if bad else '%d paths: dimension -2' % len(results), solver='units interpretation')

@obligation('C07.uncertainty_floor', fns=[('src/MSSMNoFV/gm2_uncertainty.cpp', 'calculate_uncertainty_amu_2loop')])
def _(ctx):
    """the two-loop uncertainty is at least its constant floor 2.3e-10 for every model (approaches it from above): real-arithmetic statement of C18.mssm.2loop"""
    c, s = ctx.real('amu2LaCha'), ctx.real('amu2LaSferm')
    it = Interp(ctx.w, mode='sym', stubs={'amu2LaCha': lambda i, a, t: c, 'amu2LaSferm': lambda i, a, t: s})
    m = it.new_object('MSSMNoFV_onshell')
    for k, (sym, r, exc) in enumerate(it.run_paths(lambda: it.call('calculate_uncertainty_amu_2loop', [m], file='src/MSSMNoFV/gm2_uncertainty.cpp'))):
        ctx.prove('path%d' % k, sym.pc, z3.ToReal(0) + r >= z3.Q(23, 10**11) if False else (r >= z3.Q(23, 10**11)), check_vacuity=False)

# ------------------------------------------------------------------------------------------------
# Non-interference (read frame): the a_mu functions depend on the CURRENT spectrum only.  The `physical' struct also holds pole-mass copies of
# the SUSY masses and mixings (targets of convert_to_onshell; calculate_masses() refreshes them only when they are still zero), so a function that read
# one of them would see a stale value when an object is rescaled and re-evaluated -- and would not scale as the property demands.
# Allowed reads of `physical': the SM pole masses and MA0 (inputs).
from contracts import c06 as _c06
from gm2v.values import deep_copy as _deep_copy, Mat as _Mat, Cx as _Cx
import z3 as _z3

ALLOWED_PHYSICAL = {'MVG', 'MVP', 'MVZ', 'MVWm', 'MFd', 'MFs', 'MFb', 'MFu', 'MFc', 'MFt', 'MFve', 'MFvm', 'MFvt', 'MFe', 'MFm', 'MFtau', 'MAh'}

def _fresh_like(v, name):
    if isinstance(v, _Mat):
        def el(i, j):
            if v.cplx:
                return _Cx(_z3.Real('%s_%d%d_re' % (name, i, j)), _z3.Real('%s_%d%d_im' % (name, i, j)))
            return _z3.Real('%s_%d%d' % (name, i, j))
        return _Mat(v.r, v.c, [[el(i, j) for j in range(v.c)] for i in range(v.r)], v.kind, v.cplx)
    if isinstance(v, _Cx):
        return _Cx(_z3.Real(name + '_re'), _z3.Real(name + '_im'))
    return _z3.Real(name)

def stale_pole_copy(m):
    """the same state, except that every SUSY pole-mass/mixing copy in `physical' holds an arbitrary other value"""
    f = _deep_copy(m)
    ph = f.f['physical']
    for k in list(ph.f.keys()):
        if k not in ALLOWED_PHYSICAL:
            ph.f[k] = _fresh_like(ph.f[k], 'stale_' + k)
    return f

NONINTERF = [('src/MSSMNoFV/gm2_1loop.cpp', n) for n in ('amu1LChi0', 'amu1LChipm', 'calculate_amu_1loop', 'amu1Lapprox', 'tan_beta_cor')] + \
            [('src/MSSMNoFV/gm2_2loop.cpp', n) for n in ('amu2LFSfapprox', 'amu2LChipmPhotonic', 'amu2LChi0Photonic', 'amu2LaSferm', 'amu2LaCha', 'calculate_amu_2loop')]
# (calculate_uncertainty_amu_2loop = 2.3e-10 + 0.3 (|amu2LaSferm| + |amu2LaCha|) is covered through its two callees above)

NI_REPLAY = r'''
#include "gm2calc/MSSMNoFV_onshell.hpp"
#include "gm2calc/gm2_error.hpp"
#include <cstdio>
#include <cmath>
namespace gm2calc { double @FN@(const MSSMNoFV_onshell&); }
int main() {
   int bad = 0;
   for (int k = 0; k < 6; k++) {
      gm2calc::MSSMNoFV_onshell m;
      const Eigen::Matrix<double,3,3> one = Eigen::Matrix<double,3,3>::Identity();
      m.set_alpha_MZ(0.0077552); m.set_alpha_thompson(0.00729735); m.set_g3(std::sqrt(4 * 3.141592653589793 * 0.1184));
      m.get_physical().MFt = 173.34; m.get_physical().MFb = 4.18; m.get_physical().MFm = 0.1056583715; m.get_physical().MFtau = 1.777;
      m.get_physical().MVWm = 80.385; m.get_physical().MVZ = 91.1876;
      m.set_TB(5 + 9 * k); m.set_Ae(1, 1, 100 * k); m.set_Mu(350 + 60 * k); m.set_MassB(150 + 35 * k); m.set_MassWB(300 - 20 * k); m.set_MassG(1000 + 100 * k);
      m.set_mq2(sqr(500. + 90 * k) * one); m.set_ml2(sqr(400. + 70 * k) * one); m.set_md2(sqr(520. + 40 * k) * one); m.set_mu2(sqr(480. + 110 * k) * one); m.set_me2(sqr(450. + 30 * k) * one);
      m.set_Au(2, 2, 300 * k); m.set_Ad(2, 2, -200 * k); m.set_Ae(2, 2, 150 * k); m.set_MA0(1500 - 100 * k); m.set_scale(454.7);
      try { m.calculate_masses(); } catch (const gm2calc::Error&) { continue; }
      const double a = gm2calc::@FN@(m);
      auto& p = m.get_physical();
      const double s = 1.7;
      p.MSveL *= s; p.MSvmL *= s; p.MSvtL *= s; p.MSd *= s; p.MSu *= s; p.MSe *= s; p.MSm *= s; p.MStau *= s; p.MSs *= s; p.MSc *= s; p.MSb *= s; p.MSt *= s;
      p.Mhh *= s; p.MHpm *= s; p.MChi *= s; p.MCha *= s; p.MGlu *= s;
      p.ZM = p.ZM.transpose().eval(); p.ZN = p.ZN.transpose().eval(); p.UM = p.UM.transpose().eval(); p.UP = p.UP.transpose().eval(); p.ZTau = p.ZTau.transpose().eval();
      p.ZT = p.ZT.transpose().eval(); p.ZB = p.ZB.transpose().eval();
      const double b = gm2calc::@FN@(m);
      if (!(std::fabs(a - b) <= 1e-12 * std::fmax(std::fabs(a), std::fabs(b)))) {
         std::printf("DIFF point k=%d (tan beta %d, Mu %d, M1 %d, M2 %d): @FN@ = %.17g, after overwriting only the SUSY pole-mass copies in physical: %.17g\n", k, 5 + 9 * k, 350 + 60 * k, 150 + 35 * k, 300 - 20 * k, a, b);
         bad++;
      }
   }
   if (!bad) std::printf("SAME on all points\n");
   return bad ? 1 : 0;
}
'''

def _sqr_prelude():
    return 'template <class T> static T sqr(T x) { return x * x; }\n'

def ni_replay(fn):
    def rep(model, wd):
        from gm2v import native
        import subprocess
        exe = native.build_against_library(wd, _sqr_prelude() + NI_REPLAY.replace('@FN@', fn))
        r = subprocess.run([exe], capture_output=True, text=True, timeout=300)
        return r.returncode == 1 and 'DIFF' in r.stdout, r.stdout.strip()[-1200:]
    return rep

def make_noninterf(file, fn):
    @obligation('C07.current_spectrum_only.%s' % fn, fns=[(file, fn)], replay=ni_replay(fn))
    def ob(ctx):
        """reads frame: f(state) == f(state with arbitrary other values in the SUSY pole-mass copies of `physical') on all pairs of paths: the result is a
        function of the current parameters and spectrum (so a rescaled and re-evaluated object scales like a fresh one)"""
        nargs = 1
        _c06.compare(ctx, file, fn, transform=stale_pole_copy)
    return ob

for _f in NONINTERF:
    make_noninterf(*_f)

# ------------------------------------------------------------------------------------------------
# The decoupling argument (dimensionless a_mu functions of mass ratios) rests on the loop functions being their published definitions, which grow at most
# logarithmically: C01's definition contracts of every one-variable loop function the MSSM contributions call are re-registered here as callee contracts,
# so that the C07 check decides the chain by itself (a new "large-argument expansion" with a wrong power of z breaks decoupling and fails here).
from gm2v.ob import REGISTRY as _REG, Obligation as _Ob
from contracts import c01 as _c01
for _f in ('F1C', 'F2C', 'F3C', 'F4C', 'F1N', 'F2N', 'F3N', 'F4N', 'f_PS', 'f_S', 'f_sferm'):
    for _o in _REG.get('C01', []):
        if _o.oid == 'C01.%s.def' % _f:
            _REG.setdefault('C07', []).append(_Ob('C07.callee.%s.def' % _f, _o.func, _o.fns, _o.tier, _o.backend, _o.doc, _o.replay, 'C07'))


def fidelity(tier, seed):
    """A-FRONT guard: MSSM a_mu and mass-matrix functions, interpreter (float mode) vs compiled real code on real spectra"""
    from gm2v import fidelity as _fid
    return _fid.mssm_model_guard(seed=seed)

# Contracts on single calls carry over to every call in a process only if no function keeps state between calls: C19's static-frame obligation is a lemma here.
from contracts.shared import reregister as _rr_static
from contracts import c19 as _c19_static
_rr_static('C07', 'C19', 'C19.no_stateful_local_statics', 'C07.lemma.no_state_between_calls', replay=None)
from contracts import c04 as _c04_c07  # noqa: sector contracts (spectrum == spectrum of the mass matrices) registered under C07 there

# m_SUSY of the leading-log two-loop terms: the scale every logarithm is normalised to must be a positive mass for parameters of either sign -- a negative value passes the
# units contract (it is a mass) but makes every logarithm NaN
@obligation('C07.callee.log_scale.m_susy', fns=[('src/MSSMNoFV/gm2_2loop.cpp', 'log_scale')])
def _(ctx):
    """ensures for ALL M1, M2, mu != 0 (either sign) and me2(1,1), ml2(1,1) > 0: log_scale(model) > 0, log_scale <= each of |M1|, |M2|, |mu|, sqrt(me2(1,1)), sqrt(ml2(1,1)) and
    equals one of them (m_SUSY = the minimum of the special masses, p.37 of arXiv:1311.1775)"""
    M1, M2, mu, me2, ml2 = ctx.reals('MassB MassWB Mu me2_11 ml2_11')
    pre = [M1 != 0, M2 != 0, mu != 0, me2 > 0, ml2 > 0]
    it = Interp(ctx.w, mode='sym', assumptions=pre)
    m = it.new_object('MSSMNoFV_onshell')
    it.stubs.update({'::get_MassB': lambda i, a, t: M1, '::get_MassWB': lambda i, a, t: M2, '::get_Mu': lambda i, a, t: mu,
                     '::get_me2': lambda i, a, t: me2, '::get_ml2': lambda i, a, t: ml2})
    ps = it.run_paths(lambda: it.call('log_scale', [m], file='src/MSSMNoFV/gm2_2loop.cpp'))
    ctx.merge_rules(it)
    az = lambda t: _z3.If(t >= 0, t, -t)
    for k, (s, r, e) in enumerate(ps):
        if e is not None or r is None:
            ctx.record('path%d' % k, FAILED, 'B', 0, 'no value: %s' % (e,))
            continue
        r = z3.simplify(r) if False else r
        from gm2v.values import z3real as _zr
        rr = _zr(r)
        sq_e, sq_l = it.uf('sqrt', _z3.simplify(me2)), it.uf('sqrt', _z3.simplify(ml2))
        ax = pre + list(s.pc) + list(s.axioms) + [sq_e > 0, sq_e * sq_e == me2, sq_l > 0, sq_l * sq_l == ml2]
        cands = [az(M1), az(M2), az(mu), sq_e, sq_l]
        ctx.prove('path%d.positive_minimum' % k, ax, _z3.And(rr > 0, *([rr <= c for c in cands] + [_z3.Or(*[rr == c for c in cands])])), check_vacuity=False,
                  pins=[{'MassB': 300, 'MassWB': -500, 'Mu': -600, 'me2_11': 250000, 'ml2_11': 160000}, {'MassB': -100, 'MassWB': 500, 'Mu': 600, 'me2_11': 250000, 'ml2_11': 160000}])
        ctx.sides('path%d' % k, s, pre)
    ctx.record('paths', PROVED if ps else ERROR, 'B', 0, '%d path(s)' % len(ps))
