"""C01 (continued) -- the special functions beneath the loop functions: real dilogarithm, Clausen function, complex dilogarithm.

Contracts on the real functions of src/gm2_dilog.cpp.  The specification is the standard set of functional equations of Li2
(Lewin, "Polylogarithms and associated functions", (1.7), (1.11), (1.12); Abramowitz-Stegun 27.7) and the defining power series;
the table below is transcribed from these, never from the C++.  Every row of the table is checked numerically against mpmath on
each run (guard of the transcription, 40 digits).
"""
from fractions import Fraction as Fr
import z3
from gm2v.ob import obligation, PROVED, FAILED, UNDECIDED, ERROR
from gm2v.interp import Interp
from gm2v.values import to_z3, z3real, is_sym
from gm2v import specs
from gm2v.specs import ln, Li2, Q

DL = 'src/gm2_dilog.cpp'
PI = z3.Real('c_PI')
PI_SHARP = z3.And(PI > Q(314159265358979323846264338327950288, 10**35), PI < Q(314159265358979323846264338327950289, 10**35))

def real_dilog_fd(w):
    fds = [f for f in w.find('dilog', DL) if 'complex' not in str(f.params[0].type)]
    return fds[0] if len(fds) == 1 else None

# ---- functional equations of the real dilogarithm (real part for x > 1):  Li2(x) = r(x) + s * Li2(y(x)),  0 <= y <= 1/2 ---------------------------
# (condition on x as a function of a z3 term, y, r, s, text)
def REAL_TABLE(x):
    l1m = ln(1 - x)
    return [
        ('x<-1', x < -1, 1 / (1 - x), -PI * PI / 6 + l1m * (l1m / 2 - ln(-x)), 1,
         'Li2(x) = -pi^2/6 + ln(1-x)(ln(1-x)/2 - ln(-x)) + Li2(1/(1-x))'),
        ('-1<x<0', z3.And(x > -1, x < 0), x / (x - 1), -l1m * l1m / 2, -1,
         'Li2(x) = -ln^2(1-x)/2 - Li2(x/(x-1))   (Landen)'),
        ('0<x<1/2', z3.And(x > 0, x < Q(1, 2)), x, z3.RealVal(0), 1, 'power series directly'),
        ('1/2<=x<1', z3.And(x >= Q(1, 2), x < 1), 1 - x, PI * PI / 6 - ln(x) * l1m, -1,
         'Li2(x) = pi^2/6 - ln(x) ln(1-x) - Li2(1-x)   (Euler reflection)'),
        ('1<x<2', z3.And(x > 1, x < 2), 1 - 1 / x, PI * PI / 6 - ln(x) * (ln(1 - 1 / x) + ln(x) / 2), 1,
         'Re Li2(x) = pi^2/6 - ln(x)(ln(1-1/x) + ln(x)/2) + Li2(1-1/x)'),
        ('x>=2', x >= 2, 1 / x, PI * PI / 3 - ln(x) * ln(x) / 2, -1,
         'Re Li2(x) = pi^2/3 - ln^2(x)/2 - Li2(1/x)   (inversion)'),
    ]
REAL_POINTS = [('x==-1', -1, lambda: -PI * PI / 12), ('x==0', 0, lambda: z3.RealVal(0)), ('x==1', 1, lambda: PI * PI / 6)]

def _guard_real_table():
    """the transcription of the table against mpmath (not against the code)"""
    import mpmath as mp
    mp.mp.dps = 40
    rows = {
        'x<-1': (lambda x: 1 / (1 - x), lambda x: -mp.pi**2 / 6 + mp.log(1 - x) * (mp.log(1 - x) / 2 - mp.log(-x)), 1, [-1.0001, -2, -37.5, -1e6]),
        '-1<x<0': (lambda x: x / (x - 1), lambda x: -mp.log(1 - x)**2 / 2, -1, [-0.999, -0.5, -1e-9]),
        '0<x<1/2': (lambda x: x, lambda x: 0, 1, [1e-12, 0.3, 0.4999]),
        '1/2<=x<1': (lambda x: 1 - x, lambda x: mp.pi**2 / 6 - mp.log(x) * mp.log(1 - x), -1, [0.5, 0.77, 0.9999]),
        '1<x<2': (lambda x: 1 - 1 / x, lambda x: mp.pi**2 / 6 - mp.log(x) * (mp.log(1 - 1 / x) + mp.log(x) / 2), 1, [1.0001, 1.5, 1.9999]),
        'x>=2': (lambda x: 1 / x, lambda x: mp.pi**2 / 3 - mp.log(x)**2 / 2, -1, [2, 12.6, 1e9]),
    }
    worst = 0
    for k, (y, r, s, pts) in rows.items():
        for p in pts:
            p = mp.mpf(p)
            want = mp.re(mp.polylog(2, p))
            got = r(p) + s * mp.polylog(2, y(p))
            worst = max(worst, abs(got - want))
            if not (0 <= y(p) <= mp.mpf(1) / 2):
                return False, 'row %s: y(%s) outside [0,1/2]' % (k, p)
    return worst < mp.mpf(10)**-30, 'max deviation %s' % mp.nstr(worst, 3)

def replay_real_dilog(model, wd):
    """real dilog(x) against mpmath on a sweep concentrated at the branch edges (and at the counterexample if it has one)"""
    from gm2v import native
    import mpmath as mp
    mp.mp.dps = 40
    pts = []
    f = (model or {}).get('_float', {})
    if 'x' in f:
        pts.append(float(f['x']))
    for c in (-1.0, 0.0, 0.5, 1.0, 2.0):
        for d in (0, 1e-15, 1e-9, 1e-4, 3e-2, 0.2):
            pts += [c + d, c - d]
    pts += [-1e8, -1e3, -30.0, -5.0, -0.3, 0.1, 0.3, 0.45, 0.6, 0.9, 1.3, 1.7, 3.0, 10.0, 14.0, 1e3, 1e8, 1e-12, -1e-12]
    exe = native.build_scalar_driver(wd, [DL], [], [('dilog', 'dilog(a[0])', 1)])
    vals = native.run_scalar_driver(exe, [('dilog', [p]) for p in pts])
    worst = (0, None)
    for p, v in zip(pts, vals):
        want = mp.re(mp.polylog(2, mp.mpf(p)))
        err = abs(mp.mpf(v) - want) / max(abs(want), mp.mpf(10)**-3)
        if err > worst[0]:
            worst = (err, p, v, want)
    return bool(worst[0] > 1e-13), 'worst of %d points: x=%r real dilog=%r Li2=%s error/max(|Li2|,1e-3)=%s' % (
        len(pts), worst[1], worst[2], mp.nstr(worst[3], 20), mp.nstr(worst[0], 4))

def _real_paths(ctx, pre=()):
    x = ctx.real('x')
    it = Interp(ctx.w, mode='sym', assumptions=list(pre))
    fd = real_dilog_fd(ctx.w)
    if fd is None:
        ctx.record('', ERROR, 'B', 0, 'extraction: real overload of dilog not found in %s' % DL)
        return None, None, None
    ps = it.run_paths(lambda: it.invoke(fd, [x], None))
    ctx.merge_rules(it)
    return x, it, ps

def _core_of(ctx, ps, x):
    """the rational function y p(y)/q(y) as the code evaluates it on 0 < x < 1/2 (there y = x, r = 0, s = 1)"""
    for s, r, e in ps:
        st, _, _, _ = __import__('gm2v.ob', fromlist=['smt_check']).smt_check(list(s.pc) + [x == Q(1, 4)], [], 3000)
        if st == 'sat' and e is None and r is not None and is_sym(r) and 'ln' not in str(r):
            return z3real(r)
    return None

def numden(term, var):
    """normal form of a rational function of one variable: (numerator, denominator) as z3 polynomials with rational coefficients (Horner form)"""
    import sympy
    from gm2v import ring
    e = ring.to_sympy(term, {})
    sv = sympy.Symbol(str(var))
    n, d = sympy.fraction(sympy.together(e))
    pn, pd = sympy.Poly(sympy.expand(n), sv), sympy.Poly(sympy.expand(d), sv)
    def back(pl):
        cs = [Fr(int(c.p), int(c.q)) for c in reversed(pl.all_coeffs())]
        return specs.poly(cs, var), cs
    (zn, cn), (zd, cd) = back(pn), back(pd)
    if cd[0] < 0 or (cd[0] == 0 and pd.eval(sympy.Rational(1, 4)) < 0):
        zn, zd = -zn, -zd
    return zn, zd

# validity domain of each functional equation (where it holds mathematically, wider than the range a particular implementation uses it on)
REAL_VALID = {'x<-1': lambda x: x < 0, '-1<x<0': lambda x: x < 1, '0<x<1/2': lambda x: z3.And(x > -1, x < 1), '1/2<=x<1': lambda x: z3.And(x > 0, x < 1),
              '1<x<2': lambda x: x > 1, 'x>=2': lambda x: x > 1}
Y_CANDIDATES = [Fr(1, 2), Fr(11, 20), Fr(3, 5), Fr(13, 20), Fr(7, 10)]

def analyse_real(ctx, emit=True):
    """matches every path of the real dilog with a documented functional equation (by content, not by the position of the window edges) and
    determines the domain (0, Ymax] on which the paths use the Pade core.  returns (x, core, Ymax) or None"""
    from gm2v.ob import smt_check
    x, it, ps = _real_paths(ctx)
    if ps is None:
        return None
    core = _core_of(ctx, ps, x)
    if core is None:
        if emit:
            ctx.record('core', FAILED, 'B', 0, 'no path evaluates the Pade core directly at x = 1/4')
        return None
    table = REAL_TABLE(x)
    cden = numden(core, x)[1]
    ymax_needed = Fr(0)
    for k, (s, r, e) in enumerate(ps):
        tag = 'path%d' % k
        if e is not None or r is None:
            if emit:
                ctx.record(tag, FAILED, 'B', 0, 'path ends without a value: %s' % (e,))
            continue
        pc = list(s.pc)
        point = None
        for name, val, want in REAL_POINTS:
            if smt_check(pc + [x != val], [], 3000)[0] == 'unsat':
                point = (name, val, want)
        if point is not None:
            if emit:
                ctx.prove_ring('%s.%s' % (tag, point[0]), [(z3.substitute(z3real(r), (x, z3.RealVal(point[1]))), point[2]())])
            continue
        from gm2v import ring
        row = None
        for name, cond, y, rr, sg, text in table:
            try:
                if ring.identity(z3real(r), rr + sg * z3.substitute(core, (x, y))):
                    row = (name, y, text)
                    break
            except ring.NotRing:
                continue
        mdl = smt_check(pc, [], 3000, {'x': x})[1]
        mfl = {'_float': {'x': float(mdl['x'])}} if mdl and 'x' in mdl else None
        if row is None:
            if emit:
                ctx.record(tag + '.equation', FAILED, 'B', 0, 'on the path %s the result is not r(x) + s Core(y(x)) for any documented functional equation of Li2' % pc, model=mfl,
                           solver='ring normalisation (sympy)')
            continue
        name, y, text = row
        if emit:
            ctx.record('%s.%s.equation' % (tag, name), PROVED, 'B', 0, text, solver='ring normalisation (sympy)')
            ctx.prove('%s.%s.valid_there' % (tag, name), pc, z3.And(REAL_VALID[name](x), y >= 0), check_vacuity=False, model_vars={'x': x})
        need = None
        for c in Y_CANDIDATES:
            if smt_check(pc + [y > to_z3(c)], [], 4000)[0] == 'unsat':
                need = c
                break
        if need is None:
            if emit:
                ctx.record('%s.%s.core_domain' % (tag, name), FAILED, 'B', 0, 'the argument y(x) of the Pade core is not bounded by 7/10 on this path (the power series of Li2 loses its fast convergence)', model=mfl)
            continue
        ymax_needed = max(ymax_needed, need)
        if emit:
            qy = z3.substitute(cden, (x, y))
            def is_core_den(c):
                """is the side condition `a != 0` the core's denominator q(y) (up to a constant factor)?"""
                a = None
                if z3.is_not(c) and z3.is_eq(c.arg(0)):
                    a = c.arg(0).arg(0) - c.arg(0).arg(1)
                elif z3.is_distinct(c):
                    a = c.arg(0) - c.arg(1)
                if a is None:
                    return False
                try:
                    import sympy
                    ratio = sympy.cancel(sympy.together(ring.to_sympy(a, {}) / ring.to_sympy(qy, {})))
                    return bool(ratio.is_number and ratio != 0)
                except Exception:
                    return False
            n_sides = 0
            for guards, cond, desc in s.sides:
                if is_sym(cond) and is_core_den(cond):
                    continue      # q(y) != 0: C01.dilog_real.pade proves q >= 1/10 on (0, Ymax]
                n_sides += 1
                ctx.prove('%s.%s.side%d' % (tag, name, n_sides), pc + list(guards) + list(s.axioms), cond if is_sym(cond) else z3.BoolVal(bool(cond)),
                          kind='side:' + desc, check_vacuity=False)
    if emit:
        cover = z3.Or(*[z3.And(*s.pc) if s.pc else z3.BoolVal(True) for s, r, e in ps])
        ctx.prove('exhaustive', [], cover, check_vacuity=False)
    return x, core, (ymax_needed or Fr(1, 2))

@obligation('C01.dilog_real.transform', fns=[(DL, 'dilog')], replay=replay_real_dilog)
def _(ctx):
    """ensures, for every real x, on every path:  result == r(x) + s Core(y(x))  with (y, r, s) one of the documented functional equations of Li2
    (inversion, Landen, reflection: table in this module), used inside the domain where that equation holds, with 0 <= y(x) <= Ymax <= 7/10;
    exact values at -1, 0, 1 where the code special-cases them; the paths cover the real line; every logarithm has a positive argument and no
    denominator vanishes.  Core(y) := the code's own y p(y)/q(y), whose accuracy on (0, Ymax] is C01.dilog_real.pade.  Paths are matched with
    the equations by content, so moving a window edge is accepted as long as the core stays inside the domain where it is proved accurate."""
    ok, msg = _guard_real_table()
    ctx.record('spec_table_vs_mpmath', PROVED if ok else ERROR, 'B', 0, 'transcription guard: ' + msg, solver='mpmath 40 digits')
    analyse_real(ctx, emit=True)

@obligation('C01.dilog_real.pade', fns=[(DL, 'dilog')], replay=replay_real_dilog)
def _(ctx):
    """ensures for all 0 < y <= Ymax (the largest core argument any path produces, 1/2 in the pinned code):  |Core(y) - Li2(y)| <= 5e-14 Li2(y)  and
    q(y) >= 1/10  (Core = y p(y)/q(y) as evaluated by the code);  Li2 by its power series with the geometric tail bound (A-SPECFN).
    With C01.dilog_real.transform: |dilog(x) - Li2(x)| <= 5e-14 Li2(y(x)) for every real x, which is <= 1e-13 |Li2(x)| wherever r(x) and s Li2(y) do not
    cancel by more than a factor two -- in particular on all of [-1, 1/2]; the zero of Re Li2 at x = 12.595... is excluded from any relative claim."""
    res = analyse_real(ctx, emit=False)
    if res is None:
        ctx.record('core', ERROR, 'B', 0, 'the paths of dilog could not be analysed (see C01.dilog_real.transform)')
        return
    x, core, ymax = res
    num, den = numden(core, x)
    pins = [{'x': Fr(k, 64)} for k in (1, 4, 8, 12, 16, 20, 24, 28, 31, 32, 35, 38, 41, 44)]
    edges = [Fr(0), Fr(1, 8), Fr(1, 4), Fr(3, 8), Fr(1, 2)] + [c for c in Y_CANDIDATES[1:] if c <= ymax]
    ctx.assume_note('A-SPECFN: Li2(y) = sum_{k<=n} y^k/k^2 + theta y^(n+1), |theta| <= 1/((n+1)^2 (1-ymax)) on each sub-interval (0,1/8],(1/8,1/4],(1/4,3/8],(3/8,1/2],... with n chosen such that the tail is below 1e-16 y')
    import math
    for lo, hi in zip(edges[:-1], edges[1:]):
        n = 8
        while float(hi) ** n / ((n + 1) ** 2 * (1 - float(hi))) > 1e-16:
            n += 1
        coeffs = [Fr(0)] + [Fr(1, k * k) for k in range(1, n + 1)]
        S = specs.poly(coeffs, x)
        yn1 = x
        for _ in range(n):
            yn1 = yn1 * x
        B = 1 / (Fr((n + 1) ** 2) * (1 - hi))
        pre = [x > to_z3(lo), x <= to_z3(hi)]
        tag = 'y_in_(%s,%s]' % (lo, hi)
        ctx.prove(tag + '.q_positive', pre, den >= Q(1, 10) * z3.substitute(den, (x, z3.RealVal(0))), check_vacuity=False, tactics=('nlsat', 'default'), pins=pins)
        tol = Fr(5, 10**14)
        lo_li2 = S - to_z3(B) * yn1
        upper = num - lo_li2 * den <= to_z3(tol) * lo_li2 * den
        lower = (S + to_z3(B) * yn1) * den - num <= to_z3(tol) * lo_li2 * den
        ctx.prove(tag + '.upper', pre + [den > 0], upper, check_vacuity=False, tactics=('nlsat', 'default'), pins=pins)
        ctx.prove(tag + '.lower', pre + [den > 0], lower, check_vacuity=False, tactics=('nlsat', 'default'), pins=pins)

# ====================================================================================================================================
# Clausen function Cl2
# ====================================================================================================================================
# Specification (Lewin ch. 4; Abramowitz-Stegun 27.8):  Cl2(-x) = -Cl2(x);  Cl2(x + 2 pi) = Cl2(x);  Cl2(2 pi - x) = -Cl2(x);  Cl2(0) = Cl2(pi) = 0;
#   (S1)  Cl2(x)      = x (1 - ln x + sum_{n>=1} c_n x^(2n)),  c_n = |B_2n| / (2n (2n+1)!)                  0 < x < 2 pi
#   (S2)  Cl2(pi - t) = t (ln 2 - sum_{n>=1} d_n t^(2n)),      d_n = (2^(2n) - 1) |B_2n| / (2n (2n+1)!)     |t| < pi
#   tails: |B_2n| <= 4 (2n)!/(2 pi)^(2n), hence |c_n| <= 4/((2 pi)^(2n) 2n (2n+1)), |d_n| <= 4/(pi^(2n) 2n (2n+1)).

def _bern_abs(n):
    import sympy
    b = sympy.bernoulli(2 * n)
    return abs(Fr(int(b.p), int(b.q)))

def _fact(n):
    import math
    return math.factorial(n)

def cl2_series_small(w, N, wmax):
    """S1 bracket as a polynomial in w = x^2: sum_{n<=N} c_n w^n, with remainder bound B: |tail| <= B w^(N+1) for 0 <= w <= wmax < 39"""
    c = [Fr(0)] + [_bern_abs(n) / (2 * n * _fact(2 * n + 1)) for n in range(1, N + 1)]
    ratio = Fr(wmax) / Fr(3943, 100)          # (2 pi)^2 > 39.43
    B = Fr(4) / ((2 * N + 2) * (2 * N + 3)) / Fr(3943, 100) ** (N + 1) / (1 - ratio)
    return c, B

def cl2_series_pi(w, N, wmax):
    """S2 bracket as a polynomial in w = t^2: sum_{n<=N} d_n w^n, remainder |tail| <= B w^(N+1) for 0 <= w <= wmax < 9.8"""
    d = [Fr(0)] + [Fr(2 ** (2 * n) - 1) * _bern_abs(n) / (2 * n * _fact(2 * n + 1)) for n in range(1, N + 1)]
    ratio = Fr(wmax) / Fr(986, 100)           # pi^2 > 9.86
    B = Fr(4) / ((2 * N + 2) * (2 * N + 3)) / Fr(986, 100) ** (N + 1) / (1 - ratio)
    return d, B

def _guard_cl2_series():
    import mpmath as mp
    mp.mp.dps = 40
    worst = 0
    for xv in (0.01, 0.5, 1.0, 1.5707):
        c, B = cl2_series_small(None, 14, Fr(25, 10))
        w = mp.mpf(xv) ** 2
        got = mp.mpf(xv) * (1 - mp.log(xv) + sum(mp.mpf(ci.numerator) / ci.denominator * w ** i for i, ci in enumerate(c)))
        worst = max(worst, abs(got - mp.clsin(2, xv)) - float(B) * float(w) ** 15 * xv)
    for tv in (0.0001, 0.4, 1.0, 1.5708):
        d, B = cl2_series_pi(None, 24, Fr(25, 10))
        w = mp.mpf(tv) ** 2
        got = mp.mpf(tv) * (mp.log(2) - sum(mp.mpf(di.numerator) / di.denominator * w ** i for i, di in enumerate(d)))
        worst = max(worst, abs(got - mp.clsin(2, mp.pi - tv)) - float(B) * float(w) ** 25 * tv)
    return worst < mp.mpf(10) ** -30, 'series + stated tail bound enclose mpmath clsin at 8 points (excess %s)' % mp.nstr(worst, 3)

def _rat(v, digits=25):
    import mpmath as mp
    mp.mp.dps = digits + 15
    return Fr(int(mp.floor(v() * 10 ** digits)), 10 ** digits)

def _cl2_paths(ctx):
    x = ctx.real('x')
    it = Interp(ctx.w, mode='sym', assumptions=[PI_SHARP])
    ps = it.run_paths(lambda: it.call('clausen_2', [x], file=DL))
    ctx.merge_rules(it)
    return x, it, ps

def _kernel(ps, x, at):
    from gm2v.ob import smt_check
    for s, r, e in ps:
        if e is None and r is not None and is_sym(r) and 'fmod' not in str(r) and 'fmod' not in str(s.pc):
            if smt_check(list(s.pc) + [x == to_z3(at), PI_SHARP], [], 3000)[0] == 'sat':
                return z3real(r)
    return None

def replay_clausen(model, wd):
    from gm2v import native
    import mpmath as mp, math
    mp.mp.dps = 40
    pts = []
    f = (model or {}).get('_float', {})
    for k in ('x', 'xi', 't'):
        if k in f:
            v = float(f[k])
            pts += [v, -v, math.pi - v, v + 2 * math.pi, 2 * math.pi - v]
    for c in (0.0, math.pi / 2, math.pi, 2 * math.pi, 3 * math.pi, -math.pi, -2 * math.pi, 7 * math.pi / 2):
        for d in (0, 1e-12, 1e-6, 1e-2, 0.3, 0.7):
            pts += [c + d, c - d]
    pts += [0.1, 1.0, 1.3, 2.0, 2.5, 3.0, 4.0, 5.0, 6.0, 10.0, 100.0, -1.0, -2.0, -4.0, 1e-9]
    exe = native.build_scalar_driver(wd, [DL], [], [('cl2', 'clausen_2(a[0])', 1)])
    vals = native.run_scalar_driver(exe, [('cl2', [p]) for p in pts])
    worst = (0, None, None, None)
    for p, v in zip(pts, vals):
        want = mp.clsin(2, mp.mpf(p))
        # the argument itself is a rounded double: an error of |x| 2^-53 |Cl2'(x)| is inherent in any implementation (Cl2' = -ln|2 sin(x/2)|)
        cond = abs(mp.mpf(p)) * mp.mpf(2) ** -52 * (1 + abs(mp.log(abs(2 * mp.sin(mp.mpf(p) / 2)) + mp.mpf(10) ** -300)))
        err = max(mp.mpf(0), abs(mp.mpf(v) - want) - 8 * cond) / (abs(want) + mp.mpf(10) ** -300)
        if err > worst[0]:
            worst = (err, p, v, want)
    return bool(worst[0] > 1e-13), 'worst of %d points: x=%r real clausen_2=%r Cl2=%s (error - 8 x conditioning of the rounded argument)/|Cl2|=%s' % (
        len(pts), worst[1], worst[2], mp.nstr(worst[3], 20), mp.nstr(worst[0], 4))

@obligation('C01.clausen.reduction', fns=[(DL, 'clausen_2')], replay=replay_clausen)
def _(ctx):
    """ensures for every real x, on every path:  result == sigma * K(xi') where K is the code's kernel on [0, pi] (K1 below pi/2, K2 above; the
    paths without argument reduction define them), and (sigma, xi') is the documented reduction of x: sign of x (Cl2 odd), fmod by 2 pi (periodic,
    A-LIBM: 0 <= fmod(a, m) < m, a - fmod(a, m) a multiple of m), reflection xi = 2 pi - b with sign change for b > pi; the constant the code uses
    for 2 pi in the reflection is within 1e-19 of 2 pi; the reduced argument lies in the kernel's domain 0 < xi' < pi/2 resp. pi/2 <= xi' <= pi;
    exact 0 is returned at the zeros xi' = 0 and xi' = pi; the logarithm's argument is positive."""
    ok, msg = _guard_cl2_series()
    ctx.record('spec_series_vs_mpmath', PROVED if ok else ERROR, 'B', 0, 'transcription guard: ' + msg, solver='mpmath 40 digits')
    from gm2v.ob import smt_check
    from gm2v import ring
    x, it, ps = _cl2_paths(ctx)
    K1, K2 = _kernel(ps, x, Fr(1)), _kernel(ps, x, Fr(2))
    if K1 is None or K2 is None:
        ctx.record('kernel', FAILED, 'B', 0, 'no reduction-free path through x = 1 resp. x = 2')
        return
    ctx.assume_note('A-LIBM: fmod(a, m) for a >= m > 0: 0 <= fmod(a, m) < m and a - fmod(a, m) is an integer multiple of m')
    ctx.assume_note('A-SPECFN: Cl2 is odd, 2 pi periodic, Cl2(2 pi - x) = -Cl2(x), Cl2(0) = Cl2(pi) = 0')
    fm = specs.UF('fmod', 2)
    # rational constants of the code close to 2 pi (the two-term representation p0 + p1)
    def consts(t, acc):
        if z3.is_rational_value(t):
            v = Fr(t.numerator_as_long(), t.denominator_as_long())
            if abs(abs(float(v)) - 6.283185307179586) < 1e-9:
                acc.add(abs(v))
        for c in t.children():
            consts(c, acc)
    n_red = 0
    for k, (s, r, e) in enumerate(ps):
        tag = 'path%d' % k
        if e is not None or r is None:
            ctx.record(tag, FAILED, 'B', 0, 'path ends without a value: %s' % (e,))
            continue
        pc = list(s.pc)
        ax = [PI_SHARP]
        mdl = smt_check(pc + ax, [], 3000, {'x': x})[1]
        mfl = {'_float': {'x': float(mdl['x'])}} if mdl and 'x' in mdl else None
        neg = smt_check(pc + ax + [x >= 0], [], 3000)[0] == 'unsat'
        a = -x if neg else x
        sg = -1 if neg else 1
        cands = [(sg, a, 'xi = |x|')]
        fa = fm(a, 2 * PI)
        ax_f = [fa >= 0, fa < 2 * PI]
        cands.append((sg, fa, 'xi = fmod(|x|, 2 pi)'))
        ks = set()
        consts(z3real(r), ks)
        for cnd in pc:
            consts(cnd, ks)
        for Kc in sorted(ks):
            cands.append((-sg, to_z3(Kc) - a, 'xi = 2pi\' - |x|'))
            cands.append((-sg, to_z3(Kc) - fa, 'xi = 2pi\' - fmod(|x|, 2 pi)'))
        hit = None
        for sig, xi, text in cands:
            for nm, Kk in (('K1', K1), ('K2', K2)):
                try:
                    if ring.identity(z3real(r), sig * z3.substitute(Kk, (x, xi))):
                        hit = (sig, xi, text, nm)
                        break
                except ring.NotRing:
                    pass
            if hit:
                break
        if hit is None:
            # the zeros: exact 0 (or the reduced argument itself where it is 0)
            zero = False
            for sig, xi, text in cands:
                if smt_check(pc + ax + ax_f + [z3.Not(z3.Or(xi == 0, xi == PI))], [], 3000)[0] == 'unsat':
                    st = ctx.prove('%s.zero' % tag, pc + ax + ax_f, z3real(r) == 0, check_vacuity=False, model_vars={'x': x})
                    zero = True
                    break
            if not zero:
                ctx.record(tag + '.reduction', FAILED, 'B', 0, 'on the path %s the result is not sigma K(xi\') for the documented reduction of x' % [str(c)[:80] for c in pc], model=mfl,
                           solver='ring normalisation (sympy)')
            continue
        sig, xi, text, nm = hit
        n_red += 1
        ctx.record('%s.%s.reduction' % (tag, nm), PROVED, 'B', 0, 'result == %+d %s(%s)' % (sig, nm, text), solver='ring normalisation (sympy)')
        # the reduction used is the right one for this range of x, and the reduced argument is in the kernel's domain
        dom = z3.And(xi > 0, xi < PI / 2) if nm == 'K1' else z3.And(xi >= PI / 2, xi < PI + Q(1, 10**18))
        ctx.prove('%s.%s.domain' % (tag, nm), pc + ax + ax_f, dom, check_vacuity=False, model_vars={'x': x})
        if 'fmod' in text:
            ctx.prove('%s.%s.fmod_precondition' % (tag, nm), pc + ax, a >= 2 * PI, check_vacuity=False, model_vars={'x': x})
        else:
            ctx.prove('%s.%s.no_fmod_needed' % (tag, nm), pc + ax, a < 2 * PI, check_vacuity=False, model_vars={'x': x})
        if "2pi'" in text:
            b = fa if 'fmod' in text else a
            Kc = [c for c in ks if ring.identity(xi, to_z3(c) - b)][0]
            ctx.prove('%s.%s.reflection' % (tag, nm), pc + ax + ax_f, z3.And(b > PI, to_z3(Kc) - 2 * PI < Q(1, 10**19), 2 * PI - to_z3(Kc) < Q(1, 10**19)), check_vacuity=False)
        else:
            b = fa if 'fmod' in text else a
            ctx.prove('%s.%s.no_reflection_needed' % (tag, nm), pc + ax + ax_f, b <= PI, check_vacuity=False, model_vars={'x': x})
        for j, (guards, cond, desc) in enumerate(s.sides):
            if 'ln' in desc:
                ctx.prove('%s.%s.side%d' % (tag, nm, j), pc + ax + ax_f + list(guards), cond, kind='side:' + desc, check_vacuity=False)
    ctx.record('paths', PROVED if n_red >= 8 else FAILED, 'B', 0, '%d of %d paths evaluate a kernel on a reduced argument' % (n_red, len(ps)))
    cover = z3.Or(*[z3.And(*s.pc) if s.pc else z3.BoolVal(True) for s, r, e in ps])
    ctx.prove('exhaustive', [PI_SHARP], cover, check_vacuity=False)

@obligation('C01.clausen.kernels', fns=[(DL, 'clausen_2')], replay=replay_clausen)
def _(ctx):
    """ensures  |K1(xi) - Cl2(xi)| <= 1e-14 Cl2(xi) for 0 < xi <= pi/2 + 1e-9  and  |K2(pi - t) - Cl2(pi - t)| <= 1e-14 Cl2(pi - t) for 0 < t <= pi/2 + 1e-9,
    and both Pade denominators are >= 1/10 there.  Cl2 by the series (S1), (S2) with the stated geometric tail bounds (A-SPECFN); in K2's goal pi^2/8 and
    ln 2 are 25-digit rationals (the sensitivity of the goal to the 1e-25 they are off is bounded by exact interval arithmetic, reported in the goal)."""
    import sympy
    from gm2v import ring
    x, it, ps = _cl2_paths(ctx)
    K1, K2 = _kernel(ps, x, Fr(1)), _kernel(ps, x, Fr(2))
    if K1 is None or K2 is None:
        ctx.record('kernel', FAILED, 'B', 0, 'no reduction-free path through x = 1 resp. x = 2')
        return
    ctx.assume_note('A-SPECFN: Cl2(x) = x(1 - ln x + sum c_n x^2n), c_n = |B_2n|/(2n(2n+1)!); Cl2(pi - t) = t(ln 2 - sum d_n t^2n), d_n = (4^n - 1)|B_2n|/(2n(2n+1)!); |B_2n| <= 4(2n)!/(2pi)^2n')
    sx = sympy.Symbol('x')
    L = sympy.Function('ln')(sx)
    # ---- K1: K1(x) = x (1 - ln x + R1(x^2)),  R1 rational ----
    e1 = ring.to_sympy(K1, {})
    R1 = sympy.cancel(sympy.together(e1 / sx - 1 + L))
    if R1.has(sympy.Function('ln')) or not R1.is_rational_function(sx):
        ctx.record('K1.shape', FAILED, 'B', 0, 'K1(x)/x - 1 + ln x is not a rational function of x: %s' % str(R1)[:200], model={'_float': {'x': 1.0}})
    else:
        ctx.record('K1.shape', PROVED, 'B', 0, 'K1(x) = x (1 - ln x + R1(x)), R1 rational', solver='ring normalisation (sympy)')
        w = z3.Real('w')
        n1, d1 = sympy.fraction(sympy.together(R1.subs(sx, sympy.sqrt(sympy.Symbol('w', positive=True)))))
        sw = sympy.Symbol('w', positive=True)
        n1, d1 = sympy.Poly(sympy.expand(n1), sw), sympy.Poly(sympy.expand(d1), sw)
        def back(pl):
            return specs.poly([Fr(int(c.p), int(c.q)) for c in reversed(pl.all_coeffs())], w)
        zn, zd = back(n1), back(d1)
        if d1.eval(0) < 0:
            zn, zd = -zn, -zd
        q0 = z3.substitute(zd, (w, z3.RealVal(0)))
        wmax = Fr(2468, 1000)        # (pi/2 + 1e-9)^2 < 2.468
        lnmax = Fr(4516, 10000)      # ln(pi/2 + 1e-9) < 0.4516, hence 1 - ln x > 0.5484 on the domain
        pins = [{'w': Fr(k, 10)} for k in (0, 1, 5, 10, 15, 20, 24)]
        for lo, hi in ((Fr(0), Fr(1, 2)), (Fr(1, 2), Fr(3, 2)), (Fr(3, 2), wmax)):
            N = 6
            while True:
                c, B = cl2_series_small(None, N, hi)
                if float(B) * float(hi) ** (N + 1) < 1e-17:
                    break
                N += 1
            S = specs.poly(c, w)
            wn = w
            for _ in range(N):
                wn = wn * w
            pre = [w >= to_z3(lo), w <= to_z3(hi)]
            lam = z3.Real('one_minus_ln_x')        # the bracket of Cl2 is lam + S + tail with lam = 1 - ln x >= 0.5484
            tag = 'K1.w_in_[%s,%s]' % (lo, hi)
            ctx.prove(tag + '.q_positive', pre, zd >= Q(1, 10) * q0, check_vacuity=False, tactics=('nlsat', 'default'), pins=pins)
            tol = Q(1, 10**14)
            low_br = lam + S - to_z3(B) * wn
            ctx.prove(tag + '.upper', pre + [zd > 0, lam >= to_z3(1 - lnmax)], zn - (S - to_z3(B) * wn) * zd <= tol * low_br * zd, check_vacuity=False, tactics=('nlsat', 'default'))
            ctx.prove(tag + '.lower', pre + [zd > 0, lam >= to_z3(1 - lnmax)], (S + to_z3(B) * wn) * zd - zn <= tol * low_br * zd, check_vacuity=False, tactics=('nlsat', 'default'))
    # ---- K2: K2(x) = t R2(t^2 - pi^2/8),  t = pi - x ----
    e2 = ring.to_sympy(K2, {})
    spi = sympy.Symbol('c_PI')
    st = sympy.Symbol('t')
    e2t = sympy.together(e2.subs(sx, spi - st))
    sz = sympy.Symbol('z')
    R2 = sympy.cancel(sympy.together(e2t / st))
    # R2 must depend on t and pi only through z = t^2 - pi^2/8
    R2z = sympy.cancel(sympy.together(R2.subs(st, sympy.sqrt(sz + spi**2 / 8))))
    if R2z.has(spi) or R2z.has(st) or not R2z.is_rational_function(sz):
        ctx.record('K2.shape', FAILED, 'B', 0, 'K2(pi - t)/t is not a rational function of z = t^2 - pi^2/8: %s' % str(R2z)[:200], model={'_float': {'x': 2.0}})
        return
    ctx.record('K2.shape', PROVED, 'B', 0, 'K2(pi - t) = t R2(t^2 - pi^2/8), R2 rational', solver='ring normalisation (sympy)')
    import mpmath as mp
    c0 = _rat(lambda: mp.pi ** 2 / 8)
    l0 = _rat(lambda: mp.log(2))
    w = z3.Real('w')
    n2, d2 = sympy.fraction(sympy.together(R2z))
    pn, pd = sympy.Poly(sympy.expand(n2), sz), sympy.Poly(sympy.expand(d2), sz)
    cn = [Fr(int(c.p), int(c.q)) for c in reversed(pn.all_coeffs())]
    cd = [Fr(int(c.p), int(c.q)) for c in reversed(pd.all_coeffs())]
    if cd[0] < 0:
        cn, cd = [-c for c in cn], [-c for c in cd]
    zz = w - to_z3(c0)
    zn, zd = specs.poly(cn, zz), specs.poly(cd, zz)
    wmax = Fr(2468, 1000)
    pins = [{'w': Fr(k, 10)} for k in (0, 1, 5, 10, 15, 20, 24)]
    for lo, hi in ((Fr(0), Fr(1, 2)), (Fr(1, 2), Fr(3, 2)), (Fr(3, 2), wmax)):
        N = 6
        while True:
            d, B = cl2_series_pi(None, N, hi)
            if float(B) * float(hi) ** (N + 1) < 1e-17:
                break
            N += 1
        S = specs.poly(d, w)
        wn = w
        for _ in range(N):
            wn = wn * w
        pre = [w >= to_z3(lo), w <= to_z3(hi)]
        tag = 'K2.w_in_[%s,%s]' % (lo, hi)
        ctx.prove(tag + '.q_positive', pre, zd >= Q(1, 10) * to_z3(cd[0]), check_vacuity=False, tactics=('nlsat', 'default'), pins=pins)
        tol = Q(1, 10**14)
        low = to_z3(l0) - S - to_z3(B) * wn
        high = to_z3(l0) - S + to_z3(B) * wn
        ctx.prove(tag + '.upper', pre + [zd > 0], zn - low * zd <= tol * low * zd, check_vacuity=False, tactics=('nlsat', 'default'), pins=pins)
        ctx.prove(tag + '.lower', pre + [zd > 0], high * zd - zn <= tol * low * zd, check_vacuity=False, tactics=('nlsat', 'default'), pins=pins)
    # sensitivity of R2 to the 1e-25 by which c0, l0 differ from pi^2/8, ln 2: |dR2/dz| <= (sum i|cn_i| Z^(i-1) qmax + pmax sum i|cd_i| Z^(i-1)) / qmin^2 on |z| <= Z
    Z = Fr(13, 10)
    dn = sum(i * abs(c) * Z ** (i - 1) for i, c in enumerate(cn) if i)
    dd = sum(i * abs(c) * Z ** (i - 1) for i, c in enumerate(cd) if i)
    pmax = sum(abs(c) * Z ** i for i, c in enumerate(cn))
    qmax = sum(abs(c) * Z ** i for i, c in enumerate(cd))
    qmin = cd[0] / 10
    lip = (dn * qmax + pmax * dd) / qmin ** 2
    drift = lip * Fr(1, 10**25) + Fr(1, 10**25)
    ctx.record('K2.constants_sensitivity', PROVED if drift < Fr(1, 10**18) else FAILED, 'B', 0,
               'replacing pi^2/8, ln 2 by 25-digit rationals moves R2 - (ln 2 - S) by at most %.3g (Lipschitz constant %.3g by coefficient sums, q >= q(0)/10 proved above)' % (float(drift), float(lip)),
               solver='exact rational interval arithmetic')

# ====================================================================================================================================
# Complex dilogarithm: functional equations, Horner scheme, Bernoulli table, truncation
# ====================================================================================================================================
# Specification (Lewin (1.11), (1.12); Abramowitz-Stegun 27.7; the Bernoulli form is e.g. 't Hooft-Veltman, Nucl. Phys. B153 (1979) App. A):
#   Li2(w) = sum_{n>=0} B_n u^(n+1)/(n+1)!,  u = -ln(1 - w)   =  u - u^2/4 + sum_{k>=1} B_2k u^(2k+1)/(2k+1)!          (|u| < 2 pi)
#   inversion  Li2(z) = -Li2(1/z) - pi^2/6 - ln^2(-z)/2;      reflection  Li2(z) = -Li2(1 - z) + pi^2/6 - ln(z) ln(1 - z)
#   |B_2k| <= 4 (2k)!/(2 pi)^2k;   in the region |w| <= 1, Re w <= 1/2 (proved: C01.dilog_complex.regions):  |u| <= sqrt(ln^2 2 + (pi/3)^2) < 1.26
from gm2v.values import Cx as _Cx2

def _cmul(a, b):
    return (a[0] * b[0] - a[1] * b[1], a[0] * b[1] + a[1] * b[0])
def _cadd(a, b):
    return (a[0] + b[0], a[1] + b[1])
def _cneg(a):
    return (-a[0], -a[1])
def _cpair(v):
    return (z3real(v.re), z3real(v.im)) if isinstance(v, _Cx2) else (z3real(v), z3.RealVal(0))

def replay_cdilog2(model, wd):
    from contracts.c01 import replay_cdilog
    return replay_cdilog(model, wd)

@obligation('C01.dilog_complex.series', fns=[(DL, 'dilog'), (DL, 'horner')], replay=replay_cdilog2)
def _(ctx):
    """ensures (Im z != 0): (1) horner<1>(z, c) == sum_{i=1..N-1} c_i z^(i-1) for complex z (the real Horner scheme with the (r, s) recurrence, all coefficients symbolic);
    (2) the coefficient table is bf[0] = -1/4, bf[i] = B_2i/(2i+1)! (to 1e-15 relative: decimal literals); (3) on every series path the result is exactly
    sgn S(u) + rest with S(u) = u + u^2 (bf[0] + u horner<1>(u^2, bf)) and (u, rest, sgn) the documented functional equation: direct (u = -ln(1-z)), inversion
    (u = -ln(1 - 1/z), rest = -ln^2(-z)/2 - pi^2/6, sgn = -1), reflection (u = -ln z, rest = u ln(1-z) + pi^2/6, sgn = -1); (4) the truncation after the last table
    entry leaves a relative remainder <= 1e-13 for |u| <= 1.26 (Bernoulli bound, exact rational arithmetic)"""
    import sympy
    from gm2v import ring
    # ---- (1) Horner
    fds = [f for f in ctx.w.find('horner', DL)]
    if len(fds) != 1:
        ctx.record('horner', ERROR, 'B', 0, '%d definitions of horner' % len(fds))
        return
    N = 10
    a, b = z3.Reals('hz_re hz_im')
    cs = [z3.Real('c%d' % i) for i in range(N)]
    it = Interp(ctx.w, mode='sym', div_sides=False)
    from gm2v.cxx import Type
    DBL = Type('double', None, False, False, 0)
    try:
        ps = it.run_paths(lambda: it.invoke(fds[0], [_Cx2(a, b), list(cs)], None, targs=[1, DBL, N]))
    except Exception as e:
        ctx.record('horner', ERROR, 'B', 0, 'extraction: %s' % e)
        return
    ctx.merge_rules(it)
    if len(ps) != 1 or ps[0][2] is not None:
        ctx.record('horner', FAILED, 'B', 0, '%d paths' % len(ps))
    else:
        r = _cpair(ps[0][1])
        want = (z3.RealVal(0), z3.RealVal(0))
        zp = (z3.RealVal(1), z3.RealVal(0))
        for i in range(1, N):
            want = _cadd(want, (cs[i] * zp[0], cs[i] * zp[1]))
            zp = _cmul(zp, (a, b))
        ctx.prove_ring('horner.is_the_polynomial', [(r[0], want[0]), (r[1], want[1])])
    # ---- (2) table
    fd = [f for f in ctx.w.find('dilog', DL) if 'complex' in str(f.params[0].type)]
    if len(fd) != 1:
        ctx.record('table', ERROR, 'B', 0, '%d complex overloads of dilog' % len(fd))
        return
    fd = fd[0]
    from gm2v import cxx as _cx
    decls = []
    def walk(n):
        if isinstance(n, _cx.Node):
            if isinstance(n, _cx.Decl) and n.name == 'bf':
                decls.append(n)
            for f in n._fields:
                walk(getattr(n, f, None))
        elif isinstance(n, (list, tuple)):
            for x in n:
                walk(x)
    walk(ctx.w.body(fd))
    if len(decls) != 1 or not isinstance(decls[0].init, _cx.InitList):
        ctx.record('table', FAILED, 'B', 0, 'coefficient table `bf` not found as an initialiser list')
        return
    it2 = Interp(ctx.w, mode='sym', named_consts=False)
    from gm2v.interp import Frame
    it2.frames = [Frame(fd, None, fd.file)]
    vals = [Fr(it2.ev(x)) for x in decls[0].init.items]
    bad = []
    for i, v in enumerate(vals):
        if i == 0:
            want = Fr(-1, 4)
        else:
            bn = sympy.bernoulli(2 * i)
            want = Fr(int(bn.p), int(bn.q)) / math_factorial(2 * i + 1)
        if abs(v - want) > Fr(1, 10**15) * abs(want):
            bad.append((i, float(v), float(want)))
    ctx.record('table.bernoulli', PROVED if not bad else FAILED, 'B', 0, '%d coefficients: bf[0] = -1/4, bf[i] = B_2i/(2i+1)!' % len(vals) if not bad else
               'bf[%d] = %.17g, but B_2i/(2i+1)! = %.17g' % bad[0], model={'_float': {'re_z': 0.9, 'im_z': 0.3}} if bad else None, solver='exact rational arithmetic')
    # ---- (4) truncation
    K = len(vals) - 1                                        # last term kept: B_2K u^(2K+1)/(2K+1)!
    ratio = (Fr(126, 100) / Fr(6283, 1000)) ** 2
    rem = 4 * ratio ** (K + 1) / ((2 * K + 3) * (1 - ratio))  # relative to |u| <= |Li2| (1 + ...) : sum_{k>K} 4 |u|^(2k) / ((2 pi)^2k (2k+1))
    ctx.assume_note('A-SPECFN: |B_2k| <= 4 (2k)!/(2 pi)^2k; |u| = |ln(1 - w)| < 1.26 for |w| <= 1, Re w <= 1/2')
    ctx.record('truncation', PROVED if rem <= Fr(1, 10**13) else FAILED, 'B', 0, 'relative remainder after the B_%d term: <= %.3g for |u| <= 1.26' % (2 * K, float(rem)),
               model=None if rem <= Fr(1, 10**13) else {'_float': {'re_z': 0.5, 'im_z': 0.86}}, solver='exact rational arithmetic')
    # ---- (3) transformation per path
    x, y = ctx.real('re_z'), ctx.real('im_z')
    calls = []
    def rec(name):
        def st(it_, a_, t):
            k = len(calls)
            calls.append((name, a_[0]))
            if isinstance(a_[0], _Cx2):
                return _Cx2(z3.Real('%s%d_re' % (name, k)), z3.Real('%s%d_im' % (name, k)))
            return z3.Real('%s%d' % (name, k))
        return st
    def hstub(it_, a_, t):
        calls.append(('horner', a_[0]))
        return _Cx2(z3.Real('h_re'), z3.Real('h_im'))
    it3 = Interp(ctx.w, mode='sym', stubs={'log1p': rec('log1p'), 'std::log': rec('log'), 'horner': hstub}, assumptions=[y != 0], div_sides=False)
    def thunk():
        del calls[:]
        r = it3.invoke(fd, [_Cx2(x, y)], None)
        return (r, list(calls))
    ps = it3.run_paths(thunk)
    ctx.merge_rules(it3)
    zc = (z3real(x), z3real(y))
    n2 = zc[0] * zc[0] + zc[1] * zc[1]
    inv = (zc[0] / n2, -zc[1] / n2)                          # 1/z
    PIc = z3.Real('c_PI')
    kinds = set()
    for k, (s, rc, e) in enumerate(ps):
        r, cs_ = rc
        if not cs_:
            continue
        tag = 'path%d' % k
        logs = [(i, c) for i, c in enumerate(cs_) if c[0] == 'log']
        l1ps = [(i, c) for i, c in enumerate(cs_) if c[0] == 'log1p']
        hs = [c for c in cs_ if c[0] == 'horner']
        val = lambda i, nm: (z3.Real('%s%d_re' % (nm, i)), z3.Real('%s%d_im' % (nm, i)))
        def arg_is(c, want):
            p = _cpair(c[1])
            try:
                return ring.identity(p[0], want[0]) and ring.identity(p[1], want[1])
            except ring.NotRing:
                return False
        spec = None
        if not logs and len(l1ps) == 1 and arg_is(l1ps[0][1], _cneg(zc)):
            u = _cneg(val(l1ps[0][0], 'log1p'))
            spec, sgn, rest, kind = u, 1, (z3.RealVal(0), z3.RealVal(0)), 'direct'
        elif len(logs) == 1 and len(l1ps) == 1 and arg_is(logs[0][1], _cneg(zc)) and arg_is(l1ps[0][1], _cneg(inv)):
            u = _cneg(val(l1ps[0][0], 'log1p'))
            lz = val(logs[0][0], 'log')
            l2 = _cmul(lz, lz)
            spec, sgn, rest, kind = u, -1, (-l2[0] / 2 - PIc * PIc / 6, -l2[1] / 2), 'inversion'
        elif len(logs) == 1 and len(l1ps) == 1 and arg_is(logs[0][1], zc) and arg_is(l1ps[0][1], _cneg(zc)):
            u = _cneg(val(logs[0][0], 'log'))
            ul = _cmul(u, val(l1ps[0][0], 'log1p'))
            spec, sgn, rest, kind = u, -1, (ul[0] + PIc * PIc / 6, ul[1]), 'reflection'
        if spec is None:
            ctx.record(tag + '.functional_equation', FAILED, 'B', 0, 'the logarithms evaluated on this path (%s) are not those of a documented functional equation' % [(n, str(a_)[:60]) for n, a_ in cs_],
                       model={'_float': {'re_z': 0.7, 'im_z': 0.4}})
            continue
        kinds.add(kind)
        u2 = _cmul(u, u)
        ok_h = len(hs) == 1 and arg_is(hs[0], u2)
        H = (z3.Real('h_re'), z3.Real('h_im'))
        inner = _cadd((to_z3(vals[0]), z3.RealVal(0)), _cmul(u, H))
        S = _cadd(u, _cmul(u2, inner))
        want = _cadd((sgn * S[0], sgn * S[1]), rest)
        got = _cpair(r)
        st = ctx.prove_ring('%s.%s.equation' % (tag, kind), [(got[0], want[0]), (got[1], want[1])])
        ctx.record('%s.%s.horner_argument' % (tag, kind), PROVED if ok_h else FAILED, 'B', 0, 'horner is evaluated at u^2' if ok_h else 'horner is not evaluated at u^2 on this path')
    ctx.record('paths', PROVED if kinds == {'direct', 'inversion', 'reflection'} else FAILED, 'B', 0, 'functional equations used: %s' % sorted(kinds))

def math_factorial(n):
    import math
    return math.factorial(n)
