"""C12 -- matrix decompositions satisfy their documented factorisation contracts: the part that contracts decide.

src/gm2_linalg.hpp wraps two Eigen solvers (JacobiSVD in svd_eigen, SelfAdjointEigenSolver in hermitian_eigen) in layers that reverse, permute,
transpose and re-phase their output into the conventions the models use.  Eigen's iterative solvers are outside any verifier here; their
documented results are ASSUMED (this is what remains of A-LINALG):
    svd_eigen(m; s, u, vh)        : m = u diag(s) vh, u and vh unitary, s_0 >= s_1 >= ... >= 0
    hermitian_eigen(m; w, z)      : m = z diag(w) z^dagger, z unitary (real orthogonal for real m), w_0 <= w_1 <= ...
Since every (hermitian) matrix has such a decomposition, quantifying over all (u, s, vh) resp. (z, w) with these properties covers every input
matrix, including rank-deficient, diagonal and exactly degenerate ones (ties in the ordering are explored as separate paths).
UNDER these two contracts the real wrapper code is executed symbolically and proved, for the instantiations the models use:
    fs_diagonalize_hermitian<double,double,2>   m == z^dagger diag(w) z,  |w_0| <= |w_1|,               z z^dagger is a re-indexing of the solver's Gram matrix
    fs_svd<double,complex,3,3>, <double,2,2>    m == u^T diag(s) v,       0 <= s_0 <= s_1 <= ...,        u, v: same
    fs_diagonalize_symmetric<double,double,4>   m == u^T diag(s) u,       0 <= s_0 <= ... (Takagi; phase i for negative eigenvalues), u: same
Reproduction is a ring identity in the solver's output; "unitary" is shown structurally: the Gram matrix of each returned factor equals a
simultaneous row/column re-indexing (possibly transposed/conjugated) of the Gram matrix of the solver's factor, which is the identity by assumption.
Error bounds (C12.errbd.*): the real disna and *_errbd layers give value bound == EPS ||m||_2 >= 0 and vector bounds in [0,1] on every path.
NOT decided: Eigen's solvers themselves, floating-point accuracy.
"""
import itertools, z3
from fractions import Fraction as Fr
from gm2v.ob import obligation, PROVED, FAILED, UNDECIDED, ERROR
from gm2v.interp import Interp, Cell
from gm2v.values import Mat, Cx, to_z3, z3real, is_sym, mat_mul
from gm2v.cxx import Type
from gm2v import ring

LA = 'src/gm2_linalg.hpp'
DOUBLE = Type('double', None, False, False, 0)
CPLX = Type('std::complex', [DOUBLE], False, False, 0)

def rm(name, r, c, kind='matrix'):
    return Mat(r, c, [[z3.Real('%s%d%d' % (name, i, j)) for j in range(c)] for i in range(r)], kind, False)

def cm(name, r, c):
    return Mat(r, c, [[Cx(z3.Real('%s%d%dr' % (name, i, j)), z3.Real('%s%d%di' % (name, i, j))) for j in range(c)] for i in range(r)], 'matrix', True)

def conj(x):
    return Cx(x.re, -z3real(x.im)) if isinstance(x, Cx) else x

def dagger(M):
    return M.T().map(conj) if M.cplx else M.T()

def diag(vals, cplx):
    n = len(vals)
    z = Cx(0, 0) if cplx else 0
    return Mat(n, n, [[(Cx(vals[i], 0) if cplx else vals[i]) if i == j else z for j in range(n)] for i in range(n)], 'matrix', cplx)

def parts(x):
    return (z3real(x.re), z3real(x.im)) if isinstance(x, Cx) else (z3real(x), z3.RealVal(0))

def mats_equal(ctx, tag, A, B):
    pairs = []
    for i in range(A.r):
        for j in range(A.c):
            a, b = parts(A.d[i][j]), parts(B.d[i][j])
            pairs += [(a[0], b[0]), (a[1], b[1])]
    return ctx.prove_ring(tag, pairs)

def gram_is_reindexed(ctx, tag, X, base):
    """X X^dagger equals, entry by entry, P^T G P (or its transpose/conjugate; off-diagonal entries up to a phase 1, -1, i, -i) for one of the Gram
    matrices G of the solver's factor `base': G = 1 then implies X X^dagger = 1"""
    n = X.r
    GX = mat_mul(X, dagger(X))
    cands = [mat_mul(dagger(base), base), mat_mul(base, dagger(base))]
    cands += [c.T() for c in cands]
    def same(a, b, diagonal=True):
        # off the diagonal a unimodular phase (1, -1, i, -i) is allowed: G = 1 still forces the entry to vanish
        (ar, ai), (br, bi) = parts(a), parts(b)
        if _req(ar, br) and _req(ai, bi):
            return True
        if diagonal:
            return False
        return (_req(ar, -br) and _req(ai, -bi)) or (_req(ar, -bi) and _req(ai, br)) or (_req(ar, bi) and _req(ai, -br))
    for G in cands:
        for conjg in (False, True):
            for perm in itertools.permutations(range(n)):
                ok = True
                for i in range(n):
                    for j in range(n):
                        g = G.d[perm[i]][perm[j]]
                        if conjg:
                            g = conj(g)
                        if not same(GX.d[i][j], g, diagonal=(i == j)):
                            ok = False
                            break
                    if not ok:
                        break
                if ok:
                    ctx.record(tag, PROVED, 'B', 0, 'X X^dagger is the Gram matrix of the solver factor re-indexed by %s%s' % (perm, ' (conjugated)' if conjg else ''),
                               solver='ring normalisation')
                    return True
    ctx.record(tag, FAILED, 'B', 0, 'the Gram matrix of the returned factor is not a re-indexing of the Gram matrix of the solver factor: unitarity is not preserved')
    return False

def _req(a, b):
    try:
        return ring.identity(z3real(a), z3real(b))
    except ring.NotRing:
        return False

def conds_of(t):
    out = []
    def walk(x):
        if z3.is_app(x) and x.decl().kind() == z3.Z3_OP_ITE:
            c = x.arg(0)
            while z3.is_not(c):
                c = c.arg(0)
            if not any(z3.eq(c, o) for o in out):
                out.append(c)
        for ch in x.children():
            walk(ch)
    walk(t)
    return out

def resolve_ites(M, assumptions):
    """replace every If(c, a, b) in the entries of M by the branch that the assumptions select (the assumptions fix the sign pattern)"""
    def fix(e):
        e = z3real(e)
        cs = conds_of(e)
        subs = []
        for c in cs:
            sv = z3.Solver()
            sv.add(*assumptions)
            sv.push(); sv.add(z3.Not(c)); t = sv.check() == z3.unsat; sv.pop()
            sv.push(); sv.add(c); f = sv.check() == z3.unsat; sv.pop()
            if t:
                subs.append((c, z3.BoolVal(True)))
            elif f:
                subs.append((c, z3.BoolVal(False)))
        return z3.simplify(z3.substitute(e, *subs)) if subs else e
    return M.map(lambda x: Cx(fix(x.re), fix(x.im)) if isinstance(x, Cx) else fix(x))

# ------------------------------------------------------------------------------------------------ hermitian
def herm_stub(Z, W):
    def stub(it, args, this):
        m, w, z = args[0], args[1], args[2]
        for i in range(len(W)):
            w.set(i, None, W[i])
        if isinstance(z, Cell):
            z = z.v
        if z is not None:
            z.d = [list(r) for r in Z.d]
        return None
    return stub

@obligation('C12.fs_diagonalize_hermitian.2x2', fns=[(LA, 'fs_diagonalize_hermitian'), (LA, 'fs_diagonalize_hermitian_errbd'), (LA, 'diagonalize_hermitian_errbd'), (LA, 'diagonalize_hermitian_internal')])
def _(ctx):
    """requires (contract of hermitian_eigen): m = Z diag(W) Z^T, W_0 <= W_1.  ensures on every path (both orderings of |W_0|, |W_1|, ties included):
    m == z^T diag(w) z, |w_0| <= |w_1|, {w} = {W}, and z z^T is a re-indexing of Z^T Z / Z Z^T (hence the identity)"""
    N = 2
    Z, W = rm('Z', N, N), [z3.Real('W%d' % i) for i in range(N)]
    pre = [W[0] <= W[1]]
    m = mat_mul(mat_mul(Z, diag(W, False)), Z.T())
    it = Interp(ctx.w, mode='sym', stubs={'hermitian_eigen': herm_stub(Z, W)}, assumptions=pre, div_sides=False)
    fd = [f for f in ctx.w.find('fs_diagonalize_hermitian', LA) if len(f.params) == 3][0]
    def thunk():
        w = Mat(N, 1, [[0] for _ in range(N)], 'array', False)
        z = rm('zz', N, N)
        cw, cz = Cell(w), Cell(z)
        it.invoke(fd, [m, w, z], None, arg_cells=[Cell(m), cw, cz], targs=[DOUBLE, DOUBLE, N])
        return (cw.v, cz.v)
    ps = it.run_paths(thunk)
    ctx.merge_rules(it)
    absz = lambda t: z3.If(t >= 0, t, -t)
    for k, (s, r, e) in enumerate(ps):
        w, z = r
        wv = [z3real(w.get(i)) for i in range(N)]
        mats_equal(ctx, 'path%d.reproduces' % k, mat_mul(mat_mul(z.T(), diag(wv, False)), z), m)
        ctx.prove('path%d.ordered' % k, pre + s.pc, z3.And(absz(wv[0]) <= absz(wv[1]), z3.Or(z3.And(wv[0] == W[0], wv[1] == W[1]), z3.And(wv[0] == W[1], wv[1] == W[0]))), check_vacuity=False)
        gram_is_reindexed(ctx, 'path%d.unitary' % k, z, Z)
    ctx.record('paths', PROVED if len(ps) == 2 else FAILED, 'B', 0, '%d paths' % len(ps))

# ------------------------------------------------------------------------------------------------ SVD
def svd_stub(U, S, Vh):
    def stub(it, args, this):
        m, s, u, vh = args
        for i in range(len(S)):
            s.set(i, None, S[i])
        for tgt, src in ((u, U), (vh, Vh)):
            if isinstance(tgt, Cell):
                tgt = tgt.v
            if tgt is not None:
                tgt.d = [list(r) for r in src.d]
        return None
    return stub

def make_svd(M, N, real_input):
    name = '%dx%d%s' % (M, N, '.real' if real_input else '.complex')
    @obligation('C12.fs_svd.%s' % name, fns=[(LA, 'fs_svd'), (LA, 'fs_svd_errbd'), (LA, 'reorder_svd_errbd'), (LA, 'svd_errbd'), (LA, 'svd_internal')])
    def ob(ctx):
        """requires (contract of svd_eigen): m = U diag(S) Vh, S_0 >= S_1 >= ... >= 0.  ensures: m == u^T diag(s) v, 0 <= s_0 <= s_1 <= ..., s is S reversed,
        u u^dagger and v v^dagger are re-indexings of the Gram matrices of U and Vh (hence the identity)"""
        K = min(M, N)
        U, Vh = cm('U', M, M), cm('V', N, N)
        S = [z3.Real('S%d' % i) for i in range(K)]
        pre = [S[i] >= S[i + 1] for i in range(K - 1)] + [S[K - 1] >= 0]
        mfull = mat_mul(mat_mul(U, diag(S, True)), Vh)
        it = Interp(ctx.w, mode='sym', stubs={'svd_eigen': svd_stub(U, S, Vh)}, assumptions=pre, div_sides=False)
        if real_input:
            # the real-matrix overload casts m to complex and forwards; a real m is the special case Im(m) = 0 of the identity proved here
            fds = [f for f in ctx.w.find('fs_svd', LA) if len(f.params) == 4 and len(f.template or []) == 3]
            targs = [DOUBLE, M, N]
            m_in = mfull.map(lambda x: x.re, cplx=False)
        else:
            fds = [f for f in ctx.w.find('fs_svd', LA) if len(f.params) == 4 and len(f.template or []) == 4]
            targs = [DOUBLE, CPLX, M, N]
            m_in = mfull
        if len(fds) != 1:
            ctx.record('extraction', ERROR, 'B', 0, '%d candidate overloads of fs_svd' % len(fds))
            return
        def thunk():
            s = Mat(K, 1, [[0] for _ in range(K)], 'array', False)
            u, v = cm('uu', M, M), cm('vv', N, N)
            cs, cu, cv = Cell(s), Cell(u), Cell(v)
            it.invoke(fds[0], [m_in, s, u, v], None, arg_cells=[Cell(m_in), cs, cu, cv], targs=targs)
            return (cs.v, cu.v, cv.v)
        ps = it.run_paths(thunk)
        ctx.merge_rules(it)
        for k, (sy, r, e) in enumerate(ps):
            s, u, v = r
            sv = [z3real(s.get(i)) for i in range(K)]
            mats_equal(ctx, 'path%d.reproduces' % k, mat_mul(mat_mul(u.T(), diag(sv, True)), v), mfull)
            ctx.prove('path%d.ordered' % k, pre + sy.pc, z3.And(*([sv[i] <= sv[i + 1] for i in range(K - 1)] + [sv[0] >= 0] + [sv[i] == S[K - 1 - i] for i in range(K)])), check_vacuity=False)
            gram_is_reindexed(ctx, 'path%d.u_unitary' % k, u, U)
            gram_is_reindexed(ctx, 'path%d.v_unitary' % k, v, Vh)
        ctx.record('paths', PROVED if len(ps) == 1 else FAILED, 'B', 0, '%d paths' % len(ps))
    return ob

make_svd(3, 3, False)
make_svd(2, 2, True)

# ------------------------------------------------------------------------------------------------ Takagi
def make_takagi(N, tier):
    @obligation('C12.fs_diagonalize_symmetric.%dx%d' % (N, N), tier=tier,
                fns=[(LA, 'fs_diagonalize_symmetric'), (LA, 'fs_diagonalize_symmetric_errbd'), (LA, 'reorder_diagonalize_symmetric_errbd'), (LA, 'diagonalize_symmetric_errbd'), (LA, 'Flip_sign::operator()')])
    def ob(ctx):
        """requires (contract of hermitian_eigen for a real symmetric matrix): m = Z diag(W) Z^T, Z real, W ascending.  ensures, for every sign pattern of W and
        every ordering of |W| (all paths): m == u^T diag(s) u with s >= 0 ascending, s = |W| rearranged, and u u^dagger a re-indexing of the Gram matrix of Z"""
        Z, W = rm('Z', N, N), [z3.Real('W%d' % i) for i in range(N)]
        asc = [W[i] <= W[i + 1] for i in range(N - 1)]
        m = mat_mul(mat_mul(Z, diag(W, False)), Z.T())
        mc = m.map(lambda x: Cx(x, 0), cplx=True)
        n_paths = 0
        # ascending W: the negative eigenvalues come first; the sign pattern is "the first k are negative"
        for kneg in range(N + 1):
            sign = [W[i] < 0 for i in range(kneg)] + [W[i] >= 0 for i in range(kneg, N)]
            pre = asc + sign
            it = Interp(ctx.w, mode='sym', stubs={'hermitian_eigen': herm_stub(Z, W)}, assumptions=pre, div_sides=False)
            fd = [f for f in ctx.w.find('fs_diagonalize_symmetric', LA) if len(f.params) == 3][0]
            def thunk():
                s = Mat(N, 1, [[0] for _ in range(N)], 'array', False)
                u = cm('uu', N, N)
                cs, cu = Cell(s), Cell(u)
                it.invoke(fd, [m, s, u], None, arg_cells=[Cell(m), cs, cu], targs=[DOUBLE, DOUBLE, N])
                return (cs.v, cu.v)
            ps = it.run_paths(thunk, max_paths=200)
            ctx.merge_rules(it)
            for k, (sy, r, e) in enumerate(ps):
                n_paths += 1
                s, u = r
                tag = 'neg%d.path%d' % (kneg, k)
                u2 = resolve_ites(u, pre + sy.pc)
                sv = [z3.simplify(z3real(x)) for x in resolve_ites(s, pre + sy.pc).elems()]
                mats_equal(ctx, tag + '.reproduces', mat_mul(mat_mul(u2.T(), diag(sv, True)), u2), mc)
                absW = [(-W[i] if i < kneg else W[i]) for i in range(N)]
                perm_ok = z3.Or(*[z3.And(*[sv[i] == absW[p[i]] for i in range(N)]) for p in itertools.permutations(range(N))])
                ctx.prove(tag + '.ordered', pre + sy.pc, z3.And(*([sv[i] <= sv[i + 1] for i in range(N - 1)] + [sv[0] >= 0, perm_ok])), check_vacuity=False)
                gram_is_reindexed(ctx, tag + '.unitary', u2, Z)
        ctx.record('paths', PROVED if n_paths >= N + 1 else FAILED, 'B', 0, '%d paths over %d sign patterns' % (n_paths, N + 1))
    return ob

make_takagi(2, 'quick')
make_takagi(4, 'quick')

# ------------------------------------------------------------------------------------------------ fidelity guard
GUARD_MAIN = r'''
#include <cstdio>
#include <complex>
#include <Eigen/Core>
#include "@REPO@/src/gm2_linalg.hpp"
using namespace gm2calc;
static unsigned long long st = 88172645463325252ULL;
static double rnd() { st ^= st << 13; st ^= st >> 7; st ^= st << 17; return (st >> 11) * (2.0 / 9007199254740992.0) - 1.0; }
template <class M> static void pr(const char* n, const M& m) { for (int i = 0; i < m.rows(); i++) for (int j = 0; j < m.cols(); j++) std::printf("%s %d %d %a %a\n", n, i, j, std::real(m(i, j)), std::imag(m(i, j))); }
int main() {
   for (int k = 0; k < 6; k++) {
      std::printf("CASE herm2 %d\n", k);
      { Eigen::Matrix<double,2,2> a; a << rnd(), rnd(), 0, rnd(); a(1,0) = a(0,1); if (k == 1) a << 1, 0, 0, 1; if (k == 2) a << -3, 0, 0, 2;
        Eigen::Array<double,2,1> w0, w; Eigen::Matrix<double,2,2> z0, z; hermitian_eigen<double,double,2>(a, w0, &z0); fs_diagonalize_hermitian<double,double,2>(a, w, z);
        pr("m", a); pr("W", w0.matrix()); pr("Z", z0); pr("w", w.matrix()); pr("z", z); }
      std::printf("CASE takagi4 %d\n", k);
      { Eigen::Matrix<double,4,4> a; for (int i = 0; i < 4; i++) for (int j = i; j < 4; j++) { a(i,j) = rnd() * (k == 3 ? 1e3 : 1); a(j,i) = a(i,j); }
        if (k == 4) { a.setZero(); a(0,0) = -2; a(1,1) = 2; a(2,2) = -1; a(3,3) = 0; }
        Eigen::Array<double,4,1> w0, s; Eigen::Matrix<double,4,4> z0; Eigen::Matrix<std::complex<double>,4,4> u; hermitian_eigen<double,double,4>(a, w0, &z0); fs_diagonalize_symmetric<double,double,4>(a, s, u);
        pr("m", a); pr("W", w0.matrix()); pr("Z", z0); pr("s", s.matrix()); pr("u", u); }
      std::printf("CASE svd3 %d\n", k);
      { Eigen::Matrix<std::complex<double>,3,3> a; for (int i = 0; i < 3; i++) for (int j = 0; j < 3; j++) a(i,j) = std::complex<double>(rnd(), k % 2 ? rnd() : 0.0);
        Eigen::Array<double,3,1> s0, s; Eigen::Matrix<std::complex<double>,3,3> u0, v0, u, v; svd_eigen<double,std::complex<double>,3,3>(a, s0, &u0, &v0); fs_svd<double,std::complex<double>,3,3>(a, s, u, v);
        pr("m", a); pr("S", s0.matrix()); pr("U", u0); pr("V", v0); pr("s", s.matrix()); pr("u", u); pr("v", v); }
   }
   return 0;
}
'''

def fidelity(tier, seed):
    """A-FRONT guard for the wrapper logic: Eigen's solver output for concrete matrices (random, identity, diagonal with negative/zero entries, hierarchical) is fed
    to the interpreter through the solver stubs; the wrappers' results must agree bit for bit with the real fs_* functions"""
    from gm2v import native
    from gm2v.ob import get_world
    import subprocess
    w = get_world(None)
    wd = native.workdir('fidelity_c12')
    try:
        exe = native.build_program(wd, GUARD_MAIN, [])
        r = subprocess.run([exe], capture_output=True, text=True, timeout=120)
        if r.returncode != 0:
            return {'ok': False, 'error': r.stderr[-400:]}
        cases, cur = [], None
        for ln in r.stdout.splitlines():
            t = ln.split()
            if t[0] == 'CASE':
                cur = {'kind': t[1], 'mats': {}}
                cases.append(cur)
            else:
                cur['mats'].setdefault(t[0], {})[(int(t[1]), int(t[2]))] = complex(float.fromhex(t[3]), float.fromhex(t[4]))
        def mk(d, cplx, kind='matrix'):
            r_ = 1 + max(i for i, j in d)
            c_ = 1 + max(j for i, j in d)
            return Mat(r_, c_, [[(Cx(d[(i, j)].real, d[(i, j)].imag) if cplx else d[(i, j)].real) for j in range(c_)] for i in range(r_)], kind, cplx)
        exact = total = 0
        bad = []
        for cs in cases:
            mm = cs['mats']
            if cs['kind'] == 'herm2':
                N = 2
                Z, W = mk(mm['Z'], False), [mm['W'][(i, 0)].real for i in range(N)]
                it = Interp(w, mode='float', stubs={'hermitian_eigen': herm_stub(Z, W)})
                fd = [f for f in w.find('fs_diagonalize_hermitian', LA) if len(f.params) == 3][0]
                m = mk(mm['m'], False)
                cw, cz = Cell(Mat(N, 1, [[0.0] for _ in range(N)], 'array', False)), Cell(mk(mm['Z'], False))
                it.run_single(lambda: it.invoke(fd, [m, cw.v, cz.v], None, arg_cells=[Cell(m), cw, cz], targs=[DOUBLE, DOUBLE, N]))
                outs = [('w', cw.v, False), ('z', cz.v, False)]
            elif cs['kind'] == 'takagi4':
                N = 4
                Z, W = mk(mm['Z'], False), [mm['W'][(i, 0)].real for i in range(N)]
                it = Interp(w, mode='float', stubs={'hermitian_eigen': herm_stub(Z, W)})
                fd = [f for f in w.find('fs_diagonalize_symmetric', LA) if len(f.params) == 3][0]
                m = mk(mm['m'], False)
                cs_, cu = Cell(Mat(N, 1, [[0.0] for _ in range(N)], 'array', False)), Cell(mk(mm['u'], True))
                it.run_single(lambda: it.invoke(fd, [m, cs_.v, cu.v], None, arg_cells=[Cell(m), cs_, cu], targs=[DOUBLE, DOUBLE, N]))
                outs = [('s', cs_.v, False), ('u', cu.v, True)]
            else:
                N = 3
                U, Vh, S = mk(mm['U'], True), mk(mm['V'], True), [mm['S'][(i, 0)].real for i in range(N)]
                it = Interp(w, mode='float', stubs={'svd_eigen': svd_stub(U, S, Vh)})
                fd = [f for f in w.find('fs_svd', LA) if len(f.params) == 4 and len(f.template or []) == 4][0]
                m = mk(mm['m'], True)
                cs_, cu, cv = Cell(Mat(N, 1, [[0.0] for _ in range(N)], 'array', False)), Cell(mk(mm['u'], True)), Cell(mk(mm['v'], True))
                it.run_single(lambda: it.invoke(fd, [m, cs_.v, cu.v, cv.v], None, arg_cells=[Cell(m), cs_, cu, cv], targs=[DOUBLE, CPLX, N, N]))
                outs = [('s', cs_.v, False), ('u', cu.v, True), ('v', cv.v, True)]
            for nm, M_, cplx in outs:
                for (i, j), want in mm[nm].items():
                    g = M_.d[i][j]
                    got = complex(float(g.re), float(g.im)) if isinstance(g, Cx) else complex(float(g), 0.0)
                    total += 1
                    # the sign of a zero produced by real x complex products is not compared (x * (0 + i) is evaluated entrywise by Eigen)
                    if (got.real == want.real or native.same_double(got.real, want.real)) and (got.imag == want.imag or native.same_double(got.imag, want.imag)):
                        exact += 1
                    else:
                        bad.append({'case': cs['kind'], 'entry': '%s(%d,%d)' % (nm, i, j), 'interpreter': repr(got), 'native': repr(want)})
        return {'ok': not bad and total > 0, 'cases': len(cases), 'compared_bit_exact': exact, 'entries': total, 'mismatches': bad[:5]}
    finally:
        native.cleanup(wd)

# ------------------------------------------------------------------------------------------------ error bounds (disna)
EPS_DBL = Fr(1, 2**52)

def _errbd_claims(ctx, tag, pre_pc, scalar_bound, vector_bounds, norm):
    """non-negative, finite (vector bounds <= 1: EPS ||m|| / max(gap, EPS ||m||, SAFMIN)), and the scalar bound is the documented EPS ||m||_2"""
    ctx.prove(tag + '.value_bound_is_eps_norm', pre_pc, z3real(scalar_bound) == to_z3(EPS_DBL) * norm, check_vacuity=False)
    ctx.prove(tag + '.value_bound_nonnegative', pre_pc, z3real(scalar_bound) >= 0, check_vacuity=False)
    for name, vec in vector_bounds:
        for i in range(vec.r):
            e = z3real(vec.get(i))
            ctx.prove('%s.%s[%d].in_[0,1]' % (tag, name, i), pre_pc, z3.And(e >= 0, e <= 1), check_vacuity=False, tactics=('default', 'nlsat'))

def make_herm_errbd(N):
    @obligation('C12.errbd.fs_diagonalize_hermitian.%dx%d' % (N, N), fns=[(LA, 'fs_diagonalize_hermitian'), (LA, 'fs_diagonalize_hermitian_errbd'), (LA, 'diagonalize_hermitian_errbd'), (LA, 'disna')], replay=lambda m_, wd: errbd_replay(m_, wd))
    def ob(ctx):
        """requires (contract of hermitian_eigen): W ascending (any signs, ties, zeros).  ensures on every path: w_errbd == EPS max_i |W_i| >= 0 (the documented EPSMCH ||m||_2),
        every z_errbd(i) is in [0, 1] -- finite and non-negative: the real disna (LAPACK DDISNA port) keeps every reciprocal condition number >= max(EPS ||m||, SAFMIN) > 0"""
        Z, W = rm('Z', N, N), [z3.Real('W%d' % i) for i in range(N)]
        pre = [W[i] <= W[i + 1] for i in range(N - 1)]
        m = mat_mul(mat_mul(Z, diag(W, False)), Z.T())
        it = Interp(ctx.w, mode='sym', stubs={'hermitian_eigen': herm_stub(Z, W)}, assumptions=pre, div_sides=True)
        fds = [f for f in ctx.w.find('fs_diagonalize_hermitian', LA) if len(f.params) == 5]
        if len(fds) != 1:
            ctx.record('extraction', ERROR, 'B', 0, '%d overloads of fs_diagonalize_hermitian with error bounds' % len(fds))
            return
        def thunk():
            w = Mat(N, 1, [[0] for _ in range(N)], 'array', False)
            z = rm('zz', N, N)
            ze = Mat(N, 1, [[0] for _ in range(N)], 'array', False)
            cw, cz, ce, cze = Cell(w), Cell(z), Cell(0), Cell(ze)
            it.invoke(fds[0], [m, w, z, 0, ze], None, arg_cells=[Cell(m), cw, cz, ce, cze], targs=[DOUBLE, DOUBLE, N])
            return (ce.v, cze.v)
        ps = it.run_paths(thunk, max_paths=400)
        ctx.merge_rules(it)
        absz = lambda t: z3.If(t >= 0, t, -t)
        norm = absz(W[0])
        for i in range(1, N):
            norm = z3.If(absz(W[i]) > norm, absz(W[i]), norm)
        for k, (s, r, e) in enumerate(ps):
            if e is not None:
                ctx.record('path%d' % k, FAILED, 'B', 0, 'exception %s' % e)
                continue
            _errbd_claims(ctx, 'path%d' % k, pre + list(s.pc), r[0], [('z_errbd', r[1])], norm)
            ctx.sides('path%d' % k, s, pre)
        ctx.record('paths', PROVED if ps else FAILED, 'B', 0, '%d paths' % len(ps))
    return ob

make_herm_errbd(2)
make_herm_errbd(3)

def make_svd_errbd(M, N):
    @obligation('C12.errbd.fs_svd.%dx%d' % (M, N), fns=[(LA, 'fs_svd'), (LA, 'fs_svd_errbd'), (LA, 'reorder_svd_errbd'), (LA, 'svd_errbd'), (LA, 'disna')], replay=lambda m_, wd: errbd_replay(m_, wd))
    def ob(ctx):
        """requires (contract of svd_eigen): S_0 >= S_1 >= ... >= 0.  ensures: s_errbd == EPS S_0 >= 0, every u_errbd(i), v_errbd(i) in [0, 1] (finite, non-negative)"""
        K = min(M, N)
        U, Vh = cm('U', M, M), cm('V', N, N)
        S = [z3.Real('S%d' % i) for i in range(K)]
        pre = [S[i] >= S[i + 1] for i in range(K - 1)] + [S[K - 1] >= 0]
        mfull = mat_mul(mat_mul(U, diag(S, True)), Vh)
        it = Interp(ctx.w, mode='sym', stubs={'svd_eigen': svd_stub(U, S, Vh)}, assumptions=pre, div_sides=True)
        fds = [f for f in ctx.w.find('fs_svd', LA) if len(f.params) == 7 and len(f.template or []) == 4]
        if len(fds) != 1:
            ctx.record('extraction', ERROR, 'B', 0, '%d overloads of fs_svd with error bounds' % len(fds))
            return
        def thunk():
            s = Mat(K, 1, [[0] for _ in range(K)], 'array', False)
            u, v = cm('uu', M, M), cm('vv', N, N)
            ue, ve = Mat(K, 1, [[0] for _ in range(K)], 'array', False), Mat(K, 1, [[0] for _ in range(K)], 'array', False)
            cells = [Cell(mfull), Cell(s), Cell(u), Cell(v), Cell(0), Cell(ue), Cell(ve)]
            it.invoke(fds[0], [c.v for c in cells], None, arg_cells=cells, targs=[DOUBLE, CPLX, M, N])
            return (cells[4].v, cells[5].v, cells[6].v)
        ps = it.run_paths(thunk, max_paths=400)
        ctx.merge_rules(it)
        for k, (sy, r, e) in enumerate(ps):
            if e is not None:
                ctx.record('path%d' % k, FAILED, 'B', 0, 'exception %s' % e)
                continue
            _errbd_claims(ctx, 'path%d' % k, pre + list(sy.pc), r[0], [('u_errbd', r[1]), ('v_errbd', r[2])], S[0])
            ctx.sides('path%d' % k, sy, pre)
        ctx.record('paths', PROVED if ps else FAILED, 'B', 0, '%d paths' % len(ps))
    return ob

make_svd_errbd(2, 2)
make_svd_errbd(3, 3)

def make_takagi_errbd(N):
    @obligation('C12.errbd.fs_diagonalize_symmetric.%dx%d' % (N, N), fns=[(LA, 'fs_diagonalize_symmetric'), (LA, 'fs_diagonalize_symmetric_errbd'), (LA, 'reorder_diagonalize_symmetric_errbd'),
                                                                            (LA, 'diagonalize_symmetric_errbd'), (LA, 'diagonalize_hermitian_errbd'), (LA, 'disna')], replay=lambda m_, wd: errbd_replay(m_, wd))
    def ob(ctx):
        """requires (contract of hermitian_eigen for a real symmetric matrix): W ascending, any sign pattern.  ensures on every path: s_errbd == EPS max_i |W_i| >= 0 and every
        u_errbd(i) in [0, 1]"""
        Z, W = rm('Z', N, N), [z3.Real('W%d' % i) for i in range(N)]
        pre = [W[i] <= W[i + 1] for i in range(N - 1)]
        m = mat_mul(mat_mul(Z, diag(W, False)), Z.T())
        it = Interp(ctx.w, mode='sym', stubs={'hermitian_eigen': herm_stub(Z, W)}, assumptions=pre, div_sides=True)
        fds = [f for f in ctx.w.find('fs_diagonalize_symmetric', LA) if len(f.params) == 5]
        fds = [f for f in fds if 'complex' not in str(f.params[0].type)] or fds
        if len(fds) != 1:
            ctx.record('extraction', ERROR, 'B', 0, '%d real overloads of fs_diagonalize_symmetric with error bounds' % len(fds))
            return
        def thunk():
            s = Mat(N, 1, [[0] for _ in range(N)], 'array', False)
            u = cm('uu', N, N)
            ue = Mat(N, 1, [[0] for _ in range(N)], 'array', False)
            cells = [Cell(m), Cell(s), Cell(u), Cell(0), Cell(ue)]
            it.invoke(fds[0], [c.v for c in cells], None, arg_cells=cells, targs=[DOUBLE, DOUBLE, N])
            return (cells[3].v, cells[4].v)
        ps = it.run_paths(thunk, max_paths=2000)
        ctx.merge_rules(it)
        absz = lambda t: z3.If(t >= 0, t, -t)
        norm = absz(W[0])
        for i in range(1, N):
            norm = z3.If(absz(W[i]) > norm, absz(W[i]), norm)
        for k, (sy, r, e) in enumerate(ps):
            if e is not None:
                ctx.record('path%d' % k, FAILED, 'B', 0, 'exception %s' % e)
                continue
            _errbd_claims(ctx, 'path%d' % k, pre + list(sy.pc), r[0], [('u_errbd', r[1])], norm)
            ctx.sides('path%d' % k, sy, pre)
        ctx.record('paths', PROVED if ps else FAILED, 'B', 0, '%d paths' % len(ps))
    return ob

make_takagi_errbd(2)

ERRBD_REPLAY = r'''
#include "gm2_linalg.hpp"
#include <cstdio>
#include <cstdlib>
#include <cmath>
#include <limits>
// error bounds of the REAL decomposition routines for matrices with prescribed eigen-/singular values (a fixed rotation of a diagonal matrix),
// plus a fixed list of sign patterns: bounds must be finite, >= 0, vector bounds <= 1 (+rounding), value bound == EPS * ||m||_2 (to 1e-10 relative)
template <int N> static Eigen::Matrix<double,N,N> rot() {
   Eigen::Matrix<double,N,N> R = Eigen::Matrix<double,N,N>::Identity();
   for (int i = 0; i < N; i++) for (int j = i + 1; j < N; j++) {
      Eigen::Matrix<double,N,N> G = Eigen::Matrix<double,N,N>::Identity();
      const double t = 0.3 + 0.5 * i + 0.2 * j; G(i,i) = std::cos(t); G(j,j) = std::cos(t); G(i,j) = -std::sin(t); G(j,i) = std::sin(t);
      R = R * G;
   }
   return R;
}
static int bad = 0;
static void chk(const char* what, bool ok, double v) { if (!ok) { bad++; std::printf("BAD %s = %.17g\n", what, v); } }
template <int N> static void herm(const double* W) {
   Eigen::Matrix<double,N,N> D = Eigen::Matrix<double,N,N>::Zero(); double nrm = 0;
   for (int i = 0; i < N; i++) { D(i,i) = W[i]; nrm = std::fmax(nrm, std::fabs(W[i])); }
   const Eigen::Matrix<double,N,N> m = rot<N>() * D * rot<N>().transpose();
   Eigen::Array<double,N,1> w, ze; Eigen::Matrix<double,N,N> z; double we = -1;
   gm2calc::fs_diagonalize_hermitian<double,double,N>(m, w, z, we, ze);
   const double eps = std::numeric_limits<double>::epsilon();
   chk("w_errbd finite and >= 0", std::isfinite(we) && we >= 0, we);
   chk("w_errbd == EPS ||m||", std::fabs(we - eps * nrm) <= 1e-10 * eps * nrm + 1e-300, we);
   for (int i = 0; i < N; i++) chk("z_errbd(i) in [0,1]", std::isfinite(ze(i)) && ze(i) >= 0 && ze(i) <= 1 + 1e-10, ze(i));
   Eigen::Array<double,N,1> s, ue; Eigen::Matrix<std::complex<double>,N,N> u; double se = -1;
   gm2calc::fs_diagonalize_symmetric<double,double,N>(m, s, u, se, ue);
   chk("s_errbd (Takagi) finite and >= 0", std::isfinite(se) && se >= 0, se);
   chk("s_errbd (Takagi) == EPS ||m||", std::fabs(se - eps * nrm) <= 1e-10 * eps * nrm + 1e-300, se);
   for (int i = 0; i < N; i++) chk("u_errbd(i) (Takagi) in [0,1]", std::isfinite(ue(i)) && ue(i) >= 0 && ue(i) <= 1 + 1e-10, ue(i));
}
template <int N> static void svd(const double* S) {
   Eigen::Matrix<std::complex<double>,N,N> D = Eigen::Matrix<std::complex<double>,N,N>::Zero(); double nrm = 0;
   for (int i = 0; i < N; i++) { D(i,i) = S[i]; nrm = std::fmax(nrm, std::fabs(S[i])); }
   const Eigen::Matrix<std::complex<double>,N,N> m = rot<N>().template cast<std::complex<double> >() * D * rot<N>().transpose().template cast<std::complex<double> >() * std::complex<double>(0.6, 0.8);
   Eigen::Array<double,N,1> s, ue, ve; Eigen::Matrix<std::complex<double>,N,N> u, v; double se = -1;
   gm2calc::fs_svd<double,std::complex<double>,N,N>(m, s, u, v, se, ue, ve);
   const double eps = std::numeric_limits<double>::epsilon();
   chk("s_errbd finite and >= 0", std::isfinite(se) && se >= 0, se);
   chk("s_errbd == EPS ||m||", std::fabs(se - eps * nrm) <= 1e-10 * eps * nrm + 1e-300, se);
   for (int i = 0; i < N; i++) { chk("u_errbd(i) in [0,1]", std::isfinite(ue(i)) && ue(i) >= 0 && ue(i) <= 1 + 1e-10, ue(i)); chk("v_errbd(i) in [0,1]", std::isfinite(ve(i)) && ve(i) >= 0 && ve(i) <= 1 + 1e-10, ve(i)); }
}
int main(int argc, char** argv) {
   double v[4] = {0, 0, 0, 0};
   for (int i = 0; i < 4 && i + 1 < argc; i++) v[i] = std::atof(argv[i + 1]);
   if (argc > 1) { herm<2>(v); herm<3>(v); double a[3] = {std::fabs(v[0]), std::fabs(v[1]), std::fabs(v[2])}; svd<2>(a); svd<3>(a); }
   const double pats[][3] = {{-3, -1, -0.5}, {-3, -1, 2}, {-2, 0, 0}, {0, 0, 0}, {1, 1, 1}, {-1e-8, 2, 5}, {-7, -7, 1}, {1e-12, 1, 1e6}, {-1e6, -1, -1e-12}, {-5, 1, 3}};
   for (auto& p : pats) { herm<2>(p); herm<3>(p); double a[3] = {std::fabs(p[0]), std::fabs(p[1]), std::fabs(p[2])}; svd<2>(a); svd<3>(a); }
   std::printf("%d error bounds out of contract\n", bad);
   return bad ? 1 : 0;
}
'''

def errbd_replay(model, wd):
    from gm2v import native
    import subprocess
    f = (model or {}).get('_float', {})
    vals = [f.get('W%d' % i, f.get('S%d' % i)) for i in range(3)]
    args = ['%r' % float(v) for v in vals if v is not None]
    repo = native.REPO
    src = os.path.join(wd, 'errbd.cpp')
    open(src, 'w').write(ERRBD_REPLAY)
    exe = os.path.join(wd, 'errbd.x')
    r = subprocess.run(['g++'] + native.CXXFLAGS + native.includes(repo) + [src, '-o', exe], capture_output=True, text=True)
    if r.returncode != 0:
        return None, 'replay build failed: ' + r.stderr[-800:]
    r = subprocess.run([exe] + args, capture_output=True, text=True, timeout=120)
    return r.returncode == 1, ('arguments %s: ' % args) + r.stdout.strip()[-1500:]
import os
