"""C12 -- matrix decompositions satisfy their documented factorisation contracts: the part that contracts decide.

src/gm2_linalg.hpp wraps two Eigen solvers (JacobiSVD in svd_eigen, SelfAdjointEigenSolver in hermitian_eigen) in layers that reverse, permute,
transpose and re-phase their output into the conventions the models use.  Eigen's iterative solvers are outside any verifier here; their
documented results are ASSUMED (this is what remains of A-LINALG):
    svd_eigen(m; s, u, vh)        : m = u diag(s) vh, u and vh unitary, s_0 >= s_1 >= ... >= 0
    hermitian_eigen(m; w, z)      : m = z diag(w) z^dagger, z unitary (real orthogonal for real m), w_0 <= w_1 <= ...
Since every (hermitian) matrix has such a decomposition, quantifying over all (u, s, vh) resp. (z, w) with these properties covers every input
matrix, including rank-deficient, diagonal and exactly degenerate ones (ties in the ordering are explored as separate paths).
UNDER these two contracts the real wrapper code is executed symbolically and proved, for the instantiations the models use:
    fs_diagonalize_hermitian<double,double,2>   m == z^dagger diag(w) z,  |w_0| <= |w_1|,               z z^dagger is a re-indexing of the solver's Gram matrix
    fs_svd<double,complex,3,3>, <double,2,2>    m == u^T diag(s) v,       0 <= s_0 <= s_1 <= ...,        u, v: same
    fs_diagonalize_symmetric<double,double,4>   m == u^T diag(s) u,       0 <= s_0 <= ... (Takagi; phase i for negative eigenvalues), u: same
Reproduction is a ring identity in the solver's output; "unitary" is shown structurally: the Gram matrix of each returned factor equals a
simultaneous row/column re-indexing (possibly transposed/conjugated) of the Gram matrix of the solver's factor, which is the identity by assumption.
NOT decided: Eigen's solvers themselves, the error-bound outputs (disna), floating-point accuracy.
"""
import itertools, z3
from fractions import Fraction as Fr
from gm2v.ob import obligation, PROVED, FAILED, UNDECIDED, ERROR
from gm2v.interp import Interp, Cell
from gm2v.values import Mat, Cx, to_z3, z3real, is_sym, mat_mul
from gm2v.cxx import Type
from gm2v import ring

LA = 'src/gm2_linalg.hpp'
DOUBLE = Type('double', None, False, False, 0)
CPLX = Type('std::complex', [DOUBLE], False, False, 0)

def rm(name, r, c, kind='matrix'):
    return Mat(r, c, [[z3.Real('%s%d%d' % (name, i, j)) for j in range(c)] for i in range(r)], kind, False)

def cm(name, r, c):
    return Mat(r, c, [[Cx(z3.Real('%s%d%dr' % (name, i, j)), z3.Real('%s%d%di' % (name, i, j))) for j in range(c)] for i in range(r)], 'matrix', True)

def conj(x):
    return Cx(x.re, -z3real(x.im)) if isinstance(x, Cx) else x

def dagger(M):
    return M.T().map(conj) if M.cplx else M.T()

def diag(vals, cplx):
    n = len(vals)
    z = Cx(0, 0) if cplx else 0
    return Mat(n, n, [[(Cx(vals[i], 0) if cplx else vals[i]) if i == j else z for j in range(n)] for i in range(n)], 'matrix', cplx)

def parts(x):
    return (z3real(x.re), z3real(x.im)) if isinstance(x, Cx) else (z3real(x), z3.RealVal(0))

def mats_equal(ctx, tag, A, B):
    pairs = []
    for i in range(A.r):
        for j in range(A.c):
            a, b = parts(A.d[i][j]), parts(B.d[i][j])
            pairs += [(a[0], b[0]), (a[1], b[1])]
    return ctx.prove_ring(tag, pairs)

def gram_is_reindexed(ctx, tag, X, base):
    """X X^dagger equals, entry by entry, P^T G P (or its transpose/conjugate; off-diagonal entries up to a phase 1, -1, i, -i) for one of the Gram
    matrices G of the solver's factor `base': G = 1 then implies X X^dagger = 1"""
    n = X.r
    GX = mat_mul(X, dagger(X))
    cands = [mat_mul(dagger(base), base), mat_mul(base, dagger(base))]
    cands += [c.T() for c in cands]
    def same(a, b, diagonal=True):
        # off the diagonal a unimodular phase (1, -1, i, -i) is allowed: G = 1 still forces the entry to vanish
        (ar, ai), (br, bi) = parts(a), parts(b)
        if _req(ar, br) and _req(ai, bi):
            return True
        if diagonal:
            return False
        return (_req(ar, -br) and _req(ai, -bi)) or (_req(ar, -bi) and _req(ai, br)) or (_req(ar, bi) and _req(ai, -br))
    for G in cands:
        for conjg in (False, True):
            for perm in itertools.permutations(range(n)):
                ok = True
                for i in range(n):
                    for j in range(n):
                        g = G.d[perm[i]][perm[j]]
                        if conjg:
                            g = conj(g)
                        if not same(GX.d[i][j], g, diagonal=(i == j)):
                            ok = False
                            break
                    if not ok:
                        break
                if ok:
                    ctx.record(tag, PROVED, 'B', 0, 'X X^dagger is the Gram matrix of the solver factor re-indexed by %s%s' % (perm, ' (conjugated)' if conjg else ''),
                               solver='ring normalisation')
                    return True
    ctx.record(tag, FAILED, 'B', 0, 'the Gram matrix of the returned factor is not a re-indexing of the Gram matrix of the solver factor: unitarity is not preserved')
    return False

def _req(a, b):
    try:
        return ring.identity(z3real(a), z3real(b))
    except ring.NotRing:
        return False

def conds_of(t):
    out = []
    def walk(x):
        if z3.is_app(x) and x.decl().kind() == z3.Z3_OP_ITE:
            c = x.arg(0)
            while z3.is_not(c):
                c = c.arg(0)
            if not any(z3.eq(c, o) for o in out):
                out.append(c)
        for ch in x.children():
            walk(ch)
    walk(t)
    return out

def resolve_ites(M, assumptions):
    """replace every If(c, a, b) in the entries of M by the branch that the assumptions select (the assumptions fix the sign pattern)"""
    def fix(e):
        e = z3real(e)
        cs = conds_of(e)
        subs = []
        for c in cs:
            sv = z3.Solver()
            sv.add(*assumptions)
            sv.push(); sv.add(z3.Not(c)); t = sv.check() == z3.unsat; sv.pop()
            sv.push(); sv.add(c); f = sv.check() == z3.unsat; sv.pop()
            if t:
                subs.append((c, z3.BoolVal(True)))
            elif f:
                subs.append((c, z3.BoolVal(False)))
        return z3.simplify(z3.substitute(e, *subs)) if subs else e
    return M.map(lambda x: Cx(fix(x.re), fix(x.im)) if isinstance(x, Cx) else fix(x))

# ------------------------------------------------------------------------------------------------ hermitian
def herm_stub(Z, W):
    def stub(it, args, this):
        m, w, z = args[0], args[1], args[2]
        for i in range(len(W)):
            w.set(i, None, W[i])
        if isinstance(z, Cell):
            z = z.v
        if z is not None:
            z.d = [list(r) for r in Z.d]
        return None
    return stub

@obligation('C12.fs_diagonalize_hermitian.2x2', fns=[(LA, 'fs_diagonalize_hermitian'), (LA, 'fs_diagonalize_hermitian_errbd'), (LA, 'diagonalize_hermitian_errbd'), (LA, 'diagonalize_hermitian_internal')])
def _(ctx):
    """requires (contract of hermitian_eigen): m = Z diag(W) Z^T, W_0 <= W_1.  ensures on every path (both orderings of |W_0|, |W_1|, ties included):
    m == z^T diag(w) z, |w_0| <= |w_1|, {w} = {W}, and z z^T is a re-indexing of Z^T Z / Z Z^T (hence the identity)"""
    N = 2
    Z, W = rm('Z', N, N), [z3.Real('W%d' % i) for i in range(N)]
    pre = [W[0] <= W[1]]
    m = mat_mul(mat_mul(Z, diag(W, False)), Z.T())
    it = Interp(ctx.w, mode='sym', stubs={'hermitian_eigen': herm_stub(Z, W)}, assumptions=pre, div_sides=False)
    fd = [f for f in ctx.w.find('fs_diagonalize_hermitian', LA) if len(f.params) == 3][0]
    def thunk():
        w = Mat(N, 1, [[0] for _ in range(N)], 'array', False)
        z = rm('zz', N, N)
        cw, cz = Cell(w), Cell(z)
        it.invoke(fd, [m, w, z], None, arg_cells=[Cell(m), cw, cz], targs=[DOUBLE, DOUBLE, N])
        return (cw.v, cz.v)
    ps = it.run_paths(thunk)
    ctx.merge_rules(it)
    absz = lambda t: z3.If(t >= 0, t, -t)
    for k, (s, r, e) in enumerate(ps):
        w, z = r
        wv = [z3real(w.get(i)) for i in range(N)]
        mats_equal(ctx, 'path%d.reproduces' % k, mat_mul(mat_mul(z.T(), diag(wv, False)), z), m)
        ctx.prove('path%d.ordered' % k, pre + s.pc, z3.And(absz(wv[0]) <= absz(wv[1]), z3.Or(z3.And(wv[0] == W[0], wv[1] == W[1]), z3.And(wv[0] == W[1], wv[1] == W[0]))), check_vacuity=False)
        gram_is_reindexed(ctx, 'path%d.unitary' % k, z, Z)
    ctx.record('paths', PROVED if len(ps) == 2 else FAILED, 'B', 0, '%d paths' % len(ps))

# ------------------------------------------------------------------------------------------------ SVD
def svd_stub(U, S, Vh):
    def stub(it, args, this):
        m, s, u, vh = args
        for i in range(len(S)):
            s.set(i, None, S[i])
        for tgt, src in ((u, U), (vh, Vh)):
            if isinstance(tgt, Cell):
                tgt = tgt.v
            if tgt is not None:
                tgt.d = [list(r) for r in src.d]
        return None
    return stub

def make_svd(M, N, real_input):
    name = '%dx%d%s' % (M, N, '.real' if real_input else '.complex')
    @obligation('C12.fs_svd.%s' % name, fns=[(LA, 'fs_svd'), (LA, 'fs_svd_errbd'), (LA, 'reorder_svd_errbd'), (LA, 'svd_errbd'), (LA, 'svd_internal')])
    def ob(ctx):
        """requires (contract of svd_eigen): m = U diag(S) Vh, S_0 >= S_1 >= ... >= 0.  ensures: m == u^T diag(s) v, 0 <= s_0 <= s_1 <= ..., s is S reversed,
        u u^dagger and v v^dagger are re-indexings of the Gram matrices of U and Vh (hence the identity)"""
        K = min(M, N)
        U, Vh = cm('U', M, M), cm('V', N, N)
        S = [z3.Real('S%d' % i) for i in range(K)]
        pre = [S[i] >= S[i + 1] for i in range(K - 1)] + [S[K - 1] >= 0]
        mfull = mat_mul(mat_mul(U, diag(S, True)), Vh)
        it = Interp(ctx.w, mode='sym', stubs={'svd_eigen': svd_stub(U, S, Vh)}, assumptions=pre, div_sides=False)
        if real_input:
            # the real-matrix overload casts m to complex and forwards; a real m is the special case Im(m) = 0 of the identity proved here
            fds = [f for f in ctx.w.find('fs_svd', LA) if len(f.params) == 4 and len(f.template or []) == 3]
            targs = [DOUBLE, M, N]
            m_in = mfull.map(lambda x: x.re, cplx=False)
        else:
            fds = [f for f in ctx.w.find('fs_svd', LA) if len(f.params) == 4 and len(f.template or []) == 4]
            targs = [DOUBLE, CPLX, M, N]
            m_in = mfull
        if len(fds) != 1:
            ctx.record('extraction', ERROR, 'B', 0, '%d candidate overloads of fs_svd' % len(fds))
            return
        def thunk():
            s = Mat(K, 1, [[0] for _ in range(K)], 'array', False)
            u, v = cm('uu', M, M), cm('vv', N, N)
            cs, cu, cv = Cell(s), Cell(u), Cell(v)
            it.invoke(fds[0], [m_in, s, u, v], None, arg_cells=[Cell(m_in), cs, cu, cv], targs=targs)
            return (cs.v, cu.v, cv.v)
        ps = it.run_paths(thunk)
        ctx.merge_rules(it)
        for k, (sy, r, e) in enumerate(ps):
            s, u, v = r
            sv = [z3real(s.get(i)) for i in range(K)]
            mats_equal(ctx, 'path%d.reproduces' % k, mat_mul(mat_mul(u.T(), diag(sv, True)), v), mfull)
            ctx.prove('path%d.ordered' % k, pre + sy.pc, z3.And(*([sv[i] <= sv[i + 1] for i in range(K - 1)] + [sv[0] >= 0] + [sv[i] == S[K - 1 - i] for i in range(K)])), check_vacuity=False)
            gram_is_reindexed(ctx, 'path%d.u_unitary' % k, u, U)
            gram_is_reindexed(ctx, 'path%d.v_unitary' % k, v, Vh)
        ctx.record('paths', PROVED if len(ps) == 1 else FAILED, 'B', 0, '%d paths' % len(ps))
    return ob

make_svd(3, 3, False)
make_svd(2, 2, True)

# ------------------------------------------------------------------------------------------------ Takagi
def make_takagi(N, tier):
    @obligation('C12.fs_diagonalize_symmetric.%dx%d' % (N, N), tier=tier,
                fns=[(LA, 'fs_diagonalize_symmetric'), (LA, 'fs_diagonalize_symmetric_errbd'), (LA, 'reorder_diagonalize_symmetric_errbd'), (LA, 'diagonalize_symmetric_errbd'), (LA, 'Flip_sign::operator()')])
    def ob(ctx):
        """requires (contract of hermitian_eigen for a real symmetric matrix): m = Z diag(W) Z^T, Z real, W ascending.  ensures, for every sign pattern of W and
        every ordering of |W| (all paths): m == u^T diag(s) u with s >= 0 ascending, s = |W| rearranged, and u u^dagger a re-indexing of the Gram matrix of Z"""
        Z, W = rm('Z', N, N), [z3.Real('W%d' % i) for i in range(N)]
        asc = [W[i] <= W[i + 1] for i in range(N - 1)]
        m = mat_mul(mat_mul(Z, diag(W, False)), Z.T())
        mc = m.map(lambda x: Cx(x, 0), cplx=True)
        n_paths = 0
        # ascending W: the negative eigenvalues come first; the sign pattern is "the first k are negative"
        for kneg in range(N + 1):
            sign = [W[i] < 0 for i in range(kneg)] + [W[i] >= 0 for i in range(kneg, N)]
            pre = asc + sign
            it = Interp(ctx.w, mode='sym', stubs={'hermitian_eigen': herm_stub(Z, W)}, assumptions=pre, div_sides=False)
            fd = [f for f in ctx.w.find('fs_diagonalize_symmetric', LA) if len(f.params) == 3][0]
            def thunk():
                s = Mat(N, 1, [[0] for _ in range(N)], 'array', False)
                u = cm('uu', N, N)
                cs, cu = Cell(s), Cell(u)
                it.invoke(fd, [m, s, u], None, arg_cells=[Cell(m), cs, cu], targs=[DOUBLE, DOUBLE, N])
                return (cs.v, cu.v)
            ps = it.run_paths(thunk, max_paths=200)
            ctx.merge_rules(it)
            for k, (sy, r, e) in enumerate(ps):
                n_paths += 1
                s, u = r
                tag = 'neg%d.path%d' % (kneg, k)
                u2 = resolve_ites(u, pre + sy.pc)
                sv = [z3.simplify(z3real(x)) for x in resolve_ites(s, pre + sy.pc).elems()]
                mats_equal(ctx, tag + '.reproduces', mat_mul(mat_mul(u2.T(), diag(sv, True)), u2), mc)
                absW = [(-W[i] if i < kneg else W[i]) for i in range(N)]
                perm_ok = z3.Or(*[z3.And(*[sv[i] == absW[p[i]] for i in range(N)]) for p in itertools.permutations(range(N))])
                ctx.prove(tag + '.ordered', pre + sy.pc, z3.And(*([sv[i] <= sv[i + 1] for i in range(N - 1)] + [sv[0] >= 0, perm_ok])), check_vacuity=False)
                gram_is_reindexed(ctx, tag + '.unitary', u2, Z)
        ctx.record('paths', PROVED if n_paths >= N + 1 else FAILED, 'B', 0, '%d paths over %d sign patterns' % (n_paths, N + 1))
    return ob

make_takagi(2, 'quick')
make_takagi(4, 'quick')

# ------------------------------------------------------------------------------------------------ fidelity guard
GUARD_MAIN = r'''
#include <cstdio>
#include <complex>
#include <Eigen/Core>
#include "@REPO@/src/gm2_linalg.hpp"
using namespace gm2calc;
static unsigned long long st = 88172645463325252ULL;
static double rnd() { st ^= st << 13; st ^= st >> 7; st ^= st << 17; return (st >> 11) * (2.0 / 9007199254740992.0) - 1.0; }
template <class M> static void pr(const char* n, const M& m) { for (int i = 0; i < m.rows(); i++) for (int j = 0; j < m.cols(); j++) std::printf("%s %d %d %a %a\n", n, i, j, std::real(m(i, j)), std::imag(m(i, j))); }
int main() {
   for (int k = 0; k < 6; k++) {
      std::printf("CASE herm2 %d\n", k);
      { Eigen::Matrix<double,2,2> a; a << rnd(), rnd(), 0, rnd(); a(1,0) = a(0,1); if (k == 1) a << 1, 0, 0, 1; if (k == 2) a << -3, 0, 0, 2;
        Eigen::Array<double,2,1> w0, w; Eigen::Matrix<double,2,2> z0, z; hermitian_eigen<double,double,2>(a, w0, &z0); fs_diagonalize_hermitian<double,double,2>(a, w, z);
        pr("m", a); pr("W", w0.matrix()); pr("Z", z0); pr("w", w.matrix()); pr("z", z); }
      std::printf("CASE takagi4 %d\n", k);
      { Eigen::Matrix<double,4,4> a; for (int i = 0; i < 4; i++) for (int j = i; j < 4; j++) { a(i,j) = rnd() * (k == 3 ? 1e3 : 1); a(j,i) = a(i,j); }
        if (k == 4) { a.setZero(); a(0,0) = -2; a(1,1) = 2; a(2,2) = -1; a(3,3) = 0; }
        Eigen::Array<double,4,1> w0, s; Eigen::Matrix<double,4,4> z0; Eigen::Matrix<std::complex<double>,4,4> u; hermitian_eigen<double,double,4>(a, w0, &z0); fs_diagonalize_symmetric<double,double,4>(a, s, u);
        pr("m", a); pr("W", w0.matrix()); pr("Z", z0); pr("s", s.matrix()); pr("u", u); }
      std::printf("CASE svd3 %d\n", k);
      { Eigen::Matrix<std::complex<double>,3,3> a; for (int i = 0; i < 3; i++) for (int j = 0; j < 3; j++) a(i,j) = std::complex<double>(rnd(), k % 2 ? rnd() : 0.0);
        Eigen::Array<double,3,1> s0, s; Eigen::Matrix<std::complex<double>,3,3> u0, v0, u, v; svd_eigen<double,std::complex<double>,3,3>(a, s0, &u0, &v0); fs_svd<double,std::complex<double>,3,3>(a, s, u, v);
        pr("m", a); pr("S", s0.matrix()); pr("U", u0); pr("V", v0); pr("s", s.matrix()); pr("u", u); pr("v", v); }
   }
   return 0;
}
'''

def fidelity(tier, seed):
    """A-FRONT guard for the wrapper logic: Eigen's solver output for concrete matrices (random, identity, diagonal with negative/zero entries, hierarchical) is fed
    to the interpreter through the solver stubs; the wrappers' results must agree bit for bit with the real fs_* functions"""
    from gm2v import native
    from gm2v.ob import get_world
    import subprocess
    w = get_world(None)
    wd = native.workdir('fidelity_c12')
    try:
        exe = native.build_program(wd, GUARD_MAIN, [])
        r = subprocess.run([exe], capture_output=True, text=True, timeout=120)
        if r.returncode != 0:
            return {'ok': False, 'error': r.stderr[-400:]}
        cases, cur = [], None
        for ln in r.stdout.splitlines():
            t = ln.split()
            if t[0] == 'CASE':
                cur = {'kind': t[1], 'mats': {}}
                cases.append(cur)
            else:
                cur['mats'].setdefault(t[0], {})[(int(t[1]), int(t[2]))] = complex(float.fromhex(t[3]), float.fromhex(t[4]))
        def mk(d, cplx, kind='matrix'):
            r_ = 1 + max(i for i, j in d)
            c_ = 1 + max(j for i, j in d)
            return Mat(r_, c_, [[(Cx(d[(i, j)].real, d[(i, j)].imag) if cplx else d[(i, j)].real) for j in range(c_)] for i in range(r_)], kind, cplx)
        exact = total = 0
        bad = []
        for cs in cases:
            mm = cs['mats']
            if cs['kind'] == 'herm2':
                N = 2
                Z, W = mk(mm['Z'], False), [mm['W'][(i, 0)].real for i in range(N)]
                it = Interp(w, mode='float', stubs={'hermitian_eigen': herm_stub(Z, W)})
                fd = [f for f in w.find('fs_diagonalize_hermitian', LA) if len(f.params) == 3][0]
                m = mk(mm['m'], False)
                cw, cz = Cell(Mat(N, 1, [[0.0] for _ in range(N)], 'array', False)), Cell(mk(mm['Z'], False))
                it.run_single(lambda: it.invoke(fd, [m, cw.v, cz.v], None, arg_cells=[Cell(m), cw, cz], targs=[DOUBLE, DOUBLE, N]))
                outs = [('w', cw.v, False), ('z', cz.v, False)]
            elif cs['kind'] == 'takagi4':
                N = 4
                Z, W = mk(mm['Z'], False), [mm['W'][(i, 0)].real for i in range(N)]
                it = Interp(w, mode='float', stubs={'hermitian_eigen': herm_stub(Z, W)})
                fd = [f for f in w.find('fs_diagonalize_symmetric', LA) if len(f.params) == 3][0]
                m = mk(mm['m'], False)
                cs_, cu = Cell(Mat(N, 1, [[0.0] for _ in range(N)], 'array', False)), Cell(mk(mm['u'], True))
                it.run_single(lambda: it.invoke(fd, [m, cs_.v, cu.v], None, arg_cells=[Cell(m), cs_, cu], targs=[DOUBLE, DOUBLE, N]))
                outs = [('s', cs_.v, False), ('u', cu.v, True)]
            else:
                N = 3
                U, Vh, S = mk(mm['U'], True), mk(mm['V'], True), [mm['S'][(i, 0)].real for i in range(N)]
                it = Interp(w, mode='float', stubs={'svd_eigen': svd_stub(U, S, Vh)})
                fd = [f for f in w.find('fs_svd', LA) if len(f.params) == 4 and len(f.template or []) == 4][0]
                m = mk(mm['m'], True)
                cs_, cu, cv = Cell(Mat(N, 1, [[0.0] for _ in range(N)], 'array', False)), Cell(mk(mm['u'], True)), Cell(mk(mm['v'], True))
                it.run_single(lambda: it.invoke(fd, [m, cs_.v, cu.v, cv.v], None, arg_cells=[Cell(m), cs_, cu, cv], targs=[DOUBLE, CPLX, N, N]))
                outs = [('s', cs_.v, False), ('u', cu.v, True), ('v', cv.v, True)]
            for nm, M_, cplx in outs:
                for (i, j), want in mm[nm].items():
                    g = M_.d[i][j]
                    got = complex(float(g.re), float(g.im)) if isinstance(g, Cx) else complex(float(g), 0.0)
                    total += 1
                    # the sign of a zero produced by real x complex products is not compared (x * (0 + i) is evaluated entrywise by Eigen)
                    if (got.real == want.real or native.same_double(got.real, want.real)) and (got.imag == want.imag or native.same_double(got.imag, want.imag)):
                        exact += 1
                    else:
                        bad.append({'case': cs['kind'], 'entry': '%s(%d,%d)' % (nm, i, j), 'interpreter': repr(got), 'native': repr(want)})
        return {'ok': not bad and total > 0, 'cases': len(cases), 'compared_bit_exact': exact, 'entries': total, 'mismatches': bad[:5]}
    finally:
        native.cleanup(wd)
