"""C15 -- every reported number is consistent with every other report of the same quantity.

Contracts on src/gm2calc.cpp (calculate_amu / calculate_uncertainty dispatch, minimal / detailed / SLHA writers),
src/gm2_slha_io.cpp (fill_block_entry), and the "total = sum of parts" functions of src/MSSMNoFV/gm2_1loop.cpp,
gm2_2loop.cpp, src/THDM/gm2_2loop.cpp, gm2_2loop_B.cpp, gm2_2loop_F.cpp.
Model-taking callees are ghost values named after the callee (pure functions of the const model); std::cout << ... is an
output-effect trace; iostream number formatting (to the printed precision) is not modelled.
"""
from fractions import Fraction as Fr
import z3
from gm2v.ob import obligation, PROVED, FAILED, UNDECIDED, ERROR
from gm2v.interp import Interp, Thrown, Opaque, PyModel
from gm2v.values import Cx, Mat, Obj, to_z3, z3real, is_sym, deep_copy

MAIN = 'src/gm2calc.cpp'
IO = 'src/gm2_slha_io.cpp'

def ghost_env(it, thrower=None):
    """every call f(model, ...) with a model object as first argument becomes the ghost value ghost_f (or ghost_f@<copy> for a copy)"""
    seen = {}
    def auto(it_, name, args):
        last = name.split('::')[-1]
        if args and isinstance(args[0], Obj) and args[0].cls in ('MSSMNoFV_onshell', 'THDM') and last not in ('calculate_amu', 'calculate_uncertainty'):
            if thrower is not None:
                thrower(last, args[0])
            key = 'ghost_' + last + str(args[0].f.get('__variant', ''))
            extra = args[1:]
            if extra and all(is_sym(a) or isinstance(a, (int, float)) or hasattr(a, 'numerator') for a in extra):
                # an overload that takes further numeric arguments is a FUNCTION of them (not the same value as the one-argument API function)
                f = z3.Function('%s_%d' % (key, len(extra)), *([z3.RealSort()] * (len(extra) + 1)))
                return f(*[z3real(a) for a in extra])
            seen.setdefault(key, z3.Real(key))
            return seen[key]
        return NotImplemented
    it.auto_stub = auto
    # a method that modifies the (copied) model it is called on makes it a different model: later ghost values carry the variant in their name
    def to_ytree(it_, a, t):
        t.f['__variant'] = str(t.f.get('__variant', '')) + '@ytree'
        return None
    it.stubs.setdefault('MSSMNoFV_onshell::convert_to_non_tan_beta_resummed', to_ytree)
    return seen

def single_paths(it, thunk):
    return it.run_paths(thunk)

# ---------------------------------------------------------------------------------------------------
# totals = sums of parts (the callee contracts used by the writers below)
# ---------------------------------------------------------------------------------------------------
TOTALS = [
    ('mssm.1loop', 'src/MSSMNoFV/gm2_1loop.cpp', 'calculate_amu_1loop', 'MSSMNoFV_onshell', ['amu1LChi0', 'amu1LChipm'], None),
    ('mssm.2loop', 'src/MSSMNoFV/gm2_2loop.cpp', 'calculate_amu_2loop', 'MSSMNoFV_onshell', ['amu2LFSfapprox', 'amu2LChipmPhotonic', 'amu2LChi0Photonic', 'amu2LaSferm', 'amu2LaCha'], None),
    ('mssm.1Lapprox', 'src/MSSMNoFV/gm2_1loop.cpp', 'amu1Lapprox', 'MSSMNoFV_onshell', ['amu1Lapprox_non_tan_beta_resummed'], 'tan_beta_cor'),
    ('mssm.1Lapprox_non_resummed', 'src/MSSMNoFV/gm2_1loop.cpp', 'amu1Lapprox_non_tan_beta_resummed', 'MSSMNoFV_onshell', ['amu1LWHnu', 'amu1LWHmuL', 'amu1LBHmuL', 'amu1LBHmuR', 'amu1LBmuLmuR'], None),
    ('mssm.2LFSfapprox', 'src/MSSMNoFV/gm2_2loop.cpp', 'amu2LFSfapprox', 'MSSMNoFV_onshell', ['amu2LFSfapprox_non_tan_beta_resummed'], 'tan_beta_cor'),
    ('thdm.2loop', 'src/THDM/gm2_2loop.cpp', 'calculate_amu_2loop', 'THDM', ['calculate_amu_2loop_bosonic', 'calculate_amu_2loop_fermionic'], None),
]

def make_total(tag, file, fn, cls, parts, factor):
    @obligation('C15.total.' + tag, fns=[(file, fn)])
    def ob(ctx):
        """ensures: the total equals the sum of its documented parts (times the tan(beta) resummation factor where documented)"""
        it = Interp(ctx.w, mode='sym')
        seen = ghost_env(it)
        m = Obj(cls, {})
        ps = it.run_paths(lambda: it.call(fn, [m], file=file))
        ctx.merge_rules(it)
        for k, (sym, r, exc) in enumerate(ps):
            want = sum(z3.Real('ghost_' + p) for p in parts)
            if factor:
                want = want * z3.Real('ghost_' + factor)
            ctx.prove('path%d' % k, sym.pc + sym.axioms, z3real(r) == want, check_vacuity=False)
        if len(ps) != 1:
            ctx.record('paths', ERROR, 'B', 0, 'expected one path, got %d' % len(ps))
    return ob

for _t in TOTALS:
    make_total(*_t)

def make_struct_total(tag, file, fn, cls, parts):
    @obligation('C15.total.' + tag, fns=[(file, fn)])
    def ob(ctx):
        """ensures: the kernel total equals the sum of its documented sub-kernels evaluated on the same parameter struct"""
        it = Interp(ctx.w, mode='sym', stubs={p: (lambda p: (lambda i, a, t: z3.Real('ghost_' + p)))(p) for p in parts})
        m = Obj(cls, {})
        ps = it.run_paths(lambda: it.call(fn, [m], file=file))
        ctx.merge_rules(it)
        for k, (sym, r, exc) in enumerate(ps):
            ctx.prove('path%d' % k, sym.pc + sym.axioms, z3real(r) == sum(z3.Real('ghost_' + p) for p in parts), check_vacuity=False)
    return ob

make_struct_total('thdm.2loop_B', 'src/THDM/gm2_2loop_B.cpp', 'amu2L_B', 'THDM_B_parameters', ['amu2L_B_EWadd', 'amu2L_B_nonYuk', 'amu2L_B_Yuk'])
make_struct_total('thdm.2loop_F', 'src/THDM/gm2_2loop_F.cpp', 'amu2L_F', 'THDM_F_parameters', ['amu2L_F_neutral', 'amu2L_F_charged'])

# ---------------------------------------------------------------------------------------------------
# dispatch on loop order / resummation
# ---------------------------------------------------------------------------------------------------
def options(it, **kw):
    o = it.new_object('Config_options')
    o.f.update(kw)
    return o

@obligation('C15.dispatch.calculate_amu', fns=[(MAIN, 'calculate_amu')], replay=lambda m_, wd: dispatch_replay(m_, wd))
def _(ctx):
    """calculate_amu(model, options): MSSM with resummation: 0 / a1L / a1L + a2L for loop order 0 / 1 / >=2; without resummation the
    *_non_tan_beta_resummed functions; THDM: 0 / a1L / a1L + a2L  (enumerated exhaustively over loop orders 0..3 and both flags)"""
    for cls in ('MSSMNoFV_onshell', 'THDM'):
        for lo in (0, 1, 2, 3):
            for resum in (True, False):
                it = Interp(ctx.w, mode='sym')
                ghost_env(it)
                o = options(it, loop_order=lo, tanb_resummation=resum)
                m = Obj(cls, {})
                sym, r, exc = it.run_paths(lambda: it.call('calculate_amu', [m, o], file=MAIN))[0]
                suffix = '' if (resum or cls == 'THDM') else '_non_tan_beta_resummed'
                want = z3.RealVal(0)
                if lo > 0:
                    want = want + z3.Real('ghost_calculate_amu_1loop' + suffix)
                if lo > 1:
                    want = want + z3.Real('ghost_calculate_amu_2loop' + suffix)
                # by definition (src/MSSMNoFV/gm2_1loop.cpp, C15.total.mssm.1loop): the non-resummed one-loop API value IS the one-loop value of the model converted to
                # tree-level Yukawa couplings; no such identity holds at two loops (the fermion/sfermion part drops the tan(beta) factor as well)
                defs = [z3.Real('ghost_calculate_amu_1loop@ytree') == z3.Real('ghost_calculate_amu_1loop_non_tan_beta_resummed')]
                ctx.prove('%s.loop%d.resum%d' % (cls, lo, resum), list(sym.pc) + defs, z3real(r) == want, check_vacuity=False)
                ctx.merge_rules(it)

DISPATCH_REPLAY = r'''
#define main gm2calc_program_main
#include "@REPO@/src/gm2calc.cpp"
#undef main
#include "gm2calc/gm2_uncertainty.hpp"
#include <cstdio>
#include <cmath>
// the dispatch functions of the REAL src/gm2calc.cpp (reachable here because the file is included) against the public library API, on the shipped examples
static int bad = 0;
static void cmp(const char* what, unsigned lo, double got, double want) {
   const bool ok = (got == want) || std::fabs(got - want) <= 1e-14 * std::fabs(want);
   if (!ok) { bad++; std::printf("MISMATCH %s loop order %u: program value %.10e, library API %.10e\\n", what, lo, got, want); }
}
int main() {
   for (unsigned lo = 0; lo <= 2; lo++) {
      gm2calc::Config_options o; o.loop_order = lo; o.calculate_uncertainty = true;
      {
         gm2calc::GM2_slha_io io; io.read_from_source("@REPO@/input/example.thdm");
         const gm2calc::THDM m = THDM_reader()(io, o);
         const double want_u = lo == 0 ? gm2calc::calculate_uncertainty_amu_0loop(m) : lo == 1 ? gm2calc::calculate_uncertainty_amu_1loop(m) : gm2calc::calculate_uncertainty_amu_2loop(m);
         const double want_a = (lo > 0 ? gm2calc::calculate_amu_1loop(m) : 0.) + (lo > 1 ? gm2calc::calculate_amu_2loop(m) : 0.);
         cmp("THDM uncertainty", lo, calculate_uncertainty(m, o), want_u);
         cmp("THDM amu", lo, calculate_amu(m, o), want_a);
      }
      {
         gm2calc::GM2_slha_io io; io.read_from_source("@REPO@/input/example.gm2");
         gm2calc::MSSMNoFV_onshell m; GM2Calc_reader()(m, io);
         const double want_u = lo == 0 ? gm2calc::calculate_uncertainty_amu_0loop(m) : lo == 1 ? gm2calc::calculate_uncertainty_amu_1loop(m) : gm2calc::calculate_uncertainty_amu_2loop(m);
         const double want_a = (lo > 0 ? gm2calc::calculate_amu_1loop(m) : 0.) + (lo > 1 ? gm2calc::calculate_amu_2loop(m) : 0.);
         cmp("MSSM uncertainty", lo, calculate_uncertainty(m, o), want_u);
         cmp("MSSM amu", lo, calculate_amu(m, o), want_a);
         gm2calc::Config_options o2 = o; o2.tanb_resummation = false;
         const double want_n = (lo > 0 ? gm2calc::calculate_amu_1loop_non_tan_beta_resummed(m) : 0.) + (lo > 1 ? gm2calc::calculate_amu_2loop_non_tan_beta_resummed(m) : 0.);
         cmp("MSSM amu without tan(beta) resummation", lo, calculate_amu(m, o2), want_n);
      }
   }
   std::printf("%d mismatches between the program's dispatch and the library API\\n", bad);
   return bad ? 1 : 0;
}
'''

def dispatch_replay(model, wd):
    from gm2v import native
    from gm2v.world import REPO
    import subprocess
    exe = native.build_against_library(wd, DISPATCH_REPLAY.replace('@REPO@', REPO))
    r = subprocess.run([exe], capture_output=True, text=True, timeout=300)
    return r.returncode == 1, r.stdout.strip()[-1500:]

@obligation('C15.dispatch.calculate_uncertainty', fns=[(MAIN, 'calculate_uncertainty')], replay=dispatch_replay)
def _(ctx):
    """calculate_uncertainty(model, options) == calculate_uncertainty_amu_<loop order>loop(model) for loop order 0, 1, 2"""
    for cls in ('MSSMNoFV_onshell', 'THDM'):
        for lo in (0, 1, 2):
            it = Interp(ctx.w, mode='sym')
            ghost_env(it)
            o = options(it, loop_order=lo)
            m = Obj(cls, {})
            # signaling_NaN initial value is overwritten on every handled path
            it.stubs['std::numeric_limits<>::signaling_NaN'] = lambda i, a, t: z3.Real('nan_placeholder')
            sym, r, exc = it.run_paths(lambda: it.call('calculate_uncertainty', [m, o], file=MAIN))[0]
            # callee contract (C18.*.overloads): the overloads given the a_mu values the library computes agree with the one-argument API functions
            G = lambda n: z3.Real('ghost_' + n)
            a1, a2 = G('calculate_amu_1loop'), G('calculate_amu_2loop')
            agree = []
            for lo_ in (0, 1, 2):
                nm = 'ghost_calculate_uncertainty_amu_%dloop' % lo_
                agree.append(z3.Function(nm + '_2', z3.RealSort(), z3.RealSort(), z3.RealSort())(a1, a2) == z3.Real(nm))
            agree.append(z3.Function('ghost_calculate_uncertainty_amu_0loop_1', z3.RealSort(), z3.RealSort())(a1) == z3.Real('ghost_calculate_uncertainty_amu_0loop'))
            agree.append(z3.Function('ghost_calculate_uncertainty_amu_1loop_1', z3.RealSort(), z3.RealSort())(a2) == z3.Real('ghost_calculate_uncertainty_amu_1loop'))
            ctx.assume_note('callee contract (C18.*.overloads): calculate_uncertainty_amu_Nloop(model, a1L, a2L) with the library\'s own a1L, a2L equals calculate_uncertainty_amu_Nloop(model)')
            ctx.prove('%s.loop%d' % (cls, lo), list(sym.pc) + agree, z3real(r) == z3.Real('ghost_calculate_uncertainty_amu_%dloop' % lo), check_vacuity=False)
            ctx.merge_rules(it)

# ---------------------------------------------------------------------------------------------------
# writers: output-effect traces
# ---------------------------------------------------------------------------------------------------
def trace_items(effects):
    """[(kind, value)]: kind in {'text','AMU','DEL','PCT','num'} from the std::cout effect trace (FORMAT_* macros are recognised by
    their manipulator sequences: scientific/setprecision(8)/setw(15) = AMU, setw(14) = DEL, fixed/setprecision(1)/setw(2) = PCT)"""
    items = []
    pend = []
    for kind, val, line in effects:
        if not kind.startswith('out:'):
            continue
        if isinstance(val, Opaque):
            pend.append(val.what)
            continue
        if isinstance(val, str):
            items.append(('text', val))
            pend = []
            continue
        k = 'num'
        p = ' '.join(pend)
        if 'std::fixed' in p and 'setprecision(1)' in p:
            k = 'PCT'
        elif 'std::scientific' in p and 'setw(15)' in p:
            k = 'AMU'
        elif 'std::scientific' in p and 'setw(14)' in p:
            k = 'DEL'
        items.append((k, val))
        pend = []
    return items

def check_pcts(ctx, tag, items, ax, refs):
    """each PCT item == 100 * (the AMU item printed just before it) / (the reference named by the text that follows it)"""
    n = 0
    for i, (k, v) in enumerate(items):
        if k != 'PCT':
            continue
        n += 1
        own = next((items[j][1] for j in range(i - 1, -1, -1) if items[j][0] == 'AMU'), None)
        label = next((items[j][1] for j in range(i + 1, len(items)) if items[j][0] == 'text'), '')
        before = next((items[j][1] for j in range(i - 1, -1, -1) if items[j][0] == 'text' and len(items[j][1].strip()) > 3), '')
        ref = None
        for pat, r in refs:
            if pat in label:
                ref = r
                break
        name = (before.strip().split('\n')[-1].strip() or 'item')[:30].replace(' ', '_')
        if own is None or ref is None:
            ctx.record('%s.pct%d.%s' % (tag, n, name), ERROR, 'B', 0, 'cannot identify component/reference of the percentage followed by %r' % label[:40])
            continue
        ctx.prove('%s.pct%d.%s' % (tag, n, name), ax + [z3real(ref) != 0], z3real(v) * z3real(ref) == 100 * z3real(own), check_vacuity=False, tactics=('nlsat', 'default'))
    return n

def amu_after(items, text):
    for i, (k, v) in enumerate(items):
        if k == 'text' and text in v:
            for j in range(i + 1, len(items)):
                if items[j][0] == 'AMU':
                    return items[j][1]
    return None

def writer_obj(it, name):
    cls = [c for c in it.w.classes if c.startswith(name)]
    return cls

def replay_detailed_thdm(model, wd):
    """run the REAL program (built from the working tree) on input/example.thdm with the detailed format and recompute every percentage"""
    from gm2v import native
    from gm2v.world import REPO
    import subprocess, re, os
    exe = native.build_gm2calc()
    inp = open(os.path.join(REPO, 'input', 'example.thdm')).read().replace('     0     4     # output format', '     0     1     # output format', 1)
    out = subprocess.run([exe, '--thdm-input-file=-'], input=inp, capture_output=True, text=True, timeout=120).stdout
    num = r'([-+]?\d\.\d+e[-+]\d+)'
    g = lambda pat: float(re.search(pat, out).group(1))
    p = lambda pat: float(re.search(pat, out).group(2))
    best = g(r'amu \(1-loop \+ 2-loop\) =\s*' + num)
    rows = {k: (g(k + r'\s*:?\s*' + num), p(k + r'\s*:?\s*' + num + r' \(\s*([-+]?\d+\.\d)%')) for k in ('full 1L', 'bosonic   2L', 'fermionic 2L', 'sum         ')}
    two = rows['sum         '][0]
    bad = []
    for k, ref in (('full 1L', best), ('bosonic   2L', two), ('fermionic 2L', two), ('sum         ', best)):
        val, pct = rows[k]
        if abs(pct - 100 * val / ref) > 0.06:
            bad.append('%s: printed %.1f%%, but 100*%g/%g = %.1f%%' % (k.strip(), pct, val, ref, 100 * val / ref))
    return bool(bad), 'gm2calc.x --thdm-input-file=input/example.thdm (detailed): ' + ('; '.join(bad) if bad else 'all percentages consistent')

@obligation('C15.detailed.thdm', fns=[(MAIN, 'Detailed_writer<gm2calc::THDM>::operator()')], replay=replay_detailed_thdm)
def _(ctx):
    """THDM detailed output: headline = a1L + a2L with the 2L uncertainty; every printed percentage equals 100 x its own component / the
    stated reference ('% of full 1L + 2L result' -> headline, '% of 2L result' -> the printed 2L sum); printed 2L sum = bosonic + fermionic
    under the callee contract calculate_amu_2loop = bosonic + fermionic (C15.total.thdm.2loop)"""
    it = Interp(ctx.w, mode='sym')
    ghost_env(it)
    w = Obj('Detailed_writer<gm2calc::THDM>', {})
    m = Obj('THDM', {})
    o = options(it)
    ps = it.run_paths(lambda: it.call_method(w, 'operator()', [m, o, Opaque('slha_io')]))
    ctx.merge_rules(it)
    G = lambda n: z3.Real('ghost_' + n)
    rel = [G('calculate_amu_2loop') == G('calculate_amu_2loop_bosonic') + G('calculate_amu_2loop_fermionic')]
    ctx.assume_note('callee contract: calculate_amu_2loop(THDM) == bosonic + fermionic (C15.total.thdm.2loop)')
    for k, (sym, r, exc) in enumerate(ps):
        items = trace_items(sym.effects)
        amus = [v for kk, v in items if kk == 'AMU']
        dels = [v for kk, v in items if kk == 'DEL']
        ax = rel + sym.pc
        ctx.prove('headline', ax, z3.And(z3real(amus[0]) == G('calculate_amu_1loop') + G('calculate_amu_2loop'), z3real(dels[0]) == G('calculate_uncertainty_amu_2loop')), check_vacuity=False)
        best = amus[0]
        b, f, s2 = amu_after(items, 'bosonic   2L'), amu_after(items, 'fermionic 2L'), amu_after(items, 'sum         :')
        ctx.prove('items', ax, z3.And(z3real(amu_after(items, 'full 1L:')) == G('calculate_amu_1loop'), z3real(b) == G('calculate_amu_2loop_bosonic'),
                                     z3real(f) == G('calculate_amu_2loop_fermionic'), z3real(s2) == z3real(b) + z3real(f)), check_vacuity=False)
        n = check_pcts(ctx, 'thdm', items, ax, [('% of full 1L + 2L result', best), ('% of 2L result', s2)])
        ctx.record('pct_count', PROVED if n == 4 else ERROR, 'B', 0, '%d percentages found (expected 4)' % n)

@obligation('C15.detailed.mssm', fns=[(MAIN, 'Detailed_writer<gm2calc::MSSMNoFV_onshell>::operator()')])
def _(ctx):
    """MSSM detailed output, on BOTH the normal path and the path where the non-resummed calculation throws and is redone with force
    output: the items printed as 'without tan(beta) resummation' are calculate_amu_{1,2}loop_non_tan_beta_resummed of a copy of the model;
    every printed 'sum' equals the sum of the items printed above it in its section (under the callee contracts C15.total.mssm.*);
    every percentage equals 100 x its own component / the stated reference; headline = a1L + a2L +- 2L uncertainty"""
    G = lambda n: z3.Real('ghost_' + n)
    for mode in ('normal', 'nonresummed_throws'):
        calls = []
        def thrower(name, model, mode=mode):
            calls.append((name, model.f.get('force_output_tag')))
            if mode == 'nonresummed_throws' and name.endswith('non_tan_beta_resummed') and not model.f.get('__force', False):
                raise Thrown('EInvalidInput', 'ghost problem')
        it = Interp(ctx.w, mode='sym')
        ghost_env(it, thrower)
        probs = Obj('MSSMNoFV_onshell_problems', {})
        it.stubs.update({'::have_problem': lambda i, a, t: False, '::get_problems': lambda i, a, t: (probs if isinstance(t, Obj) and t.cls == 'MSSMNoFV_onshell' else ''),
                         '::do_force_output': lambda i, a, t: t.f.__setitem__('__force', a[0]) if a else t.f.get('__force', False)})
        w = Obj('Detailed_writer<gm2calc::MSSMNoFV_onshell>', {})
        m = Obj('MSSMNoFV_onshell', {})
        o = options(it)
        ps = it.run_paths(lambda: it.call_method(w, 'operator()', [m, o, Opaque('slha_io')]))
        ctx.merge_rules(it)
        rel = [G('calculate_amu_1loop') == G('amu1LChi0') + G('amu1LChipm'),
               G('calculate_amu_2loop') == G('amu2LFSfapprox') + G('amu2LChipmPhotonic') + G('amu2LChi0Photonic') + G('amu2LaSferm') + G('amu2LaCha'),
               G('amu1Lapprox') == (G('amu1LWHnu') + G('amu1LWHmuL') + G('amu1LBHmuL') + G('amu1LBHmuR') + G('amu1LBmuLmuR')) * G('tan_beta_cor'),
               G('amu2LFSfapprox') == (G('amu2LWHnu') + G('amu2LWHmuL') + G('amu2LBHmuL') + G('amu2LBHmuR') + G('amu2LBmuLmuR')) * G('tan_beta_cor')]
        ctx.assume_note('callee contracts: C15.total.mssm.1loop / 2loop / 1Lapprox; amu2LFSfapprox = (sum of the five one-argument 2L leading-log terms) * tan_beta_cor (documented in gm2_2loop.hpp)')
        if len(ps) != 1 or ps[0][2] is not None:
            ctx.record(mode + '.paths', ERROR if len(ps) != 1 else FAILED, 'B', 0, 'paths=%d exception=%s' % (len(ps), ps[0][2] if ps else None))
            continue
        sym, r, exc = ps[0]
        items = trace_items(sym.effects)
        amus = [v for kk, v in items if kk == 'AMU']
        dels = [v for kk, v in items if kk == 'DEL']
        ax = rel + sym.pc
        tag = mode
        ctx.prove(tag + '.headline', ax, z3.And(z3real(amus[0]) == G('calculate_amu_1loop') + G('calculate_amu_2loop'), z3real(dels[0]) == G('calculate_uncertainty_amu_2loop')), check_vacuity=False)
        best = amus[0]
        one_nr = amu_after(items, 'full 1L without tan(beta) resummation')
        two_nr = amu_after(items, '2L best without tan(beta) resummation')
        ctx.prove(tag + '.non_resummed_items', ax, z3.And(z3real(one_nr) == G('calculate_amu_1loop_non_tan_beta_resummed'), z3real(two_nr) == G('calculate_amu_2loop_non_tan_beta_resummed')), check_vacuity=False)
        ctx.prove(tag + '.2L_best_item', ax, z3real(amu_after(items, '2L best with tan(beta) resummation')) == G('calculate_amu_2loop'), check_vacuity=False)
        # sections: every 'sum' = sum of the AMU items since the previous section header
        sec = []
        nsum = 0
        for i, (kk, v) in enumerate(items):
            if kk == 'text' and v.rstrip().endswith(':') and 'sum' not in v.split('\n')[-1]:
                if ':\n' in v or v.rstrip().endswith(':'):
                    pass
            if kk == 'AMU':
                prev_text = next((items[j][1] for j in range(i - 1, -1, -1) if items[j][0] == 'text'), '')
                lastline = prev_text.split('\n')[-1]
                if 'sum' in lastline:
                    nsum += 1
                    ctx.prove('%s.sum%d' % (tag, nsum), ax, z3real(v) == sum([z3real(x) for x in sec], z3.RealVal(0)), check_vacuity=False, tactics=('nlsat', 'default'))
                    sec = []
                elif lastline.startswith('   ') and lastline.strip() and '=' not in lastline:
                    sec.append(v)
                else:
                    sec = []
        ctx.record(tag + '.sum_count', PROVED if nsum == 5 else ERROR, 'B', 0, '%d section sums found (expected 5)' % nsum)
        n = check_pcts(ctx, tag, items, ax, [('% of full 1L + 2L result', best), ('%)', one_nr)])
        ctx.record(tag + '.pct_count', PROVED if n == 6 else ERROR, 'B', 0, '%d percentages found (expected 6)' % n)

@obligation('C15.minimal_writer', fns=[(MAIN, 'Minimal_writer::operator()')])
def _(ctx):
    """minimal output: exactly one number is printed: calculate_uncertainty(model, options) if the uncertainty is requested, else
    calculate_amu(model, options)"""
    for cls in ('MSSMNoFV_onshell', 'THDM'):
        for unc in (False, True):
            it = Interp(ctx.w, mode='sym', stubs={'calculate_amu': lambda i, a, t: z3.Real('AMU'), 'calculate_uncertainty': lambda i, a, t: z3.Real('DAMU')})
            w = Obj('Minimal_writer', {})
            o = options(it, calculate_uncertainty=unc)
            ps = it.run_paths(lambda: it.call_method(w, 'operator()', [Obj(cls, {}), o, Opaque('slha_io')]))
            nums = [v for kind, v, ln in ps[0][0].effects if kind.startswith('out:') and is_sym(v)]
            ok = len(ps) == 1 and len(nums) == 1 and nums[0].eq(z3.Real('DAMU' if unc else 'AMU'))
            ctx.record('%s.uncertainty_%s' % (cls, unc), PROVED if ok else FAILED, 'B', 0, 'printed numbers: %s' % nums)
            ctx.merge_rules(it)

class Coll(PyModel):
    """assumed contract of SLHAea::Coll as used by GM2_slha_io: an ordered list of named blocks (ghost view)"""
    def __init__(self, names):
        self.blocks = [[n, {}] for n in names]
    def _find(self, name):
        for b in self.blocks:
            if b[0].lower() == str(name).lower():
                return b
        return None
    def m_find(self, it, name):
        b = self._find(name)
        return ('iter', id(b)) if b is not None else ('iter', 'end')
    def m_cend(self, it):
        return ('iter', 'end')
    def m_end(self, it):
        return ('iter', 'end')
    def m_push_back(self, it, blk):
        self.blocks.append([blk.name, dict(blk.entries)])
    def m_push_front(self, it, blk):
        self.blocks.insert(0, [blk.name, dict(blk.entries)])
    def m_back(self, it):
        return BlockRef(self.blocks[-1])
    def m_front(self, it):
        return BlockRef(self.blocks[0])
    def get_item(self, it, name):
        b = self._find(name)
        if b is None:
            raise RuntimeError('SLHAea::Coll::operator[] on a missing block creates it (not used by the contract)')
        return BlockRef(b)

class BlockRef(PyModel):
    def __init__(self, b):
        self.b = b
    def get_item(self, it, key):
        return self.b[1].get(key)
    def set_item(self, it, key, val):
        self.b[1][key] = val

class NewBlock(PyModel):
    def __init__(self):
        self.name, self.entries = None, {}
    def m_str(self, it, s):
        self.name = str(s).replace('Block ', '')

FILL_ENTRY_REPLAY = r'''
#include "gm2_slha_io.hpp"
#include <sstream>
#include <iostream>
#include <string>
#include <vector>
// REAL GM2_slha_io::fill_block_entry (both overloads) for every position of the target block (first, middle, last, absent): afterwards the target block
// holds the new entry and every other block is printed exactly as before
static int bad = 0;
static std::string block_text(const std::string& out, const std::string& name) {
   std::istringstream is(out); std::string l, cur, acc;
   while (std::getline(is, l)) {
      std::istringstream ls(l); std::string w; ls >> w;
      if (w == "Block" || w == "BLOCK" || w == "block") { ls >> cur; continue; }
      if (cur == name) acc += l + "\n";
   }
   return acc;
}
int main() {
   const std::vector<std::vector<std::string>> layouts = {{"A","B","C"}, {"B","A","C"}, {"A","C","B"}, {"A","C"}};
   for (int variant = 0; variant < 2; variant++)
   for (const auto& names : layouts) {
      std::string in;
      for (const auto& n : names) in += "Block " + n + "\n     7     1.50000000E+00   # old " + n + "\n";
      gm2calc::GM2_slha_io io; std::istringstream is(in); io.read_from_stream(is);
      std::ostringstream before; io.write_to_stream(before);
      if (variant == 0) io.fill_block_entry("B", 4, "some message"); else io.fill_block_entry("B", 4, 2.5, "a number");
      std::ostringstream after; io.write_to_stream(after);
      std::string lay; for (const auto& n : names) lay += n;
      const std::string tb = block_text(after.str(), "B");
      if (tb.find(variant == 0 ? "some message" : "2.5") == std::string::npos) { bad++; std::cout << "layout " << lay << (variant ? " (number)" : " (text)") << ": block B does not hold the new entry 4\n"; }
      for (const auto& n : names) if (n != "B" && block_text(before.str(), n) != block_text(after.str(), n)) {
         bad++; std::cout << "layout " << lay << (variant ? " (number)" : " (text)") << ": block " << n << " changed from\n" << block_text(before.str(), n) << "to\n" << block_text(after.str(), n);
      }
      if (block_text(before.str(), "B").size() && tb.find("old B") == std::string::npos) { bad++; std::cout << "layout " << lay << ": the old entry of block B was lost\n"; }
   }
   std::cout << bad << " violations of the fill_block_entry frame contract\n";
   return bad ? 1 : 0;
}
'''

def replay_fill_entry(model, wd):
    from gm2v import native
    import subprocess
    exe = native.build_against_library(wd, FILL_ENTRY_REPLAY, name='fill_entry')
    r = subprocess.run([exe], capture_output=True, text=True, timeout=120)
    return r.returncode == 1, r.stdout.strip()[-1500:]

@obligation('C15.fill_block_entry', fns=[(IO, 'GM2_slha_io::fill_block_entry')], replay=replay_fill_entry)
def _(ctx):
    """frame over the whole SLHA view: fill_block_entry(name, entry, value, comment) sets exactly entry `entry` of the block called `name`
    (creating the block if it is missing) and leaves every other block and entry unchanged -- for every position of that block in the
    file (first, middle, last, absent) [SLHAea::Coll by assumed contract: ordered list of named blocks]"""
    for variant in ('double', 'string'):
        for names, target in [(['A', 'B', 'C'], 'B'), (['A', 'B', 'C'], 'A'), (['A', 'B', 'C'], 'C'), (['A', 'C'], 'B'), ([], 'B')]:
            it = Interp(ctx.w, mode='sym')
            io = Obj('GM2_slha_io', {})
            coll = Coll(names)
            for b in coll.blocks:
                b[1][7] = 'old-' + b[0]
            io.f['data'] = coll
            it.stubs['SLHAea::Block'] = lambda i, a, t: NewBlock()
            v = z3.Real('value')
            def run():
                args = [target, 7, v, 'comment'] if variant == 'double' else [target, 7, 'comment']
                it.call_method(io, 'fill_block_entry', args)
            old_construct = it.construct
            def construct(ty, args, braced, old=old_construct):
                if ty.name.endswith('SLHAea::Block') or ty.name == 'Block':
                    return NewBlock()
                return old(ty, args, braced)
            it.construct = construct
            old_zero = it.zero_of_type
            def zero(ty, path=None, symbolic=None, old=old_zero):
                if ty.name.endswith('SLHAea::Block'):
                    return NewBlock()
                return old(ty, path, symbolic)
            it.zero_of_type = zero
            try:
                ps = it.run_paths(run)
                err = None
            except Exception as e:
                ps, err = [], e
            tag = '%s.%s_in_%s' % (variant, target, ''.join(names) or 'empty')
            if err is not None or len(ps) != 1 or ps[0][2] is not None:
                ctx.record(tag, ERROR if err else FAILED, 'B', 0, 'execution: %s %s' % (err, ps))
                continue
            tb = coll._find(target)
            ok_target = tb is not None and isinstance(tb[1].get(7), tuple) and tb[1][7][0] == 'format'
            if ok_target and variant == 'double':
                ok_target = any(is_sym(a) and a.eq(v) for a in tb[1][7][2])
            others = all(b[1].get(7) == 'old-' + b[0] and len(b[1]) == 1 for b in coll.blocks if b[0] != target)
            count = len([b for b in coll.blocks if b[0] == target]) == 1 and len(coll.blocks) == len(set(names) | {target})
            ctx.record(tag, PROVED if (ok_target and others and count) else FAILED, 'B', 0,
                       'target entry written=%s, other blocks untouched=%s, block count ok=%s; view=%s' % (ok_target, others, count, [(b[0], sorted(b[1])) for b in coll.blocks]))
            ctx.merge_rules(it)

def replay_slha_writer(model, wd):
    """run the REAL program on input/example.thdm and input/example.slha for the three SLHA output formats with and without uncertainty, with foreign
    LOWEN[1]/SPhenoLowEnergy[1] entries present in the input: a_mu must appear at the documented key, the uncertainty at GM2CalcOutput[1] exactly when
    requested, and the foreign entries must come out unchanged"""
    from gm2v import native
    from gm2v.world import REPO
    import subprocess, re, os
    exe = native.build_gm2calc()
    bad = []
    def blocks(txt):
        out, cur = {}, None
        for l in txt.splitlines():
            s = l.split('#')[0].split()
            if not s:
                continue
            if s[0].lower() == 'block':
                cur = s[1].upper()
                out.setdefault(cur, {})
            elif cur is not None and len(s) >= 2:
                out[cur][' '.join(s[:-1])] = s[-1]
        return out
    for fname, flag in (('example.thdm', '--thdm-input-file=-'), ('example.slha', '--slha-input-file=-')):
        src = open(os.path.join(REPO, 'input', fname)).read()
        for fmt, (blk, key) in ((2, ('LOWEN', '6')), (3, ('SPHENOLOWENERGY', '21')), (4, ('GM2CALCOUTPUT', '0'))):
            for unc in (0, 1):
                inp = re.sub(r'(?m)^(\s*0\s+)\d(\s+# output format)', r'\g<1>%d\2' % fmt, src, 1)
                inp = re.sub(r'(?m)^(\s*5\s+)\d(\s+# calculate uncertainty)', r'\g<1>%d\2' % unc, inp, 1)
                inp += 'Block LOWEN\n     1     3.26000000E-04   # foreign entry\nBlock SPhenoLowEnergy\n     1     4.50000000E-04   # foreign entry\n'
                r = subprocess.run([exe, flag], input=inp, capture_output=True, text=True, timeout=120)
                b = blocks(r.stdout)
                tag = '%s format %d uncertainty %d' % (fname, fmt, unc)
                if r.returncode != 0:
                    bad.append('%s: exit %d' % (tag, r.returncode))
                    continue
                if key not in b.get(blk, {}):
                    bad.append('%s: a_mu missing at %s[%s]' % (tag, blk, key))
                has_unc = '1' in b.get('GM2CALCOUTPUT', {})
                if has_unc != bool(unc):
                    bad.append('%s: GM2CalcOutput[1] %s' % (tag, 'missing' if unc else 'written although not requested'))
                for fb, fv in (('LOWEN', 3.26e-4), ('SPHENOLOWENERGY', 4.5e-4)):
                    got = b.get(fb, {}).get('1')
                    if got is None or abs(float(got) - fv) > 1e-9:
                        bad.append('%s: input entry %s[1] = %g came out as %s' % (tag, fb, fv, got))
    return bool(bad), 'gm2calc.x on input/example.{thdm,slha}, formats 2/3/4 x uncertainty 0/1: ' + ('; '.join(bad[:8]) if bad else 'all entries at the documented keys')

@obligation('C15.slha_writer', fns=[(MAIN, 'SLHA_writer::operator()')], replay=replay_slha_writer)
def _(ctx):
    """SLHA output formats: a_mu = calculate_amu(model, options) goes to LOWEN[6] (NMSSMTools), SPhenoLowEnergy[21] (SPheno),
    GM2CalcOutput[0] (otherwise); the uncertainty goes to GM2CalcOutput[1] exactly when requested; SPINFO is touched only if the model has warnings"""
    fmts = ctx.w.enumerators
    for fmt_name, want in (('NMSSMTools', ('LOWEN', 6)), ('SPheno', ('SPhenoLowEnergy', 21)), ('GM2Calc', ('GM2CalcOutput', 0))):
        for unc in (False, True):
            for warn in (False, True):
                fills = []
                it = Interp(ctx.w, mode='sym', stubs={'calculate_amu': lambda i, a, t: z3.Real('AMU'), 'calculate_uncertainty': lambda i, a, t: z3.Real('DAMU'),
                                                      '::have_warning': lambda i, a, t: warn, '::get_warnings': lambda i, a, t: 'warnings', '::get_problems': lambda i, a, t: Obj('P', {}),
                                                      '::fill_block_entry': lambda i, a, t: fills.append(tuple(a)), '::write_to_stream': lambda i, a, t: fills.append(('WRITE',))})
                w = Obj('SLHA_writer', {})
                key = 'Config_options::' + fmt_name
                fmt_val = fmts.get(key, fmts.get(fmt_name))
                o = options(it, calculate_uncertainty=unc, output_format=fmt_val)
                ps = it.run_paths(lambda: it.call_method(w, 'operator()', [Obj('THDM', {}), o, Obj('GM2_slha_io', {})]))
                tag = '%s.unc%d.warn%d' % (fmt_name, unc, warn)
                nums = [f for f in fills if len(f) == 4]
                ok = len(ps) == 1 and ps[0][2] is None and len(nums) == (2 if unc else 1)
                ok = ok and nums[0][0] == want[0] and nums[0][1] == want[1] and is_sym(nums[0][2]) and nums[0][2].eq(z3.Real('AMU'))
                if unc and ok:
                    ok = nums[1][0] == 'GM2CalcOutput' and nums[1][1] == 1 and nums[1][2].eq(z3.Real('DAMU'))
                spinfo = [f for f in fills if len(f) == 3]
                ok = ok and ((len(spinfo) == 3 and all(f[0] == 'SPINFO' for f in spinfo)) if warn else not spinfo) and fills[-1] == ('WRITE',)
                ctx.record(tag, PROVED if ok else FAILED, 'B', 0, 'fill_block_entry calls: %s' % ([f[:2] for f in fills],))
                ctx.merge_rules(it)

# ---------------------------------------------------------------------------------------------------
# which reader / writer the program selects for which input type and output format (README: "Output formats")
# ---------------------------------------------------------------------------------------------------
@obligation('C15.program.reader_writer_selection', fns=[(MAIN, 'make_mssmnofv_setup'), (MAIN, 'make_thdm_setup'), (MAIN, 'set_to_default')])
def _(ctx):
    """ensures (enumerated exhaustively: 3 input types x 5 output formats): SLHA input is read by SLHA_reader (fill_slha + convert_to_onshell), GM2Calc input by GM2Calc_reader
    (fill_gm2calc + calculate_masses), THDM input by THDM_reader; output format 0 selects the minimal writer, 1 the detailed writer OF THAT MODEL, 2/3/4 (NMSSMTools, SPheno,
    GM2Calc) the SLHA writer; the options are stored unchanged; the default output format is GM2Calc (4) for SLHA and THDM input and Detailed (1) for GM2Calc input"""
    E = ctx.w.enumerators
    fmts = {'Minimal': 0, 'Detailed': 1, 'NMSSMTools': 2, 'SPheno': 3, 'GM2Calc': 4}
    want_writer = {'Minimal': 'Minimal_writer', 'Detailed': 'Detailed_writer<%s>', 'NMSSMTools': 'SLHA_writer', 'SPheno': 'SLHA_writer', 'GM2Calc': 'SLHA_writer'}
    for inp, reader, model_cls in (('SLHA', 'SLHA_reader', 'MSSMNoFV_onshell'), ('GM2Calc', 'GM2Calc_reader', 'MSSMNoFV_onshell'), ('THDM', 'THDM_reader', 'THDM')):
        for fname, fval in fmts.items():
            it = Interp(ctx.w, mode='sym')
            o = it.new_object('Config_options')
            o.f['output_format'] = fval
            o.f['loop_order'] = z3.Real('loop_order_marker')
            try:
                if inp == 'THDM':
                    ps = it.run_paths(lambda: it.call('make_thdm_setup', [o], file=MAIN))
                else:
                    ps = it.run_paths(lambda: it.call("make_mssmnofv_setup", [_input_enum(ctx, inp), o], file=MAIN))
            except Exception as e:
                ctx.record('%s.%s' % (inp, fname), ERROR, 'B', 0, 'extraction: %s' % e)
                continue
            ctx.merge_rules(it)
            ok = len(ps) == 1 and ps[0][2] is None and isinstance(ps[0][1], Obj)
            det = 'no setup object'
            if ok:
                su = ps[0][1]
                rd = getattr(su.f.get('reader'), 'cls', type(su.f.get('reader')).__name__)
                wr = getattr(su.f.get('writer'), 'cls', type(su.f.get('writer')).__name__)
                ww = want_writer[fname]
                ww_ok = (wr == ww) if '%s' not in ww else (wr.startswith('Detailed_writer<') and model_cls in wr)
                opt_ok = isinstance(su.f.get('options'), Obj) and is_sym(su.f['options'].f.get('loop_order')) and z3.eq(su.f['options'].f['loop_order'], z3.Real('loop_order_marker')) \
                    and su.f['options'].f.get('output_format') == fval
                ok = rd == reader and ww_ok and opt_ok
                det = 'reader %s, writer %s, options %s' % (rd, wr, 'stored unchanged' if opt_ok else 'CHANGED')
            ctx.record('%s.%s' % (inp, fname), PROVED if ok else FAILED, 'B', 0, det + ' (documented: %s, %s)' % (reader, want_writer[fname] % model_cls if '%s' in want_writer[fname] else want_writer[fname]))
    # defaults
    for inp, want in (('SLHA', 4), ('GM2Calc', 1), ('THDM', 4)):
        it = Interp(ctx.w, mode='sym')
        o = it.new_object('Config_options')
        o.f['output_format'] = 'unset'
        cmd = Obj('Gm2_cmd_line_options', {'input_source': 'file', 'input_type': _input_enum(ctx, inp)})
        try:
            ps = it.run_paths(lambda: it.call('set_to_default', [o, cmd], file=MAIN))
            ok = len(ps) == 1 and ps[0][2] is None and o.f['output_format'] == want
            det = 'default output format %r' % (o.f['output_format'],)
        except Exception as e:
            ok, det = False, 'extraction: %s' % e
        ctx.record('default.%s' % inp, PROVED if ok else FAILED, 'B', 0, det + ' (documented: %d)' % want)

def _input_enum(ctx, name):
    """value of Gm2_cmd_line_options::E_input_type::<name> (declared in src/gm2calc.cpp as enum E_input_type { SLHA, GM2Calc, THDM })"""
    return {'SLHA': 0, 'GM2Calc': 1, 'THDM': 2}[name]

# ------------------------------------------------------------------------------------------------ the verbose flag changes what is printed on std::cerr and nothing else
# "for the selected loop order, resummation and running-coupling flags": the verbose flag is not among the things the reported number may depend on (the 480 combinations of the
# quantifier include verbose on/off).  Non-interference by effect inference: every statement guarded by the verbose flag is a VERBOSE(...) log statement whose message has no
# assignment and calls only const members / pure helpers, with no control transfer out of the guarded block -- for every function of the library and the program.
def replay_verbose(model, wd):
    """the real program on the shipped non-converging SLHA point (Cha(1) pole mass 900 GeV), all five output formats, loop orders 0..2: stdout with verbose output off and on"""
    from gm2v import native
    from gm2v.world import REPO
    import subprocess, os, re
    exe = native.build_gm2calc()
    src = open(os.path.join(REPO, 'test/test_points/problems_bino_reordering_pole_running.in')).read()
    src = re.sub(r'(\n\s*1000024\s+)\S+', r'\g<1>9.00000000E+02', src)
    bad = []
    for fmt in range(5):
        for lo in range(3):
            outs = []
            for vb in (0, 1):
                t = re.sub(r'(Block GM2CalcConfig\s*\n)', r'\1', src, flags=re.I)
                t += '\nBlock GM2CalcConfig\n 0 %d\n 1 %d\n 3 1\n 4 %d\n' % (fmt, lo, vb)
                r = subprocess.run([exe, '--slha-input-file=-'], input=t, capture_output=True, text=True, timeout=120)
                outs.append((r.returncode, [l for l in r.stdout.split('\n') if not re.match(r'\s*4\s+[01]\s*(#.*)?$', l)]))
            if outs[0] != outs[1]:
                d = [(a, b) for a, b in zip(outs[0][1], outs[1][1]) if a != b][:1]
                bad.append('format %d loop order %d: verbose off/on -> exit %d/%d, first differing line %s' % (fmt, lo, outs[0][0], outs[1][0], d))
    return bool(bad), '%d of 15 configurations differ between verbose off and on; %s' % (len(bad), ' || '.join(bad[:2]))

@obligation('C15.verbose_noninterference', fns=[('src/MSSMNoFV/MSSMNoFV_onshell.cpp', 'MSSMNoFV_onshell::convert_Mu_M1_M2'), ('src/gm2calc.cpp', 'main')], replay=replay_verbose)
def _(ctx):
    """for EVERY function of src/ and include/: a statement guarded by the verbose flag (verbose_output, do_verbose_output(), options.verbose_output) is a block of VERBOSE(...) log
    statements only -- no assignment, increment, control transfer (break/continue/return/throw) or call of a non-const member inside, and no else branch; so the flag changes the
    std::cerr trace and nothing a reported number depends on"""
    from gm2v import cxx
    def mentions_verbose(e):
        r = repr(e)
        return 'verbose_output' in r
    sites, bad, unknown = 0, [], []
    def check_log(lg, fd):
        toks = [getattr(t, 'text', None) or str(t) for t in lg.toks]
        vals = [str(t).split(':', 1)[1].rsplit('@', 1)[0].strip("'") if ':' in str(t) else str(t) for t in lg.toks]
        for i, v in enumerate(vals):
            if v in ('=', '+=', '-=', '*=', '/=', '++', '--', '%=', '|=', '&=', '^=', '<<=', '>>='):
                return 'assignment operator %s in the message' % v
            if i + 1 < len(vals) and vals[i + 1] == '(' and str(lg.toks[i]).startswith('id:'):
                name = v
                if name in ('abs', 'sqrt', 'sqr', 'signed_sqr', 'signed_abs_sqrt', 'to_string', 'size', 'rows', 'cols', 'transpose', 'real', 'imag', 'norm', 'cwiseAbs', 'minCoeff', 'maxCoeff'):
                    continue
                cands = ctx.w.find(name)
                cls = fd.cls
                mine = [c for c in cands if c.cls is None or c.cls == cls or c.cls in ctx.w.bases(cls or '')] or cands
                if not mine:
                    # not a function of the library: a local object that is indexed (Eigen array) or a standard const accessor
                    body = [str(t).split(':', 1)[1].rsplit('@', 1)[0].strip("'") if ':' in str(t) else str(t) for t in fd.body_toks]
                    declared = any(body[j] == name and j > 0 and (body[j - 1] in ('>', '&', '*') or str(fd.body_toks[j - 1]).startswith('id:')) and body[j + 1] in ('(', '=', ';', '{')
                                   and body[j - 1] not in ('return', '<<') for j in range(1, len(body) - 1))
                    if declared or name in ('what', 'pretty_print'):
                        continue
                    unknown.append('%s: call of %s in a verbose message cannot be resolved' % (fd.qname, name))
                elif any((c.cls is not None and not c.const and not c.static) or any(p.type.ref and not p.type.const for p in c.params) for c in mine):
                    return 'call of non-const %s in the message' % name
        return None
    def only_logs(s, fd):
        if s is None or isinstance(s, cxx.Empty):
            return None
        if isinstance(s, cxx.Block):
            for x in s.stmts:
                r = only_logs(x, fd)
                if r:
                    return r
            return None
        if isinstance(s, cxx.ExprStmt) and isinstance(s.e, cxx.Log):
            if s.e.level != 'VERBOSE':
                return '%s(...) inside a verbose guard' % s.e.level
            return check_log(s.e, fd)
        if isinstance(s, cxx.If):
            # a nested selection among messages: condition without assignment or call, branches of log statements only
            rc = repr(s.c)
            if 'Assign(' in rc or 'Call(' in rc or "Postfix(" in rc or "op='++'" in rc or "op='--'" in rc:
                return 'nested condition with an assignment or a call inside a verbose guard'
            return only_logs(s.a, fd) or only_logs(s.b, fd)
        return 'statement %s inside a verbose guard' % type(s).__name__
    def walk(s, fd):
        nonlocal sites
        if isinstance(s, (list, tuple)):
            for x in s:
                walk(x, fd)
            return
        if isinstance(s, cxx.If) and mentions_verbose(s.c):
            sites += 1
            why = None
            if not (isinstance(s.c, cxx.Id) or isinstance(s.c, cxx.Member) or isinstance(s.c, cxx.Call)):
                why = 'compound condition %r' % (s.c,)
            elif s.b is not None and not isinstance(s.b, cxx.Empty):
                why = 'else branch of a verbose guard'
            else:
                why = only_logs(s.a, fd)
            if why:
                bad.append('%s (%s): %s' % (fd.qname, ctx.w.rel(fd.file), why))
            return
        if hasattr(s, '_fields'):
            if not isinstance(s, (cxx.If,)) and mentions_verbose(s) and isinstance(s, (cxx.While, cxx.DoWhile, cxx.For, cxx.Cond, cxx.Switch)) and \
               mentions_verbose(getattr(s, 'c', None) if not isinstance(s, cxx.Switch) else s.e):
                bad.append('%s: verbose flag in the condition of a %s' % (fd.qname, type(s).__name__))
            for f in s._fields:
                v = getattr(s, f)
                if isinstance(v, (list, tuple)) or hasattr(v, '_fields'):
                    walk(v, fd)
    nf = 0
    for key, fds in sorted(ctx.w.funcs.items()):
        for fd in fds:
            if fd.body_toks is None or not any('verbose_output' in str(t) for t in fd.body_toks):
                continue
            # setters/getters of the flag and the option reader are not guards
            nf += 1
            try:
                walk(ctx.w.body(fd), fd)
            except cxx.ParseError as e:
                unknown.append('%s: %s' % (fd.qname, e))
    if sites < 10:
        ctx.record('sites', ERROR, 'B', 0, 'only %d verbose guards found in %d functions (extraction)' % (sites, nf))
        return
    for u in unknown[:3]:
        ctx.record('unresolved', ERROR, 'B', 0, u)
    ctx.record('', PROVED if not bad else FAILED, 'B', 0, ('%d verbose guards in %d functions: each guards VERBOSE(...) statements only' % (sites, nf)) if not bad else
               'the verbose flag interferes: ' + '; '.join(bad[:3]), solver='effect inference on the extracted statements', model={'sites': bad[:3]} if bad else None)
