"""C02 -- multi-variable loop functions: definition, symmetry, homogeneity, degenerate limits.

Contracts on the real functions of src/gm2_ffunctions.cpp.  Spec functions are transcribed from math/ffunctions.m and the papers
(arXiv:1311.1775 (6.3),(6.4); Davydychev/Tausk as in arXiv:1607.06292 (68)-(70); hep-ph/0609168 (70)-(72)) -- never from the C++ code.

  sort            : callee contract (output ascending, a permutation of the input)                       [B, all paths]
  symmetry        : every function whose definition is symmetric reads its arguments only through sort's output: for every permutation of the
                    arguments the paths, path conditions and results coincide under sort's contract      [B, relational]
  homogeneity     : Iabc(ka,kb,kc) = Iabc/k^2, Phi(kx,ky,kz) = k Phi, lambda_2 degree 2                     [B, relational + ring]
  definition      : on the generic path the result IS the defining expression (ring identity, logs/dilogs/Clausen as atoms)
  expansions      : every near-degenerate branch returns a polynomial whose coefficients are exactly the Taylor coefficients of the
                    defining expression at the degenerate point (to the order the code documents): the analytic limit is approached
                    continuously and the value AT the degenerate point is the documented limit             [B, sympy series of the spec]
  zero limits     : exact documented value when an argument is zero                                       [B, concrete paths]
  truncation      : size of the neglected Taylor remainder at the edge of each expansion window -- BOUNDED numeric stand-in (mpmath),
                    never counted as proved
Not decided here: IEEE rounding/cancellation inside the closed forms (A-REAL).
"""
import itertools, z3, sympy
from fractions import Fraction as Fr
from gm2v.ob import obligation, PROVED, FAILED, UNDECIDED, ERROR
from gm2v.interp import Interp, Thrown, Cell, Unsupported
from gm2v.values import to_z3, z3real, is_sym
from gm2v import ring

FF = 'src/gm2_ffunctions.cpp'

def uf(name):
    return lambda it, a, t: it.uf(name, *a)

ATOMS = {'G3': uf('G3'), 'G4': uf('G4'), 'f_PS': uf('f_PS'), 'f_S': uf('f_S'), 'f_CSl': uf('f_CSl'), 'f_CSu': uf('f_CSu'), 'f_CSd': uf('f_CSd'),
         'dilog': uf('Li2'), 'clausen_2': uf('Cl2')}

def sorted_stub(record=None):
    """contract of sort(x,y[,z]) applied at the call site: afterwards the arguments hold the ascending rearrangement s0 <= s1 (<= s2) of the
    multiset of inputs -- the same values whatever the order of the inputs"""
    def stub(it, args, this, cells):
        s = [z3.Real('s%d' % i) for i in range(len(args))]
        for a, b in zip(s, s[1:]):
            it.axiom(a <= b)
        if record is not None:
            record.append(list(args))
        for c, v in zip(cells, s):
            if c is None:
                raise RuntimeError('sort called on a non-lvalue')
            c.v = v
        return None
    stub.wants_cells = True
    return stub

def run(ctx, fn, args, pre, stubs, file=FF, max_paths=4000, feasibility=True):
    it = Interp(ctx.w, mode='sym', stubs=stubs, assumptions=pre, div_sides=False, feasibility=feasibility)
    def thunk():
        try:
            return it.call(fn, list(args), file=file)
        except Unsupported as e:
            if 'NaN' in str(e):
                return 'NaN'     # the negative-argument answer (its IEEE behaviour is a back end A matter)
            raise
    ps = it.run_paths(thunk, max_paths=max_paths)
    ctx.merge_rules(it)
    return it, ps

# ------------------------------------------------------------------------------------------------ sort
@obligation('C02.sort', fns=[(FF, 'sort')])
def _(ctx):
    """ensures (both overloads, all paths): the references hold an ascending permutation of the values passed in"""
    for n in (2, 3):
        fds = [f for f in ctx.w.find('sort', FF) if len(f.params) == n]
        if len(fds) != 1:
            ctx.record('sort%d' % n, ERROR, 'B', 0, 'extraction: %d overloads with %d parameters' % (len(fds), n))
            continue
        xs = [z3.Real('a%d' % i) for i in range(n)]
        it = Interp(ctx.w, mode='sym')
        outs = []
        def thunk():
            cells = [Cell(x) for x in xs]
            it.invoke(fds[0], list(xs), None, arg_cells=cells)
            return [c.v for c in cells]
        ps = it.run_paths(thunk)
        ctx.merge_rules(it)
        for k, (s, r, e) in enumerate(ps):
            r = [z3real(v) for v in r]
            perm = z3.Or(*[z3.And(*[r[i] == xs[p[i]] for i in range(n)]) for p in itertools.permutations(range(n))])
            asc = z3.And(*[r[i] <= r[i + 1] for i in range(n - 1)])
            ctx.prove('sort%d.path%d' % (n, k), s.pc, z3.And(perm, asc), check_vacuity=False)
        ctx.record('sort%d.paths' % n, PROVED if len(ps) >= n else FAILED, 'B', 0, '%d paths' % len(ps))

# ------------------------------------------------------------------------------------------------ symmetry
SYMMETRIC = [('Fa', 2), ('Fb', 2), ('FPZ', 2), ('FSZ', 2), ('FCWl', 2), ('Iabc', 3), ('Phi', 3)]

def replay_multi(fns):
    """replay for definition/expansion obligations: sweep of the real functions against the 130-digit definition"""
    def rep(model, wd):
        msgs, any_bad = [], False
        for fn, n in fns:
            bad, msg = replay_accuracy(fn, n)(model, wd)
            any_bad = any_bad or bad
            msgs.append(msg)
        return any_bad, '\n'.join(msgs)
    return rep

def make_symmetry(fn, n):
    @obligation('C02.symmetry.%s' % fn, fns=[(FF, fn), (FF, 'sort')] + ([(FF, 'Ixyz')] if fn == 'Iabc' else []), replay=lambda m, wd: replay_symmetry(fn, n)(m, wd))
    def ob(ctx):
        """ensures: f(args) == f(permuted args) for every permutation of non-negative arguments.  For each ordering pattern of the values
        (all distinct a<b<c; ties a=b<c, a<b=c; all equal) every rearrangement of the arguments takes the same paths with equivalent path
        conditions and returns the identical term (the real sort body is executed; infeasible branches are pruned by the solver)"""
        a, b, c = z3.Reals('a b c')
        if n == 2:
            patterns = [('a<b', [a >= 0, a < b], [a, b]), ('a=b', [a >= 0], [a, a])]
        else:
            patterns = [('a<b<c', [a >= 0, a < b, b < c], [a, b, c]), ('a=b<c', [a >= 0, a < c], [a, a, c]), ('a<b=c', [a >= 0, a < b], [a, b, b]),
                        ('a=b=c', [a >= 0], [a, a, a])]
        for pname, pre, vals in patterns:
            base = None
            seen = set()
            for p in itertools.permutations(range(n)):
                args = [vals[i] for i in p]
                key = tuple(str(x) for x in args)
                if key in seen:
                    continue
                seen.add(key)
                it, ps = run(ctx, fn, args, pre, dict(ATOMS))
                sig = [(s.pc, r, e) for s, r, e in ps]
                tag = '%s.(%s)' % (pname, ','.join(key))
                if base is None:
                    base = sig
                    base_unknown = it.unknown_feasibility
                    ctx.record(tag, PROVED if sig else ERROR, 'B', 0, 'reference arrangement: %d feasible paths' % len(sig))
                    continue
                if len(sig) != len(base) and (it.unknown_feasibility or base_unknown):
                    ctx.record(tag, UNDECIDED, 'B', 0, 'the solver left the feasibility of %d branch(es) undecided (timeout); path sets not comparable' % (it.unknown_feasibility + base_unknown))
                    continue
                if len(sig) != len(base):
                    ctx.record(tag, FAILED, 'B', 0, 'different number of feasible paths (%d vs %d for the reference arrangement)' % (len(sig), len(base)),
                               model={'_arrangement': key, '_pattern': pname})
                    continue
                bad = None
                undecided = None
                for k, ((pc1, r1, e1), (pc2, r2, e2)) in enumerate(zip(base, sig)):
                    if (e1 is None) != (e2 is None) or (r1 is None) != (r2 is None):
                        bad = 'path %d: exception/return mismatch' % k
                        break
                    if isinstance(r1, str) or isinstance(r2, str):
                        if r1 != r2:
                            bad = 'path %d: %s vs %s' % (k, r1, r2)
                            break
                    elif r1 is not None and not z3.eq(z3.simplify(z3real(r1)), z3.simplify(z3real(r2))):
                        if not _ring_eq(r1, r2):
                            bad = 'path %d: %s  vs  %s' % (k, str(r1)[:100], str(r2)[:100])
                            break
                    c1, c2 = z3.And(*pc1) if pc1 else z3.BoolVal(True), z3.And(*pc2) if pc2 else z3.BoolVal(True)
                    s_ = z3.Solver()
                    s_.set('timeout', 5000)
                    s_.add(*pre)
                    s_.add(c1 != c2)
                    rr = s_.check()
                    if rr == z3.unknown:
                        s_.set('timeout', 60000)
                        rr = s_.check()
                    if rr == z3.unknown:
                        undecided = 'path %d: equivalence of the path conditions not decided within 60 s' % k
                        break
                    if rr != z3.unsat:
                        bad = 'path %d: path conditions differ' % k
                        break
                if not bad and undecided:
                    ctx.record(tag, UNDECIDED, 'B', 0, undecided)
                    continue
                ctx.record(tag, FAILED if bad else PROVED, 'B', 0, bad or '%d paths coincide with the reference arrangement' % len(sig),
                           model={'_arrangement': key, '_pattern': pname} if bad else None)
    return ob

def _ring_eq(a, b):
    try:
        return ring.identity(z3real(a), z3real(b))
    except ring.NotRing:
        return False

for _fn, _n in SYMMETRIC:
    make_symmetry(_fn, _n)

@obligation('C02.symmetry.lambda_2', fns=[(FF, 'lambda_2')])
def _(ctx):
    """ensures: lambda_2(x,y,z) == x^2+y^2+z^2-2xy-2yz-2zx (Kaellen function, arXiv:1607.06292 (69)), hence totally symmetric; lambda_2(u,v) == (1-u-v)^2-4uv"""
    x, y, z = z3.Reals('x y z')
    it = Interp(ctx.w, mode='sym', div_sides=False)
    for fd in ctx.w.find('lambda_2', FF):
        n = len(fd.params)
        args = [x, y, z][:n]
        ps = it.run_paths(lambda: it.invoke(fd, args, None))
        spec = x * x + y * y + z * z - 2 * x * y - 2 * y * z - 2 * z * x if n == 3 else (1 - x - y) * (1 - x - y) - 4 * x * y
        for k, (s, r, e) in enumerate(ps):
            ctx.prove_ring('arity%d.path%d' % (n, k), [(r, spec)])
    ctx.merge_rules(it)

# ------------------------------------------------------------------------------------------------ homogeneity
@obligation('C02.homogeneity', fns=[(FF, 'Iabc'), (FF, 'Ixyz'), (FF, 'Phi'), (FF, 'lambda_2')])
def _(ctx):
    """ensures (k > 0, outside the absolute zero window of is_zero): Iabc(ka,kb,kc) == Iabc(a,b,c)/k^2 and Phi(kx,ky,kz) == k Phi(x,y,z):
    after sort the scale-free kernels Ixy / phi_uv, lambda_2(u,v) receive the SAME arguments (ratios), and the remaining factor scales as stated"""
    k = z3.Real('k')
    s = [z3.Real('s%d' % i) for i in range(3)]
    for fn, kern, deg in (('Iabc', 'Ixy', -2), ('Phi', 'phi_uv', 1)):
        res = []
        for scale in (False, True):
            calls = []
            def kstub(it, a, t, calls=calls):
                calls.append(list(a))
                return it.uf('kernel', *a)
            def sort_scaled(it, args, this, cells, scale=scale):
                f = (k * k if fn == 'Iabc' else k) if scale else 1
                for c, v in zip(cells, s):
                    c.v = v * f if scale else v
                return None
            sort_scaled.wants_cells = True
            stubs = dict(ATOMS)
            stubs.update({kern: kstub, 'sort': sort_scaled, 'is_zero': lambda it, a, t: False})
            if fn == 'Phi':
                stubs['lambda_2'] = lambda it, a, t: it.uf('lam2', *a)
            xs = [z3.Real(c) for c in 'xyz']
            it, ps = run(ctx, fn, xs, [k > 0, s[0] > 0, s[0] <= s[1], s[1] <= s[2]], stubs, feasibility=False)
            res.append((ps, calls))
        (p1, c1), (p2, c2) = res
        if len(p1) != 1 or len(p2) != 1 or len(c1) != len(c2) or not c1:
            ctx.record(fn, FAILED, 'B', 0, 'unexpected shape: %d/%d paths, %d/%d kernel calls' % (len(p1), len(p2), len(c1), len(c2)))
            continue
        pairs = [(a, b) for A, B in zip(c1, c2) for a, b in zip(A, B)]
        ctx.prove_ring(fn + '.kernel_arguments_scale_free', pairs)
        r1, r2 = p1[0][1], p2[0][1]
        # identify the kernel atoms of the two runs (their arguments were just shown equal)
        K = z3.Real('K')
        L2 = z3.Real('L2')
        def abstract(r):
            import gm2v.values as V
            e = z3real(r)
            subs = []
            def walk(t):
                if z3.is_app(t) and t.decl().name() in ('kernel', 'lam2'):
                    subs.append((t, K if t.decl().name() == 'kernel' else L2))
                    return
                for c in t.children():
                    walk(c)
            walk(e)
            return z3.substitute(e, *subs) if subs else e
        f = k * k if fn == 'Iabc' else k
        if deg == -2:
            ctx.prove_ring(fn + '.degree', [(abstract(r2) * k * k, abstract(r1))])
        else:
            ctx.prove_ring(fn + '.degree', [(abstract(r2), abstract(r1) * k)])

# ------------------------------------------------------------------------------------------------ definitions (generic branch)
def spec_I(x, y, lx, ly):
    """I2abc[x,y,1] of math/ffunctions.m with ln(x/y) = lx - ly:  (x y ln(x/y) + y ln y + x ln(1/x))/((x-y)(y-1)(x-1))"""
    return (x * y * (lx - ly) + y * ly - x * lx) / ((x - y) * (y - 1) * (x - 1))

def last_path(ps, spec=None):
    """the generic path: the one whose result is the defining expression (selected by content; if none matches, the last explored path is
    returned so that the failed identity is reported against it)"""
    live = [p for p in ps if p[1] is not None and not isinstance(p[1], str)]
    if spec is not None:
        for p in live:
            if isinstance(p[1], z3.ExprRef) and _ring_eq(p[1], spec):
                return p
    return live[-1]

@obligation('C02.def.generic', fns=[(FF, 'Fa'), (FF, 'Fb'), (FF, 'Ixy'), (FF, 'Ixyz'), (FF, 'FPZ'), (FF, 'FSZ'), (FF, 'FCWl'), (FF, 'FCWu'), (FF, 'FCWd')], replay=lambda m, wd: replay_multi([('Fa', 2), ('Fb', 2), ('Iabc', 3), ('FPZ', 2), ('FSZ', 2)])(m, wd))
def _(ctx):
    """ensures, on the path where no degenerate-case test fires:
       Fa == -(G3(x)-G3(y))/(x-y), Fb == -(G4(x)-G4(y))/(x-y)                       [1311.1775 (6.3)]
       Ixyz == (xy ln(x/y) + yz ln(y/z) + zx ln(z/x))/((x-y)(y-z)(x-z))              [I2abc; ln(a/b) = ln a - ln b]
       FPZ == (y fPS(x) - x fPS(y))/(x-y), FSZ with fS, FCWl with fCl, FCWu/FCWd with fCSu/fCSd over (xu-yu)/(xd-yd)"""
    s0, s1, s2 = z3.Reals('s0 s1 s2')
    pre2 = [s0 > 0, s0 < s1]
    for fn, g in (('Fa', 'G3'), ('Fb', 'G4')):
        stubs = dict(ATOMS); stubs['sort'] = sorted_stub()
        it, ps = run(ctx, fn, z3.Reals('x y'), [], stubs, feasibility=False)
        G = it.uf_cache[(g, 1)]
        spec_ = -(G(s0) - G(s1)) / (s0 - s1)
        ctx.prove_ring(fn, [(last_path(ps, spec_)[1], spec_)])
    for fn, g in (('FPZ', 'f_PS'), ('FSZ', 'f_S'), ('FCWl', 'f_CSl')):
        stubs = dict(ATOMS); stubs['sort'] = sorted_stub()
        it, ps = run(ctx, fn, z3.Reals('x y'), [], stubs, feasibility=False)
        G = it.uf_cache[(g, 1)]
        spec_ = (s1 * G(s0) - s0 * G(s1)) / (s0 - s1)
        ctx.prove_ring(fn, [(last_path(ps, spec_)[1], spec_)])
    # Iabc(a,b,c) = I2abc(a^2,b^2,c^2): generic path of Ixy with x = s0/s2, y = s1/s2 (s0 <= s1 <= s2 the sorted squares).  The PUBLIC function is the entry: whether
    # the squared-argument helper Ixyz is a separate function or inlined is immaterial
    stubs = dict(ATOMS); stubs['sort'] = sorted_stub()
    it, ps = run(ctx, 'Iabc', z3.Reals('a b c'), [], stubs, feasibility=False)
    ln = it.uf_cache.get(('ln', 1))
    if ln is None:
        ctx.record('Ixyz', ERROR, 'B', 0, 'no logarithm on the generic path')
    else:
        lx, ly = ln(s0 / s2), ln(s1 / s2)
        spec = (s0 * s1 * (lx - ly) + s1 * s2 * ly - s2 * s0 * lx) / ((s0 - s1) * (s1 - s2) * (s0 - s2))
        ctx.prove_ring('Ixyz', [(last_path(ps, spec)[1], spec)])
    # FCWu / FCWd: no sort; the generic path is the one where the shift is not applied
    xu, xd, yu, yd, qu, qd = z3.Reals('xu xd yu yd qu qd')
    for fn, g, (a, b) in (('FCWu', 'f_CSu', (xu, yu)), ('FCWd', 'f_CSd', (xd, yd))):
        it, ps = run(ctx, fn, [xu, xd, yu, yd, qu, qd], [v > 0 for v in (xu, xd, yu, yd)], dict(ATOMS, shift=lambda it, a, t: (_ for _ in ()).throw(RuntimeError('shift'))), feasibility=False) if False else \
                 run(ctx, fn, [xu, xd, yu, yd, qu, qd], [v > 0 for v in (xu, xd, yu, yd)], dict(ATOMS), feasibility=False)
        G = it.uf_cache[(g, 4)]
        spec_ = (b * G(xu, xd, qu, qd) - a * G(yu, yd, qu, qd)) / (a - b)
        ctx.prove_ring(fn, [(last_path(ps, spec_)[1], spec_)])

# ------------------------------------------------------------------------------------------------ reference evaluation (mpmath) and the real code
def _mp():
    import mpmath
    mpmath.mp.dps = 130
    return mpmath

def mp_G3(x):
    m = _mp()
    return ((x - 1) * (x - 3) + 2 * m.log(x)) / (2 * (x - 1)**3)

def mp_G4(x):
    m = _mp()
    return ((x - 1) * (x + 1) - 2 * x * m.log(x)) / (2 * (x - 1)**3)

def mp_fPS(z):
    m = _mp()
    y = m.sqrt(m.mpc(1 - 4 * z))
    return m.re(2 * z / y * (m.polylog(2, 1 - (1 - y) / (2 * z)) - m.polylog(2, 1 - (1 + y) / (2 * z))))

def mp_fS(z):
    m = _mp()
    return (2 * z - 1) * mp_fPS(z) - 2 * z * (2 + m.log(z))

def mp_fCl(z):
    m = _mp()
    return z * (z + z * (z - 1) * (m.polylog(2, 1 - 1 / z) - m.pi**2 / 6) + (z - m.mpf(1) / 2) * m.log(z))

def _perturb(vals):
    """the definition at coinciding/special arguments is its limit: evaluate it at arguments moved by distinct relative amounts ~1e-30
    (working precision 130 digits; error of the limit ~1e-24 even for third-order cancellations with condition numbers 1e6)"""
    m = _mp()
    d = m.mpf(10)**-30
    return [m.mpf(x) * (1 + c * d) for x, c in zip(vals, (1, m.mpf('2.7'), m.mpf('-4.3')))]

def mp_spec(fn, args):
    m = _mp()
    if any(a == 0 for a in args):
        return None
    if fn in ('Fa', 'Fb'):
        x, y = _perturb(args)
        G = mp_G3 if fn == 'Fa' else mp_G4
        return -(G(x) - G(y)) / (x - y)
    if fn in ('FPZ', 'FSZ', 'FCWl'):
        x, y = _perturb(args)
        f = {'FPZ': mp_fPS, 'FSZ': mp_fS, 'FCWl': mp_fCl}[fn]
        return (y * f(x) - x * f(y)) / (x - y)
    if fn == 'Iabc':
        a, b, c = [v * v for v in _perturb(args)]
        return (a * b * m.log(a / b) + b * c * m.log(b / c) + c * a * m.log(c / a)) / ((a - b) * (b - c) * (a - c))
    if fn == 'Phi':
        x, y, z = _perturb(args)
        lam = m.sqrt(m.mpc(x * x + y * y + z * z - 2 * x * y - 2 * y * z - 2 * z * x))
        ap, am = (z + x - y - lam) / (2 * z), (z - x + y - lam) / (2 * z)
        return m.re(lam / 2 * (2 * m.log(ap) * m.log(am) - m.log(x / z) * m.log(y / z) - 2 * m.polylog(2, ap) - 2 * m.polylog(2, am) + m.pi**2 / 3))
    if fn == 'lambda_2':
        x, y, z = [m.mpf(v) for v in args]
        return x * x + y * y + z * z - 2 * x * y - 2 * y * z - 2 * z * x
    raise KeyError(fn)

REAL_FUNCS = [('Fa', 'Fa(a[0],a[1])', 2), ('Fb', 'Fb(a[0],a[1])', 2), ('FPZ', 'FPZ(a[0],a[1])', 2), ('FSZ', 'FSZ(a[0],a[1])', 2), ('FCWl', 'FCWl(a[0],a[1])', 2),
              ('Iabc', 'Iabc(a[0],a[1],a[2])', 3), ('Phi', 'Phi(a[0],a[1],a[2])', 3), ('lambda_2', 'lambda_2(a[0],a[1],a[2])', 3)]

def real_eval(wd, calls):
    from gm2v import native
    exe = native.build_scalar_driver(wd, [FF], ['src/gm2_dilog.cpp', 'src/gm2_numerics.cpp'], REAL_FUNCS)
    return native.run_scalar_driver(exe, calls)

GRID = [1e-6, 1e-5, 1.9e-4, 2.5e-4, 1e-3, 1e-2, 0.1, 0.2499999, 0.25, 0.26, 0.5, 0.9, 0.99, 0.99995, 1.0, 1.00002, 1.0000000001, 1.002, 1.02, 1.1, 2.0, 4.0, 10.0, 1e2, 1e3, 1e4, 1e6]

def tuples(n):
    """deterministic sweep: all grid tuples with pairwise ratios in [1e-6,1e6], plus near-degenerate companions (relative distances 1e-12..1e-1)"""
    out = []
    base = GRID if n == 2 else [g for g in GRID if g not in (0.2499999, 0.26, 1.0000000001, 1e4)]
    for t in itertools.product(base, repeat=n):
        if max(t) / min(t) <= 1e6:
            out.append(t)
    eps = [1e-12, 1e-9, 1e-7, 3e-6, 0.9e-5, 1.1e-5, 0.9e-4, 1.1e-4, 1e-3, 0.9e-2, 1.1e-2, 1e-1]
    for g in (1e-3, 0.1, 0.25, 0.9, 1.0, 3.0, 50.0):
        for e in eps:
            for sg in (1, -1):
                if n == 2:
                    out.append((g, g * (1 + sg * e)))
                else:
                    for h in (1e-4 * g, 0.3 * g, g, 7.0 * g, 1e3 * g):
                        out.append((h, g, g * (1 + sg * e)))
                    out.append((g * (1 - sg * e / 3), g, g * (1 + sg * e)))
    return out

def replay_symmetry(fn, n):
    def rep(model, wd):
        ts = tuples(n)
        calls = []
        for t in ts:
            for p in itertools.permutations(range(n)):
                calls.append((fn, [t[i] for i in p]))
        vals = real_eval(wd, calls)
        k = len(list(itertools.permutations(range(n))))
        worst = None
        for i, t in enumerate(ts):
            vs = vals[i * k:(i + 1) * k]
            ref = vs[0]
            for j, v in enumerate(vs):
                d = abs(v - ref)
                if d > 1e-9 * max(abs(ref), abs(v)) and (worst is None or d / max(abs(ref), abs(v)) > worst[0]):
                    worst = (d / max(abs(ref), abs(v)), t, list(itertools.permutations(range(n)))[j], ref, v)
        if worst is None:
            return False, 'real %s agrees (1e-9 relative) for all rearrangements of %d tuples' % (fn, len(ts))
        rel, t, p, ref, v = worst
        return True, 'real %s%r = %r but %s%r = %r (relative difference %.3g)' % (fn, t, ref, fn, tuple(t[i] for i in p), v, rel)
    return rep

# ------------------------------------------------------------------------------------------------ expansions: Taylor-coefficient contracts
X, Y, S, T, D, LX, LY = sympy.symbols('x y s t d LX LY')

def sp_G3(x):
    return ((x - 1) * (x - 3) + 2 * sympy.log(x)) / (2 * (x - 1)**3)

def sp_G4(x):
    return ((x - 1) * (x + 1) - 2 * x * sympy.log(x)) / (2 * (x - 1)**3)

def sp_h(x):
    """I2abc[x,y,1] == (h(x) - h(y))/(x - y) with h(t) = t ln t/(t - 1)   (identity checked in C02.expansion.I.divided_difference)"""
    return x * sympy.log(x) / (x - 1)

def sp_I(x, y):
    return (x * y * (sympy.log(x) - sympy.log(y)) + y * sympy.log(y) - x * sympy.log(x)) / ((x - y) * (y - 1) * (x - 1))

def taylor1(f, at, n):
    """[f_0..f_{n-1}]: Taylor coefficients of the one-variable spec function f at `at` (removable singularities handled by the series expansion)"""
    e = sympy.series(f(X), X, at, n + 4).removeO()
    p = sympy.Poly(sympy.expand(e.subs(X, at + S)), S)
    return [sympy.nsimplify(p.coeff_monomial(S**k)) for k in range(n)]

def dd_poly(g, sign, n):
    """bivariate Taylor polynomial (orders < n in each variable) of sign*(G(x)-G(y))/(x-y) at the point where G has Taylor coefficients g:
    (s^k - t^k)/(s - t) = sum_{i+j=k-1} s^i t^j"""
    return sum(sign * g[i + j + 1] * S**i * T**j for i in range(n) for j in range(n))

def code_expr(ctx, fn, args, pre=(), stubs=None, want_path=None):
    """the term returned by the real helper on the path selected by want_path (a predicate on the list of (Sym, result)), as a sympy expression"""
    it = Interp(ctx.w, mode='sym', stubs=dict(stubs or ATOMS), assumptions=list(pre), div_sides=False)
    ps = it.run_paths(lambda: it.call(fn, list(args), file=FF))
    ctx.merge_rules(it)
    return it, ps

def z2s(r):
    e = ring.to_sympy(z3real(r), {})
    e = e.replace(sympy.Function('ln'), sympy.log)
    e = e.replace(sympy.Function('sqrt'), sympy.sqrt)
    return e

def zero(e, logs=()):
    """e == 0 as a rational function after replacing log(sym) by independent symbols"""
    rep = {sympy.log(v): sympy.Symbol('L_' + str(v)) for v in logs}
    e = e.subs(rep)
    num, den = sympy.fraction(sympy.together(e))
    return sympy.expand(num) == 0

def path_with(ps, logs):
    """the branch with (closed form) / without (pure series polynomial) logarithms -- selected by content, not by position in the source"""
    for s_, r, e in ps:
        if r is None or isinstance(r, str):
            continue
        if (('ln(' in str(r)) == logs):
            return r
    raise RuntimeError('no path %s logarithms among %d paths' % ('with' if logs else 'without', len(ps)))

def coeff_check(ctx, tag, got, want, what):
    d = sympy.expand(got - want)
    ok = d == 0
    ctx.record(tag, PROVED if ok else FAILED, 'B', 0, '%s: code %s, Taylor coefficient of the definition %s' % (what, got, want) if not ok else what,
               solver='sympy series + ring normalisation')
    return ok

@obligation('C02.expansion.FaFb', fns=[(FF, n) for n in ('Fa11', 'Fb11', 'Fax', 'Fbx', 'Fa', 'Fb')], replay=lambda m, wd: replay_multi([('Fa', 2), ('Fb', 2)])(m, wd))
def _(ctx):
    """ensures: Fa11/Fb11 are the bivariate Taylor polynomials of the definition at (1,1) to order (x-1)^2 (y-1)^2 inclusive; Fax/Fbx are its
    Taylor polynomials in (y-x) to second order with exact coefficient functions -G^(k+1)(x)/(k+1)!, and for |x-1| < 1e-2 the Taylor polynomial
    of the diagonal value -G'(x) at 1 to (x-1)^7; values at (1,1): 1/4 and 1/12"""
    x, y = z3.Reals('x y')
    for fn, G, v11 in (('Fa', sp_G3, Fr(1, 4)), ('Fb', sp_G4, Fr(1, 12))):
        g = taylor1(G, 1, 10)
        # --- F?11
        it, ps = code_expr(ctx, fn + '11', [x, y])
        e = sympy.expand(z2s(path_with(ps, False)).subs({X: 1 + S, Y: 1 + T}))
        want = sympy.expand(dd_poly(g, -1, 3))
        coeff_check(ctx, fn + '11', e, want, 'all 9 coefficients s^i t^j, i,j <= 2')
        # --- F?x, general branch (last path) and near-1 branch (first path)
        it, ps = code_expr(ctx, fn + 'x', [x, y], pre=[x > 0, y > 0])
        gen = z2s(path_with(ps, True))
        p = sympy.Poly(sympy.expand(gen.subs(Y, X + D)), D)
        okdeg = p.degree() == 2
        ctx.record(fn + 'x.degree', PROVED if okdeg else FAILED, 'B', 0, 'polynomial of degree %d in (y - x)' % p.degree())
        for k in range(3):
            want = -sympy.diff(G(X), X, k + 1) / sympy.factorial(k + 1)
            ok = zero(p.coeff_monomial(D**k) - want, [X])
            ctx.record('%sx.c%d' % (fn, k), PROVED if ok else FAILED, 'B', 0, 'coefficient of (y-x)^%d == -G^(%d)(x)/%d!' % (k, k + 1, k + 1), solver='sympy diff + ring normalisation')
        near = sympy.expand(z2s(path_with(ps, False)).subs(X, 1 + S))
        want = sum(-(k + 1) * g[k + 1] * S**k for k in range(8))
        coeff_check(ctx, fn + 'x.near1', near, sympy.expand(want), 'coefficients of (x-1)^k, k <= 7, of -G\'(x)')
        # --- value at exactly (1,1)
        itc = Interp(ctx.w, mode='sym')
        r = itc.run_single(lambda: itc.call(fn, [Fr(1), Fr(1)], file=FF))
        ctx.record(fn + '.at11', PROVED if r == v11 else FAILED, 'B', 0, '%s(1,1) = %s, documented %s' % (fn, r, v11), model=None if r == v11 else {'_float': {'x': 1.0, 'y': 1.0}})

@obligation('C02.expansion.I', fns=[(FF, n) for n in ('I0y', 'I1y', 'Ixx', 'Ixy', 'Ixyz', 'Iabc')], replay=lambda m, wd: replay_multi([('Iabc', 3)])(m, wd))
def _(ctx):
    """ensures: I0y == ln y/(y-1) (the x -> 0 limit of the definition) with its Taylor polynomial to (y-1)^2 near 1; I1y is the Taylor polynomial
    of the definition in (x-1) to second order with exact coefficient functions of y; Ixx the one in (x-y) to second order (h^(k+1)(y)/(k+1)!), and
    near y = 1 the bivariate Taylor polynomial to (x-1)^2 (y-1)^2; values: Iabc(1,1,1) = 1/2, Iabc(0,1,1) = 1"""
    x, y = z3.Reals('x y')
    # the divided-difference form of the definition
    ok = zero(sp_I(X, Y) - (sp_h(X) - sp_h(Y)) / (X - Y), [X, Y])
    ctx.record('divided_difference', PROVED if ok else FAILED, 'B', 0, 'I2abc[x,y,1] == (h(x)-h(y))/(x-y), h(t) = t ln t/(t-1)', kind='lemma')
    h = taylor1(sp_h, 1, 8)
    # I0y
    it, ps = code_expr(ctx, 'I0y', [y], pre=[y > 0])
    gen = z2s(path_with(ps, True))
    lim = sympy.limit(sp_I(X, Y), X, 0)
    ctx.record('I0y.generic', PROVED if zero(gen - lim, [Y]) else FAILED, 'B', 0, 'I0y(y) == lim_{x->0} I(x,y) = %s' % lim)
    near = sympy.expand(z2s(path_with(ps, False)).subs(Y, 1 + T))
    w = sympy.series(sympy.log(1 + T) / T, T, 0, 3).removeO()
    coeff_check(ctx, 'I0y.near1', near, sympy.expand(w), 'coefficients of (y-1)^k, k <= 2')
    # I1y: Taylor in s = x - 1 at fixed y;  I(1+s,y) = (H(s) - h(y))/(s - (y-1))
    it, ps = code_expr(ctx, 'I1y', [x, y], pre=[y > 0])
    e = z2s(path_with(ps, True)).subs(X, 1 + S)
    p = sympy.Poly(sympy.expand(e), S)
    H = sum(h[k] * S**k for k in range(6))
    ser = sympy.series((H - sp_h(Y)) / (S - (Y - 1)), S, 0, 3).removeO()
    ps_ = sympy.Poly(sympy.expand(ser), S)
    ctx.record('I1y.degree', PROVED if p.degree() == 2 else FAILED, 'B', 0, 'polynomial of degree %d in (x-1)' % p.degree())
    for k in range(3):
        ok = zero(p.coeff_monomial(S**k) - ps_.coeff_monomial(S**k), [Y])
        ctx.record('I1y.c%d' % k, PROVED if ok else FAILED, 'B', 0, 'coefficient of (x-1)^%d == d^%d/dx^%d I(x,y)/%d! at x = 1' % (k, k, k, k), solver='sympy series + ring normalisation',
                   model=None if ok else {'_window': 'I1y'})
    # Ixx
    it, ps = code_expr(ctx, 'Ixx', [x, y], pre=[y > 0, x > 0])
    gen = z2s(path_with(ps, True))
    p = sympy.Poly(sympy.expand(gen.subs(X, Y + D)), D)
    ctx.record('Ixx.degree', PROVED if p.degree() == 2 else FAILED, 'B', 0, 'polynomial of degree %d in (x-y)' % p.degree())
    for k in range(3):
        want = sympy.diff(sp_h(Y), Y, k + 1) / sympy.factorial(k + 1)
        ok = zero(p.coeff_monomial(D**k) - want, [Y])
        ctx.record('Ixx.c%d' % k, PROVED if ok else FAILED, 'B', 0, 'coefficient of (x-y)^%d == h^(%d)(y)/%d!' % (k, k + 1, k + 1), solver='sympy diff + ring normalisation')
    near = sympy.expand(z2s(path_with(ps, False)).subs({X: 1 + S, Y: 1 + T}))
    coeff_check(ctx, 'Ixx.near1', near, sympy.expand(dd_poly(h, 1, 3)), 'all 9 coefficients s^i t^j, i,j <= 2')
    # documented values
    for args, doc in (((1, 1, 1), Fr(1, 2)), ((0, 1, 1), Fr(1)), ((0, 0, 0), Fr(0)), ((0, 0, 1), Fr(0))):
        itc = Interp(ctx.w, mode='sym')
        r = itc.run_single(lambda: itc.call('Iabc', [Fr(a) for a in args], file=FF))
        ctx.record('Iabc.at%s' % (args,), PROVED if r == doc else FAILED, 'B', 0, 'Iabc%s = %s, documented %s' % (args, r, doc))

# ------------------------------------------------------------------------------------------------ bounded stand-in: truncation error on a sweep
TOL = {'Fa': 1e-4, 'Fb': 1e-4}

REF_FILE = __import__('os').path.join(__import__('os').path.dirname(__file__), 'c02_reference.json')

def reference_values(fn, ts):
    """130-digit values of the DEFINITION (mp_spec, independent of the code under test) on the sweep, kept in contracts/c02_reference.json as 40-digit
    strings; any tuple missing from the table is computed and the table is extended"""
    import json, os
    m = _mp()
    try:
        table = json.load(open(REF_FILE))
    except Exception:
        table = {}
    tab = table.setdefault(fn, {})
    out, dirty = {}, False
    for t in ts:
        k = ','.join(float(x).hex() for x in t)
        if k not in tab:
            w = mp_spec(fn, t)
            tab[k] = None if w is None else m.nstr(w, 40)
            dirty = True
        out[t] = None if tab[k] is None else m.mpf(tab[k])
    if dirty:
        tmp = REF_FILE + '.%d.tmp' % os.getpid()
        # merge with what other processes may have written meanwhile
        try:
            cur = json.load(open(REF_FILE))
        except Exception:
            cur = {}
        cur.setdefault(fn, {}).update(tab)
        json.dump(cur, open(tmp, 'w'))
        os.replace(tmp, REF_FILE)
    return out

def admissible(fn, t):
    if min(t) <= 0 or max(t) / min(t) > 1e6:
        return False
    if fn in ('FPZ', 'FSZ', 'FCWl'):
        a, b = t
        return a == b or abs(a - b) >= 1e-3 * max(a, b)
    return True

def sweep_accuracy(fn, n, wd, extra=()):
    """real compiled function against the 130-digit definition on the deterministic sweep; returns (number of tuples, failures sorted by error)"""
    m = _mp()
    ts = [t for t in list(tuples(n)) + list(extra) if admissible(fn, t)]
    vals = real_eval(wd, [(fn, list(t)) for t in ts])
    bad = []
    tol = TOL.get(fn, 1e-6)
    ref = reference_values(fn, ts)
    for t, v in zip(ts, vals):
        want = ref[t]
        if want is None:
            continue
        scale = abs(want)
        if fn == 'Iabc':
            floor = 1e-12 / max(t)**2
        elif fn == 'Phi':
            floor = 1e-12 * max(t)
        else:
            floor = 1e-12
        err = abs(m.mpf(v) - want) if v == v else m.inf
        if err > tol * scale + floor:
            bad.append((float(err / scale) if scale else float('inf'), t, v, float(want)))
    bad.sort(key=lambda b: -b[0])
    return len(ts), bad

def replay_accuracy(fn, n):
    def rep(model, wd):
        cnt, bad = sweep_accuracy(fn, n, wd)
        if not bad:
            return False, 'real %s is within tolerance of the definition on all %d sweep tuples' % (fn, cnt)
        rel, t, v, want = bad[0]
        return True, 'real %s%r = %r, definition = %r (relative error %.3g; %d of %d sweep tuples out of tolerance)' % (fn, tuple(t), v, want, rel, len(bad), cnt)
    return rep

# sub-regions of the sweep that are reported as separate goals
REGIONS = {'FCWl': [('arg>=1e4', lambda t: max(t) >= 1e4)]}

def make_sweep(fn, n):
    @obligation('C02.truncation.%s' % fn, fns=[(FF, fn)], tier='quick', replay=replay_accuracy(fn, n))
    def ob(ctx):
        """BOUNDED (not a proof): on the deterministic sweep (grid tuples with ratios in [1e-6,1e6] and near-degenerate companions at relative distances
        1e-12..1e-1) the compiled real function agrees with the 130-digit definition within the property's tolerance"""
        from gm2v import native
        wd = native.workdir('c02sweep')
        cnt, bad = sweep_accuracy(fn, n, wd)
        parts = [('', lambda t: not any(r(t) for _, r in REGIONS.get(fn, [])))] + REGIONS.get(fn, [])
        for name, inreg in parts:
            b = [x for x in bad if inreg(x[1])]
            if b:
                rel, t, v, want = b[0]
                ctx.record(name, FAILED, 'bounded', 0, '%d tuples out of tolerance; worst %s%r = %r vs %r (rel %.3g)' % (len(b), fn, tuple(t), v, want, rel),
                           model={'_float': dict(zip('xyz', t))}, solver='native execution vs mpmath (130 digits)', kind='bounded')
            else:
                ctx.record(name, PROVED, 'bounded', 0, 'BOUNDED: within tolerance on the sweep (%d tuples in all regions)' % cnt, solver='native execution vs mpmath (130 digits)', kind='bounded')
    return ob

for _fn, _n in SYMMETRIC:
    make_sweep(_fn, _n)

# ------------------------------------------------------------------------------------------------ Phi: Davydychev-Tausk function
U, V = sympy.symbols('u v')

def sp_alpha(u, v):
    """(1 - lambda + u - v)/2 with lambda = sqrt((1-u-v)^2 - 4uv)   [alpha_+ of arXiv:1607.06292 (70) for z = 1]"""
    return (1 - sympy.sqrt((1 - u - v)**2 - 4 * u * v) + u - v) / 2

@obligation('C02.def.Phi', fns=[(FF, n) for n in ('Phi', 'phi_uv', 'phi_pos', 'phi_neg', 'luv', 'l00', 'l0v', 'lv0', 'lambda_2', 'phi_neg_1v', 'cl2acos')], replay=lambda m, wd: replay_multi([('Phi', 3)])(m, wd))
def _(ctx):
    """ensures (chain of callee contracts, lambda^2 > 0, arguments sorted by the real sort):
       Phi(x,y,z) == z lambda_2(u,v)/2 * phi_uv(u,v), u = x/z, v = y/z                                     [assembly]
       phi_uv(u,v) == phi_pos(u,v) for u,v <= 1; == phi_pos(1/u, v/u)/u resp. phi_pos(1/v, u/v)/v otherwise     [inversion identities of DT applied as documented]
       phi_pos(u,v) == (2 ln a+ ln a- - ln u ln v - 2 Li2 a+ - 2 Li2 a- + pi^2/3)/lambda on the generic path  [1607.06292 (68)-(70)]
       luv: the generic pair is (a+, a-); l00, l0v, lv0 are the Taylor polynomials of a+-(u,v) to the documented order (u^3 v^3; u^3 at fixed v)
       phi_pos(u,u): x = (1-lambda)/2 with its Taylor polynomial to u^4, result == the generic formula at v = u
       phi_neg generic == 2 (Cl2(2 acos((1+u-v)/(2 sqrt u))) + Cl2(2 acos((1-u+v)/(2 sqrt v))) + Cl2(2 acos((u+v-1)/(2 sqrt(uv)))))/sqrt(-lambda^2)
       => Phi == lambda_K/2 (2 ln a+ ln a- - ln(x/z) ln(y/z) - 2 Li2 a+ - 2 Li2 a- + pi^2/3) with lambda_K = z lambda (ring identity modulo lambda^2 = lambda_2(u,v))"""
    u, v = z3.Reals('u v')
    pre = [u > 0, v > 0, u <= v, v <= 1]
    # --- luv expansions
    lam = z3.Real('lam')
    it, ps = code_expr(ctx, 'luv', [lam, u, v], pre=pre)
    ps = [p for p in ps if p[1] is not None and p[2] is None]
    def tup(r):
        return list(getattr(r, 'v', r)) if not isinstance(r, (list, tuple)) else list(r)
    lam_s = sympy.Symbol('lam')
    def biv(expr, n):
        e = sympy.series(expr, U, 0, n + 1).removeO()
        e = sympy.series(sympy.expand(e), V, 0, n + 1).removeO()
        p = sympy.Poly(sympy.expand(e), U, V)
        return sum(c * U**i * V**j for (i, j), c in p.terms() if i <= n and j <= n)
    a_plus, a_minus = sp_alpha(U, V), sp_alpha(V, U)
    want00 = [sympy.expand(biv(a_plus, 3)), sympy.expand(biv(a_minus, 3))]
    A = sympy.Symbol('A', positive=True)
    # the paths are classified by CONTENT (generic pair: contains lambda; l00 pair: polynomial in u and v; l0v/lv0: rational in v), never by position or count:
    # a re-nesting of the conditions that reaches the same expression twice is the same contract
    classes = {'generic': [], 'vsmall': [], 'usmall': []}
    for k, (s_, r, _) in enumerate(ps):
        r = tup(r)
        e0, e1 = z2s(r[0]), z2s(r[1])
        if lam_s in e0.free_symbols or lam_s in e1.free_symbols:
            ok = zero(e0 - (1 - lam_s + U - V) / 2) and zero(e1 - (1 - lam_s - U + V) / 2)
            classes['generic'].append((ok, '(a+, a-) == ((1-lambda+u-v)/2, (1-lambda-u+v)/2)'))
            continue
        got = [sympy.expand(e0), sympy.expand(e1)]
        if all(g.is_polynomial(U, V) for g in got):
            # l00: bivariate Taylor at (0,0), all monomials u^i v^j with i,j <= 3
            # (the pair is used symmetrically by phi_pos -- ln x ln y, Li2 x + Li2 y -- so its order is immaterial: in this branch the code returns (a-, a+))
            okp = (got[0] == want00[0] and got[1] == want00[1]) or (got[0] == want00[1] and got[1] == want00[0])
            classes['vsmall'].append((okp, 'l00(u,v), l00(v,u): all 16 coefficients u^i v^j, i,j <= 3, of {a+, a-}' +
                                      ('' if okp else ': code %s / %s, definition %s / %s' % (got[0], got[1], want00[0], want00[1]))))
            continue
        # l0v / lv0: Taylor in u to order 3 at fixed v < 1 (sqrt((1-v)^2) = 1-v)
        for idx, spec, nm in ((0, a_plus, 'l0v'), (1, a_minus, 'lv0')):
            e = spec.subs(V, 1 - A)
            ser = sympy.series(e, U, 0, 4).removeO()
            want = sympy.Poly(sympy.expand(ser), U)
            gotp = sympy.Poly(sympy.expand(sympy.together((e0, e1)[idx].subs(V, 1 - A))), U)
            bad = [kk for kk in range(4) if sympy.simplify(gotp.coeff_monomial(U**kk) - want.coeff_monomial(U**kk)) != 0]
            classes['usmall'].append((not bad and gotp.degree() <= 3, '%s: coefficients of u^k, k <= 3, as functions of v%s' % (nm, '' if not bad else ' DIFFER at k=%s' % bad)))
    ctx.record('luv.paths', PROVED if all(classes.values()) else FAILED, 'B', 0, 'regimes reached: %s (expected: v small / u small / generic)' % {k: len(v) for k, v in classes.items()})
    for cname, gid in (('generic', 'luv.generic'), ('vsmall', 'luv.vsmall'), ('usmall', 'luv.usmall')):
        res = classes[cname]
        badc = [d for ok_, d in res if not ok_]
        if res:
            ctx.record(gid, FAILED if badc else PROVED, 'B', 0, badc[0] if badc else res[0][1] + (' (%d paths)' % len(res) if cname != 'usmall' else ''), solver='sympy series + ring normalisation')
    # --- phi_pos
    it, ps = code_expr(ctx, 'phi_pos', [u, v], pre=[u > 0, v > 0, u < v, v < 1], stubs=dict(ATOMS, luv=None) if False else ATOMS)
    ln, Li2, sq = it.uf_cache.get(('ln', 1)), it.uf_cache.get(('Li2', 1)), it.uf_cache.get(('sqrt', 1))
    PI = z3.Real('c_PI')
    L2 = (1 - u - v) * (1 - u - v) - 4 * u * v
    lam_z = sq(L2)
    ap, am = (1 - lam_z + u - v) / 2, (1 - lam_z - u + v) / 2
    spec = (2 * ln(ap) * ln(am) - ln(u) * ln(v) - 2 * Li2(ap) - 2 * Li2(am) + PI * PI / 3) / lam_z
    gen = last_path(ps, spec)
    ctx.prove_ring('phi_pos.generic', [(gen[1], spec)])
    # --- phi_pos(u,u)
    it2, ps2 = code_expr(ctx, 'phi_pos', [u, u], pre=[u > 0, u < Fr(1, 4)])
    ln2, Li22, sq2 = it2.uf_cache.get(('ln', 1)), it2.uf_cache.get(('Li2', 1)), it2.uf_cache.get(('sqrt', 1))
    res = [p for p in ps2 if p[1] is not None]
    lam_u = sq2((1 - u - u) * (1 - u - u) - 4 * u * u)
    okk = False
    for s_, r, e in res:
        txt = str(r)
        if 'If(' in txt:
            # x = u < qdrt_eps ? series : (1 - lambda)/2 : check both alternatives
            va = z3.simplify(z3.substitute(z3real(r), *[(t, z3.BoolVal(False)) for t in _conds(z3real(r))]))
            vb = z3.simplify(z3.substitute(z3real(r), *[(t, z3.BoolVal(True)) for t in _conds(z3real(r))]))
            xx = (1 - lam_u) / 2
            xz = u * (1 + u * (1 + u * (2 + 5 * u)))
            spec_uu = (2 * ln2(xx) * ln2(xx) - ln2(u) * ln2(u) - 4 * Li22(xx) + PI * PI / 3) / lam_u
            spec_small = (2 * ln2(xz) * ln2(xz) - ln2(u) * ln2(u) - 4 * Li22(xz) + PI * PI / 3) / lam_u
            if _ring_eq(va, spec_uu):
                big, small = va, vb
            else:
                big, small = vb, va
            ctx.prove_ring('phi_pos.uu.closed', [(big, spec_uu)])
            ser = sympy.series((1 - sympy.sqrt(1 - 4 * U)) / 2, U, 0, 5).removeO()
            ok = sympy.expand(ser - U * (1 + U * (1 + U * (2 + 5 * U)))) == 0
            ctx.prove_ring('phi_pos.uu.series', [(small, spec_small)])
            ctx.record('phi_pos.uu.series_coefficients', PROVED if ok else FAILED, 'B', 0, '(1 - sqrt(1-4u))/2 = u + u^2 + 2u^3 + 5u^4 + O(u^5)')
            okk = True
    if not okk:
        ctx.record('phi_pos.uu', UNDECIDED, 'B', 0, 'the u == v branch was not found in the expected form')
    # --- phi_neg generic
    it3, ps3 = code_expr(ctx, 'phi_neg', [u, v], pre=[u > 0, v > 0, u < v])
    Cl2, acos, sq3 = it3.uf_cache.get(('Cl2', 1)), it3.uf_cache.get(('acos', 1)), it3.uf_cache.get(('sqrt', 1))
    gen = last_path(ps3)
    if Cl2 is None or acos is None:
        ctx.record('phi_neg.generic', ERROR, 'B', 0, 'Clausen/acos atoms not found')
    else:
        su, sv = sq3(u), sq3(v)
        lamn = sq3(-((1 - u - v) * (1 - u - v) - 4 * u * v))
        spec = 2 * (Cl2(2 * acos((1 + u - v) / (2 * su))) + Cl2(2 * acos((1 - u + v) / (2 * sv))) + Cl2(2 * acos((-1 + u + v) / (2 * su * sv)))) / lamn
        gen = last_path(ps3, spec)
        ctx.prove_ring('phi_neg.generic', [(gen[1], spec)])
    # --- phi_uv dispatch and Phi assembly
    calls = []
    def pp(it_, a, t):
        calls.append(('pos', a)); return it_.uf('phi_pos', *a)
    def pn(it_, a, t):
        calls.append(('neg', a)); return it_.uf('phi_neg', *a)
    it4, ps4 = code_expr(ctx, 'phi_uv', [u, v], pre=[u > 0, v > 0], stubs=dict(ATOMS, phi_pos=pp, phi_neg=pn))
    PP, PN = it4.uf_cache.get(('phi_pos', 2)), it4.uf_cache.get(('phi_neg', 2))
    want = {'0': 0, 'direct': PP(u, v), 'invu': PP(1 / u, v / u) / u, 'invv': PP(1 / v, u / v) / v, 'neg': PN(u, v)}
    seen = set()
    for k, (s_, r, e) in enumerate(ps4):
        hit = None
        for nm, w in want.items():
            if _ring_eq(r, w if not isinstance(w, int) else z3.RealVal(w)):
                hit = nm
                break
        seen.add(hit)
        ctx.record('phi_uv.path%d' % k, PROVED if hit else FAILED, 'B', 0, 'returns %s' % (hit or str(r)[:120]))
    ctx.record('phi_uv.cases', PROVED if seen >= {'0', 'direct', 'invu', 'invv', 'neg'} else FAILED, 'B', 0, 'cases reached: %s' % sorted(x for x in seen if x))
    x, y, z = z3.Reals('x y z')
    it5, ps5 = code_expr(ctx, 'Phi', [x, y, z], pre=[x > 0, x < y, y < z], stubs=dict(ATOMS, phi_uv=uf('phi_uv')))
    PU = it5.uf_cache[('phi_uv', 2)]
    ok = len(ps5) == 1
    ctx.record('Phi.single_path', PROVED if ok else FAILED, 'B', 0, '%d feasible paths for x < y < z' % len(ps5))
    if ok:
        uu, vv = x / z, y / z
        ctx.prove_ring('Phi.assembly', [(ps5[0][1], z * ((1 - uu - vv) * (1 - uu - vv) - 4 * uu * vv) / 2 * PU(uu, vv))])
        # composition: Phi == lambda_K/2 [...] with lambda_K = z*lambda, lambda^2 = lambda_2(u,v)
        lamS, us, vs = z3.Reals('lambda_uv u_ v_')
        apz, amz = (1 - lamS + us - vs) / 2, (1 - lamS - us + vs) / 2
        br = 2 * ln(apz) * ln(amz) - ln(us) * ln(vs) - 2 * Li2(apz) - 2 * Li2(amz) + PI * PI / 3
        L2s = (1 - us - vs) * (1 - us - vs) - 4 * us * vs
        ctx.prove_ring('Phi.composition', [(z * L2s / 2 * (br / lamS), z * lamS / 2 * br)], relations=[lamS * lamS - L2s])

def _is0(r):
    import numbers
    return isinstance(r, (numbers.Number, Fr)) and not isinstance(r, bool) and r == 0

def _conds(e):
    out = []
    def walk(t):
        if z3.is_app(t) and t.decl().kind() == z3.Z3_OP_ITE:
            c = t.arg(0)
            while z3.is_not(c):
                c = c.arg(0)
            if not any(z3.eq(c, o) for o in out):
                out.append(c)
        for c in t.children():
            walk(c)
    walk(e)
    return out

# ------------------------------------------------------------------------------------------------ Barr-Zee functions: equal-argument and zero limits
@obligation('C02.limits.BarrZee', fns=[(FF, n) for n in ('FPZ', 'FSZ', 'FCWl')], replay=lambda m, wd: replay_multi([('FPZ', 2), ('FSZ', 2)])(m, wd))
def _(ctx):
    """ensures (arguments sorted by sort's contract, x <= y): result == 0 if an argument is 0 (fPS(0) = fS(0) = fCl(0) = 0 in the definition);
    on the x == y paths the result is the documented limit of math/ffunctions.m:
       FPZ[x,x] = -2x (fPS(x) + ln x)/(4x - 1),  FPZ[1/4,1/4] = (-1 - 2 ln 2)/3
       FSZ[x,x] = 2x (1 - 4x + 2x fPS(x) + ln x - 2x ln x)/(4x - 1),  FSZ[1/4,1/4] = (-1 + ln 16)/3
       FCWl[x,x] = (-3x + 12x^2 + pi^2 x^2 - 2 pi^2 x^3 + 12 x^2 ln x - 6 x^2 Li2(1-1/x) + 12 x^3 Li2(1-1/x))/6   [with fCl(x) by its definition, ln(1/x) = -ln x]
    and the O(x - 1/4) correction used inside |x - 1/4| < 1e-8 is below 1e-7 relative"""
    import mpmath
    mpmath.mp.dps = 40
    s0 = z3.Real('s0')
    PI = z3.Real('c_PI')
    def fcl(it, a, t):
        z = z3real(a[0])
        return z * (z + z * (z - 1) * (it.uf('Li2', 1 - 1 / z) - PI * PI / 6) + (z - Fr(1, 2)) * it.uf('ln', z))
    docs = {
        'FPZ': (lambda f, ln, Li2: -2 * s0 * (f(s0) + ln(s0)) / (4 * s0 - 1), (-1 - 2 * mpmath.log(2)) / 3, 'f_PS'),
        'FSZ': (lambda f, ln, Li2: 2 * s0 * (1 - 4 * s0 + 2 * s0 * f(s0) + ln(s0) - 2 * s0 * ln(s0)) / (4 * s0 - 1), (-1 + mpmath.log(16)) / 3, 'f_PS'),
        'FCWl': (lambda f, ln, Li2: (-3 * s0 + 12 * s0**2 + PI * PI * s0**2 - 2 * PI * PI * s0**3 + 12 * s0**2 * ln(s0) - 6 * s0**2 * Li2(1 - 1 / s0)
                                     + 12 * s0**3 * Li2(1 - 1 / s0)) / 6, None, None),
    }
    for fn, (doc, quarter, fname) in docs.items():
        stubs = dict(ATOMS)
        stubs['sort'] = sorted_stub()
        if fn == 'FCWl':
            stubs['f_CSl'] = fcl
        it, ps = run(ctx, fn, z3.Reals('x y'), [], stubs, feasibility=False)
        ln = it.uf_cache.get(('ln', 1))
        if ln is None:
            ln = z3.Function('ln', z3.RealSort(), z3.RealSort())
        Li2 = it.uf_cache.get(('Li2', 1))
        if Li2 is None:
            Li2 = z3.Function('Li2', z3.RealSort(), z3.RealSort())
        f = it.uf_cache.get((fname, 1)) if fname else None
        want = doc(f, ln, Li2)
        live = [(s, r, e) for s, r, e in ps if not isinstance(r, str)]
        zero_paths = [p for p in live if _is0(p[1])]
        ctx.record(fn + '.zero', PROVED if zero_paths else FAILED, 'B', 0, '%d path(s) return exactly 0 (an argument is 0)' % len(zero_paths))
        # the zero path is guarded by (s0 == 0 or s1 == 0) only
        hit = [p for p in live if isinstance(p[1], z3.ExprRef) and _ring_eq(z3.substitute(z3real(p[1]), (z3.Real('s1'), s0)), want) and 's1' not in str(p[1])]
        ctx.record(fn + '.equal', PROVED if hit else FAILED, 'B', 0, 'the x == y path returns the documented limit' if hit else 'no path returns the documented x == y limit')
        if quarter is not None:
            qp = [p for p in live if isinstance(p[1], z3.ExprRef) and 'ln' not in str(p[1]) and 'f_' not in str(p[1])]
            okq = False
            det = 'no constant + slope path'
            for s, r, e in qp:
                c0 = z3.simplify(z3.substitute(z3real(r), (s0, z3.RealVal('1/4'))))
                slope = z3.simplify(z3.substitute(z3real(r), (s0, z3.RealVal('5/4'))) - c0)
                if z3.is_rational_value(c0) and z3.is_rational_value(slope):
                    c0f = mpmath.mpf(c0.numerator_as_long()) / c0.denominator_as_long()
                    slf = mpmath.mpf(slope.numerator_as_long()) / slope.denominator_as_long()
                    okq = abs(c0f - quarter) < mpmath.mpf(10)**-15 and abs(slf) * 1e-8 < 1e-7 * abs(quarter)
                    det = 'value at 1/4: %s, documented %s; |slope| * 1e-8 = %s' % (mpmath.nstr(c0f, 18), mpmath.nstr(quarter, 18), mpmath.nstr(abs(slf) * 1e-8, 3))
            ctx.record(fn + '.quarter', PROVED if okq else FAILED, 'B', 0, det)

@obligation('C02.limits.zero', fns=[(FF, n) for n in ('Fa', 'Fb', 'Iabc', 'Ixyz', 'Ixy')])
def _(ctx):
    """ensures: Fa(0,0) = Fb(0,0) = 0; Iabc(0,0,c) = 0 for every c and Iabc(0,b,c) == ln(c^2/b^2)/(c^2 - b^2) (the a -> 0 limit of the definition) on the generic path"""
    for fn in ('Fa', 'Fb'):
        itc = Interp(ctx.w, mode='sym')
        r = itc.run_single(lambda: itc.call(fn, [Fr(0), Fr(0)], file=FF))
        ctx.record(fn + '.00', PROVED if r == 0 else FAILED, 'B', 0, '%s(0,0) = %s' % (fn, r))
    c = z3.Real('c')
    it, ps = run(ctx, 'Iabc', [Fr(0), Fr(0), c], [c >= 0], dict(ATOMS))
    ok = bool(ps) and all(_is0(r) or (isinstance(r, z3.ExprRef) and _ring_eq(r, z3.RealVal(0))) for s, r, e in ps)
    ctx.record('Iabc.00c', PROVED if ok else FAILED, 'B', 0, 'Iabc(0,0,c) == 0 on all %d paths' % len(ps))
    b = z3.Real('b')
    it, ps = run(ctx, 'Iabc', [Fr(0), b, c], [b > 0, c > b], dict(ATOMS))
    ln = it.uf_cache.get(('ln', 1))
    gen = last_path(ps)
    # Ixy(0, b^2/c^2)/c^2 = ln(b^2/c^2)/(b^2/c^2 - 1)/c^2 ;  definition limit: (b^2 c^2 ln(b^2/c^2))/((-b^2)(b^2-c^2)(-c^2)) = ln(b^2/c^2)/(b^2 - c^2)
    spec_ = ln((b * b) / (c * c)) / (b * b - c * c)
    ctx.prove_ring('Iabc.0bc', [(last_path(ps, spec_)[1], spec_)])


def fidelity(tier, seed):
    """A-FRONT guard: the scalar functions of the files under contract, interpreter (float mode) vs compiled real code, bit for bit"""
    from gm2v import fidelity as _fid
    return _fid.scalar_guard(['src/gm2_ffunctions.cpp'], ['src/gm2_dilog.cpp', 'src/gm2_numerics.cpp'], n_calls=25 if tier == 'quick' else 200, seed=seed)

# ------------------------------------------------------------------------------------------------ quark Barr-Zee functions: definitions (math/ffunctions.m, 1607.06292 (61), (62))
def _fcs_spec(xu, xd, qu, qd, phiy, Li2f, lnf):
    """fCSd[xu, xd, qu, qd] of math/ffunctions.m (Eq. (61) of arXiv:1607.06292 with the documented misprint corrected, times the prefactor xd)"""
    s_ = (qu + qd) / 4
    c = (xu - xd) * (xu - xd) - qu * xu + qd * xd
    cbar = (xu - qu) * xu - (xd + qd) * xd
    lxu, lxd = lnf(xu), lnf(xd)
    return xd * (-(xu - xd) + (cbar - c * (xu - xd)) * phiy + c * (Li2f(1 - xd / xu) - lxu * (lxd - lxu) / 2) + (s_ + xd) * lxd + (s_ - xu) * lxu)

def replay_fcs(model, wd):
    """the REAL f_CSd / f_CSu against the definition evaluated with 40 digits (Phi by the Davydychev-Tausk formula) on a fixed sweep"""
    from gm2v import native
    import mpmath as mp
    mp.mp.dps = 40
    def phi_over_y(xu, xd):
        y = (xu - xd) ** 2 - 2 * (xu + xd) + 1
        lam = mp.sqrt(y)
        xp, xm = (1 + xd - xu - lam) / 2, (1 - xd + xu - lam) / 2
        phi = lam * (2 * mp.log(xp) * mp.log(xm) - mp.log(xd) * mp.log(xu) - 2 * mp.polylog(2, xp) - 2 * mp.polylog(2, xm) + mp.pi ** 2 / 3)
        return mp.re(phi / y)
    def fcsd(xu, xd, qu, qd):
        s_, c, cbar = (qu + qd) / 4, (xu - xd) ** 2 - qu * xu + qd * xd, (xu - qu) * xu - (xd + qd) * xd
        lxu, lxd = mp.log(xu), mp.log(xd)
        return xd * (-(xu - xd) + (cbar - c * (xu - xd)) * phi_over_y(xu, xd) + c * (mp.re(mp.polylog(2, 1 - xd / xu)) - lxu * (lxd - lxu) / 2) + (s_ + xd) * lxd + (s_ - xu) * lxu)
    def fcsu(xu, xd, qu, qd):
        lxu, lxd = mp.log(xu), mp.log(xd)
        return xu * (fcsd(xu, xd, qu + 2, qd + 2) / xd - mp.mpf(4) / 3 * (xu - xd - 1) * phi_over_y(xu, xd) - (lxd + lxu) * (lxd - lxu) / 3)
    pts = [(xu, xd) for xu in (0.03, 0.3, 0.75, 2.0, 9.0) for xd in (1e-4, 6e-4, 1e-2, 0.2) if (xu - xd) ** 2 - 2 * (xu + xd) + 1 > 1e-3]
    exe = native.build_scalar_driver(wd, [FF], ['src/gm2_dilog.cpp', 'src/gm2_numerics.cpp'],
                                     [('d', 'f_CSd(a[0], a[1], a[2], a[3])', 4), ('u', 'f_CSu(a[0], a[1], a[2], a[3])', 4)])
    qu, qd = 2.0 / 3, -1.0 / 3
    vals = native.run_scalar_driver(exe, [(k, [xu, xd, qu, qd]) for (xu, xd) in pts for k in ('d', 'u')])
    worst = (0, None)
    for i, (xu, xd) in enumerate(pts):
        for j, (nm, f) in enumerate((('f_CSd', fcsd), ('f_CSu', fcsu))):
            want = f(mp.mpf(xu), mp.mpf(xd), mp.mpf(qu), mp.mpf(qd))
            got = mp.mpf(vals[2 * i + j])
            err = abs(got - want) / max(abs(want), mp.mpf(10) ** -8)
            if err > worst[0]:
                worst = (err, nm, xu, xd, float(got), mp.nstr(want, 15))
    return bool(worst[0] > 1e-6), 'worst of %d points: %s' % (2 * len(pts), worst)

@obligation('C02.def.f_CSd_f_CSu', fns=[(FF, 'f_CSd'), (FF, 'f_CSu'), (FF, 'phi_over_y')], replay=replay_fcs)
def _(ctx):
    """ensures for all positive arguments, on the generic paths: f_CSd == fCSd and f_CSu == xu (fCSd[xu, xd, qu+2, qd+2]/xd - 4/3 (xu-xd-1) Phi/y - 1/3 (ln xd + ln xu)(ln xd - ln xu))
    of math/ffunctions.m (Eqs. (61), (62) of arXiv:1607.06292 with the prefactors and the corrected misprint documented in the code), with phi_over_y and dilog by their
    contracts; phi_over_y itself: Phi(xd, xu, 1)/((xu-xd)^2 - 2(xu+xd) + 1) outside its two guard windows and the documented analytic limits inside; f_CSd(xu, 0) == 0"""
    xu, xd, qu, qd = [ctx.real(n) for n in ('xu', 'xd', 'qu', 'qd')]
    pre = [xu > 0, xd > 0]
    PHI = z3.Function('phi_over_y', z3.RealSort(), z3.RealSort(), z3.RealSort())
    stubs = {'phi_over_y': lambda it, a, t: PHI(z3real(a[0]), z3real(a[1])), 'dilog': uf('Li2')}
    LN = lambda t: __import__('gm2v.specs', fromlist=['ln']).ln(t)
    LI = lambda t: __import__('gm2v.specs', fromlist=['UF']).UF('Li2')(z3real(t))
    for fn in ('f_CSd', 'f_CSu'):
        it, ps = run(ctx, fn, [xu, xd, qu, qd], pre, stubs)
        n = 0
        for k, (s, r, e) in enumerate(ps):
            if e is not None or r is None or isinstance(r, str):
                continue
            n += 1
            if fn == 'f_CSd':
                want = _fcs_spec(xu, xd, qu, qd, PHI(xu, xd), LI, LN)
            else:
                want = xu * (_fcs_spec(xu, xd, qu + 2, qd + 2, PHI(xu, xd), LI, LN) / xd - Fr(4, 3) * (xu - xd - 1) * PHI(xu, xd) - (LN(xd) + LN(xu)) * (LN(xd) - LN(xu)) / 3)
            ctx.prove_ring('%s.path%d.definition' % (fn, k), [(z3real(r), want)])
        ctx.record('%s.paths' % fn, PROVED if n >= 1 else FAILED, 'B', 0, '%d generic paths' % n)
    # f_CSd at xd == 0
    it0 = Interp(ctx.w, mode='sym', stubs=stubs, assumptions=[xu > 0])
    r0 = it0.run_paths(lambda: it0.call('f_CSd', [xu, Fr(0), qu, qd], file=FF))
    ok0 = all(e is None and (r == 0) for s, r, e in r0 if not isinstance(r, str))
    ctx.record('f_CSd.zero_xd', PROVED if ok0 and r0 else FAILED, 'B', 0, 'f_CSd(xu, 0, qu, qd) == 0')
    # phi_over_y
    PH3 = z3.Function('Phi', z3.RealSort(), z3.RealSort(), z3.RealSort(), z3.RealSort())
    it, ps = run(ctx, 'phi_over_y', [xu, xd], pre + [xd != 1], {'Phi': lambda it_, a, t: PH3(*[z3real(x) for x in a])})
    sq = __import__('gm2v.specs', fromlist=['UF']).UF('sqrt')(z3real(xd))
    lim_minus = -LN(absz_c02(-1 + sq)) / sq + LN(xd) / (2 * (-1 + sq))
    lim_plus = LN(1 + sq) / sq - LN(xd) / (2 * (1 + sq))
    generic = PH3(xd, xu, z3.RealVal(1)) / ((xu - xd) * (xu - xd) - 2 * (xu + xd) + 1)
    kinds = set()
    for k, (s, r, e) in enumerate(ps):
        if e is not None or r is None:
            continue
        got = z3real(r)
        hit = None
        for nm, want in (('generic', generic), ('limit_xu=(1-sqrt(xd))^2', lim_minus), ('limit_xu=(1+sqrt(xd))^2', lim_plus)):
            try:
                if ring.identity(_strip_abs(got), _strip_abs(want)):
                    hit = nm
                    break
            except ring.NotRing:
                pass
        if hit is None:
            ctx.record('phi_over_y.path%d' % k, FAILED, 'B', 0, 'neither Phi(xd, xu, 1)/y nor one of the two documented limits: %s' % str(got)[:200])
        else:
            kinds.add(hit)
            ctx.record('phi_over_y.path%d.%s' % (k, hit), PROVED, 'B', 0, 'returns the documented expression', solver='ring normalisation (sympy)')
    ctx.record('phi_over_y.paths', PROVED if len(kinds) == 3 else FAILED, 'B', 0, 'expressions found: %s' % sorted(kinds))

def absz_c02(t):
    return z3.If(t >= 0, t, -t)

def _strip_abs(t):
    """|x| written as If(x >= 0, x, -x) becomes the atom abs(x) so that ring normalisation can treat it as a symbol"""
    AB = z3.Function('abs_atom', z3.RealSort(), z3.RealSort())
    def rec(e):
        if z3.is_app(e) and e.decl().kind() == z3.Z3_OP_ITE and e.num_args() == 3:
            a, b = e.arg(1), e.arg(2)
            try:
                if ring.identity(a, -b):
                    pos = a if not (z3.is_app(a) and a.decl().kind() == z3.Z3_OP_UMINUS) else b
                    return AB(rec(pos))
            except ring.NotRing:
                pass
        if z3.is_app(e) and e.num_args() > 0:
            return e.decl()(*[rec(c) for c in e.children()])
        return e
    return rec(t)

# ------------------------------------------------------------------------------------------------ FPZ, FSZ at equal arguments (math/ffunctions.m: FPZ[x_, x_], FSZ[x_, x_])
@obligation('C02.equal_arguments.FPZ_FSZ', fns=[(FF, 'FPZ'), (FF, 'FSZ')], replay=replay_multi([('FPZ', 2), ('FSZ', 2)]))
def _(ctx):
    """ensures for all x in [1e-6, 1e12] outside the window |x - 1/4| < 1e-8, on every path of FPZ(x, x) and FSZ(x, x):
    FPZ(x,x) == -2x (fPS(x) + ln x)/(4x - 1),  FSZ(x,x) == 2x (1 - 4x + 2x fPS(x) + (1 - 2x) ln x)/(4x - 1)  (math/ffunctions.m) -- as an identity on the closed-form
    path and within 1e-7 on every expansion path (large-argument series of FSZ: Barr-Zee enclosure of f_PS, contracts/c01_fps.py); callee f_PS by its contract"""
    from contracts import c01_fps as FP
    from gm2v.specs import ln as LN
    x = ctx.real('x')
    pre = [x >= Fr(1, 10**6), x <= 10**12, z3.Or(x - Fr(1, 4) >= Fr(1, 10**8), Fr(1, 4) - x >= Fr(1, 10**8))]
    defs = {'FPZ': -2 * x * (FP.fPS(x) + LN(x)) / (4 * x - 1),
            'FSZ': 2 * x * (1 - 4 * x + 2 * x * FP.fPS(x) + (1 - 2 * x) * LN(x)) / (4 * x - 1)}
    for fn in ('FPZ', 'FSZ'):
        it = Interp(ctx.w, mode='sym', assumptions=pre, stubs={'f_PS': FP.fps_stub, 'f_S': uf('f_S')})
        ps = it.run_paths(lambda: it.call(fn, [x, x], file=FF))
        ctx.merge_rules(it)
        n = 0
        for k, (s, r, e) in enumerate(ps):
            if e is not None or r is None:
                ctx.record('%s.path%d' % (fn, k), FAILED, 'B', 0, 'no value: %s' % e)
                continue
            n += 1
            FP.prove_path_against_def(ctx, '%s.path%d@L%d' % (fn, k, getattr(s, 'ret_line', 0)), fn, x, list(s.pc), list(s.axioms), r, defs[fn], pre)
            ctx.sides('%s.path%d' % (fn, k), s, pre)
        ctx.record('%s.paths' % fn, PROVED if n >= 1 else FAILED, 'B', 0, '%d paths outside the 1/4 window' % n)
from contracts import spec_source as _ss; _ss.register_c02()  # noqa: provenance of the transcribed definitions (math/ffunctions.m)

# f_CSd, f_CSu, FCWu, FCWd return "the value of their defining expression" next to the zeros of the Kaellen function only if phi_over_y's guards recognise the coincidence in
# floating-point arithmetic: C11's noise-floor contract on those guards is a callee contract of C02 as well.
from contracts.shared import reregister as _rr_c02
from contracts import c11 as _c11_c02
_rr_c02('C02', 'C11', 'C11.guards_above_noise_floor.phi_over_y', 'C02.callee.guards_above_noise_floor.phi_over_y')

def _only_var(t, name):
    """every uninterpreted constant of the term is the variable `name` (named constants c_* allowed)"""
    seen = set()
    def walk(e):
        if z3.is_const(e) and e.decl().kind() == z3.Z3_OP_UNINTERPRETED:
            seen.add(str(e))
        for ch in e.children():
            walk(ch)
    walk(t)
    return all(v == name or v.startswith('c_') for v in seen)

@obligation('C02.equal_arguments.FCWl.expansion', fns=[(FF, 'FCWl')], replay=replay_multi([('FCWl', 2)]))
def _(ctx):
    """ensures: every path of FCWl(x, x) that is not the documented closed form itself (a large-argument expansion) lies within 1e-7 of the documented limit
    FCWl[x,x] of math/ffunctions.m on its whole window -- enclosure of Li2(1-1/x) by reflection and power series (A-SPECFN), ln x as a free variable"""
    from contracts.c01_fps import prove_path_against_def
    from gm2v import specs as _sp
    s0 = z3.Real('s0')
    PI = z3.Real('c_PI')
    def fcl(it, a, t):
        z = z3real(a[0])
        return z * (z + z * (z - 1) * (_sp.Li2(1 - 1 / z) - PI * PI / 6) + (z - Fr(1, 2)) * _sp.ln(z))
    stubs = dict(ATOMS)
    stubs['sort'] = sorted_stub()
    stubs['f_CSl'] = fcl
    stubs['dilog'] = lambda it, a, t: _sp.Li2(z3.simplify(z3real(a[0])))
    it, ps = run(ctx, 'FCWl', z3.Reals('x y'), [], stubs, feasibility=True)
    doc = (-3 * s0 + 12 * s0**2 + PI * PI * s0**2 - 2 * PI * PI * s0**3 + 12 * s0**2 * _sp.ln(s0) - 6 * s0**2 * _sp.Li2(1 - 1 / s0) + 12 * s0**3 * _sp.Li2(1 - 1 / s0)) / 6
    n = 0
    for k, (s, r, e) in enumerate(ps):
        if e is not None or not isinstance(r, z3.ExprRef) or 's1' in str(r) or _is0(r):
            continue                      # the generic path (depends on both arguments) and the zero path have their own contracts
        n += 1
        prove_path_against_def(ctx, 'path%d' % k, 'FCWl', s0, [c for c in s.pc if _only_var(c, 's0')], list(s.axioms), r, doc, [s0 > 0, s0 <= 10**12])
    ctx.record('paths', PROVED if n else ERROR, 'B', 0, '%d equal-argument path(s) compared with the documented limit' % n)
