"""C01 -- one-variable loop functions and special functions equal their published definitions.

Contracts on the real functions of src/gm2_ffunctions.cpp and src/gm2_dilog.cpp.
Spec functions are transcribed from the literature (arXiv:1003.5820 Eqs.(13)-(16),(37)-(40);
arXiv:1311.1775 Eqs.(6.4a,b); hep-ph/0609168 Eqs.(70)-(72); arXiv:1502.04199 (25)-(28);
arXiv:1607.06292 (60)) -- never from the C++ code.
"""
from fractions import Fraction as Fr
import z3
from gm2v.ob import obligation, PROVED, FAILED, UNDECIDED, ERROR
from gm2v.interp import Interp, Thrown
from gm2v.values import to_z3, z3real, is_sym
from gm2v import specs
from gm2v.specs import ln, Li2, Cl2, absz, Q

FF = 'src/gm2_ffunctions.cpp'
DL = 'src/gm2_dilog.cpp'

# --- spec functions: (numerator N(x,L,D), denominator Den(x)) with  f(x) = N/Den,
#     L = ln x, D = Li2(1-x); exact value at x = 1 and at x = 0 ------------------------------------
SPEC1 = {
    # name: (N, Den, value at 1, value at 0, window half-width of the code (for the report only))
    'F1C': (lambda x, L, D: 2 * (2 + 3 * x - 6 * x**2 + x**3 + 6 * x * L), lambda x: (1 - x)**4, 1, 4),
    'F2C': (lambda x, L, D: 3 * (-3 + 4 * x - x**2 - 2 * L), lambda x: 2 * (1 - x)**3, 1, None),
    'F3C': (lambda x, L, D: 4 * ((1 - x) * (151 * x**2 - 335 * x + 592) + 6 * (21 * x**3 - 108 * x**2 - 93 * x + 50) * L
                                - 54 * x * (x**2 - 2 * x - 2) * L * L - 108 * x * (x**2 - 2 * x + 12) * D),
            lambda x: 141 * (1 - x)**4, 1, None),
    'F4C': (lambda x, L, D: -9 * (8 * (x**2 - 3 * x + 2) + (11 * x**2 - 40 * x + 5) * L - 2 * (x**2 - 2 * x - 2) * L * L
                                 - 4 * (x**2 - 2 * x + 9) * D),
            lambda x: 122 * (1 - x)**3, 1, None),
    'F1N': (lambda x, L, D: 2 * (1 - 6 * x + 3 * x**2 + 2 * x**3 - 6 * x**2 * L), lambda x: (1 - x)**4, 1, 2),
    'F2N': (lambda x, L, D: 3 * (1 - x**2 + 2 * x * L), lambda x: (1 - x)**3, 1, 3),
    'F3N': (lambda x, L, D: 4 * ((1 - x) * (-97 * x**2 - 529 * x + 2) + 6 * x**2 * (13 * x + 81) * L + 108 * x * (7 * x + 4) * D),
            lambda x: 105 * (1 - x)**4, 1, Fr(8, 105)),
    'F4N': (lambda x, L, D: -9 * ((x + 3) * (x * L + x - 1) + (6 * x + 2) * D), lambda x: 4 * (1 - x)**3, 1, None),
    'G3': (lambda x, L, D: (x - 1) * (x - 3) + 2 * L, lambda x: 2 * (x - 1)**3, Fr(1, 3), None),
    'G4': (lambda x, L, D: (x - 1) * (x + 1) - 2 * x * L, lambda x: 2 * (x - 1)**3, Fr(1, 6), None),
}

def dilog_stub(it, args, this):
    """callee contract of the real dilogarithm: result == Li2(x) (its own accuracy is C01.dilog.*)"""
    x = args[0]
    return specs.Li2(x) if is_sym(x) else specs.Li2(to_z3(x))

def explore(ctx, fn, x, pre, stubs=None, file=FF):
    it = Interp(ctx.w, mode='sym', assumptions=pre, stubs=stubs or {})
    paths = it.run_paths(lambda: it.call(fn, [x], file=file))
    ctx.merge_rules(it)
    return it, paths

def replay_scalar(fn, tol):
    """native replay of a counterexample: evaluates the REAL function and the spec in 40 digits"""
    def rep(model, wd):
        from gm2v import native
        import mpmath
        mpmath.mp.dps = 40
        x = model.get('_float', {}).get('x')
        if x is None:
            return False, 'no model value for x'
        exe = native.build_scalar_driver(wd, [FF], [DL, 'src/gm2_numerics.cpp'], [(fn, '%s(a[0])' % fn, 1)])
        got = native.run_scalar_driver(exe, [(fn, [x])])[0]
        N, Den, v1, v0 = SPEC1[fn]
        X = mpmath.mpf(x)
        if X == 1:
            want = mpmath.mpf(v1.numerator) / v1.denominator if isinstance(v1, Fr) else mpmath.mpf(v1)
        else:
            want = N(X, mpmath.log(X), mpmath.polylog(2, 1 - X)) / Den(X)
        err = abs((mpmath.mpf(got) - want) / want) if want != 0 else abs(mpmath.mpf(got))
        return bool(err > tol), 'x=%r real %s(x)=%r spec=%s rel.err=%s (tolerance %g)' % (x, fn, got, mpmath.nstr(want, 20), mpmath.nstr(err, 5), tol)
    return rep

def make_def_obligation(fn):
    N, Den, v1, v0 = SPEC1[fn]

    @obligation('C01.%s.def' % fn, fns=[(FF, fn)], replay=replay_scalar(fn, 1e-7))
    def ob(ctx, fn=fn):
        """ensures: for all x in [1e-14,1e12], x != 1:  |result - spec(x)| <= 1e-7 |spec(x)|  on every path
        (closed form: exact identity in (x, ln x, Li2(1-x)); Taylor window: via series enclosures)"""
        x = ctx.real('x')
        pre = [x >= Q(1, 10**14), x <= 10**12]
        it, paths = explore(ctx, fn, x, pre, stubs={'dilog': dilog_stub})
        ctx.assume_note('callee contract: dilog(t) == Li2(t) (proved to 1e-13 by C01.dilog.*)')
        L, D = ln(x), Li2(1 - x)
        ax_ln, t1 = specs.ln_series(x, 16, Fr(9, 100))
        ax_li, t2 = specs.li2_series(1 - x, 16, Fr(9, 100))
        ctx.assume_note('A-SPECFN: ' + t1)
        ctx.assume_note('A-SPECFN: ' + t2)
        if not paths:
            ctx.record('paths', ERROR, 'B', 0, 'no feasible path')
        pins = [{'x': 1 + Fr(s_ * k, 1000)} for k in (1, 10, 20, 31, 45, 55, 60, 70, 80) for s_ in (1, -1)] + \
               [{'x': Fr(10) ** k} for k in range(-14, 13)] + [{'x': Fr(k, 8)} for k in (1, 2, 3, 4, 5, 6, 7, 9, 10, 12, 14, 16, 24)]
        for k, (sym, ret, exc) in enumerate(paths):
            tag = 'path%d@L%d' % (k, getattr(sym, 'ret_line', 0))
            if exc is not None:
                ctx.record(tag, FAILED, 'B', 0, 'unexpected exception %s' % exc)
                continue
            assum = pre + sym.pc + sym.axioms + [x != 1]
            uses_series = not any('ln' in str(s[2]) for s in sym.sides)
            if uses_series:
                assum = assum + ax_ln + ax_li
            ctx.prove(tag, assum, specs.within_rel(z3real(ret) * Den(x), N(x, L, D), Fr(1, 10**7)),
                      tactics=('nlsat', 'default') if uses_series else ('default', 'nlsat'), pins=pins)
            ctx.sides(tag, sym, pre)
        # the value at exactly x == 1 (the spec is the limit there)
        it2 = Interp(ctx.w, mode='sym')
        r1 = it2.run_single(lambda: it2.call(fn, [Fr(1)], file=FF))
        ctx.record('at1', PROVED if r1 == v1 else FAILED, 'B', 0, 'exact evaluation at x=1 gives %s, documented %s' % (r1, v1),
                   model=None if r1 == v1 else {'_float': {'x': 1.0}})
    return ob

for _fn in SPEC1:
    make_def_obligation(_fn)

# ------------------------------------------------------------------------------------------------
# Back end A (IEEE-754, CBMC code contracts): documented values at 0, 1/4, 1; NaN on negatives; frame
# ------------------------------------------------------------------------------------------------
from gm2v.ob import cbmc_contract, replay_cbmc_scalar

SPECIAL = {
    # function: {argument literal: C expression of the documented value}   (math/ffunctions.m, papers)
    'F1C': {'0.0': '4.0', '1.0': '1.0'},
    'F2C': {'0.0': '0.0', '1.0': '1.0'},
    'F3C': {'1.0': '1.0'},
    'F4C': {'0.0': '0.0', '1.0': '1.0'},
    'F1N': {'0.0': '2.0', '1.0': '1.0'},
    'F2N': {'0.0': '3.0', '1.0': '1.0'},
    'F3N': {'0.0': '8.0/105.0', '1.0': '1.0'},
    'F4N': {'0.0': '-0.6522033008170189', '1.0': '1.0'},       # -3(pi^2-9)/4
    'G3': {'1.0': '1.0/3.0'},
    'G4': {'1.0': '1.0/6.0'},
    'f_PS': {'0.0': '0.0', '0.25': '1.3862943611198906'},       # 2 ln 2
    'f_S': {'0.0': '0.0'},
    'f_sferm': {'0.0': '0.0'},
    'f_CSl': {'0.0': '0.0'},
    'F1': {'0.0': '0.0', '0.25': '-0.5'},
    'F1t': {'0.0': '0.0', '0.25': '0.6931471805599453'},        # ln 2
    'F2': {'0.25': '-0.3862943611198906'},                      # 1 - ln 4
    'F3': {'0.25': '4.75'},
}

# callee contracts (replace-call-with-contract): the special functions are total on finite arguments
CALLEE_A = {
    'dilog': ['__CPROVER_requires(1)',
              '__CPROVER_ensures(isnan(x) ==> isnan(__CPROVER_return_value))',
              '__CPROVER_ensures((!isnan(x) && !isinf(x)) ==> (!isnan(__CPROVER_return_value) && !isinf(__CPROVER_return_value)))',
              '__CPROVER_assigns()'],
    'clausen_2': ['__CPROVER_requires(1)',
                  '__CPROVER_ensures(isnan(x) ==> isnan(__CPROVER_return_value))',
                  '__CPROVER_ensures((!isnan(x) && !isinf(x)) ==> (!isnan(__CPROVER_return_value) && __CPROVER_return_value >= -1.0149416064096537 && __CPROVER_return_value <= 1.0149416064096537))',
                  '__CPROVER_ensures(x == 0.0 ==> __CPROVER_return_value == 0.0)',
                  '__CPROVER_assigns()'],
}

def make_special_obligation(fn):
    sp = SPECIAL[fn]
    par = 'w' if fn in ('F1', 'F1t', 'F2', 'F3') else ('z' if fn in ('f_PS', 'f_S', 'f_sferm', 'f_CSl') else 'x')
    clauses = ['__CPROVER_requires(1)']
    for arg, val in sp.items():
        if (fn, arg) in (('F4N', '0.0'), ('F1t', '0.25'), ('F2', '0.25'), ('f_PS', '0.25')):
            # irrational documented value: equal to within 1e-15
            clauses.append('__CPROVER_ensures(%s == %s ==> (__CPROVER_return_value - (%s) <= 1e-15 && (%s) - __CPROVER_return_value <= 1e-15))' % (par, arg, val, val))
        else:
            clauses.append('__CPROVER_ensures(%s == %s ==> __CPROVER_return_value == %s)' % (par, arg, val))
    clauses.append('__CPROVER_ensures((%s >= -1e12 && %s <= -1e-14) ==> isnan(__CPROVER_return_value))' % (par, par))
    clauses.append('__CPROVER_assigns()')

    @obligation('C01.%s.special' % fn, fns=[(FF, fn)], backend='A',
                replay=replay_cbmc_scalar([FF], [DL, 'src/gm2_numerics.cpp']))
    def ob(ctx, fn=fn, clauses=clauses):
        """A (IEEE): documented value at exactly 0 / 1/4 / 1, NaN for every argument in [-1e12,-1e-14], empty write frame"""
        ctx.assume_note('A-LIBM(A): gm2v_log/sqrt/atan2/... are uninterpreted with the assumed sign/NaN/range facts in gm2v/cprint.py')
        ctx.assume_note('callee contracts (A): dilog, clausen_2 total and finite on finite arguments, NaN on NaN')
        cbmc_contract(ctx, '', fn, FF, clauses, callee_contracts=CALLEE_A)
    return ob

for _fn in SPECIAL:
    make_special_obligation(_fn)

# ------------------------------------------------------------------------------------------------
# Complex dilogarithm (Bernoulli series in u = -ln(1 - w) after a functional equation): region contract
# ------------------------------------------------------------------------------------------------
from gm2v.values import Cx as _Cx

@obligation('C01.dilog_complex.regions', fns=[(DL, 'dilog'), (DL, 'log1p')], replay=lambda m, wd: replay_cdilog(m, wd))
def _(ctx):
    """ensures (Im z != 0, |z|^2 >= eps): in each of the four branches the Bernoulli series is entered with u = -ln(1 - w) for a w inside its domain
    of fast convergence, |w|^2 <= 1 and Re w <= 1/2 (so |u| < 1.5 << 2 pi):  w = z | 1/z (inversion) | 1 - z (reflection, u = -ln z);
    the inversion is used exactly for |z| > 1 resp. |1 - z| > 1; the tiny-|z| branch returns z + z^2/4"""
    x, y = ctx.real('re_z'), ctx.real('im_z')
    calls = []
    def rec(name):
        def st(it, a, t):
            calls.append((name, a[0], list(it.sym.pc)))
            if isinstance(a[0], _Cx):
                return _Cx(it.uf(name + '_re', a[0].re, a[0].im), it.uf(name + '_im', a[0].re, a[0].im))
            return it.uf(name, *a)
        return st
    pre = [y != 0]
    it = Interp(ctx.w, mode='sym', stubs={'log1p': rec('log1p'), 'std::log': rec('log'), 'horner': lambda it_, a, t: _Cx(z3.Real('h_re'), z3.Real('h_im'))},
                assumptions=pre, div_sides=False)
    fds = [f for f in ctx.w.find('dilog', DL) if 'complex' in str(f.params[0].type)]
    if len(fds) != 1:
        ctx.record('', ERROR, 'B', 0, 'extraction: %d complex overloads of dilog' % len(fds))
        return
    paths = []
    def thunk():
        n0 = len(calls)
        r = it.invoke(fds[0], [_Cx(x, y)], None)
        return (r, calls[n0:])
    ps = it.run_paths(thunk)
    ctx.merge_rules(it)
    n_series = 0
    for k, (s, rc, e) in enumerate(ps):
        r, cs = rc
        if not cs:
            # tiny |z|: z (1 + z/4)
            want_re = z3real(x) + (z3real(x) * z3real(x) - z3real(y) * z3real(y)) / 4
            want_im = z3real(y) + (2 * z3real(x) * z3real(y)) / 4
            ctx.prove_ring('path%d.tiny' % k, [(r.re, want_re), (r.im, want_im)])
            continue
        n_series += 1
        logs = [c for c in cs if c[0] == 'log']
        l1ps = [c for c in cs if c[0] == 'log1p']
        refl = [c for c in logs if _is(c[1].re, x) and _is(c[1].im, y)]
        if refl:
            wre, wim, kind = 1 - z3real(x), -z3real(y), 'reflection w = 1 - z'
        elif l1ps:
            a = l1ps[0][1]
            wre, wim, kind = -z3real(a.re), -z3real(a.im), 'w = -(argument of log1p)'
        else:
            ctx.record('path%d' % k, FAILED, 'B', 0, 'no logarithm call found on a series path')
            continue
        dom = z3.And(wre * wre + wim * wim <= 1, wre <= Fr(1, 2))
        ctx.prove('path%d.series_domain' % k, pre + s.pc, dom, check_vacuity=False, model_vars={'re_z': x, 'im_z': y})
    ctx.record('paths', PROVED if n_series == 4 else FAILED, 'B', 0, '%d series paths (direct, inversion x2, reflection), %d paths in all' % (n_series, len(ps)))

def _is(a, b):
    try:
        return z3.eq(z3.simplify(z3real(a)), z3.simplify(z3real(b)))
    except Exception:
        return False

def replay_cdilog(model, wd):
    """real complex dilog against mpmath at the counterexample (and a ring of points around it)"""
    from gm2v import native
    import mpmath
    mpmath.mp.dps = 40
    f = model.get('_float', {}) if model else {}
    x0, y0 = float(f.get('re_z', 1.5)), float(f.get('im_z', 2.0))
    exe = native.build_scalar_driver(wd, [DL], [], [('re', 'std::real(dilog(std::complex<double>(a[0],a[1])))', 2), ('im', 'std::imag(dilog(std::complex<double>(a[0],a[1])))', 2)])
    import math
    pts = [(x0, y0)] + [(x0 * (1 + 0.05 * i), y0 * (1 - 0.03 * i)) for i in range(1, 6)]
    # plus a fixed sweep of the complex plane (radii 0.05 .. 20, 24 directions off the real axis)
    for rad in (0.05, 0.3, 0.7, 0.95, 1.05, 1.3, 1.7, 2.0, 2.5, 3.0, 5.0, 20.0):
        for k in range(24):
            th = (k + 0.37) * 2 * math.pi / 24
            pts.append((rad * math.cos(th), rad * math.sin(th)))
    vals = native.run_scalar_driver(exe, [(k, [px, py]) for (px, py) in pts for k in ('re', 'im')])
    worst = None
    for i, (px, py) in enumerate(pts):
        got = complex(vals[2 * i], vals[2 * i + 1])
        want = complex(mpmath.polylog(2, mpmath.mpc(px, py)))
        err = abs(got - want) / max(abs(want), 1e-300)
        if worst is None or err > worst[0]:
            worst = (err, px, py, got, want)
    err, px, py, got, want = worst
    return err > 1e-13, 'real dilog(%r%+rj) = %r, Li2 = %r, relative error %.3g (tolerance 1e-13)' % (px, py, got, want, err)


def fidelity(tier, seed):
    """A-FRONT guard: the scalar functions of the files under contract, interpreter (float mode) vs compiled real code, bit for bit"""
    from gm2v import fidelity as _fid
    return _fid.scalar_guard(['src/gm2_ffunctions.cpp', 'src/gm2_dilog.cpp'], ['src/gm2_numerics.cpp'], n_calls=25 if tier == 'quick' else 200, seed=seed)
from contracts import c01_special  # noqa: real/complex dilogarithm, Clausen
from contracts import c01_fps  # noqa: f_PS family definitions
from contracts import ieee_finite as _ieee; _ieee.register('C01')  # noqa: IEEE finiteness on the whole domain
from contracts import spec_source as _ss; _ss.register_c01()  # noqa: provenance of the transcribed definitions (math/ffunctions.m)

# ---------------------------------------------------------------------------------------------------
# BOUNDED stand-in for what the real-arithmetic contracts cannot see (rounding inside a branch): the REAL functions in native doubles against a 160-digit evaluation of the
# definitions on a deterministic sweep of 957 arguments (30 per decade over [1e-14, 1e12] plus clusters on both sides of 1, 1/4, 100, 1e5), tolerance 1e-7 as in the property.
# One goal per function and region of the argument, so that a listed finding in one region does not hide a new one elsewhere.
# ---------------------------------------------------------------------------------------------------
def _sweep_points():
    pts = [10 ** (-14 + 26 * k / 800.0) for k in range(801)]
    for c in (1.0, 0.25, 100.0, 1e5, 0.5, 2.0):
        for e in (1e-12, 1e-9, 1e-6, 1e-4, 1e-3, 0.01, 0.029, 0.031, 0.039, 0.041, 0.05, 0.08, 0.1):
            pts += [c * (1 + e), c * (1 - e)]
    return sorted(set(p for p in pts if 1e-14 <= p <= 1e12))

SWEEP_REGIONS = (('x<1e4', 0.0, 1e4), ('1e4<=x<5e7', 1e4, 5e7), ('x>=5e7', 5e7, float('inf')))

def _sweep_eval(wd, fns):
    """{fn: [(x, real value, relative error)]}"""
    import mpmath as mp
    from gm2v import native
    from contracts.c01_fps import DEFS_NUM
    pts = _sweep_points()
    exe = native.build_scalar_driver(wd, [FF], [DL, 'src/gm2_numerics.cpp'], [(fn, '%s(a[0])' % fn, 1) for fn in fns])
    out = {}
    old = mp.mp.dps
    mp.mp.dps = 160
    try:
        for fn in fns:
            vals = native.run_scalar_driver(exe, [(fn, [p]) for p in pts])
            rows = []
            for p, v in zip(pts, vals):
                X = mp.mpf(p)
                if fn in SPEC1:
                    if X == 1:
                        continue
                    N, Den, v1, v0 = SPEC1[fn]
                    want = N(X, mp.log(X), mp.polylog(2, 1 - X)) / Den(X)
                else:
                    want = DEFS_NUM[fn](X)
                want = mp.re(want)
                err = abs(mp.mpf(v) - want) / abs(want) if want != 0 else abs(mp.mpf(v))
                rows.append((p, v, float(err)))
            out[fn] = rows
    finally:
        mp.mp.dps = old
    return out

SWEEP_FNS = list(SPEC1) + ['f_PS', 'f_S', 'f_sferm', 'f_CSl', 'F1', 'F1t', 'F2', 'F3']

def make_accuracy_sweep(fn):
    def replay(model, wd):
        rows = _sweep_eval(wd, [fn])[fn]
        bad = [(p, v, e) for p, v, e in rows if e > 1e-7]
        return bool(bad), '%s: %d of %d sweep arguments off by more than 1e-7; e.g. %s' % (fn, len(bad), len(rows), ', '.join('%s(%r) = %r (rel. error %.3g)' % (fn, p, v, e) for p, v, e in bad[:3]))
    @obligation('C01.accuracy.sweep.%s' % fn, fns=[(FF, fn)], backend='bounded', replay=replay)
    def ob(ctx, fn=fn):
        """BOUNDED stand-in (957 arguments, REAL code in native doubles vs the definition at 160 digits): relative error <= 1e-7"""
        import tempfile, shutil
        wd = tempfile.mkdtemp(prefix='gm2v_acc_')
        try:
            rows = _sweep_eval(wd, [fn])[fn]
        finally:
            shutil.rmtree(wd, ignore_errors=True)
        for tag, lo, hi in SWEEP_REGIONS:
            sel = [(p, v, e) for p, v, e in rows if lo <= p < hi]
            bad = [(p, v, e) for p, v, e in sel if not e <= 1e-7]
            worst = max(sel, key=lambda r: r[2]) if sel else None
            if bad:
                ctx.record(tag, FAILED, 'bounded', 0, 'BOUNDED: %d of %d arguments off by more than 1e-7: first %s(%r) = %r (rel. error %.3g), worst %s(%r) (rel. error %.3g)' % (
                    len(bad), len(sel), fn, bad[0][0], bad[0][1], bad[0][2], fn, worst[0], worst[2]), model={'_float': {'x': bad[0][0]}}, solver='native execution vs mpmath (160 digits)', kind='bounded')
            else:
                ctx.record(tag, PROVED, 'bounded', 0, 'BOUNDED: %d arguments, worst relative error %.3g at %r' % (len(sel), worst[2] if worst else 0.0, worst[0] if worst else None),
                           solver='native execution vs mpmath (160 digits)', kind='bounded')
    return ob

for _fn in SWEEP_FNS:
    make_accuracy_sweep(_fn)
