"""C19 -- calculations are pure: deterministic, argument-preserving (and hence thread-safe).

Frame conditions as contracts:
  A (CBMC/DFCC): every scalar function of the C profile has the write frame __CPROVER_assigns(<its reference parameters>) -- function-local
     statics are hoisted to file scope by the extractor so that a memo/cache is a frame violation; calling it twice with the same
     arguments gives the same result (history independence);
  B: every a_mu / uncertainty function given a model leaves every data member of the model unchanged, writes no file-scope variable,
     declares no function-local static, on every path (including throwing ones).
Thread-safety is the corollary of empty frames (no shared writable state); no schedule is explored.
"""
import z3
from fractions import Fraction as Fr
from gm2v.ob import obligation, cbmc_contract, PROVED, FAILED, UNDECIDED, ERROR
from gm2v.interp import Interp, Thrown, Opaque
from gm2v.values import Cx, Mat, Obj, to_z3, z3real, is_sym, deep_copy
from gm2v.symobj import symbolic_fields
from gm2v.world import strip_ns

FF = 'src/gm2_ffunctions.cpp'
SCALAR = {
    FF: ['F1C', 'F2C', 'F3C', 'F4C', 'F1N', 'F2N', 'F3N', 'F4N', 'Fa', 'Fb', 'G3', 'G4', 'Iabc', 'f_PS', 'f_S', 'f_sferm', 'f_CSl', 'f_CSd', 'f_CSu',
         'F1', 'F1t', 'F2', 'F3', 'FPZ', 'FSZ', 'FCWl', 'FCWu', 'FCWd', 'Phi', 'phi_uv', 'phi_pos', 'phi_neg', 'phi_over_y', 'Ixy', 'Ixyz', 'Ixx', 'I1y', 'I0y',
         'Fax', 'Fbx', 'Fa11', 'Fb11', 'l00', 'l0v', 'lv0', 'luv', 'cl2acos', 'phi_neg_1v'],
    'src/gm2_dilog.cpp': ['clausen_2'],
    'src/gm2_numerics.cpp': ['abs_sqrt', 'sign', 'signed_sqr', 'signed_abs_sqrt'],
    'src/gm2_mf.cpp': ['calculate_alpha_s_SM5_at', 'Fb', 'conversion_mb_MSbar_to_DRbar', 'calculate_alpha_s_SM6_MSbar_at_mt', 'calculate_mt_SM6_MSbar_at',
                       'calculate_mt_SM6_MSbar', 'calculate_mtau_SM6_MSbar'],
    'src/THDM/gm2_1loop_H.cpp': ['Fh', 'FA', 'FHp', 'delta_alpha'],
}
REFS = {'sort': 1, 'shift': 1}

def _declared_in_header(repo, fn):
    import glob, os, re
    pat = re.compile(r'\b%s\s*\(' % re.escape(fn))
    for h in glob.glob(os.path.join(repo, 'include', '**', '*.h*'), recursive=True) + glob.glob(os.path.join(repo, 'src', '**', '*.h*'), recursive=True):
        try:
            if pat.search(open(h, errors='replace').read()):
                return True
        except OSError:
            pass
    return False

def make_scalar_frame(file, fn, nargs=None):
    tag = fn if nargs is None else '%s_%d' % (fn, nargs)
    @obligation('C19.frame.scalar.%s.%s' % (file.split('/')[-1].replace('.cpp', ''), tag), fns=[(file, fn)], backend='A')
    def ob(ctx, file=file, fn=fn, nargs=nargs):
        """A: write frame is empty (__CPROVER_assigns() with local statics hoisted to file scope) for all arguments, callees inlined;
        two calls with the same arguments return the same value (or both NaN)"""
        fds = ctx.w.find(fn, file)
        if nargs is not None:
            fds = [f for f in fds if len(f.params) == nargs]
        if len(fds) != 1:
            fds = [f for f in fds if all(strip_ns(p.type.name) in ('double', 'int', 'unsigned', 'bool') for p in f.params)]
        if not fds and not _declared_in_header(ctx.w.repo, fn):
            # an internal helper (not declared in any header) that this tree does not have -- inlined into its caller or removed: there is nothing to prove for it,
            # and no coverage is lost because every caller's own frame contract is checked with its callees inlined
            ctx.record('', PROVED, 'A', 0, 'internal helper %s is not present in %s on this tree (inlined or removed): covered by the frame contracts of its callers' % (fn, file), kind='note')
            return
        if len(fds) != 1:
            ctx.record('', ERROR, 'A', 0, 'extraction: %d scalar definitions of %s in %s' % (len(fds), fn, file))
            return
        fd = fds[0]
        res = cbmc_contract(ctx, '', fn, file, ['__CPROVER_requires(1)', '__CPROVER_ensures(1)', '__CPROVER_assigns()'],
                            callee_contracts={'dilog': ['__CPROVER_requires(1)', '__CPROVER_ensures(1)', '__CPROVER_assigns()']} if file != 'src/gm2_dilog.cpp' else None,
                            checks=('--bounds-check', '--pointer-check'), pick=lambda f: f is fd)
    return ob

for _file, _fns in SCALAR.items():
    for _fn in _fns:
        make_scalar_frame(_file, _fn)

@obligation('C19.frame.scalar.dilog', fns=[('src/gm2_dilog.cpp', 'dilog')], backend='A')
def _(ctx):
    """A: the real dilogarithm has an empty write frame"""
    cbmc_contract(ctx, '', 'dilog', 'src/gm2_dilog.cpp', ['__CPROVER_requires(1)', '__CPROVER_ensures(1)', '__CPROVER_assigns()'],
                  checks=('--bounds-check', '--pointer-check'), pick=lambda f: strip_ns(f.params[0].type.name) == 'double')

# ---------------------------------------------------------------------------------------------------
LOOP = ['F1C', 'F2C', 'F3C', 'F4C', 'F1N', 'F2N', 'F3N', 'F4N', 'Fa', 'Fb', 'G3', 'G4', 'Iabc', 'f_PS', 'f_S', 'f_sferm', 'f_CSl', 'f_CSd', 'f_CSu', 'F1', 'F1t', 'F2', 'F3',
        'FPZ', 'FSZ', 'FCWl', 'FCWu', 'FCWd', 'Phi', 'lambda_2', 'dilog', 'clausen_2',
        'calculate_mt_SM6_MSbar', 'calculate_mb_SM6_MSbar', 'calculate_mtau_SM6_MSbar', 'calculate_mb_SM5_DRbar']

def fresh_out(it, m, name):
    if isinstance(m, Mat):
        for i in range(m.r):
            for j in range(m.c):
                v = z3.Real('%s_%d_%d_%d' % (name, next(it.sym.fresh), i, j))
                m.d[i][j] = Cx(v, z3.Real(str(v) + 'i')) if m.cplx else v

def linalg_any(it, args, this):
    """A-LINALG (frame part): the decomposition routines write only their output arguments"""
    for k, a in enumerate(args[1:]):
        fresh_out(it, a, 'linalg_out%d' % k)
    return None

MODEL_FNS = {
    'MSSMNoFV_onshell': [('src/MSSMNoFV/gm2_1loop.cpp', n) for n in ['calculate_amu_1loop', 'calculate_amu_1loop_non_tan_beta_resummed', 'amu1LChi0', 'amu1LChipm', 'amu1Lapprox',
                          'amu1Lapprox_non_tan_beta_resummed', 'amu1LWHnu', 'amu1LWHmuL', 'amu1LBHmuL', 'amu1LBHmuR', 'amu1LBmuLmuR', 'tan_beta_cor', 'delta_mu_correction',
                          'delta_tau_correction', 'delta_bottom_correction']] +
                        [('src/MSSMNoFV/gm2_2loop.cpp', n) for n in ['calculate_amu_2loop', 'calculate_amu_2loop_non_tan_beta_resummed', 'amu2LFSfapprox', 'amu2LFSfapprox_non_tan_beta_resummed',
                          'amu2LChipmPhotonic', 'amu2LChi0Photonic', 'amu2LaSferm', 'amu2LaCha', 'delta_g1', 'delta_g2', 'delta_yuk_higgsino', 'delta_yuk_bino_higgsino',
                          'delta_yuk_wino_higgsino', 'delta_tan_beta']] +
                        [('src/MSSMNoFV/gm2_uncertainty.cpp', n) for n in ['calculate_uncertainty_amu_0loop', 'calculate_uncertainty_amu_1loop', 'calculate_uncertainty_amu_2loop']],
    'THDM': [('src/THDM/gm2_1loop.cpp', 'calculate_amu_1loop'), ('src/THDM/gm2_2loop.cpp', 'calculate_amu_2loop'), ('src/THDM/gm2_2loop.cpp', 'calculate_amu_2loop_bosonic'),
             ('src/THDM/gm2_2loop.cpp', 'calculate_amu_2loop_fermionic')] +
            [('src/THDM/gm2_uncertainty.cpp', n) for n in ['calculate_uncertainty_amu_0loop', 'calculate_uncertainty_amu_1loop', 'calculate_uncertainty_amu_2loop']],
}

def snapshot(o, pre=''):
    out = {}
    for k, v in o.f.items():
        if isinstance(v, Obj):
            out.update(snapshot(v, pre + k + '.'))
        elif isinstance(v, Mat):
            out[pre + k] = [str(x) if not isinstance(x, Cx) else (str(x.re), str(x.im)) for x in v.elems()]
        elif isinstance(v, Cx):
            out[pre + k] = (str(v.re), str(v.im))
        else:
            out[pre + k] = str(v)
    return out

def make_model_frame(cls, file, fn, ytype=2):
    @obligation('C19.frame.model.%s.%s%s' % ('mssm' if cls != 'THDM' else 'thdm', fn, '' if cls != 'THDM' else '.type%d' % ytype), fns=[(file, fn)])
    def ob(ctx, cls=cls, file=file, fn=fn, ytype=ytype):
        """B: on every path (also the throwing ones) the function leaves every data member of the model it is given unchanged (including
        nested objects), writes no file-scope variable and uses no function-local static; loop functions and the decomposition routines
        by their frame contracts"""
        stubs = {n: (lambda n: (lambda it, a, t: it.uf('fn_' + n, *[x for x in a if not isinstance(x, (Obj, Mat))])))(n) for n in LOOP}
        stubs.update({'fs_diagonalize_hermitian': linalg_any, 'fs_svd': linalg_any, 'fs_diagonalize_symmetric': linalg_any,
                      # operates on the local copy model_ytree (frame: writes only the object it is called on)
                      'MSSMNoFV_onshell::convert_to_non_tan_beta_resummed': lambda it_, a, t: t.f.__setitem__('Ye', t.f['Ye'].map(lambda x: z3.Real('ye_tree')) if isinstance(t.f.get('Ye'), Mat) else t.f.get('Ye'))})
        it = Interp(ctx.w, mode='sym', stubs=stubs, feasibility=False, div_sides=False)
        it.nonfinite_unknown = True      # isnan/isfinite tests (lazy-cache idiom, sentinel values) are explored both ways
        if cls == 'THDM':
            # kernels by contract: pure functions of the parameter struct
            for k in ('amu1L', 'amu2L_B', 'amu2L_F'):
                it.stubs[k] = (lambda k: (lambda it_, a, t: z3.Real('kernel_' + k)))(k)
        m = it.new_object(cls, symbolic_fields(None, prefix='m.'))
        if cls == 'THDM':
            # running masses by their frame contract (C19.frame.model.thdm.get_m*): pure functions of (model, scale)
            for g in ('get_mu', 'get_md', 'get_ml'):
                it.stubs['THDM::' + g] = (lambda g: (lambda it_, a, t: Mat(3, 1, [[it_.uf('%s_%d' % (g, i), *a)] for i in range(3)], 'matrix', False)))(g)
            m.f['yukawa_type'] = ytype
            # mixing-angle getters by their frame/functional contract (C08.mixing_angle, C19.frame.model.thdm.get_*_beta_minus_alpha)
            it.stubs['THDM_mass_eigenstates::get_sin_beta_minus_alpha'] = lambda it_, a, t: z3.Real('sba')
            it.stubs['THDM_mass_eigenstates::get_cos_beta_minus_alpha'] = lambda it_, a, t: z3.Real('cba')
        before = snapshot(m)
        fds = [f for f in ctx.w.find(fn, file) if len(f.params) == 1 and strip_ns(f.params[0].type.name) == cls]
        if len(fds) != 1:
            ctx.record('', ERROR, 'B', 0, 'extraction: %d definitions of %s(%s) in %s' % (len(fds), fn, cls, file))
            return
        ps = it.run_paths(lambda: it.invoke(fds[0], [m], None), max_paths=128)
        ctx.merge_rules(it)
        bad = []
        for k, (sym, r, exc) in enumerate(ps):
            after = snapshot(m)      # NB: the same object is reused; every path must leave it as it was
            # re-run bookkeeping: the interpreter re-executes from the start for every path on the SAME object, so a mutation on any path shows here
            gw = [e for e in sym.effects if e[0] == 'global-write']
            if gw:
                bad.append('path %d writes file-scope variable(s) %s' % (k, sorted({e[1] for e in gw})))
        after = snapshot(m)
        changed = sorted(k for k in before if before[k] != after.get(k))
        if changed:
            bad.append('model members changed: %s' % changed[:8])
        nstat = ctx.rule_counts.get('local-static', 0)
        if nstat:
            bad.append('function-local static variable used (%d executions of a static declaration)' % nstat)
        ctx.record('', PROVED if not bad else FAILED, 'B', 0, '; '.join(bad) if bad else '%d paths, model unchanged, no global or static writes' % len(ps),
                   solver='symbolic execution (frame comparison)')
    return ob

for _cls, _lst in MODEL_FNS.items():
    for _file, _fn in _lst:
        if _cls == 'THDM':
            for _yt in (2, 5, 6):
                make_model_frame(_cls, _file, _fn, _yt)
        else:
            make_model_frame(_cls, _file, _fn)

def make_getter_frame(fn):
    @obligation('C19.frame.model.thdm.%s' % fn, fns=[('src/THDM/THDM.cpp', 'THDM::' + fn)])
    def ob(ctx, fn=fn):
        """B: THDM::get_mu/md/ml(scale) leave the model unchanged on every path (running masses by contract)"""
        stubs = {n: (lambda n: (lambda it, a, t: it.uf('fn_' + n, *a)))(n) for n in LOOP}
        it = Interp(ctx.w, mode='sym', stubs=stubs, feasibility=False, div_sides=False)
        it.nonfinite_unknown = True      # isnan/isfinite tests (lazy-cache idiom, sentinel values) are explored both ways
        m = it.new_object('THDM', symbolic_fields(None, prefix='m.'))
        m.f['config'].f['running_couplings'] = z3.Bool('running')
        before = snapshot(m)
        ps = it.run_paths(lambda: it.call(fn, [z3.Real('scale')], this=m))
        after = snapshot(m)
        changed = sorted(k for k in before if before[k] != after.get(k))
        ctx.merge_rules(it)
        ctx.record('', PROVED if (not changed and len(ps) >= 2) else FAILED, 'B', 0, '%d paths; changed members: %s' % (len(ps), changed))
    return ob
for _g in ('get_mu', 'get_md', 'get_ml'):
    make_getter_frame(_g)

def make_angle_frame(fn):
    @obligation('C19.frame.model.thdm.%s' % fn, fns=[('src/THDM/THDM_mass_eigenstates.cpp', 'THDM_mass_eigenstates::' + fn)])
    def ob(ctx, fn=fn):
        """B: the mixing-angle getter leaves the model unchanged on every path"""
        it = Interp(ctx.w, mode='sym', feasibility=False, div_sides=False)
        it.nonfinite_unknown = True      # isnan/isfinite tests on members (lazy-cache idiom) are explored both ways
        m = it.new_object('THDM', symbolic_fields(None, prefix='m.'))
        before = snapshot(m)
        ps = it.run_paths(lambda: it.call(fn, [], this=m))
        after = snapshot(m)
        changed = sorted(k for k in before if before[k] != after.get(k))
        ctx.merge_rules(it)
        ctx.record('', PROVED if not changed else FAILED, 'B', 0, '%d paths; changed members: %s' % (len(ps), changed))
    return ob
for _g in ('get_sin_beta_minus_alpha', 'get_cos_beta_minus_alpha', 'get_alpha_h', 'get_beta', 'get_eta'):
    make_angle_frame(_g)

@obligation('C19.supporting.no_mutable_no_const_cast', fns=[])
def _(ctx):
    """supporting static fact (not a proof obligation of a function): the library sources declare no `mutable` member, use no const_cast
    and define no non-const namespace-scope variable"""
    import re, glob, os
    bad = []
    for p, u in ctx.w.units.items():
        rel = ctx.w.rel(p)
        if rel.startswith(('src/', 'include/')) and not rel.endswith(('gm2calc.cpp', 'slhaea.h')):
            txt = open(p).read()
            txt = re.sub(r'//[^\n]*|/\*.*?\*/', '', txt, flags=re.S)
            for kw in ('mutable', 'const_cast', 'thread_local'):
                if re.search(r'\b%s\b' % kw, txt):
                    bad.append('%s uses %s' % (rel, kw))
            for vd in u.vars:
                d = vd.decl
                if not d.type.const and not rel.endswith(('.hpp', '.h')):
                    bad.append('%s: non-const namespace-scope variable %s' % (rel, d.name))
    ctx.record('', PROVED if not bad else FAILED, 'B', 0, '; '.join(bad) if bad else 'none found', solver='syntactic scan', kind='supporting')

# ---------------------------------------------------------------------------------------------------
# function-local statics anywhere in the library (the extractor treats them as globals: a static that is written, or
# initialised from run-time data, is shared mutable state = a frame violation of the enclosing function)
# ---------------------------------------------------------------------------------------------------
from gm2v import cxx as _cxx

def _walk(n, f):
    if isinstance(n, _cxx.Node):
        f(n)
        for fld in n._fields:
            _walk(getattr(n, fld), f)
    elif isinstance(n, (list, tuple)):
        for x in n:
            _walk(x, f)

def _ids(e):
    out = set()
    _walk(e, lambda n: out.add(n.name) if isinstance(n, _cxx.Id) else None)
    return out

def _nonconstant_parts(w, e):
    """sub-expressions of a static initialiser that are not compile-time constants: member accesses, this, identifiers that are neither namespace-scope
    constants nor enumerators, calls of functions outside std::"""
    out = []
    consts = set()
    for vs in w.filevars.values():
        consts |= set(vs.keys())
    def rec(n):
        if n is None or isinstance(n, (str, int, float, bool)):
            return
        if isinstance(n, (list, tuple)):
            for x in n:
                rec(x)
            return
        if not isinstance(n, _cxx.Node):
            return
        if isinstance(n, _cxx.Member):
            out.append('member access .%s' % n.name)
            return
        if isinstance(n, _cxx.Id):
            nm = n.name
            last = nm.split('::')[-1]
            if nm == 'this':
                out.append('this')
            elif not (nm.startswith('std::') or last in consts or '::' in nm and nm.split('::')[0] in ('Eigen',) or last[:1].isupper() and '::' in nm):
                out.append('identifier %s' % nm)
            return
        if isinstance(n, _cxx.Call):
            f = n.f
            if isinstance(f, _cxx.Id) and f.name.startswith('std::'):
                rec(n.args)
            elif isinstance(f, _cxx.Id) and f.name.split('::')[-1] in ('Zero', 'Identity', 'Constant') :
                rec(n.args)
            else:
                out.append('call of %s' % (f.name if isinstance(f, _cxx.Id) else getattr(f, 'name', '?')))
            return
        if isinstance(n, _cxx.Lambda):
            return
        for fld in n._fields:
            if fld == 'type':
                continue
            rec(getattr(n, fld, None))
    rec(e)
    return out

@obligation('C19.no_stateful_local_statics', fns=[])
def _(ctx):
    """frame inference over EVERY function body of the library sources (src/**, include/**): a function-local `static` must be const AND
    initialised from compile-time constants only (no parameter, no local, no call on run-time data); anything else is state shared
    between calls and threads (history dependence / data race)"""
    bad = []
    n_fn = n_static = 0
    for p, u in ctx.w.units.items():
        rel = ctx.w.rel(p)
        if rel.endswith('gm2calc.cpp'):
            continue
        for fd in u.funcs:
            try:
                body = ctx.w.body(fd)
            except _cxx.ParseError:
                continue
            n_fn += 1
            runtime = {q.name for q in fd.params if q.name}
            decls = []
            _walk(body, lambda n: decls.append(n) if isinstance(n, _cxx.Decl) else None)
            for d in decls:
                if not (d.is_static or getattr(d.type, 'is_static', False)):
                    runtime.add(d.name)
            for d in decls:
                if d.is_static or getattr(d.type, 'is_static', False):
                    n_static += 1
                    init_ids = _ids(d.init) | _ids(d.ctor_args)
                    dep = sorted(init_ids & runtime)
                    # data members, `this`, and calls of non-library functions are run-time data as well (a const static initialised from a member keeps the
                    # value of the FIRST object that reaches it)
                    if not dep:
                        nonconst = []
                        for part in ([d.init] if d.init is not None else []) + list(d.ctor_args or []):
                            nonconst += _nonconstant_parts(ctx.w, part)
                        dep = sorted(set(nonconst))
                    if not d.type.const:
                        bad.append('%s: %s declares the non-const local static `%s`' % (rel, fd.qname, d.name))
                    elif dep:
                        bad.append('%s: %s initialises the local static `%s` from run-time data %s' % (rel, fd.qname, d.name, dep))
    ctx.record('', PROVED if not bad else FAILED, 'B', 0, ('; '.join(bad))[:1500] if bad else '%d function bodies scanned, %d local statics, all const with constant initialisers' % (n_fn, n_static),
               solver='frame inference (AST)', model={'offenders': bad[:10]} if bad else None)

KERNELS = [('src/THDM/gm2_1loop_H.cpp', 'amu1L', 'THDM_1L_parameters'), ('src/THDM/gm2_1loop_H.cpp', 'amu1L_approx', 'THDM_1L_parameters'),
           ('src/THDM/gm2_2loop_F.cpp', 'amu2L_F_neutral', 'THDM_F_parameters'), ('src/THDM/gm2_2loop_F.cpp', 'amu2L_F_charged', 'THDM_F_parameters'),
           ('src/THDM/gm2_2loop_B.cpp', 'amu2L_B_EWadd', 'THDM_B_parameters'), ('src/THDM/gm2_2loop_B.cpp', 'amu2L_B_nonYuk', 'THDM_B_parameters'),
           ('src/THDM/gm2_2loop_B.cpp', 'amu2L_B_Yuk', 'THDM_B_parameters')]

def make_kernel_frame(file, fn, cls):
    @obligation('C19.frame.kernel.%s' % fn, fns=[(file, fn)])
    def ob(ctx):
        """B: the THDM kernel leaves its parameter struct unchanged, writes no file-scope variable and executes no static declaration, on every
        path (its own helper functions T0..T10, YF1..3, fb, Fm0, ... are executed, the loop functions of gm2_ffunctions by contract)"""
        stubs = {n: (lambda n: (lambda it, a, t: it.uf('fn_' + n, *a)))(n) for n in LOOP}
        it = Interp(ctx.w, mode='sym', stubs=stubs, feasibility=False, div_sides=False)
        it.nonfinite_unknown = True      # isnan/isfinite tests (lazy-cache idiom, sentinel values) are explored both ways
        if fn in ('amu2L_B_Yuk', 'amu2L_B_nonYuk'):
            # the helper functions are explored on their own (C19.frame.kernel.helper.*): here by their frame contract
            for h in B_HELPERS:
                it.stubs[h] = (lambda h: (lambda it_, a, t: it_.uf('fn_' + h, *a)))(h)
        p = it.new_object(cls, symbolic_fields(None, prefix='p.'))
        before = snapshot(p)
        try:
            ps = it.run_paths(lambda: it.call(fn, [p], file=file), max_paths=6000)
        except Exception as e:
            ctx.record('', ERROR, 'B', 0, 'extraction: %s' % e)
            return
        ctx.merge_rules(it)
        after = snapshot(p)
        bad = []
        if before != after:
            bad.append('parameter struct changed')
        gw = sorted({e[1] for s_, r, x in ps for e in s_.effects if e[0] == 'global-write'})
        if gw:
            bad.append('file-scope writes: %s' % gw)
        if ctx.rule_counts.get('local-static', 0):
            bad.append('a function-local static declaration was executed %d times' % ctx.rule_counts['local-static'])
        ctx.record('', PROVED if not bad else FAILED, 'B', 0, '; '.join(bad) if bad else '%d paths explored' % len(ps), solver='symbolic execution (frame comparison)')
    return ob

B_HELPERS = ['YF1', 'YFZ', 'YFW', 'YF2', 'YF3', 'T0', 'T1', 'dxlog', 'TX', 'T4', 'T5', 'T6', 'T7', 'T8', 'T9', 'T10', 'fb', 'Fm0', 'Fmp']

def make_helper_frame(h):
    @obligation('C19.frame.kernel.helper.%s' % h, fns=[('src/THDM/gm2_2loop_B.cpp', h)])
    def ob(ctx):
        """B: the scalar helper of the bosonic two-loop kernel writes no file-scope variable and executes no static declaration on any path"""
        stubs = {n: (lambda n: (lambda it, a, t: it.uf('fn_' + n, *a)))(n) for n in LOOP}
        it = Interp(ctx.w, mode='sym', stubs=stubs, feasibility=False, div_sides=False)
        it.nonfinite_unknown = True      # isnan/isfinite tests (lazy-cache idiom, sentinel values) are explored both ways
        fds = ctx.w.find(h, 'src/THDM/gm2_2loop_B.cpp')
        bad = []
        npaths = 0
        for fd in fds:
            args = [z3.Real('a%d' % i) for i in range(len(fd.params))]
            try:
                ps = it.run_paths(lambda: it.invoke(fd, args, None), max_paths=3000)
            except Exception as e:
                ctx.record('', ERROR, 'B', 0, 'extraction: %s' % e)
                return
            npaths += len(ps)
            gw = sorted({e[1] for s_, r, x in ps for e in s_.effects if e[0] == 'global-write'})
            if gw:
                bad.append('file-scope writes %s' % gw)
        ctx.merge_rules(it)
        if it.rule_counts.get('local-static', 0):
            bad.append('static declaration executed')
        ctx.record('', PROVED if not bad else FAILED, 'B', 0, '; '.join(bad) if bad else '%d paths' % npaths)
    return ob

for _h in B_HELPERS:
    make_helper_frame(_h)

for _k in KERNELS:
    make_kernel_frame(*_k)

@obligation('C19.frame.mf', fns=[('src/gm2_mf.cpp', 'calculate_lambda_qcd'), ('src/gm2_mf.cpp', 'calculate_mb_SM5_DRbar'), ('src/gm2_mf.cpp', 'calculate_mb_SM6_MSbar')])
def _(ctx):
    """B: the running bottom-mass routines and the Lambda_QCD determination (root finder by contract: returns a bracket or throws) write no
    file-scope variable and execute no static declaration"""
    a, b = z3.Real('ra'), z3.Real('rb')
    bad = []
    for fn, args in (('calculate_lambda_qcd', ['alpha', 'scale']), ('calculate_mb_SM5_DRbar', ['mb', 'alpha', 'scale']), ('calculate_mb_SM6_MSbar', ['mb', 'mt', 'as', 'mz', 'scale'])):
        for mode in ('returns', 'throws'):
            def toms(it_, ar, t, mode=mode):
                if mode == 'throws':
                    raise Thrown('std::domain_error', 'x')
                return (a, b)
            it = Interp(ctx.w, mode='sym', stubs={'toms748_solve': toms}, feasibility=False, div_sides=False)
            try:
                ps = it.run_paths(lambda: it.call(fn, [z3.Real(x) for x in args], file='src/gm2_mf.cpp'), max_paths=64)
            except Exception as e:
                ctx.record('%s.%s' % (fn, mode), ERROR, 'B', 0, 'extraction: %s' % e)
                continue
            ctx.merge_rules(it)
            gw = sorted({e[1] for s_, r, x in ps for e in s_.effects if e[0] == 'global-write'})
            st = it.rule_counts.get('local-static', 0)
            ok = not gw and not st
            ctx.record('%s.%s' % (fn, mode), PROVED if ok else FAILED, 'B', 0, 'paths=%d file-scope writes=%s static declarations executed=%d' % (len(ps), gw, st))

# ------------------------------------------------------------------------------------------------ ambient process/thread state
AMBIENT = {'fetestexcept', 'feclearexcept', 'feraiseexcept', 'fegetexceptflag', 'fesetexceptflag', 'fegetenv', 'fesetenv', 'feholdexcept', 'feupdateenv', 'fegetround', 'fesetround',
           'errno', 'rand', 'srand', 'random', 'drand48', 'time', 'clock', 'getenv', 'setenv', 'putenv', 'setlocale', 'localeconv', 'strtok', 'gmtime', 'localtime', 'asctime', 'ctime',
           'getpid', 'gettid', 'signal', 'raise', 'random_device', 'get_id', 'now', 'gettimeofday', 'clock_gettime', 'tmpnam', 'strerror', 'uncaught_exception', 'uncaught_exceptions',
           'set_terminate', 'set_new_handler', 'atexit', 'at_quick_exit'}

AMBIENT_REPLAY = r'''
#include "gm2calc/MSSMNoFV_onshell.hpp"
#include "gm2calc/gm2_1loop.hpp"
#include "gm2calc/gm2_2loop.hpp"
#include "gm2calc/gm2_uncertainty.hpp"
#include "gm2calc/gm2_error.hpp"
#include <cfenv>
#include <cerrno>
#include <cstdio>
#include <cstring>
#include <cmath>
// the same SLHA-type point is converted and evaluated in a clean thread state and after the sticky floating-point exception flags and errno were set by
// "earlier work" in the thread: every result must be bit-identical
static void eval(double out[6]) {
   gm2calc::MSSMNoFV_onshell model; const double Pi = 3.141592653589793;
   const Eigen::Matrix<double,3,3> one = Eigen::Matrix<double,3,3>::Identity();
   model.set_alpha_MZ(0.0077552); model.set_alpha_thompson(0.00729735); model.set_g3(std::sqrt(4 * Pi * 0.1184));
   model.get_physical().MFt = 173.34; model.get_physical().MFb = 4.18; model.get_physical().MFm = 0.1056583715; model.get_physical().MFtau = 1.777;
   model.get_physical().MVWm = 80.385; model.get_physical().MVZ = 91.1876;
   model.get_physical().MSvmL = 5.18860573e+02; model.get_physical().MSm(0) = 5.05095249e+02; model.get_physical().MSm(1) = 5.25187016e+02;
   model.get_physical().MChi(0) = 2.01611468e+02; model.get_physical().MChi(1) = 4.10040273e+02; model.get_physical().MChi(2) = 5.16529941e+02; model.get_physical().MChi(3) = 5.45628749e+02;
   model.get_physical().MCha(0) = 4.09989890e+02; model.get_physical().MCha(1) = 5.46057190e+02; model.get_physical().MAh(1) = 1.5e+03;
   model.set_TB(40); model.set_Mu(500); model.set_MassB(200); model.set_MassWB(400); model.set_MassG(2000);
   model.set_mq2(7000. * 7000 * one); model.set_ml2(0, 0, 500. * 500); model.set_ml2(1, 1, 500. * 500); model.set_ml2(2, 2, 500. * 500);
   model.set_md2(7000. * 7000 * one); model.set_mu2(7000. * 7000 * one);
   model.set_me2(0, 0, 500. * 500); model.set_me2(1, 1, 500. * 500); model.set_me2(2, 2, 500. * 500);
   model.set_Au(2, 2, 0); model.set_Ad(2, 2, 0); model.set_Ae(1, 1, 0); model.set_Ae(2, 2, 0); model.set_scale(1000);
   try { model.convert_to_onshell(); } catch (const gm2calc::Error&) {}
   out[0] = gm2calc::calculate_amu_1loop(model); out[1] = gm2calc::calculate_amu_2loop(model); out[2] = gm2calc::calculate_uncertainty_amu_2loop(model);
   out[3] = model.get_me2(1, 1); out[4] = model.get_Mu(); out[5] = model.get_problems().have_warning() ? 1 : 0;
}
int main() {
   double a[6], b[6];
   std::feclearexcept(FE_ALL_EXCEPT); errno = 0;
   eval(a);
   std::feraiseexcept(FE_OVERFLOW | FE_INVALID | FE_DIVBYZERO | FE_UNDERFLOW | FE_INEXACT); errno = ERANGE;
   eval(b);
   const bool same = std::memcmp(a, b, sizeof a) == 0;
   if (!same) std::printf("clean thread state: amu1L=%.17g amu2L=%.17g me2(1,1)=%.17g warning=%g\nafter FE flags/errno:  amu1L=%.17g amu2L=%.17g me2(1,1)=%.17g warning=%g\n", a[0], a[1], a[3], a[5], b[0], b[1], b[3], b[5]);
   std::printf("results %s on the ambient thread state\n", same ? "do not depend" : "DEPEND");
   return same ? 0 : 1;
}
'''

def ambient_replay(model, wd):
    from gm2v import native
    import subprocess
    exe = native.build_against_library(wd, AMBIENT_REPLAY)
    r = subprocess.run([exe], capture_output=True, text=True, timeout=300)
    return r.returncode == 1, r.stdout.strip()[-1500:]

@obligation('C19.no_ambient_state', fns=[], replay=ambient_replay)
def _(ctx):
    """frame inference over EVERY function body of the library sources: no function reads or writes ambient process/thread state -- the floating-point environment
    (sticky exception flags, rounding mode), errno, the C random generator, clocks, the environment, the locale, thread ids: a result that depends on any of them
    depends on what ran before in the same thread ("does not depend on what was computed before in the same process")"""
    bad = []
    n_fn = 0
    for p, u in ctx.w.units.items():
        rel = ctx.w.rel(p)
        if rel.endswith('gm2calc.cpp') or rel.endswith('slhaea.h'):
            continue
        for fd in u.funcs:
            try:
                body = ctx.w.body(fd)
            except _cxx.ParseError:
                continue
            n_fn += 1
            hits = set()
            def visit(n):
                if isinstance(n, _cxx.Id):
                    last = n.name.split('::')[-1]
                    if last in AMBIENT and (n.name == last or n.name.startswith(('std::', '::'))):
                        hits.add(n.name)
                elif isinstance(n, _cxx.Member) and n.name in ('now', 'get_id'):
                    hits.add('.' + n.name)
            _walk(body, visit)
            # a local variable or parameter of the same name is not the library symbol
            local = {q.name for q in fd.params if q.name}
            decls = []
            _walk(body, lambda n: decls.append(n) if isinstance(n, _cxx.Decl) else None)
            local |= {d.name for d in decls}
            hits = {h for h in hits if h.split('::')[-1].lstrip('.') not in local}
            if hits:
                bad.append('%s: %s uses %s' % (rel, fd.qname, sorted(hits)))
    ctx.record('', PROVED if not bad else FAILED, 'B', 0, ('; '.join(bad))[:1500] if bad else '%d function bodies scanned: no access to the floating-point environment, errno, clocks, random generators, environment or locale' % n_fn,
               solver='frame inference (AST)', model={'offenders': bad[:10]} if bad else None)

# ------------------------------------------------------------------------------------------------ definite initialisation
UNINIT_REPLAY = r'''
#include "gm2calc/MSSMNoFV_onshell.hpp"
#include "gm2calc/gm2_1loop.hpp"
#include "gm2calc/gm2_2loop.hpp"
#include "gm2calc/gm2_error.hpp"
#include <cstdio>
#include <cstring>
#include <cmath>
// the same point (with generation-off-diagonal trilinear input, which the library documents as ignored) is evaluated twice with different garbage left on the stack in between:
// all results must be bit-identical and equal to the evaluation with the off-diagonal input set to zero
static void dirty_stack(double fill) { volatile double junk[4096]; for (int i = 0; i < 4096; i++) junk[i] = fill * (i + 1); (void)junk[17]; }
static void eval(double out[4], double offdiag) {
   gm2calc::MSSMNoFV_onshell m; const double Pi = 3.141592653589793;
   const Eigen::Matrix<double,3,3> one = Eigen::Matrix<double,3,3>::Identity();
   m.set_alpha_MZ(0.0077552); m.set_alpha_thompson(0.00729735); m.set_g3(std::sqrt(4 * Pi * 0.1184));
   m.get_physical().MFt = 173.34; m.get_physical().MFb = 4.18; m.get_physical().MFm = 0.1056583715; m.get_physical().MFtau = 1.777;
   m.get_physical().MVWm = 80.385; m.get_physical().MVZ = 91.1876;
   m.set_TB(10); m.set_Mu(350); m.set_MassB(150); m.set_MassWB(300); m.set_MassG(1000); m.set_MA0(1500);
   m.set_mq2(500. * 500 * one); m.set_ml2(500. * 500 * one); m.set_md2(500. * 500 * one); m.set_mu2(500. * 500 * one); m.set_me2(500. * 500 * one);
   Eigen::Matrix<double,3,3> A = Eigen::Matrix<double,3,3>::Zero(); A(1, 1) = 100; A(2, 2) = 200; A(0, 1) = offdiag; A(1, 2) = -offdiag; A(2, 0) = 2 * offdiag;
   m.set_Ae(A); m.set_Au(A); m.set_Ad(A); m.set_scale(454.7);
   try { m.calculate_masses(); out[0] = gm2calc::calculate_amu_1loop(m); out[1] = gm2calc::calculate_amu_2loop(m);
         out[2] = gm2calc::calculate_amu_1loop_non_tan_beta_resummed(m); out[3] = gm2calc::calculate_amu_2loop_non_tan_beta_resummed(m); }
   catch (const gm2calc::Error& e) { out[0] = out[1] = out[2] = out[3] = NAN; std::printf("exception: %s\n", e.what()); }
}
int main() {
   double a[4], b[4], c[4];
   dirty_stack(1e3); eval(a, 300);
   dirty_stack(-7e5); eval(b, 300);
   dirty_stack(1.0); eval(c, 0);
   const bool same = std::memcmp(a, b, sizeof a) == 0 && std::memcmp(a, c, sizeof a) == 0;
   if (!same) for (int i = 0; i < 4; i++) std::printf("result %d: %.17g | %.17g | off-diagonal A = 0: %.17g\n", i, a[i], b[i], c[i]);
   std::printf("results %s on what the stack held before\n", same ? "do not depend" : "DEPEND");
   return same ? 0 : 1;
}
'''

def uninit_replay(model, wd):
    from gm2v import native
    import subprocess
    exe = native.build_against_library(wd, UNINIT_REPLAY)
    r = subprocess.run([exe], capture_output=True, text=True, timeout=300)
    return r.returncode == 1, r.stdout.strip()[-1500:]

def _functions_with_uninitialised_locals(w):
    """(file, FuncDef, [names]) for every function that declares a fixed-size Eigen matrix/array or a built-in scalar without initialiser"""
    out = []
    for p, u in w.units.items():
        rel = w.rel(p)
        if rel.endswith(('gm2calc.cpp', 'slhaea.h', 'gm2_linalg.hpp', 'gm2_eigen_utils.hpp')) or '_c.cpp' in rel:
            continue
        for fd in u.funcs:
            try:
                body = w.body(fd)
            except _cxx.ParseError:
                continue
            names = []
            def visit(n):
                if isinstance(n, _cxx.Decl) and n.init is None and n.ctor_args is None and n.dims is None and not n.is_static:
                    tn = strip_ns(n.type.name)
                    if tn in ('Eigen::Matrix', 'Eigen::Array', 'double', 'int', 'unsigned') and not n.type.ref and not n.type.ptr:
                        names.append(n.name)
            _walk(body, visit)
            if names:
                out.append((rel, fd, names))
    return out

@obligation('C19.no_uninitialised_reads', fns=[('src/MSSMNoFV/MSSMNoFV_onshell.cpp', 'MSSMNoFV_onshell::convert_yukawa_couplings_treelevel'),
                                               ('src/MSSMNoFV/MSSMNoFV_onshell.cpp', 'MSSMNoFV_onshell::convert_yukawa_couplings'),
                                               ('src/MSSMNoFV/MSSMNoFV_onshell.cpp', 'MSSMNoFV_onshell::convert_to_non_tan_beta_resummed')], replay=uninit_replay)
def _(ctx):
    """definite initialisation: every function of the model classes that declares a local fixed-size Eigen object or scalar WITHOUT initialiser (found on this run), and the
    Yukawa-conversion functions that build matrices element by element, are executed on a symbolic model with indeterminate values for such locals: no path uses one
    before it is written (Eigen does not zero-initialise; a result built from such a value depends on what ran before on the same stack)"""
    from gm2v.values import UninitRead, EvalError
    from gm2v.interp import Unsupported
    stubs = {n: (lambda n: (lambda it, a, t: it.uf('fn_' + n, *[x for x in a if not isinstance(x, (Obj, Mat))])))(n) for n in LOOP}
    stubs.update({'fs_diagonalize_hermitian': linalg_any, 'fs_svd': linalg_any, 'fs_diagonalize_symmetric': linalg_any})
    cands = _functions_with_uninitialised_locals(ctx.w)
    extra = [('src/MSSMNoFV/MSSMNoFV_onshell.cpp', n) for n in ('convert_yukawa_couplings_treelevel', 'convert_yukawa_couplings', 'convert_to_non_tan_beta_resummed')]
    seen = set()
    todo = []
    for rel, fd, names in cands:
        todo.append((rel, fd, names))
        seen.add(id(fd))
    for rel, n in extra:
        for fd in ctx.w.find('MSSMNoFV_onshell::' + n, rel):
            if id(fd) not in seen:
                todo.append((rel, fd, []))
    n_run = n_skip = 0
    for rel, fd, names in todo:
        cls = fd.cls
        qn = fd.qname if isinstance(fd.qname, str) else '::'.join(fd.qname)
        tag = qn.split('::')[-1] + ('/%d' % len(fd.params))
        it = Interp(ctx.w, mode='sym', stubs=dict(stubs), feasibility=False, div_sides=False)
        def mkarg(p):
            tn = strip_ns(p.type.name)
            if tn in ('MSSMNoFV_onshell', 'THDM', 'MSSMNoFV_onshell_mass_eigenstates', 'THDM_mass_eigenstates'):
                return it.new_object(tn, symbolic_fields(None, prefix='a.'))
            if tn in ('double',):
                return z3.Real('arg_' + (p.name or 'x'))
            if tn in ('int', 'unsigned'):
                return 1
            raise Unsupported('parameter type ' + tn)
        try:
            args = [mkarg(p) for p in fd.params]
            this = it.new_object(cls, symbolic_fields(None, prefix='m.')) if cls and cls in ctx.w.classes else None
            if cls and this is None:
                raise Unsupported('class ' + str(cls))
            if this is not None and 'verbose_output' in this.f:
                this.f['verbose_output'] = False
            ps = it.run_paths(lambda: it.invoke(fd, list(args), this), max_paths=64)
            n_run += 1
            ctx.record(tag, PROVED, 'B', 0, '%s: %d paths, locals without initialiser: %s -- none is read before it is written' % (rel, len(ps), names or '-'), solver='interpreter (definite initialisation)')
        except UninitRead as e:
            n_run += 1
            ctx.record(tag, FAILED, 'B', 0, '%s: %s reaches a %s' % (rel, qn, e), model={'_uninitialised': str(e)}, solver='interpreter (definite initialisation)')
        except (EvalError, _cxx.ParseError, KeyError, AttributeError, TypeError, IndexError) as e:
            n_skip += 1
            ctx.notes.append('not executed: %s (%s)' % (qn, str(e)[:80]))
    ctx.merge_rules(it)
    ctx.record('coverage', PROVED if n_run >= 20 else ERROR, 'B', 0, '%d functions executed, %d outside the interpreter (reported as notes)' % (n_run, n_skip))
