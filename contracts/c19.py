"""C19 -- calculations are pure: deterministic, argument-preserving (and hence thread-safe).

Frame conditions as contracts:
  A (CBMC/DFCC): every scalar function of the C profile has the write frame __CPROVER_assigns(<its reference parameters>) -- function-local
     statics are hoisted to file scope by the extractor so that a memo/cache is a frame violation; calling it twice with the same
     arguments gives the same result (history independence);
  B: every a_mu / uncertainty function given a model leaves every data member of the model unchanged, writes no file-scope variable,
     declares no function-local static, on every path (including throwing ones).
Thread-safety is the corollary of empty frames (no shared writable state); no schedule is explored.
"""
import z3
from fractions import Fraction as Fr
from gm2v.ob import obligation, cbmc_contract, PROVED, FAILED, UNDECIDED, ERROR
from gm2v.interp import Interp, Thrown, Opaque
from gm2v.values import Cx, Mat, Obj, to_z3, z3real, is_sym, deep_copy
from gm2v.symobj import symbolic_fields
from gm2v.world import strip_ns

FF = 'src/gm2_ffunctions.cpp'
SCALAR = {
    FF: ['F1C', 'F2C', 'F3C', 'F4C', 'F1N', 'F2N', 'F3N', 'F4N', 'Fa', 'Fb', 'G3', 'G4', 'Iabc', 'f_PS', 'f_S', 'f_sferm', 'f_CSl', 'f_CSd', 'f_CSu',
         'F1', 'F1t', 'F2', 'F3', 'FPZ', 'FSZ', 'FCWl', 'FCWu', 'FCWd', 'Phi', 'phi_uv', 'phi_pos', 'phi_neg', 'phi_over_y', 'Ixy', 'Ixyz', 'Ixx', 'I1y', 'I0y',
         'Fax', 'Fbx', 'Fa11', 'Fb11', 'l00', 'l0v', 'lv0', 'luv', 'cl2acos', 'phi_neg_1v'],
    'src/gm2_dilog.cpp': ['clausen_2'],
    'src/gm2_numerics.cpp': ['abs_sqrt', 'sign', 'signed_sqr', 'signed_abs_sqrt'],
    'src/gm2_mf.cpp': ['calculate_alpha_s_SM5_at', 'Fb', 'conversion_mb_MSbar_to_DRbar', 'calculate_alpha_s_SM6_MSbar_at_mt', 'calculate_mt_SM6_MSbar_at',
                       'calculate_mt_SM6_MSbar', 'calculate_mtau_SM6_MSbar'],
    'src/THDM/gm2_1loop_H.cpp': ['Fh', 'FA', 'FHp', 'delta_alpha'],
}
REFS = {'sort': 1, 'shift': 1}

def make_scalar_frame(file, fn, nargs=None):
    tag = fn if nargs is None else '%s_%d' % (fn, nargs)
    @obligation('C19.frame.scalar.%s.%s' % (file.split('/')[-1].replace('.cpp', ''), tag), fns=[(file, fn)], backend='A')
    def ob(ctx, file=file, fn=fn, nargs=nargs):
        """A: write frame is empty (__CPROVER_assigns() with local statics hoisted to file scope) for all arguments, callees inlined;
        two calls with the same arguments return the same value (or both NaN)"""
        fds = ctx.w.find(fn, file)
        if nargs is not None:
            fds = [f for f in fds if len(f.params) == nargs]
        if len(fds) != 1:
            fds = [f for f in fds if all(strip_ns(p.type.name) in ('double', 'int', 'unsigned', 'bool') for p in f.params)]
        if len(fds) != 1:
            ctx.record('', ERROR, 'A', 0, 'extraction: %d scalar definitions of %s in %s' % (len(fds), fn, file))
            return
        fd = fds[0]
        res = cbmc_contract(ctx, '', fn, file, ['__CPROVER_requires(1)', '__CPROVER_ensures(1)', '__CPROVER_assigns()'],
                            callee_contracts={'dilog': ['__CPROVER_requires(1)', '__CPROVER_ensures(1)', '__CPROVER_assigns()']} if file != 'src/gm2_dilog.cpp' else None,
                            checks=('--bounds-check', '--pointer-check'), pick=lambda f: f is fd)
    return ob

for _file, _fns in SCALAR.items():
    for _fn in _fns:
        make_scalar_frame(_file, _fn)

@obligation('C19.frame.scalar.dilog', fns=[('src/gm2_dilog.cpp', 'dilog')], backend='A')
def _(ctx):
    """A: the real dilogarithm has an empty write frame"""
    cbmc_contract(ctx, '', 'dilog', 'src/gm2_dilog.cpp', ['__CPROVER_requires(1)', '__CPROVER_ensures(1)', '__CPROVER_assigns()'],
                  checks=('--bounds-check', '--pointer-check'), pick=lambda f: strip_ns(f.params[0].type.name) == 'double')

# ---------------------------------------------------------------------------------------------------
LOOP = ['F1C', 'F2C', 'F3C', 'F4C', 'F1N', 'F2N', 'F3N', 'F4N', 'Fa', 'Fb', 'G3', 'G4', 'Iabc', 'f_PS', 'f_S', 'f_sferm', 'f_CSl', 'f_CSd', 'f_CSu', 'F1', 'F1t', 'F2', 'F3',
        'FPZ', 'FSZ', 'FCWl', 'FCWu', 'FCWd', 'Phi', 'lambda_2', 'dilog', 'clausen_2',
        'calculate_mt_SM6_MSbar', 'calculate_mb_SM6_MSbar', 'calculate_mtau_SM6_MSbar', 'calculate_mb_SM5_DRbar']

def fresh_out(it, m, name):
    if isinstance(m, Mat):
        for i in range(m.r):
            for j in range(m.c):
                v = z3.Real('%s_%d_%d_%d' % (name, next(it.sym.fresh), i, j))
                m.d[i][j] = Cx(v, z3.Real(str(v) + 'i')) if m.cplx else v

def linalg_any(it, args, this):
    """A-LINALG (frame part): the decomposition routines write only their output arguments"""
    for k, a in enumerate(args[1:]):
        fresh_out(it, a, 'linalg_out%d' % k)
    return None

MODEL_FNS = {
    'MSSMNoFV_onshell': [('src/MSSMNoFV/gm2_1loop.cpp', n) for n in ['calculate_amu_1loop', 'calculate_amu_1loop_non_tan_beta_resummed', 'amu1LChi0', 'amu1LChipm', 'amu1Lapprox',
                          'amu1Lapprox_non_tan_beta_resummed', 'amu1LWHnu', 'amu1LWHmuL', 'amu1LBHmuL', 'amu1LBHmuR', 'amu1LBmuLmuR', 'tan_beta_cor', 'delta_mu_correction',
                          'delta_tau_correction', 'delta_bottom_correction']] +
                        [('src/MSSMNoFV/gm2_2loop.cpp', n) for n in ['calculate_amu_2loop', 'calculate_amu_2loop_non_tan_beta_resummed', 'amu2LFSfapprox', 'amu2LFSfapprox_non_tan_beta_resummed',
                          'amu2LChipmPhotonic', 'amu2LChi0Photonic', 'amu2LaSferm', 'amu2LaCha', 'delta_g1', 'delta_g2', 'delta_yuk_higgsino', 'delta_yuk_bino_higgsino',
                          'delta_yuk_wino_higgsino', 'delta_tan_beta']] +
                        [('src/MSSMNoFV/gm2_uncertainty.cpp', n) for n in ['calculate_uncertainty_amu_0loop', 'calculate_uncertainty_amu_1loop', 'calculate_uncertainty_amu_2loop']],
    'THDM': [('src/THDM/gm2_1loop.cpp', 'calculate_amu_1loop'), ('src/THDM/gm2_2loop.cpp', 'calculate_amu_2loop'), ('src/THDM/gm2_2loop.cpp', 'calculate_amu_2loop_bosonic'),
             ('src/THDM/gm2_2loop.cpp', 'calculate_amu_2loop_fermionic')] +
            [('src/THDM/gm2_uncertainty.cpp', n) for n in ['calculate_uncertainty_amu_0loop', 'calculate_uncertainty_amu_1loop', 'calculate_uncertainty_amu_2loop']],
}

def snapshot(o, pre=''):
    out = {}
    for k, v in o.f.items():
        if isinstance(v, Obj):
            out.update(snapshot(v, pre + k + '.'))
        elif isinstance(v, Mat):
            out[pre + k] = [str(x) if not isinstance(x, Cx) else (str(x.re), str(x.im)) for x in v.elems()]
        elif isinstance(v, Cx):
            out[pre + k] = (str(v.re), str(v.im))
        else:
            out[pre + k] = str(v)
    return out

def make_model_frame(cls, file, fn, ytype=2):
    @obligation('C19.frame.model.%s.%s%s' % ('mssm' if cls != 'THDM' else 'thdm', fn, '' if cls != 'THDM' else '.type%d' % ytype), fns=[(file, fn)])
    def ob(ctx, cls=cls, file=file, fn=fn, ytype=ytype):
        """B: on every path (also the throwing ones) the function leaves every data member of the model it is given unchanged (including
        nested objects), writes no file-scope variable and uses no function-local static; loop functions and the decomposition routines
        by their frame contracts"""
        stubs = {n: (lambda n: (lambda it, a, t: it.uf('fn_' + n, *[x for x in a if not isinstance(x, (Obj, Mat))])))(n) for n in LOOP}
        stubs.update({'fs_diagonalize_hermitian': linalg_any, 'fs_svd': linalg_any, 'fs_diagonalize_symmetric': linalg_any,
                      # operates on the local copy model_ytree (frame: writes only the object it is called on)
                      'MSSMNoFV_onshell::convert_to_non_tan_beta_resummed': lambda it_, a, t: t.f.__setitem__('Ye', t.f['Ye'].map(lambda x: z3.Real('ye_tree')) if isinstance(t.f.get('Ye'), Mat) else t.f.get('Ye'))})
        it = Interp(ctx.w, mode='sym', stubs=stubs, feasibility=False, div_sides=False)
        if cls == 'THDM':
            # kernels by contract: pure functions of the parameter struct
            for k in ('amu1L', 'amu2L_B', 'amu2L_F'):
                it.stubs[k] = (lambda k: (lambda it_, a, t: z3.Real('kernel_' + k)))(k)
        m = it.new_object(cls, symbolic_fields(None, prefix='m.'))
        if cls == 'THDM':
            # running masses by their frame contract (C19.frame.model.thdm.get_m*): pure functions of (model, scale)
            for g in ('get_mu', 'get_md', 'get_ml'):
                it.stubs['THDM::' + g] = (lambda g: (lambda it_, a, t: Mat(3, 1, [[it_.uf('%s_%d' % (g, i), *a)] for i in range(3)], 'matrix', False)))(g)
            m.f['yukawa_type'] = ytype
            # mixing-angle getters by their frame/functional contract (C08.mixing_angle, C19.frame.model.thdm.get_*_beta_minus_alpha)
            it.stubs['THDM_mass_eigenstates::get_sin_beta_minus_alpha'] = lambda it_, a, t: z3.Real('sba')
            it.stubs['THDM_mass_eigenstates::get_cos_beta_minus_alpha'] = lambda it_, a, t: z3.Real('cba')
        before = snapshot(m)
        fds = [f for f in ctx.w.find(fn, file) if len(f.params) == 1 and strip_ns(f.params[0].type.name) == cls]
        if len(fds) != 1:
            ctx.record('', ERROR, 'B', 0, 'extraction: %d definitions of %s(%s) in %s' % (len(fds), fn, cls, file))
            return
        ps = it.run_paths(lambda: it.invoke(fds[0], [m], None), max_paths=128)
        ctx.merge_rules(it)
        bad = []
        for k, (sym, r, exc) in enumerate(ps):
            after = snapshot(m)      # NB: the same object is reused; every path must leave it as it was
            # re-run bookkeeping: the interpreter re-executes from the start for every path on the SAME object, so a mutation on any path shows here
            gw = [e for e in sym.effects if e[0] == 'global-write']
            if gw:
                bad.append('path %d writes file-scope variable(s) %s' % (k, sorted({e[1] for e in gw})))
        after = snapshot(m)
        changed = sorted(k for k in before if before[k] != after.get(k))
        if changed:
            bad.append('model members changed: %s' % changed[:8])
        nstat = ctx.rule_counts.get('local-static', 0)
        if nstat:
            bad.append('function-local static variable used (%d executions of a static declaration)' % nstat)
        ctx.record('', PROVED if not bad else FAILED, 'B', 0, '; '.join(bad) if bad else '%d paths, model unchanged, no global or static writes' % len(ps),
                   solver='symbolic execution (frame comparison)')
    return ob

for _cls, _lst in MODEL_FNS.items():
    for _file, _fn in _lst:
        if _cls == 'THDM':
            for _yt in (2, 5, 6):
                make_model_frame(_cls, _file, _fn, _yt)
        else:
            make_model_frame(_cls, _file, _fn)

def make_getter_frame(fn):
    @obligation('C19.frame.model.thdm.%s' % fn, fns=[('src/THDM/THDM.cpp', 'THDM::' + fn)])
    def ob(ctx, fn=fn):
        """B: THDM::get_mu/md/ml(scale) leave the model unchanged on every path (running masses by contract)"""
        stubs = {n: (lambda n: (lambda it, a, t: it.uf('fn_' + n, *a)))(n) for n in LOOP}
        it = Interp(ctx.w, mode='sym', stubs=stubs, feasibility=False, div_sides=False)
        m = it.new_object('THDM', symbolic_fields(None, prefix='m.'))
        m.f['config'].f['running_couplings'] = z3.Bool('running')
        before = snapshot(m)
        ps = it.run_paths(lambda: it.call(fn, [z3.Real('scale')], this=m))
        after = snapshot(m)
        changed = sorted(k for k in before if before[k] != after.get(k))
        ctx.merge_rules(it)
        ctx.record('', PROVED if (not changed and len(ps) >= 2) else FAILED, 'B', 0, '%d paths; changed members: %s' % (len(ps), changed))
    return ob
for _g in ('get_mu', 'get_md', 'get_ml'):
    make_getter_frame(_g)

def make_angle_frame(fn):
    @obligation('C19.frame.model.thdm.%s' % fn, fns=[('src/THDM/THDM_mass_eigenstates.cpp', 'THDM_mass_eigenstates::' + fn)])
    def ob(ctx, fn=fn):
        """B: the mixing-angle getter leaves the model unchanged on every path"""
        it = Interp(ctx.w, mode='sym', feasibility=False, div_sides=False)
        m = it.new_object('THDM', symbolic_fields(None, prefix='m.'))
        before = snapshot(m)
        ps = it.run_paths(lambda: it.call(fn, [], this=m))
        after = snapshot(m)
        changed = sorted(k for k in before if before[k] != after.get(k))
        ctx.merge_rules(it)
        ctx.record('', PROVED if not changed else FAILED, 'B', 0, '%d paths; changed members: %s' % (len(ps), changed))
    return ob
for _g in ('get_sin_beta_minus_alpha', 'get_cos_beta_minus_alpha', 'get_alpha_h', 'get_beta', 'get_eta'):
    make_angle_frame(_g)

@obligation('C19.supporting.no_mutable_no_const_cast', fns=[])
def _(ctx):
    """supporting static fact (not a proof obligation of a function): the library sources declare no `mutable` member, use no const_cast
    and define no non-const namespace-scope variable"""
    import re, glob, os
    bad = []
    for p, u in ctx.w.units.items():
        rel = ctx.w.rel(p)
        if rel.startswith('src/') and not rel.endswith(('gm2calc.cpp', 'slhaea.h')):
            txt = open(p).read()
            txt = re.sub(r'//[^\n]*|/\*.*?\*/', '', txt, flags=re.S)
            for kw in ('mutable', 'const_cast', 'thread_local'):
                if re.search(r'\b%s\b' % kw, txt):
                    bad.append('%s uses %s' % (rel, kw))
            for vd in u.vars:
                d = vd.decl
                if not d.type.const and not rel.endswith('.hpp'):
                    bad.append('%s: non-const namespace-scope variable %s' % (rel, d.name))
    ctx.record('', PROVED if not bad else FAILED, 'B', 0, '; '.join(bad) if bad else 'none found', solver='syntactic scan', kind='supporting')
