"""C10 -- THDM contributions vanish in the SM limit.

Contracts on src/THDM/gm2_1loop_H.cpp (amu1L), src/THDM/gm2_2loop_F.cpp (amu2L_F_neutral), src/THDM/gm2_2loop_B.cpp
(amu2L_B_EWadd, amu2L_B_Yuk) and the parameter fillers of src/THDM/gm2_1loop.cpp / gm2_2loop.cpp.
Loop functions are callees by contract: uninterpreted (deterministic) functions of their arguments.
"""
from fractions import Fraction as Fr
import z3
from gm2v.ob import obligation, PROVED, FAILED, UNDECIDED, ERROR
from gm2v.interp import Interp, Thrown
from gm2v.values import Cx, Mat, Obj, to_z3, z3real, is_sym, deep_copy
from gm2v.symobj import symbolic_fields

H1 = 'src/THDM/gm2_1loop_H.cpp'
F2 = 'src/THDM/gm2_2loop_F.cpp'
B2 = 'src/THDM/gm2_2loop_B.cpp'
L1 = 'src/THDM/gm2_1loop.cpp'
L2 = 'src/THDM/gm2_2loop.cpp'

def uf_stub(name):
    def stub(it, args, this):
        return it.uf('fn_' + name, *args)
    return stub

LOOPFNS = ['F1C', 'F2C', 'F1N', 'F2N', 'f_S', 'f_PS', 'FSZ', 'FPZ', 'FCWl', 'FCWu', 'FCWd', 'f_CSl', 'dilog', 'Phi']

def loop_stubs():
    return {n: uf_stub(n) for n in LOOPFNS}

def sm_like_yukawa(m, v):
    """y_f^h in the SM limit (cos(beta-alpha)=0, sin(beta-alpha)=1): diag(m_f)/v"""
    return Mat(3, 3, [[Cx(m.get(i) / v if i == j else 0, 0) for j in range(3)] for i in range(3)], 'matrix', True)

def single(it, thunk):
    ps = it.run_paths(thunk)
    if len(ps) != 1 or ps[0][2] is not None:
        raise RuntimeError('expected one non-throwing path, got %d' % len(ps))
    return ps[0]

@obligation('C10.amu1L.sm_limit', fns=[(H1, 'amu1L'), (H1, 'AS'), (H1, 'AA'), (H1, 'AHp')])
def _(ctx):
    """lemma: with y_l^h = diag(m_l)/v (cos(beta-alpha)=0), v^2 = 4 MW^2 sw^2/(4 pi alpha), m_l(1) = m_mu and m_h = m_hSM = m,
    amu1L(pars) does not depend on m: the light-Higgs term cancels the subtracted SM-Higgs term identically (F1C, F2C, F1N as
    uninterpreted functions).  Also: amu1L carries the overall factor m_mu^2/(8 pi^2)."""
    it = Interp(ctx.w, mode='sym', stubs=loop_stubs())
    p = it.new_object('THDM_1L_parameters', symbolic_fields(None, prefix='p.'))
    pre = [p.f['mw'] > 0, p.f['mz'] > p.f['mw'], p.f['alpha_em'] > 0, p.f['mm'] > 0, p.f['mA'] > 0, p.f['mHp'] > 0]
    pre += [p.f['ml'].get(i) > 0 for i in range(3)] + [p.f['mh'].get(1) > 0]
    it.assumptions = pre
    p.f['ml'].set(1, None, p.f['mm'])
    # v as amu1L computes it locally
    pi = z3.Real('c_PI')
    sw2 = 1 - p.f['mw'] * p.f['mw'] / (p.f['mz'] * p.f['mz'])
    g2 = it.uf('sqrt', z3.simplify(4 * pi * p.f['alpha_em'] / sw2))
    v = 2 * p.f['mw'] / g2
    p.f['ylh'] = sm_like_yukawa(p.f['ml'], v)
    res = []
    for m in ctx.reals('m_common m_common2'):
        q = deep_copy(p)
        q.f['mhSM'] = m
        q.f['mh'].set(0, None, m)
        sym, r, _ = single(it, lambda: it.call('amu1L', [q], file=H1))
        res.append((sym, r))
    ctx.merge_rules(it)
    m1, m2 = ctx.vars['m_common'], ctx.vars['m_common2']
    ax = pre + [m1 > 0, m2 > 0] + res[0][0].axioms + res[1][0].axioms + [g2 > 0, g2 * g2 == 4 * pi * p.f['alpha_em'] / sw2]
    ctx.prove('independent_of_common_mass', ax, z3real(res[0][1]) == z3real(res[1][1]), tactics=('nlsat', 'default'))

@obligation('C10.amu2L_F_neutral.sm_limit', fns=[(F2, 'amu2L_F_neutral'), (F2, 'fuS'), (F2, 'fdS'), (F2, 'flS'), (F2, 'ffS'), (F2, 'fSgamma'), (F2, 'fSZ'), (F2, 'calc_v2')])
def _(ctx):
    """lemma: with y_f^h = diag(m_f)/v for f = u, d, l (cos(beta-alpha)=0), alpha_em such that calc_v2 = v^2, and m_h = m_hSM = m,
    amu2L_F_neutral(pars) does not depend on m: the h Barr-Zee terms cancel the subtracted h_SM terms (f_S, f_PS, FSZ, FPZ
    uninterpreted).  A rational-function identity: discharged by ring normalisation; wrong inputs are refuted numerically."""
    it = Interp(ctx.w, mode='sym', stubs=loop_stubs(), div_sides=False)
    p = it.new_object('THDM_F_parameters', symbolic_fields(None, prefix='p.'))
    pi = z3.Real('c_PI')
    v = z3.Real('v')
    mw, mz = p.f['mw'], p.f['mz']
    sw2 = 1 - mw * mw / (mz * mz)
    p.f['alpha_em'] = mw * mw * sw2 / (pi * v * v)          # <=> v^2 = 4 mw^2 sw2/(4 pi alpha) = calc_v2(pars)
    for nm, y in (('ml', 'ylh'), ('mu', 'yuh'), ('md', 'ydh')):
        p.f[y] = sm_like_yukawa(p.f[nm], v)
    res = []
    for m in ctx.reals('m_common m_common2'):
        q = deep_copy(p)
        q.f['mhSM'] = m
        q.f['mh'].set(0, None, m)
        sym, r, _ = single(it, lambda: it.call('amu2L_F_neutral', [q], file=F2))
        res.append((sym, r))
    ctx.merge_rules(it)
    ctx.prove_ring('independent_of_common_mass', [(res[0][1], res[1][1])])
    # vacuity guard: the same comparison with a NON-SM-like lepton Yukawa must not be an identity
    q = deep_copy(p)
    q.f['ylh'] = sm_like_yukawa(p.f['ml'], 2 * v)
    rs = []
    for m in (z3.Real('m_common'), z3.Real('m_common2')):
        q2 = deep_copy(q)
        q2.f['mhSM'] = m
        q2.f['mh'].set(0, None, m)
        rs.append(single(it, lambda: it.call('amu2L_F_neutral', [q2], file=F2))[1])
    from gm2v import ring
    notid = not ring.identity(z3real(rs[0]), z3real(rs[1]))
    ctx.record('selftest.non_sm_like_is_not_identity', PROVED if notid else ERROR, 'B', 0, 'ring normalisation distinguishes a wrong Yukawa: %s' % notid)

FILLERS = {
    'calculate_amu_1loop': (L1, 'amu1L', dict(alpha_em='get_alpha_em()', mm='get_MFe(1)', mw='get_MVWm()', mz='get_MVZ()', mhSM='get_sm().get_mh()',
                                              mA='get_MAh(1)', mHp='get_MHm(1)', ml='get_MFe()', mv='get_MFv()', mh='get_Mhh()',
                                              ylh='get_ylh()', ylH='get_ylH()', ylA='get_ylA()', ylHp='get_ylHp()')),
    'calculate_amu_2loop_fermionic': (L2, 'amu2L_F', dict(alpha_em='get_alpha_em()', mm='get_MFe(1)', mw='get_MVWm()', mz='get_MVZ()', mhSM='get_sm().get_mh()',
                                                          mA='get_MAh(1)', mHp='get_MHm(1)', mh='get_Mhh()', ml='get_MFe()', mu='get_MFu()', md='get_MFd()',
                                                          yuh='get_yuh()', yuH='get_yuH()', yuA='get_yuA()', yuHp='get_yuHp()', ydh='get_ydh()', ydH='get_ydH()',
                                                          ydA='get_ydA()', ydHp='get_ydHp()', ylh='get_ylh()', ylH='get_ylH()', ylA='get_ylA()', ylHp='get_ylHp()',
                                                          vckm='get_sm().get_ckm()')),
    'calculate_amu_2loop_bosonic': (L2, 'amu2L_B', dict(alpha_em='get_alpha_em()', mm='get_MFe(1)', mw='get_MVWm()', mz='get_MVZ()', mhSM='get_sm().get_mh()',
                                                        mA='get_MAh(1)', mHp='get_MHm(1)', mh='get_Mhh()', tb='get_tan_beta()', zetal='get_zeta_l()',
                                                        cos_beta_minus_alpha='get_cos_beta_minus_alpha()', lambda5='get_LambdaFive()', lambda67='get_LambdaSixSeven()')),
}

FILLER_REPLAY = r'''
#include "gm2calc/THDM.hpp"
#include "gm2calc/SM.hpp"
#include "gm2calc/gm2_1loop.hpp"
#include "gm2calc/gm2_2loop.hpp"
#include "gm2calc/gm2_error.hpp"
#include "THDM/gm2_1loop_helpers.hpp"
#include "THDM/gm2_2loop_helpers.hpp"
#include <cstdio>
#include <cmath>
// the REAL public function against the kernel called with a parameter struct filled by the DOCUMENTED table (field = model getter), on mass-basis models including the
// SM-like configuration m_h == m_hSM
int main() {
   int bad = 0;
   const double mhs[] = {125.0, 125.09, 95.0};
   for (double mh : mhs) for (int type = 1; type <= 4; type++) for (double tb : {0.5, 3.0, 40.0}) {
      gm2calc::thdm::Mass_basis b; b.yukawa_type = gm2calc::thdm::int_to_cpp_yukawa_type(type);
      b.mh = mh; b.mH = 400; b.mA = 420; b.mHp = 440; b.sin_beta_minus_alpha = 0.999; b.lambda_6 = 0.1; b.lambda_7 = -0.2; b.tan_beta = tb; b.m122 = 40000;
      gm2calc::SM sm; sm.set_mh(125.09);
      gm2calc::thdm::Config cfg; cfg.running_couplings = false;
      try {
         const gm2calc::THDM model(b, sm, cfg);
         gm2calc::thdm::@STRUCT@ pars;
@FILL@
         const double want = gm2calc::thdm::@KERNEL@(pars);
         const double got = gm2calc::@FN@(model);
         if (!(got == want || std::fabs(got - want) <= 1e-13 * std::fabs(want))) {
            bad++; std::printf("mh=%g type %d tan(beta)=%g: @FN@(model) = %.12e, @KERNEL@(documented parameters) = %.12e\n", mh, type, tb, got, want);
         }
      } catch (const gm2calc::Error&) {}
   }
   std::printf("%d differences between @FN@ and the kernel on the documented parameters\n", bad);
   return bad ? 1 : 0;
}
'''

def make_filler_replay(fn):
    def rep(model, wd):
        from gm2v import native
        import subprocess
        file, callee, table = FILLERS[fn]
        struct = {'amu1L': 'THDM_1L_parameters', 'amu2L_F': 'THDM_F_parameters', 'amu2L_B': 'THDM_B_parameters'}[callee]
        fill = ''.join('         pars.%s = model.%s;\n' % (fld, expr) for fld, expr in sorted(table.items()))
        src = FILLER_REPLAY.replace('@STRUCT@', struct).replace('@FILL@', fill).replace('@KERNEL@', callee).replace('@FN@', fn)
        exe = native.build_against_library(wd, src, name='filler_' + fn)
        r = subprocess.run([exe], capture_output=True, text=True, timeout=300)
        return r.returncode == 1, r.stdout.strip()[-1500:]
    return rep

def make_filler(fn):
    file, callee, table = FILLERS[fn]
    @obligation('C10.filler.%s' % fn, fns=[(file, fn)], replay=make_filler_replay(fn))
    def ob(ctx, fn=fn, file=file, callee=callee, table=table):
        """filler contract: every field of the parameter struct handed to the a_mu kernel equals the documented model getter
        (struct documentation in gm2_*loop_helpers.hpp), the kernel is called exactly once and its result is returned unchanged"""
        got = []
        ret = z3.Real('kernel_result')
        def kernel(it_, args, this):
            got.append(args[0])
            return ret
        stubs = {callee: kernel}
        # every model getter is a distinct uninterpreted value
        def getter(name):
            def g(it_, args, this):
                key = name + '(' + ','.join(str(a) for a in args) + ')'
                if VALUES.get(key) is None:
                    base = VALUES.get(name + '()')
                    if args and isinstance(base, Mat) and len(args) == 1 and isinstance(args[0], int):
                        VALUES[key] = base.get(args[0])          # get_X(i) is the i-th entry of get_X()
                    else:
                        VALUES[key] = fresh(key)
                return VALUES[key]
            return g
        VALUES = {}
        def fresh(key):
            if key.startswith(('get_y', 'get_sm().get_ckm')):
                return Mat(3, 3, [[Cx(z3.Real('%s[%d,%d].re' % (key, i, j)), z3.Real('%s[%d,%d].im' % (key, i, j))) for j in range(3)] for i in range(3)], 'matrix', True)
            if key in ('get_MFe()', 'get_MFv()', 'get_MFu()', 'get_MFd()'):
                return Mat(3, 1, [[z3.Real('%s[%d]' % (key, i))] for i in range(3)], 'array', False)
            if key == 'get_Mhh()':
                return Mat(2, 1, [[z3.Real('%s[%d]' % (key, i))] for i in range(2)], 'array', False)
            return z3.Real(key)
        names = set()
        for expr in table.values():
            for part in expr.split('.'):
                names.add(part.split('(')[0])
        it = Interp(ctx.w, mode='sym', stubs=stubs)
        for nm in names:
            if nm == 'get_sm':
                continue
            it.stubs['::' + nm] = getter(nm)
        # get_sm() returns an object whose getters are prefixed
        smobj = Obj('SM', {})
        it.stubs['::get_sm'] = lambda it_, a, t: smobj
        it.stubs['SM::get_mh'] = lambda it_, a, t: VALUES.setdefault('get_sm().get_mh()', z3.Real('get_sm().get_mh()'))
        it.stubs['SM::get_ckm'] = lambda it_, a, t: VALUES.setdefault('get_sm().get_ckm()', fresh('get_sm().get_ckm()'))
        model = Obj('THDM', {})
        ps = it.run_paths(lambda: it.call(fn, [model], file=file))
        ctx.merge_rules(it)
        # the filler is straight-line code: a branch on model data means that what the kernel receives depends on the point (every path must still satisfy the contract)
        ok_paths = [p for p in ps if p[2] is None]
        ctx.record('kernel_called_once', PROVED if len(got) == len(ok_paths) and ok_paths else FAILED, 'B', 0, '%d calls of %s on %d path(s)' % (len(got), callee, len(ps)))
        ctx.record('returns_kernel_result', PROVED if ok_paths and all(is_sym(p[1]) and p[1].eq(ret) for p in ok_paths) else FAILED, 'B', 0, 'returned %s' % ([str(p[1]) for p in ps],))
        if not got:
            return
        for pk, pars in enumerate(got):
            _check_fields(ctx, pars, table, VALUES, '' if len(got) == 1 else 'path%d.' % pk)
    return ob

def _check_fields(ctx, pars, table, VALUES, pfx):
    if True:
        from contracts.c09 import eq_values
        for fld, expr in sorted(table.items()):
            key = expr if '(' in expr and not expr.endswith('()') else expr
            k2 = expr.replace('get_sm().get_mh()', 'get_sm().get_mh()')
            want = VALUES.get(k2)
            if want is None:
                want = VALUES.get(expr.replace('()', '()'))
            if want is None:
                ctx.record(pfx + 'field.' + fld, FAILED, 'B', 0, 'getter %s was never called' % expr)
                continue
            try:
                ok = z3.is_true(z3.simplify(eq_values(pars.f[fld], want)))
            except Exception as e:
                ok = False
            ctx.record(pfx + 'field.' + fld, PROVED if ok else FAILED, 'B', 0, '%s == model.%s' % (fld, expr))
        extra = set(pars.f) - set(table)
        ctx.record(pfx + 'no_unset_field', PROVED if not extra else FAILED, 'B', 0, 'fields not covered by the table: %s' % sorted(extra))

for _fn in FILLERS:
    make_filler(_fn)

def b_stubs():
    s = loop_stubs()
    for n in ('fb', 'Fm0', 'Fmp', 'YF1', 'YF2', 'YF3', 'T9', 'T10'):
        s[n] = uf_stub(n)
    return s

EWADD_REPLAY = r'''
#include "@REPO@/src/THDM/gm2_2loop_B.cpp"
#include <cstdio>
#include <cstdlib>
#include <cmath>
int main(int argc, char** argv) {
   gm2calc::thdm::THDM_B_parameters p;
   p.mw = std::atof(argv[1]); p.mz = std::atof(argv[2]); p.alpha_em = std::atof(argv[3]); p.mm = std::atof(argv[4]);
   p.mh << std::atof(argv[5]), 400.0; p.mA = 420; p.mHp = 440; p.mhSM = 125.09; p.tb = 3; p.lambda5 = 0.5; p.lambda67 = 0.2;
   const double cba = std::atof(argv[6]), zl = std::atof(argv[7]);
   auto f = [&](double c, double z) { p.cos_beta_minus_alpha = c; p.zetal = z; return gm2calc::thdm::amu2L_B_EWadd(p); };
   const double f00 = f(0, zl), f0 = f(cba, 0), fcz = f(cba, zl), f11 = f(1, 1);
   const bool bad = f00 != 0 || f0 != 0 || std::fabs(fcz - f11 * cba * zl) > 1e-9 * std::fabs(fcz);
   std::printf("mw=%s mz=%s alpha=%s mm=%s mh=%s: EWadd(cba=0,zl=%s) = %.10g, EWadd(cba=%s,zl=0) = %.10g, EWadd(cba,zl) = %.10g vs EWadd(1,1)*cba*zl = %.10g\n",
               argv[1], argv[2], argv[3], argv[4], argv[5], argv[7], f00, argv[6], f0, fcz, f11 * cba * zl);
   return bad ? 1 : 0;
}
'''

def replay_ewadd(model, wd):
    from gm2v import native
    import subprocess
    f = model.get('_float', {}) if model else {}
    g = lambda k, d: repr(float(f.get(k, d)))
    exe = native.build_program(wd, EWADD_REPLAY, ['src/gm2_ffunctions.cpp', 'src/gm2_dilog.cpp', 'src/gm2_numerics.cpp'])
    r = subprocess.run([exe, g('p.mw', 80.379), g('p.mz', 91.1876), g('p.alpha_em', 1 / 137.0), g('p.mm', 0.1056), g('p.mh(0)', 125.0), g('cba', 0.1), g('zl', -3.0)],
                       capture_output=True, text=True, timeout=120)
    return r.returncode == 1, r.stdout.strip()[-1500:]

@obligation('C10.amu2L_B_EWadd.sm_limit', fns=[(B2, 'amu2L_B_EWadd')], replay=replay_ewadd)
def _(ctx):
    """ensures: amu2L_B_EWadd(pars) == K(pars) * cos(beta-alpha) * zeta_l with K independent of both (hence 0 for cos(beta-alpha) = 0)"""
    it = Interp(ctx.w, mode='sym', stubs=b_stubs(), div_sides=False)
    p = it.new_object('THDM_B_parameters', symbolic_fields(None, prefix='p.'))
    pre = [p.f['mw'] > 0, p.f['mz'] > p.f['mw'], p.f['alpha_em'] > 0, p.f['mm'] > 0, p.f['mh'].get(0) > 0]
    it.assumptions = pre
    outs = []
    for k, (cba, zl) in enumerate([(0, z3.Real('zl')), (z3.Real('cba'), 0), (z3.Real('cba'), z3.Real('zl')), (1, 1)]):
        q = deep_copy(p)
        q.f['cos_beta_minus_alpha'] = cba
        q.f['zetal'] = zl
        ps = it.run_paths(lambda: it.call('amu2L_B_EWadd', [q], file=B2))
        outs.append(ps)
    ctx.merge_rules(it)
    # candidate points for refuting a goal the solver leaves unknown (standard interpretation of the loop functions, numeric evaluation)
    pins = [{z3.Real(k_): v_ for k_, v_ in d_.items()} for d_ in [{'p.mw': Fr(80379, 1000), 'p.mz': Fr(911876, 10000), 'p.alpha_em': Fr(1, 137), 'p.mm': Fr(1056, 10000), 'p.mh(0)': Fr(mh), 'zl': Fr(-3), 'cba': Fr(1, 10),
             'p.mh(1)': Fr(400), 'p.mA': Fr(420), 'p.mHp': Fr(440), 'p.mhSM': Fr(12509, 100), 'p.tb': Fr(3), 'p.lambda5': Fr(1, 2), 'p.lambda67': Fr(1, 5)} for mh in (125, 95, 200)]]
    for (sym, r, _) in outs[0]:
        ctx.prove('zero_at_cba0.path', pre + sym.pc + sym.axioms, z3real(r) == 0, check_vacuity=False, pins=pins)
    for (sym, r, _) in outs[1]:
        ctx.prove('zero_at_zetal0.path', pre + sym.pc + sym.axioms, z3real(r) == 0, check_vacuity=False, pins=pins)
    # proportionality: f(cba, zl) == f(1,1) * cba * zl on matching paths
    for (s2, r2, _) in outs[2]:
        for (s3, r3, _) in outs[3]:
            if str(s2.pc) == str(s3.pc):
                ctx.prove('proportional', pre + s2.pc + s2.axioms + s3.axioms, z3real(r2) == z3real(r3) * z3.Real('cba') * z3.Real('zl'), check_vacuity=False, tactics=('nlsat', 'default'), pins=pins)

@obligation('C10.amu2L_B_Yuk.sm_limit', fns=[(B2, 'amu2L_B_Yuk')])
def _(ctx):
    """ensures: for cos(beta-alpha) = 0 the result does not depend on the bracket (a001, a0z1, a501, a5z1); and for m_H = m_hSM the
    difference coefficients a001, a501, a5z1 vanish (they are S(x_H) - S(x_hSM) of the same function): the result at cos(beta-alpha)=c then
    equals result(0) + pref * (-YF3-free part) ...  -- stated as: result(c) - result(0) == pref * YF2(xH, cw2) * zeta_l * c"""
    it = Interp(ctx.w, mode='sym', stubs=b_stubs(), div_sides=False)
    p = it.new_object('THDM_B_parameters', symbolic_fields(None, prefix='p.'))
    pre = [p.f['mw'] > 0, p.f['mz'] > p.f['mw'], p.f['alpha_em'] > 0, p.f['mm'] > 0, p.f['tb'] > 0]
    it.assumptions = pre
    def run(cba, same_mass):
        q = deep_copy(p)
        q.f['cos_beta_minus_alpha'] = cba
        if same_mass:
            q.f['mh'].set(1, None, q.f['mhSM'])
        return single(it, lambda: it.call('amu2L_B_Yuk', [q], file=B2))
    c = z3.Real('cba')
    (s0, r0, _), (s1, r1, _) = run(0, True), run(c, True)
    ctx.merge_rules(it)
    pi = z3.Real('c_PI')
    mw2, mz2 = p.f['mw'] * p.f['mw'], p.f['mz'] * p.f['mz']
    cw2 = mw2 / mz2
    xH = p.f['mhSM'] * p.f['mhSM'] / mz2
    pref = (p.f['alpha_em'] / (24 * pi * cw2 * (1 - cw2)) * p.f['mm'] / p.f['mz']) ** 2
    yf2 = it.uf('fn_YF2', z3.simplify(xH), z3.simplify(cw2))
    ctx.prove('difference_structure', pre + s0.axioms + s1.axioms, z3real(r1) - z3real(r0) == pref * yf2 * p.f['zetal'] * c, tactics=('nlsat', 'default'))

# ------------------------------------------------------------------------------------------------
# The decoupling clause (heavy Higgs bosons at fixed quartic couplings become degenerate, their mass ratios enter the near-equal
# branches) rests on those branches being the Taylor polynomials of the generic expressions: C11's series obligation for dxlog
# (bosonic non-Yukawa part, TX) is re-registered here as a callee contract of C10.
from gm2v.ob import REGISTRY as _REG, Obligation as _Ob
from contracts import c11 as _c11
for _o in _REG.get('C11', []):
    if _o.oid == 'C11.series.dxlog':
        _REG.setdefault('C10', []).append(_Ob('C10.callee.dxlog_series', _o.func, _o.fns, _o.tier, _o.backend, _o.doc, _o.replay, 'C10'))

# Likewise the one-variable Barr-Zee functions of the fermionic two-loop and one-loop parts (they decouple because their definitions do): C01's
# definition contracts are re-registered as callee contracts of C10.
from contracts import c01 as _c01
for _f in ('f_PS', 'f_S', 'f_CSl', 'F1', 'F1t', 'F2', 'F3'):
    for _o in _REG.get('C01', []):
        if _o.oid == 'C01.%s.def' % _f:
            _REG.setdefault('C10', []).append(_Ob('C10.callee.%s.def' % _f, _o.func, _o.fns, _o.tier, _o.backend, _o.doc, _o.replay, 'C10'))


def fidelity(tier, seed):
    """A-FRONT guard: the scalar functions of the files under contract, interpreter (float mode) vs compiled real code, bit for bit"""
    from gm2v import fidelity as _fid
    return _fid.scalar_guard(['src/THDM/gm2_2loop_B.cpp'], ['src/gm2_ffunctions.cpp', 'src/gm2_dilog.cpp', 'src/gm2_numerics.cpp'], n_calls=25 if tier == 'quick' else 200, seed=seed, ns_prefix='thdm::', approx=('T7', 'T8'))

# Contracts on single calls carry over to every call in a process only if no function keeps state between calls: C19's static-frame obligation is a lemma here.
from contracts.shared import reregister as _rr_static
from contracts import c19 as _c19_static
_rr_static('C10', 'C19', 'C19.no_stateful_local_statics', 'C10.lemma.no_state_between_calls', replay=None)

# the SM-limit argument takes the light-Higgs couplings y_f^h = M_f s/v + rho_f c/sqrt2 with ONE sign s for quarks and leptons from C09's getter contract
from contracts import c09 as _c09_y
_rr_static('C10', 'C09', 'C09.yukawa_getters.published_form', 'C10.lemma.yukawa_getters.published_form')
from contracts import c10_ref  # noqa: reference-formula contracts (math/THDMTwoLoopB.m)
