"""C16 -- unphysical input is rejected or flagged, never silently computed.

Exception/diagnostic effects as ghost state: `throw E(msg)` ends a path with exception class E, WARNING(msg) appends to the diagnostic trace.
Contracts on MSSMNoFV_onshell::check_input / check_problems, THDM::set_basis (both bases), thdm::int_to_cpp_yukawa_type,
MSSMNoFV_setup::run, THDM_setup::run and main()'s error mapping.  The tachyon flags themselves are C04.tachyon.*.
"""
import z3
from fractions import Fraction as Fr
from gm2v.ob import obligation, PROVED, FAILED, UNDECIDED, ERROR
from gm2v.interp import Interp, Thrown, Opaque
from gm2v.values import Cx, Mat, Obj, to_z3, z3real, is_sym, deep_copy
from gm2v.symobj import symbolic_fields
from gm2v.specs import absz

MO = 'src/MSSMNoFV/MSSMNoFV_onshell.cpp'
TH = 'src/THDM/THDM.cpp'
EPS = z3.Q(1, 2**52)   # std::numeric_limits<double>::epsilon()
EPS_FILE = EPS              # file-scope eps of MSSMNoFV_onshell.cpp = epsilon()

def defect_paths(ctx, tag, paths, defects, force, exc_class, pre=()):
    """defects: list of (message fragment, z3 condition).  force: z3 Bool or python bool (force-output flag)."""
    for k, (sym, r, exc) in enumerate(paths):
        pc = list(pre) + sym.pc + sym.axioms
        warned = [e[1] for e in sym.effects if e[0] == 'WARNING']
        name = '%s.path%d' % (tag, k)
        if exc is not None:
            ok_cls = exc.cls == exc_class
            ctx.record(name + '.exception_class', PROVED if ok_cls else FAILED, 'B', 0, 'throws %s (documented: %s)' % (exc.cls, exc_class))
            hit = [c for m, c in defects if m in str(exc.msg)]
            if not hit:
                ctx.record(name + '.documented_defect', FAILED, 'B', 0, 'exception message %r matches no documented defect' % (exc.msg,))
            else:
                ctx.prove(name + '.throws_only_for_defect_without_force', pc, z3.And(hit[0], z3.Not(to_z3(force))), check_vacuity=False)
        else:
            for m, c in defects:
                w = any(m in x for x in warned)
                if w:
                    ctx.prove('%s.warned[%s]' % (name, m[:18]), pc, z3.And(c, to_z3(force)), check_vacuity=False)
                else:
                    ctx.prove('%s.absent[%s]' % (name, m[:18]), pc, z3.Not(c), check_vacuity=False)

@obligation('C16.mssm.check_input', fns=[(MO, 'MSSMNoFV_onshell::check_input'), (MO, 'MSSMNoFV_onshell::get_TB')])
def _(ctx):
    """for ALL inputs: each documented defect (MW >= MZ; MW, MZ, m_mu, mu, M1, M2 or tan(beta) zero; vd = 0) makes check_input() throw
    EInvalidInput when force-output is off and emit exactly the matching WARNING (no throw) when it is on; without a defect nothing is
    thrown or warned   [infinite tan(beta) is an IEEE notion: outside back end B]"""
    for force in (False, True):
        it = Interp(ctx.w, mode='sym', feasibility=True)
        m = it.new_object('MSSMNoFV_onshell', symbolic_fields(None, prefix='m.'))
        m.f['force_output'] = force
        ph = m.f['physical'].f
        v = {'MW': ph['MVWm'], 'MZ': ph['MVZ'], 'MM': ph['MFm'], 'Mu': m.f['Mu'], 'MassB': m.f['MassB'], 'MassWB': m.f['MassWB'], 'vd': m.f['vd'], 'vu': m.f['vu']}
        paths = it.run_paths(lambda: it.call_method(m, 'check_input', []), max_paths=4000)
        ctx.merge_rules(it)
        tb = v['vu'] / v['vd']
        z = lambda x: absz(x) < EPS_FILE
        defects = [('MW >= MZ', v['MW'] >= v['MZ']), ('W mass is zero', z(v['MW'])), ('Z mass is zero', z(v['MZ'])), ('Muon mass is zero', z(v['MM'])),
                   ('mu parameter is zero', z(v['Mu'])), ('Bino mass M1 is zero', z(v['MassB'])), ('Wino mass M2 is zero', z(v['MassWB'])),
                   ('tan(beta) is zero', z(tb)), ('tan(beta) is infinite', z3.BoolVal(False))]
        tag = 'force_%s' % force
        for k, (sym, r, exc) in enumerate(paths):
            if exc is not None and 'vd = 0' in str(exc.msg):
                ctx.record('%s.path%d.vd_zero' % (tag, k), PROVED if exc.cls == 'EInvalidInput' else FAILED, 'B', 0, 'vd = 0: %s' % exc.cls)
                ctx.prove('%s.path%d.vd_zero.cond' % (tag, k), sym.pc, z(v['vd']), check_vacuity=False)
        rest = [p for p in paths if not (p[2] is not None and 'vd = 0' in str(p[2].msg))]
        defect_paths(ctx, tag, rest, defects, force, 'EInvalidInput', pre=[z3.Not(z(v['vd']))])
        want = 10 if not force else 2 ** 8
        ctx.record(tag + '.path_count', PROVED if len(paths) >= want else ERROR, 'B', 0, '%d paths explored (expected >= %d)' % (len(paths), want))

@obligation('C16.mssm.check_problems', fns=[(MO, 'MSSMNoFV_onshell::check_problems')])
def _(ctx):
    """a flagged problem (tachyon) => EPhysicalProblem unless force-output; a negative diagonal soft mass squared or a massless lightest
    chargino => EInvalidInput unless force-output; otherwise no exception (all four combinations of problem x force-output explored)"""
    for prob in (False, True):
        for force in (False, True):
            it = Interp(ctx.w, mode='sym')
            m = it.new_object('MSSMNoFV_onshell', symbolic_fields(None, prefix='m.'))
            m.f['force_output'] = force
            if prob:
                m.f['problems'].f['tachyons'] = ['St']
            it.stubs['MSSMNoFV_onshell_problems::get_problems'] = lambda i, a, t: 'tachyon text'
            soft = {n: m.f[n] for n in ('mu2', 'md2', 'mq2', 'me2', 'ml2')}
            mcha = m.f['MCha'].get(0)
            paths = it.run_paths(lambda: it.call_method(m, 'check_problems', []), max_paths=20000)
            ctx.merge_rules(it)
            neg = z3.Or(*[soft[n].get(i, i) < 0 for n in soft for i in range(3)])
            zero_cha = absz(mcha) < EPS_FILE
            tag = 'problem_%s.force_%s' % (prob, force)
            for k, (sym, r, exc) in enumerate(paths):
                pc = sym.pc
                if exc is not None:
                    if exc.cls == 'EPhysicalProblem':
                        ctx.record('%s.path%d.physical' % (tag, k), PROVED if (prob and not force) else FAILED, 'B', 0, 'EPhysicalProblem with problem=%s force=%s' % (prob, force))
                    elif exc.cls == 'EInvalidInput' and 'soft mass' in exc.msg:
                        ctx.prove('%s.path%d.soft' % (tag, k), pc, z3.And(neg, z3.BoolVal(not force)), check_vacuity=False)
                    elif exc.cls == 'EInvalidInput' and 'chargino' in exc.msg:
                        ctx.prove('%s.path%d.chargino' % (tag, k), pc, z3.And(zero_cha, z3.BoolVal(not force)), check_vacuity=False)
                    else:
                        ctx.record('%s.path%d.class' % (tag, k), FAILED, 'B', 0, 'undocumented exception %s: %s' % (exc.cls, exc.msg))
                else:
                    ctx.prove('%s.path%d.accepted' % (tag, k), pc, z3.Or(z3.BoolVal(force), z3.And(z3.BoolVal(not prob), z3.Not(neg), z3.Not(zero_cha))), check_vacuity=False)
            ctx.record(tag + '.path_count', PROVED if len(paths) >= 1 else ERROR, 'B', 0, '%d paths' % len(paths))

def thdm_set_basis(ctx, cls, force):
    it = Interp(ctx.w, mode='sym', feasibility=False)
    noop = lambda i, a, t: None
    prob = z3.Bool('have_problem')
    P = Obj('THDM_problems', {})
    it.stubs.update({'THDM_mass_eigenstates::calculate_MSbar_masses': noop, 'THDM::validate': noop, 'THDM::init_yukawas': noop, 'THDM_mass_eigenstates::solve_ewsb': lambda i, a, t: 0,
                     '::get_problems': lambda i, a, t: (P if isinstance(t, Obj) and t.cls == 'THDM' else 'tachyon text'), '::have_problem': lambda i, a, t: prob})
    th = it.new_object('THDM', symbolic_fields(None, prefix='th.'))
    th.f['config'].f['force_output'] = force
    b = it.new_object(cls, symbolic_fields(ctx, prefix=''))
    b.f['yukawa_type'] = 2
    it.div_sides = False
    paths = it.run_paths(lambda: it.call_method(th, 'set_basis', [b]), max_paths=3000)
    ctx.merge_rules(it)
    return paths, b, force, prob

def thdm_basis_ob(ctx, cls, mk_defects, min_paths):
    for force in (False, True):
        paths, b, force, prob = thdm_set_basis(ctx, cls, force)
        defects = mk_defects(b.f)
        tag = 'force_%s' % force
        phys = [p for p in paths if p[2] is not None and p[2].cls == 'EPhysicalProblem']
        for k, (sym, r, exc) in enumerate(phys):
            ctx.prove('%s.physical%d' % (tag, k), sym.pc, z3.And(prob, z3.BoolVal(not force)), check_vacuity=False)
        rest = [p for p in paths if not (p[2] is not None and p[2].cls == 'EPhysicalProblem')]
        defect_paths(ctx, tag, rest, defects, force, 'EInvalidInput')
        # accepted without force: no problem flagged
        for k, (sym, r, exc) in enumerate(rest):
            if exc is None and not force:
                ctx.prove('%s.accepted%d.no_problem' % (tag, k), sym.pc, z3.Not(prob), check_vacuity=False)
        ctx.record(tag + '.path_count', PROVED if len(paths) >= min_paths[force] else ERROR, 'B', 0, '%d paths' % len(paths))

@obligation('C16.thdm.set_basis_mass', fns=[(TH, 'THDM::set_basis')])
def _(ctx):
    """mass basis, for ALL inputs: mh > mH, tan(beta) <= 0, |sin(beta-alpha)| > 1 and negative mh, mH, mA, mH+ each throw EInvalidInput
    when force-output is off and emit the matching WARNING when it is on; a flagged tachyon => EPhysicalProblem unless force-output;
    input without defect is accepted silently"""
    thdm_basis_ob(ctx, 'Mass_basis', lambda f: [
        ('mh must be less than or equal to mH', f['mh'] > f['mH']), ('tan(beta) must be greater than zero', f['tan_beta'] <= 0),
        ('|sin(beta - alpha_h)| must be less', absz(f['sin_beta_minus_alpha']) > 1), ('mh must be greater than or equal to zero', f['mh'] < 0),
        ('mH must be greater than or equal to zero', f['mH'] < 0), ('mA must be greater than or equal to zero', f['mA'] < 0),
        ('mHp must be greater than or equal to zero', f['mHp'] < 0)], {False: 9, True: 128})

@obligation('C16.thdm.set_basis_gauge', fns=[(TH, 'THDM::set_basis')])
def _(ctx):
    """gauge basis: tan(beta) <= 0 throws EInvalidInput unless force-output (then WARNING); tachyon => EPhysicalProblem unless force-output"""
    thdm_basis_ob(ctx, 'Gauge_basis', lambda f: [('tan(beta) must be greater than zero', f['tan_beta'] <= 0)], {False: 3, True: 4})

@obligation('C16.thdm.yukawa_type', fns=[(TH, 'int_to_cpp_yukawa_type')])
def _(ctx):
    """int_to_cpp_yukawa_type(n): n in 1..6 -> the matching enumerator; every other int throws ESetupError (checked for -3..12 exhaustively
    and symbolically for the rest)"""
    E = ctx.w.enumerators
    names = {1: 'type_1', 2: 'type_2', 3: 'type_X', 4: 'type_Y', 5: 'aligned', 6: 'general'}
    it = Interp(ctx.w, mode='sym')
    for n in range(-3, 13):
        try:
            r = it.run_single(lambda: it.call('int_to_cpp_yukawa_type', [n], file=TH))
            ok = n in names and r == E['Yukawa_type::' + names[n]]
            det = 'returned %s' % r
        except Thrown as t:
            ok = n not in names and t.cls == 'ESetupError'
            det = 'throws %s' % t.cls
        ctx.record('n=%d' % n, PROVED if ok else FAILED, 'B', 0, det)
    x = z3.Int('n')
    ps = it.run_paths(lambda: it.call('int_to_cpp_yukawa_type', [x], file=TH))
    for k, (sym, r, exc) in enumerate(ps):
        if exc is not None:
            ctx.prove('symbolic.throw%d' % k, sym.pc, z3.Or(x < 1, x > 6), check_vacuity=False)
        else:
            ctx.prove('symbolic.ok%d' % k, sym.pc, z3.And(x >= 1, x <= 6, to_z3(r) == x) if is_sym(r) else z3.And(x >= 1, x <= 6, x == r), check_vacuity=False)

@obligation('C16.program.exit_status', fns=[('src/gm2calc.cpp', 'MSSMNoFV_setup::run'), ('src/gm2calc.cpp', 'THDM_setup::run'), ('src/gm2calc.cpp', 'print_error')])
def _(ctx):
    """MSSMNoFV_setup::run returns EXIT_FAILURE exactly when the model has a problem (also under force-output) and EXIT_SUCCESS otherwise,
    and calls the writer on both; THDM_setup::run returns EXIT_SUCCESS when the writer was reached; an exception from the reader
    propagates (main maps every gm2calc::Error to EXIT_FAILURE plus a diagnostic: print_error emits SPINFO[4] for the SLHA formats, ERROR otherwise)"""
    for prob in (False, True):
        for warn in (False, True):
            wrote = []
            it = Interp(ctx.w, mode='sym', stubs={'::have_problem': lambda i, a, t: prob, '::have_warning': lambda i, a, t: warn,
                                                  '::get_problems': lambda i, a, t: Obj('P', {}), '::do_force_output': lambda i, a, t: None,
                                                  '::set_verbose_output': lambda i, a, t: None})
            it.unknown_call = lambda s, args: NotImplemented
            s = Obj('MSSMNoFV_setup', {'options': it.new_object('Config_options'), 'reader': (lambda *a: None), 'writer': (lambda *a: wrote.append(1))})
            old = it.construct
            it.construct = lambda ty, args, braced, old=old: (Obj('MSSMNoFV_onshell', {}) if ty.name.endswith('MSSMNoFV_onshell') else old(ty, args, braced))
            oldz = it.zero_of_type
            it.zero_of_type = lambda ty, path=None, symbolic=None, oldz=oldz: (Obj('MSSMNoFV_onshell', {}) if ty.name.endswith('MSSMNoFV_onshell') else oldz(ty, path, symbolic))
            try:
                ps = it.run_paths(lambda: it.call_method(s, 'run', [Obj('GM2_slha_io', {})]))
                r = ps[0][1]
                ok = len(ps) == 1 and ps[0][2] is None and r == (1 if prob else 0) and wrote == [1]
                det = 'returned %s, writer calls %d' % (r, len(wrote))
            except Exception as e:
                ok, det = False, 'execution: %s' % e
            ctx.record('mssm.problem_%s.warning_%s' % (prob, warn), PROVED if ok else FAILED, 'B', 0, det)
    # print_error: diagnostic on every failure exit
    E = ctx.w.enumerators
    for fmt in ('Minimal', 'Detailed', 'NMSSMTools', 'SPheno', 'GM2Calc'):
        fills = []
        it = Interp(ctx.w, mode='sym', stubs={'::fill_block_entry': lambda i, a, t: fills.append(tuple(a)), '::write_to_stream': lambda i, a, t: fills.append(('WRITE',))})
        o = it.new_object('Config_options')
        o.f['output_format'] = E.get('Config_options::' + fmt, E.get(fmt))
        err = Obj('EInvalidInput', {'msg': 'the message'})
        ps = it.run_paths(lambda: it.call('print_error', [err, Obj('GM2_slha_io', {}), o], file='src/gm2calc.cpp'))
        sym = ps[0][0]
        errs = [e for e in sym.effects if e[0] == 'ERROR']
        if fmt in ('Minimal', 'Detailed'):
            ok = len(errs) == 1 and not fills
        else:
            ok = not errs and any(f[:2] == ('SPINFO', 4) and f[2] == 'the message' for f in fills if len(f) == 3) and fills[-1] == ('WRITE',)
        ctx.record('print_error.%s' % fmt, PROVED if ok else FAILED, 'B', 0, 'ERROR effects=%d, SPINFO fills=%s' % (len(errs), [f[:2] for f in fills]))

# "tachyonic states ... flagged": the tachyon-flag contracts of the monitored MSSM sectors (same obligations as C04.tachyon.*)
from contracts import c04 as _c04
for _nm in _c04.FLAGGING:
    _c04.make_tachyon(_nm, 'C16')


def fidelity(tier, seed):
    """A-FRONT guard: THDM a_mu functions and getters, interpreter (float mode) vs compiled real code on real models"""
    from gm2v import fidelity as _fid
    return _fid.thdm_model_guard(seed=seed)

# ------------------------------------------------------------------------------------------------ THDM input: which basis, or "undecidable basis"
def replay_basis(model, wd):
    """the REAL program on the shipped THDM example turned into a gauge-basis point, with each mass-basis quantity added in turn: every mixture must be refused (exit 1, no a_mu)"""
    from gm2v import native
    from gm2v.world import REPO
    import subprocess, os
    exe = native.build_gm2calc()
    base = ("Block GM2CalcConfig\n 0 0\n 3 %d\nBlock SMINPUTS\n 3 0.1184\n 4 91.1876\n 5 4.18\n 6 173.34\n 7 1.777\n 9 80.385\n 13 0.1056583715\n"
            "Block MINPAR\n 3 3\n 11 4.8\n 12 0.3\n 13 0.2\n 14 -0.1\n 15 0.1\n 16 0\n 17 0\n 18 40000\n 24 2\n%sBlock MASS\n%s")
    bad = []
    n = 0
    for force in (0, 1):
        for what, minpar, mass in (('sin(beta-alpha) in MINPAR 20', ' 20 0.999\n', ''), ('mh', '', ' 25 125\n'), ('mH', '', ' 35 400\n'), ('mA', '', ' 36 420\n'), ('mH+', '', ' 37 440\n')):
            r = subprocess.run([exe, '--thdm-input-file=-'], input=base % (force, minpar, mass), capture_output=True, text=True, timeout=60)
            n += 1
            if r.returncode == 0:
                bad.append('gauge-basis point plus %s (force-output %d): exit 0, output %s' % (what, force, r.stdout.strip()[:40]))
        r = subprocess.run([exe, '--thdm-input-file=-'], input=base % (force, '', ''), capture_output=True, text=True, timeout=60)
        if r.returncode != 0:
            bad.append('pure gauge-basis point refused: ' + r.stderr.strip()[:80])
    return bool(bad), '%d mixed inputs, %d out of contract: %s' % (n, len(bad), ' || '.join(bad[:3]))

@obligation('C16.thdm.reader.basis_selection', fns=[('src/gm2calc.cpp', 'THDM_reader::operator()')], replay=replay_basis)
def _(ctx):
    """ensures for ALL values read into the two basis structs (fill() by contract): with has_masses := (mh, mH, mA, mH+, sin(beta-alpha)) != 0 somewhere and
    has_lambdas := (lambda_1..5) != 0 somewhere, the program builds the model from the mass basis iff has_masses && !has_lambdas, from the gauge basis iff
    !has_masses && has_lambdas, and throws EInvalidInput ("undecidable basis") in every other case; force_output and running_couplings are handed on unchanged"""
    fds = [f for f in ctx.w.find('operator()', 'src/gm2calc.cpp') if f.cls == 'THDM_reader']
    if len(fds) != 1:
        ctx.record('extraction', ERROR, 'B', 0, '%d definitions of THDM_reader::operator()' % len(fds))
        return
    rec = []
    def fill(it, a, t):
        o = a[0]
        if isinstance(o, Obj) and o.cls in ('Mass_basis', 'Gauge_basis'):
            new = it.new_object(o.cls, symbolic_fields(None, prefix=o.cls + '.'))
            o.f.update(new.f)
        return None
    def ctor(it, a, t):
        rec.append((a[0].cls if isinstance(a[0], Obj) else str(a[0]), a[2] if len(a) > 2 else None))
        return None
    it = Interp(ctx.w, mode='sym', stubs={'GM2_slha_io::fill': fill, 'fill': fill, 'THDM::THDM': ctor})
    io = Obj('GM2_slha_io', {})
    fo, rc = z3.Bool('force_output'), z3.Bool('running_couplings')
    def thunk():
        del rec[:]
        opts = it.new_object('Config_options')
        opts.f['force_output'], opts.f['running_couplings'] = fo, rc
        it.invoke(fds[0], [io, opts], Obj('THDM_reader', {}))
        return list(rec)
    ps = it.run_paths(thunk, max_paths=4000)
    ctx.merge_rules(it)
    R = lambda n: z3.Real(n)
    has_m = z3.Or(*[R('Mass_basis.' + n) != 0 for n in ('mh', 'mH', 'mA', 'mHp', 'sin_beta_minus_alpha')])
    has_l = z3.Or(*[R('Gauge_basis.lambda(%d)' % i) != 0 for i in range(5)])
    spec = {'Mass_basis': z3.And(has_m, z3.Not(has_l)), 'Gauge_basis': z3.And(z3.Not(has_m), has_l)}
    spec['reject'] = z3.Not(z3.Or(spec['Mass_basis'], spec['Gauge_basis']))
    seen = set()
    for k, (s, r, e) in enumerate(ps):
        if e is not None:
            out = 'reject' if e.cls == 'EInvalidInput' else 'exception ' + e.cls
        elif r and len(r) == 1:
            out = r[0][0]
        else:
            out = 'constructs %s' % (r,)
        if out not in spec:
            ctx.record('path%d' % k, FAILED, 'B', 0, 'outcome %s is not one of: mass basis, gauge basis, EInvalidInput' % out)
            continue
        seen.add(out)
        ctx.prove('path%d.%s' % (k, out), list(s.pc) + list(s.axioms), spec[out], check_vacuity=False)
        if out != 'reject':
            cfg = r[0][1]
            ok = isinstance(cfg, Obj) and is_sym(cfg.f.get('force_output')) and z3.eq(cfg.f['force_output'], fo) and is_sym(cfg.f.get('running_couplings')) and z3.eq(cfg.f['running_couplings'], rc)
            ctx.record('path%d.%s.config' % (k, out), PROVED if ok else FAILED, 'B', 0, 'force_output and running_couplings handed to the constructor unchanged')
    ctx.record('outcomes', PROVED if seen == {'Mass_basis', 'Gauge_basis', 'reject'} else FAILED, 'B', 0, 'outcomes reached: %s' % sorted(seen))
_c04.make_flag_contract('C16')
_c04.make_flag_contract('C16', cls='THDM_problems', file='src/THDM/THDM_problems.cpp', sectors=['hh', 'Ah', 'Hm'], tag='thdm_flag_tachyon', replay=None)

# "tachyonic states ... flagged" for the THDM Higgs sectors: a tachyon is flagged on exactly the paths on which SOME eigenvalue of the sector is negative -- whichever index it has in
# the solver's order (ascending |w|: a light tachyon comes first) -- and the stored masses are sqrt(|w_i|)
def make_thdm_tachyon(nm, arr):
    from contracts.c08 import linalg_hermitian_stub, clamp_stub
    from gm2v.values import Mat as _Mat
    TME = 'src/THDM/THDM_mass_eigenstates.cpp'
    @obligation('C16.thdm.tachyon.%s' % nm, fns=[(TME, 'THDM_mass_eigenstates::calculate_M' + nm)])
    def ob(ctx, nm=nm, arr=arr):
        """for ANY symmetric 2x2 mass matrix (eigen-solver by A-LINALG: eigenvalues ordered by |w|): the sector is flagged on exactly the paths on which some eigenvalue is negative
        (flag name = sector name), and the stored masses are sqrt(|w_i|) >= 0 in the solver's order"""
        a, b, c = ctx.reals('m00 m01 m11')
        flagged = []
        it = Interp(ctx.w, mode='sym')
        M = _Mat(2, 2, [[a, b], [b, c]], 'matrix', False)
        it.stubs.update({'fs_diagonalize_hermitian': linalg_hermitian_stub, 'normalize_to_interval': clamp_stub,
                         'THDM_mass_eigenstates::get_mass_matrix_' + nm: lambda i, ar, t: M,
                         '::flag_tachyon': lambda i, ar, t: flagged.append(ar[0])})
        m = it.new_object('THDM')
        def run():
            del flagged[:]
            it.call('calculate_M' + nm, [], this=m)
            return (m.f[arr].copy(), list(flagged))
        paths = it.run_paths(run)
        ctx.merge_rules(it)
        ctx.assume_note('A-LINALG: fs_diagonalize_hermitian(m,w,z): z orthogonal, z m z^T = diag(w), |w0|<=|w1|')
        if len(paths) < 2:
            ctx.record('paths', ERROR, 'B', 0, 'expected a flagging and a non-flagging path, got %d' % len(paths))
        az = lambda t: z3.If(t >= 0, t, -t)
        for k, (sym, (Ms, fl), exc) in enumerate(paths):
            W = [z3.Real('eig%d_w%d' % (sym.linalg_k, i)) for i in range(2)]
            anyneg = z3.Or(W[0] < 0, W[1] < 0)
            ctx.prove('path%d.flag_iff_negative' % k, sym.pc, anyneg if fl else z3.Not(anyneg), check_vacuity=False,
                      pins=[{'eig%d_w0' % sym.linalg_k: x, 'eig%d_w1' % sym.linalg_k: y} for x, y in [(1, -2), (-1, 2), (-1, -2), (1, 2)]])
            ctx.record('path%d.flag_name' % k, PROVED if (not fl or fl == [nm]) else FAILED, 'B', 0, 'flag_tachyon arguments: %s' % (fl,))
            sq = [a_ for a_ in sym.axioms if 'sqrt' in str(a_)]
            ctx.prove('path%d.masses' % k, sym.pc + sq, z3.And(*[z3.And(z3real(Ms.get(i)) >= 0, z3real(Ms.get(i)) * z3real(Ms.get(i)) == az(W[i])) for i in range(2)]),
                      check_vacuity=False, tactics=('nlsat', 'default'))
    return ob

for _nm, _arr in (('hh', 'Mhh'), ('Ah', 'MAh'), ('Hm', 'MHm')):
    make_thdm_tachyon(_nm, _arr)
