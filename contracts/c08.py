"""C08 -- a constructed THDM reproduces the inputs it was constructed from.

Contracts on src/THDM/THDM.cpp (set_basis, init_yukawas, init_gauge_couplings) and
src/THDM/THDM_mass_eigenstates.cpp (EWSB, mass matrices, calculate_M*, mixing-angle getters).
The eigen-solvers are used through their documented contract only (assumption A-LINALG):
 fs_diagonalize_hermitian(m, w, z):  z orthogonal, z m z^T = diag(w), |w0| <= |w1|   -- and NOTHING about eigenvector signs.
"""
from fractions import Fraction as Fr
import z3
from gm2v.ob import obligation, PROVED, FAILED, UNDECIDED, ERROR
from gm2v.interp import Interp, Thrown
from gm2v.values import Cx, Mat, Obj, to_z3, z3real, is_sym, mul, add, sub
from gm2v.symobj import symbolic_fields
from gm2v import specs
from gm2v.specs import absz

TH = 'src/THDM/THDM.cpp'
ME = 'src/THDM/THDM_mass_eigenstates.cpp'

SM_DEFAULTS = {'th0.sm.mw': Fr('80.385'), 'th0.sm.mz': Fr('91.1876'), 'th0.sm.alpha_em_mz': Fr(1, 128), 'th0.sm.alpha_em_0': Fr(1, 137),
               'th0.sm.alpha_s_mz': Fr('0.1184'), 'th0.sm.mh': Fr(125)}

REPLAY_MAIN = r'''
#include "gm2calc/THDM.hpp"
#include "gm2calc/SM.hpp"
#include "gm2calc/gm2_error.hpp"
#include <cstdio>
#include <cstdlib>
#include <cmath>
int main(int argc, char** argv) {
   double a[16]; for (int i = 1; i < argc && i <= 16; i++) a[i-1] = strtod(argv[i], nullptr);
   gm2calc::SM sm; sm.set_mw(a[9]); sm.set_mz(a[10]); sm.set_alpha_em_mz(a[11]);
   gm2calc::thdm::Mass_basis b;
   b.yukawa_type = static_cast<gm2calc::thdm::Yukawa_type>((int)a[12]);
   b.mh = a[0]; b.mH = a[1]; b.mA = a[2]; b.mHp = a[3]; b.sin_beta_minus_alpha = a[4]; b.lambda_6 = a[5]; b.lambda_7 = a[6]; b.tan_beta = a[7]; b.m122 = a[8];
   gm2calc::thdm::Config cfg; cfg.running_couplings = false;
   try {
      gm2calc::THDM m(b, sm, cfg);
      std::printf("%.17g %.17g %.17g %.17g %.17g %.17g %.17g %.17g %.17g %.17g %.17g %.17g\n", m.get_Mhh(0), m.get_Mhh(1), m.get_MAh(1), m.get_MHm(1),
                  m.get_sin_beta_minus_alpha(), m.get_cos_beta_minus_alpha(), m.get_tan_beta(), m.get_MAh(0), m.get_MHm(0), m.get_MVZ(), m.get_MVWm(), m.get_m122());
   } catch (const gm2calc::Error& e) { std::printf("EXC %s\n", e.what()); }
   return 0;
}
'''

def replay_mass_basis(model, wd):
    """construct the REAL THDM from the counterexample's mass-basis input and compare what it reports with the input"""
    from gm2v import native
    import subprocess
    f = model.get('_float', {})
    g = lambda k, d: float(f.get(k, d))
    args = [g('mh', 125), g('mH', 400), g('mA', 420), g('mHp', 440), g('sin_beta_minus_alpha', 0.9), g('lambda_6', 0), g('lambda_7', 0),
            (g('v2', 0) / g('v1', 1) if 'v2' in f else g('tan_beta', 3)), g('m122', 40000), g('MVWm', g('th0.sm.mw', 80.385)), g('MVZ', g('th0.sm.mz', 91.1876)), g('th0.sm.alpha_em_mz', 1 / 128.0), g('ytype', 2)]
    exe = native.build_program(wd, REPLAY_MAIN, native.THDM_SRCS)
    r = subprocess.run([exe] + [repr(x) for x in args], capture_output=True, text=True, timeout=120)
    out = r.stdout.strip()
    if out.startswith('EXC') or not out:
        return True, 'input %s: real constructor threw / failed: %s' % (args, out or r.stderr[-300:])
    v = [float(x) for x in out.split()]
    names = ['mh', 'mH', 'mA', 'mHp', 'sin(b-a)', 'cos(b-a)', 'tan(b)', 'MAh(0)', 'MHm(0)', 'MZ', 'MW', 'm122']
    want = [args[0], args[1], args[2], args[3], args[4], None, args[7], args[10], args[9], args[10], args[9], args[8]]
    bad = []
    for n, got, w in zip(names, v, want):
        if w is None:
            if got < -1e-9:
                bad.append('%s=%r < 0' % (n, got))
            continue
        if abs(got - w) > 1e-6 * max(1.0, abs(w)):
            bad.append('%s: reported %r, input %r' % (n, got, w))
    return bool(bad), 'mass-basis input (mh,mH,mA,mH+,sba,l6,l7,tb,m122,mw,mz,alpha,type)=%s -> real THDM reports %s; mismatches: %s' % (args, dict(zip(names, v)), bad or 'none')

def noop(it, args, this):
    return None

def mass_basis_model(ctx, it, ytype=2, calc_masses_stub=noop, extra_stubs=None):
    """build a THDM object through the REAL set_basis(Mass_basis) with symbolic inputs; the spectrum calculation
    (calculate_MSbar_masses) and validate() are replaced by their contracts (no change of the Lagrangian parameters)"""
    it.stubs.update({'THDM_mass_eigenstates::calculate_MSbar_masses': calc_masses_stub, 'THDM::validate': noop})
    if extra_stubs:
        it.stubs.update(extra_stubs)
    th = it.new_object('THDM', symbolic_fields(None, prefix='th0.'))
    basis = it.new_object('Mass_basis', symbolic_fields(ctx, prefix=''))
    basis.f['yukawa_type'] = ytype
    th.f['yukawa_type'] = ytype
    th.f['config'].f['force_output'] = False
    return th, basis

def physical_pre(b, sm):
    """the quantifier of C08 (tan beta in [0.05,200], 0<=mh<=mH, masses in [10,1e4], |sba|<=1, MW<MZ, alpha>0)"""
    f = b.f
    return [f['mh'] >= 0, f['mh'] <= f['mH'], f['mH'] >= 10, f['mH'] <= 10**4, f['mA'] >= 10, f['mA'] <= 10**4,
            f['mHp'] >= 10, f['mHp'] <= 10**4, f['sin_beta_minus_alpha'] >= -1, f['sin_beta_minus_alpha'] <= 1,
            f['tan_beta'] >= Fr(5, 100), f['tan_beta'] <= 200, f['lambda_6'] >= -3, f['lambda_6'] <= 3,
            f['lambda_7'] >= -3, f['lambda_7'] <= 3,
            sm.f['mw'] > 0, sm.f['mz'] > sm.f['mw'], sm.f['alpha_em_mz'] > 0]

def angle_facts(it, b):
    """facts about alpha = atan(tb) - asin(sba) that follow from A-LIBM (instantiated on the terms the code uses)"""
    tb, sba = b.f['tan_beta'], b.f['sin_beta_minus_alpha']
    return []

@obligation('C08.lambda_inversion', fns=[(TH, 'THDM::set_basis'), (ME, 'THDM_mass_eigenstates::solve_ewsb_tree_level'),
                                         (ME, 'THDM_mass_eigenstates::get_mass_matrix_hh'), (ME, 'THDM_mass_eigenstates::get_mass_matrix_Ah'),
                                         (ME, 'THDM_mass_eigenstates::get_mass_matrix_Hm'), (ME, 'THDM_mass_eigenstates::set_tan_beta_and_v')], replay=replay_mass_basis)
def _(ctx):
    """after set_basis(Mass_basis) [lambda_1..5 inversion + tree-level EWSB], for ALL admissible inputs:
    R(alpha)^T M2_hh R(alpha) = diag(mh^2, mH^2) with alpha = atan(tan beta) - asin(sin(beta-alpha));
    M2_Ah has trace MZ^2 + mA^2, determinant MZ^2 mA^2 and Goldstone eigenvector (cos beta, sin beta);
    M2_Hm has trace MW^2 + mH+^2, determinant MW^2 mH+^2 and Goldstone eigenvector (cos beta, sin beta);
    the EWSB equations vanish; tan beta, lambda_6, lambda_7, m12^2 are stored as given"""
    it = Interp(ctx.w, mode='sym')
    th, b = mass_basis_model(ctx, it)
    sm = th.f['sm']
    pre = physical_pre(b, sm)
    it.assumptions = pre
    ctx.pin_defaults.update(SM_DEFAULTS)
    def build():
        it.call('init_gauge_couplings', [], this=th)
        it.call('set_basis', [b], this=th)
        return (it.call('get_mass_matrix_hh', [], this=th), it.call('get_mass_matrix_Ah', [], this=th),
                it.call('get_mass_matrix_Hm', [], this=th), it.call('get_ewsb_eq_hh_1', [], this=th), it.call('get_ewsb_eq_hh_2', [], this=th),
                it.call('get_mass_matrix_VWm', [], this=th), it.call('get_mass_matrix_VZ', [], this=th))
    paths = it.run_paths(build)
    ctx.merge_rules(it)
    ok_paths = [p for p in paths if p[2] is None]
    if len(ok_paths) != 1:
        ctx.record('paths', ERROR, 'B', 0, 'expected exactly one non-throwing path under the precondition, got %d of %d' % (len(ok_paths), len(paths)))
        return
    sym, (Mhh, MAh, MHm, ew1, ew2, MW2, MZ2), _ = ok_paths[0]
    # domain side conditions first (sqrt/division/asin arguments for ALL admissible inputs, m12^2 of either sign): they are the cheapest refutations
    if not ctx.sides('build', sym, pre):
        return      # a domain violation is already a failed goal: the expensive nonlinear goals below would only run into the time budget on such a tree
    f = b.f
    tb, sba = f['tan_beta'], f['sin_beta_minus_alpha']
    # alpha as the code computes it
    al = it.uf('atan', z3.simplify(z3real(tb))) - it.uf('asin', z3.simplify(z3real(sba)))
    al = None
    # locate the sin/cos(alpha) terms the code created: sin(-asin(sba) + atan(tb))
    asn, atn = it.uf('asin', z3real(sba)), it.uf('atan', z3real(tb))
    alpha = z3.simplify(-asn + atn)
    sa, ca = it.uf('sin', alpha), it.uf('cos', alpha)
    ax = pre + sym.pc + sym.axioms
    g = lambda i, j, M: z3real(M.get(i, j))
    mh2, mH2, mA2, mHp2 = f['mh'] * f['mh'], f['mH'] * f['mH'], f['mA'] * f['mA'], f['mHp'] * f['mHp']
    # R = [[-sa, ca],[ca, sa]] rows = (h, H);  R M R^T = diag(mh2, mH2)
    def rot(M, r1, r2):
        return sum(r1[i] * g(i, j, M) * r2[j] for i in range(2) for j in range(2))
    h, H = (-sa, ca), (ca, sa)
    pins = [dict(tan_beta=Fr(tb_), sin_beta_minus_alpha=Fr(s_), mh=125, mH=400, mA=420, mHp=440, lambda_6=Fr(1, 10), lambda_7=Fr(-1, 5), m122=40000)
            for tb_, s_ in [(50, '-0.9'), (3, '-0.999'), (3, '0.3'), ('0.1', '0.5'), (10, '-0.5'), (2, '0.999'), (1, 0)]]
    ctx.prove('hh.light', ax, rot(Mhh, h, h) == mh2, tactics=('nlsat', 'default'), pins=pins)
    ctx.prove('hh.heavy', ax, rot(Mhh, H, H) == mH2, tactics=('nlsat', 'default'), pins=pins)
    ctx.prove('hh.offdiag', ax, z3.And(rot(Mhh, h, H) == 0, rot(Mhh, H, h) == 0), tactics=('nlsat', 'default'), pins=pins)
    ctx.prove('hh.symmetric', ax, g(0, 1, Mhh) == g(1, 0, Mhh))
    sm_mw2, sm_mz2 = sm.f['mw'] * sm.f['mw'], sm.f['mz'] * sm.f['mz']
    lem = []      # proved facts are reused as lemmas (cut rule) for the goals below
    if ctx.prove('VWm', ax, z3real(MW2) == sm_mw2, tactics=('nlsat', 'default')) == PROVED:
        lem.append(z3real(MW2) == sm_mw2)
    if ctx.prove('VZ', ax, z3real(MZ2) == sm_mz2, tactics=('nlsat',), timeout_ms=100000) == PROVED:
        lem.append(z3real(MZ2) == sm_mz2)
    c35, c320 = z3.Real('c_SQRT3_5'), z3.Real('c_SQRT3_20')
    if ctx.prove('const', ax, 2 * c320 == c35, tactics=('nlsat', 'default')) == PROVED:
        lem.append(2 * c320 == c35)
    ax = ax + lem
    # beta: cb = 1/sqrt(1+tb^2), sb = tb cb
    rt = it.uf('sqrt', z3.simplify(1 + z3real(tb) * z3real(tb)))
    cb, sb = 1 / rt, z3real(tb) / rt
    G, P = (cb, sb), (-sb, cb)
    ctx.prove('Ah.goldstone', ax, z3.And(rot(MAh, G, G) == z3real(MZ2), rot(MAh, G, P) == 0), tactics=('nlsat',), timeout_ms=100000)
    ctx.prove('Ah.physical', ax, rot(MAh, P, P) == mA2, tactics=('nlsat', 'default'), pins=pins)
    ctx.prove('Hm.goldstone', ax, z3.And(rot(MHm, G, G) == z3real(MW2), rot(MHm, G, P) == 0, rot(MHm, P, G) == 0), tactics=('nlsat', 'default'))
    ctx.prove('Hm.physical', ax, rot(MHm, P, P) == mHp2, tactics=('nlsat', 'default'), pins=pins)
    ctx.prove('ewsb', ax, z3.And(z3real(ew1) == 0, z3real(ew2) == 0), tactics=('nlsat', 'default'))
    P_ = th.f
    ctx.prove('stored', ax, z3.And(z3real(P_['lambda6']) == f['lambda_6'], z3real(P_['lambda7']) == f['lambda_7'],
                                    z3real(P_['m122']) == f['m122'], z3real(P_['v2']) == z3real(tb) * z3real(P_['v1'])))

# ---------------------------------------------------------------------------------------------------
# A-LINALG: the documented contract of the eigen-solver (assumed; this is C12) -- nothing about signs
# ---------------------------------------------------------------------------------------------------
_ctr = [0]
def linalg_hermitian_stub(it, args, this):
    """fs_diagonalize_hermitian(m, w, z): z orthogonal, z m z^T = diag(w), |w_0| <= |w_1|"""
    M, w, z = args
    _ctr[0] += 1
    k = _ctr[0]
    it.sym.linalg_k = k
    n = M.r
    W = [z3.Real('eig%d_w%d' % (k, i)) for i in range(n)]
    Z = [[z3.Real('eig%d_z%d%d' % (k, i, j)) for j in range(n)] for i in range(n)]
    for i in range(n):
        for j in range(n):
            it.axiom(sum(Z[i][a] * Z[j][a] for a in range(n)) == (1 if i == j else 0))
            it.axiom(sum(Z[i][a] * z3real(M.get(a, b)) * Z[j][b] for a in range(n) for b in range(n)) == (W[i] if i == j else 0))
            it.axiom(z3.And(Z[i][j] >= -1, Z[i][j] <= 1))
    for i in range(n):
        for j in range(n):
            # equivalent forms of the same contract (square real matrices): Z^T Z = 1,  Z M = diag(W) Z,  tr and det invariance
            it.axiom(sum(Z[a][i] * Z[a][j] for a in range(n)) == (1 if i == j else 0))
            it.axiom(sum(Z[i][a] * z3real(M.get(a, j)) for a in range(n)) == W[i] * Z[i][j])
    it.axiom(sum(W) == sum(z3real(M.get(a, a)) for a in range(n)))
    if n == 2:
        it.axiom(W[0] * W[1] == z3real(M.get(0, 0)) * z3real(M.get(1, 1)) - z3real(M.get(0, 1)) * z3real(M.get(1, 0)))
    for i in range(n - 1):
        it.axiom(absz(W[i]) <= absz(W[i + 1]))
    for i in range(n):
        w.set(i, None, W[i])
        for j in range(n):
            z.set(i, j, Z[i][j])
    return None

def clamp_stub(it, args, this):
    """normalize_to_interval(m): identity on matrices whose entries are within [-1,1] (its own contract: C08.normalize_to_interval)"""
    return None

def sym_matrix_with_spectrum(it, name, d0, d1, r0, r1):
    """callee contract of get_mass_matrix_*: a symmetric 2x2 matrix M with  R M R^T = diag(d0, d1), rows r0, r1 of R orthonormal
    (proved for the real mass matrices by C08.lambda_inversion)"""
    # M = R^T diag(d0,d1) R written out (equivalent to R M R^T = diag for orthogonal R)
    m = [[r0[i] * d0 * r0[j] + r1[i] * d1 * r1[j] for j in range(2)] for i in range(2)]
    return Mat(2, 2, m, 'matrix', False), []

@obligation('C08.calculate_Mhh', fns=[(ME, 'THDM_mass_eigenstates::calculate_Mhh')], replay=replay_mass_basis)
def _(ctx):
    """requires: M2_hh = R(alpha)^T diag(mh^2, mH^2) R(alpha), 0 <= mh^2 <= mH^2 (callee contract); eigen-solver by A-LINALG.
    ensures: Mhh = (mh, mH) exactly, no tachyon is flagged, and for mh < mH the heavy row of ZH is +-(cos alpha, sin alpha)"""
    d0, d1, sa, ca = ctx.reals('mh2 mH2 sin_alpha cos_alpha')
    pre = [d0 >= 0, d0 <= d1, sa * sa + ca * ca == 1]
    flagged = []
    it = Interp(ctx.w, mode='sym', assumptions=pre)
    M, facts = sym_matrix_with_spectrum(it, 'Mhh', d0, d1, (-sa, ca), (ca, sa))
    it.assumptions = pre + facts
    it.stubs.update({'fs_diagonalize_hermitian': linalg_hermitian_stub, 'normalize_to_interval': clamp_stub,
                     'THDM_mass_eigenstates::get_mass_matrix_hh': lambda i, a, t: M,
                     'THDM_problems::flag_tachyon': lambda i, a, t: flagged.append(a)})
    th = it.new_object('THDM')
    def run():
        del flagged[:]
        it.call('calculate_Mhh', [], this=th)
        return (th.f['Mhh'].copy(), th.f['ZH'].copy(), list(flagged))
    paths = it.run_paths(run)
    ctx.merge_rules(it)
    ctx.assume_note('A-LINALG: fs_diagonalize_hermitian(m,w,z) returns orthogonal z with z m z^T = diag(w), |w0|<=|w1|, entries of z in [-1,1]; no promise about signs')
    for k, (sym, (Mh, ZH, fl), exc) in enumerate(paths):
        tag = 'path%d' % k
        W0, W1 = [z3.Real('eig%d_w%d' % (sym.linalg_k, i)) for i in range(2)]
        m = lambda a, b: z3real(M.get(a, b))
        unit = [sa * sa + ca * ca == 1]
        # lemmas from the minimal part of the eigen-solver contract (trace / determinant / ordering)
        l1 = ctx.prove(tag + '.trace', unit + [W0 + W1 == m(0, 0) + m(1, 1)], W0 + W1 == d0 + d1, tactics=('nlsat', 'default'), check_vacuity=False)
        l2 = ctx.prove(tag + '.det', unit + [W0 * W1 == m(0, 0) * m(1, 1) - m(0, 1) * m(1, 0)], W0 * W1 == d0 * d1, tactics=('nlsat', 'default'), check_vacuity=False)
        l3 = ctx.prove(tag + '.eigenvalues', [W0 + W1 == d0 + d1, W0 * W1 == d0 * d1, absz(W0) <= absz(W1), d0 >= 0, d0 <= d1], z3.And(W0 == d0, W1 == d1), tactics=('nlsat', 'default'))
        lem = [W0 == d0, W1 == d1] if (l1, l2, l3) == (PROVED, PROVED, PROVED) else []
        small = pre + lem + sym.pc
        if fl:
            # a path on which a tachyon is flagged must be infeasible under the precondition mh^2 >= 0
            ctx.prove(tag + '.tachyon_path_infeasible', small, z3.BoolVal(False), check_vacuity=False)
            continue
        ctx.prove(tag + '.masses', small + [a for a in sym.axioms if 'sqrt' in str(a)],
                  z3.And(z3real(Mh.get(0)) * z3real(Mh.get(0)) == d0, z3real(Mh.get(1)) * z3real(Mh.get(1)) == d1,
                         z3real(Mh.get(0)) >= 0, z3real(Mh.get(1)) >= 0), tactics=('nlsat', 'default'), check_vacuity=False)
        z10, z11 = z3real(ZH.get(1, 0)), z3real(ZH.get(1, 1))
        rowfacts = [z10 * z10 + z11 * z11 == 1, z10 * m(0, 0) + z11 * m(1, 0) == W1 * z10, z10 * m(0, 1) + z11 * m(1, 1) == W1 * z11]
        ctx.prove(tag + '.heavy_row', unit + lem + rowfacts + [d0 < d1, d0 >= 0], z3.Or(z3.And(z10 == ca, z11 == sa), z3.And(z10 == -ca, z11 == -sa)),
                  tactics=('nlsat', 'default'), check_vacuity=False)

@obligation('C08.goldstone_reordering', fns=[(ME, 'THDM_mass_eigenstates::reorder_MSbar_masses'), ('src/gm2_eigen_utils.hpp', 'move_goldstone_to'), ('src/gm2_eigen_utils.hpp', 'closest_index')],
            replay=replay_mass_basis)
def _(ctx):
    """requires: MAh = sort(MZ, mA), MHm = sort(MW, mH+) (ascending, as delivered by the eigen-solver), all masses > 0.
    ensures: MAh = (MZ, mA) and MHm = (MW, mH+): the Goldstone modes sit at index 0; the rows of ZA, ZP are permuted alike"""
    mz, mw, mA, mHp = ctx.reals('MVZ MVWm mA mHp')
    pre = [mz > 0, mw > 0, mA > 0, mHp > 0, mw < mz]
    it = Interp(ctx.w, mode='sym', assumptions=pre)
    th = it.new_object('THDM', symbolic_fields(None, prefix='r.'))
    th.f['MVZ'], th.f['MVWm'] = mz, mw
    lo = lambda a, b: z3.If(a <= b, a, b)
    hi = lambda a, b: z3.If(a <= b, b, a)
    th.f['MAh'] = Mat(2, 1, [[lo(mz, mA)], [hi(mz, mA)]], 'array', False)
    th.f['MHm'] = Mat(2, 1, [[lo(mw, mHp)], [hi(mw, mHp)]], 'array', False)
    za0 = th.f['ZA'].copy()
    zp0 = th.f['ZP'].copy()
    def run():
        t2 = Obj(th.cls, {k: (v.copy() if isinstance(v, Mat) else v) for k, v in th.f.items()})
        it.call('reorder_MSbar_masses', [], this=t2)
        return t2
    paths = it.run_paths(run)
    ctx.merge_rules(it)
    for k, (sym, t2, exc) in enumerate(paths):
        ax = pre + sym.pc
        A, H = t2.f['MAh'], t2.f['MHm']
        ctx.prove('path%d.MAh' % k, ax, z3.And(z3real(A.get(0)) == mz, z3real(A.get(1)) == mA))
        ctx.prove('path%d.MHm' % k, ax, z3.And(z3real(H.get(0)) == mw, z3real(H.get(1)) == mHp), pins=[dict(MVZ=Fr('91.1876'), MVWm=Fr('80.385'), mA=300, mHp=m) for m in (50, 85, 90, 95, 100, 150, 80, 91)])
        # mixing rows follow the masses
        swappedA = z3.Not(mz <= mA)
        za = t2.f['ZA']
        ctx.prove('path%d.ZA' % k, ax, z3.If(swappedA, z3.And(*[z3real(za.get(0, j)) == z3real(za0.get(1, j)) for j in range(2)] + [z3real(za.get(1, j)) == z3real(za0.get(0, j)) for j in range(2)]),
                                              z3.And(*[z3real(za.get(i, j)) == z3real(za0.get(i, j)) for i in range(2) for j in range(2)])))
        swappedP = z3.Not(mw <= mHp)
        zp = t2.f['ZP']
        ctx.prove('path%d.ZP' % k, ax, z3.If(swappedP, z3.And(*[z3real(zp.get(0, j)) == z3real(zp0.get(1, j)) for j in range(2)] + [z3real(zp.get(1, j)) == z3real(zp0.get(0, j)) for j in range(2)]),
                                              z3.And(*[z3real(zp.get(i, j)) == z3real(zp0.get(i, j)) for i in range(2) for j in range(2)])))

@obligation('C08.goldstone_reordering.rounded_spectrum', fns=[(ME, 'THDM_mass_eigenstates::reorder_MSbar_masses'), ('src/gm2_eigen_utils.hpp', 'move_goldstone_to'), ('src/gm2_eigen_utils.hpp', 'closest_index')],
            replay=replay_mass_basis)
def _(ctx):
    """the same contract for a spectrum as the eigen-solver really delivers it -- accurate to its documented error bound, not exact: requires MAh = sort(gZ, mA), MHm = sort(gW, mH+)
    with |gZ - MZ| <= 1e-9 MZ, |gW - MW| <= 1e-9 MW (C12: error bound EPS ||m||) and the physical masses further away from MZ, MW than that.
    ensures: the Goldstone states (gZ, gW) sit at index 0, the physical states at index 1, whichever of them is lighter"""
    mz, mw, mA, mHp, gz, gw = ctx.reals('MVZ MVWm mA mHp gZ gW')
    d = Fr(1, 10**9)
    absz_ = lambda t: z3.If(t >= 0, t, -t)
    pre = [mz > 0, mw > 0, mA > 0, mHp > 0, mw < mz, gz > 0, gw > 0, absz_(gz - mz) <= d * mz, absz_(gw - mw) <= d * mw,
           absz_(mA - mz) > 3 * d * mz, absz_(mHp - mw) > 3 * d * mw]
    it = Interp(ctx.w, mode='sym', assumptions=pre)
    th = it.new_object('THDM', symbolic_fields(None, prefix='r.'))
    th.f['MVZ'], th.f['MVWm'] = mz, mw
    lo = lambda a, b: z3.If(a <= b, a, b)
    hi = lambda a, b: z3.If(a <= b, b, a)
    th.f['MAh'] = Mat(2, 1, [[lo(gz, mA)], [hi(gz, mA)]], 'array', False)
    th.f['MHm'] = Mat(2, 1, [[lo(gw, mHp)], [hi(gw, mHp)]], 'array', False)
    def run():
        t2 = Obj(th.cls, {k: (v.copy() if isinstance(v, Mat) else v) for k, v in th.f.items()})
        it.call('reorder_MSbar_masses', [], this=t2)
        return t2
    paths = it.run_paths(run)
    ctx.merge_rules(it)
    pins = [dict(MVZ=Fr('91.1876'), MVWm=Fr('80.385'), mA=a, mHp=h, gZ=Fr('91.1876') * (1 + e), gW=Fr('80.385') * (1 - e))
            for a in (40, 300) for h in (50, 440) for e in (Fr(0), Fr(1, 10**12), Fr(1, 10**10))]
    for k, (sym, t2, exc) in enumerate(paths):
        ax = pre + sym.pc
        A, H = t2.f['MAh'], t2.f['MHm']
        ctx.prove('path%d.MAh' % k, ax, z3.And(z3real(A.get(0)) == gz, z3real(A.get(1)) == mA), pins=pins)
        ctx.prove('path%d.MHm' % k, ax, z3.And(z3real(H.get(0)) == gw, z3real(H.get(1)) == mHp), pins=pins)
    ctx.record('paths', PROVED if paths else ERROR, 'B', 0, '%d paths' % len(paths))

def angle_sign_axioms(it, theta):
    """A-LIBM: sign of cos on (-3pi/2, 3pi/2), instantiated for the angle term theta"""
    pi = z3.Real('c_PI')
    c = it.uf('cos', theta)
    return [z3.Implies(z3.And(theta >= -pi / 2, theta <= pi / 2), c >= 0),
            z3.Implies(z3.And(theta > pi / 2, theta < 3 * pi / 2), c < 0),
            z3.Implies(z3.And(theta < -pi / 2, theta > -3 * pi / 2), c < 0),
            # within 2.3e-15 of +-pi/2 the cosine is within 2.3e-15 of 0
            z3.Implies(z3.And(theta > pi / 2, theta <= pi / 2 + z3.Q(1, 10**14)), c >= -z3.Q(1, 10**14)),
            z3.Implies(z3.And(theta < -pi / 2, theta >= -pi / 2 - z3.Q(1, 10**14)), c >= -z3.Q(1, 10**14))]

@obligation('C08.mixing_angle', fns=[(ME, 'THDM_mass_eigenstates::get_alpha_h'), (ME, 'THDM_mass_eigenstates::get_sin_beta_minus_alpha'),
                                     (ME, 'THDM_mass_eigenstates::get_cos_beta_minus_alpha'), (ME, 'THDM_mass_eigenstates::get_beta')], replay=replay_mass_basis)
def _(ctx):
    """requires: the heavy row of ZH is sigma (cos alpha, sin alpha) for EITHER sign sigma (all that A-LINALG promises, see C08.calculate_Mhh),
    v1, v2 > 0, cos(beta-alpha) >= 1e-6.   ensures: get_sin_beta_minus_alpha() == sin(beta-alpha), get_cos_beta_minus_alpha() == cos(beta-alpha).
    Proof structure: trigonometric lemmas T0-T3 from the instantiated A-LIBM axioms, then one linear goal per path."""
    v1, v2, sba, sg = ctx.reals('v1 v2 sin_beta_minus_alpha sigma')
    it = Interp(ctx.w, mode='sym')
    rt = z3.Real('rt')          # sqrt(v1^2+v2^2)
    cba = z3.Real('cba')        # cos(beta-alpha) = sqrt(1-sba^2)
    pre = [v1 > 0, v2 > 0, sba >= -1, sba <= 1, z3.Or(sg == 1, sg == -1), rt > 0, rt * rt == v1 * v1 + v2 * v2,
           cba >= z3.Q(1, 10**6), cba * cba == 1 - sba * sba]
    it.assumptions = pre
    cb, sb = v1 / rt, v2 / rt
    sa, ca = sb * cba - cb * sba, cb * cba + sb * sba
    th = it.new_object('THDM')
    th.f['v1'], th.f['v2'] = v1, v2
    th.f['ZH'] = Mat(2, 2, [[-sg * sa, sg * ca], [sg * ca, sg * sa]], 'matrix', False)
    ctx.pin_defaults.update({'rt': None})
    pi = z3.Real('c_PI')
    pib = [pi > z3.Q(314159265358979, 10**14), pi < z3.Q(314159265358980, 10**14)]
    S, C = (lambda t: it.uf('sin', t)), (lambda t: it.uf('cos', t))
    ctx.assume_note('A-LIBM: atan: sin(r)=t cos(r), cos(r)>0, r in (-pi/2,pi/2), sign(r)=sign(t); atan2(y,x)=r: h sin r = y, h cos r = x, h = sqrt(x^2+y^2), r in [-pi,pi]; '
                    'asin(t)=r: sin r = t, cos r >= 0, r in [-pi/2,pi/2]; addition theorems; sin(pi)=0, cos(pi)=-1; cos>=0 on [-pi/2,pi/2], <0 on (pi/2,3pi/2) and (-3pi/2,-pi/2)')
    pins = [dict(v1=1, v2=Fr(t), sin_beta_minus_alpha=Fr(s_), sigma=sgn) for sgn in (-1, 1)
            for t, s_ in [(3, '0.3'), (3, 0), (3, '-0.3'), (50, '-0.9'), (3, '0.9'), ('0.1', '0.5'), (10, '-0.99')]]
    T0 = sa * sa + ca * ca == 1
    ok0 = ctx.prove('T0.unit', pre, T0, tactics=('nlsat', 'default'))
    for fn, want in (('get_sin_beta_minus_alpha', sba), ('get_cos_beta_minus_alpha', cba)):
        paths = it.run_paths(lambda: it.call(fn, [], this=th))
        ctx.merge_rules(it)
        beta = it.uf('atan', z3.simplify(v2 / v1))
        for k, (sym, r, exc) in enumerate(paths):
            tag = '%s.path%d' % (fn, k)
            # which inverse function does the code use for alpha_h?  (asin(ZH(1,1)) before the fix, atan2(ZH(1,1),ZH(1,0)) after)
            y, x = z3.simplify(z3real(th.f['ZH'].get(1, 1))), z3.simplify(z3real(th.f['ZH'].get(1, 0)))
            txt = ' '.join(str(a) for a in sym.axioms)
            if 'atan2(' in txt:
                a0 = it.uf('atan2', y, x)
                h = it.uf('sqrt', z3.simplify(x * x + y * y))
                inv = [h >= 0, h * h == x * x + y * y, h * S(a0) == y, h * C(a0) == x, S(a0) * S(a0) + C(a0) * C(a0) == 1]
                rng = [a0 >= -pi, a0 <= pi]
            else:
                a0 = it.uf('asin', y)
                inv = [S(a0) == y, C(a0) >= 0, S(a0) * S(a0) + C(a0) * C(a0) == 1]
                rng = [a0 >= -pi / 2, a0 <= pi / 2]
            sB, cB = S(beta), C(beta)
            atn = [sB == (v2 / v1) * cB, cB > 0, sB * sB + cB * cB == 1]
            rng += [beta > 0, beta < pi / 2] + pib
            th_ = z3.simplify(beta - a0)            # the angle bma the code compares with +-pi/2
            add = [S(th_) == sB * C(a0) - cB * S(a0), C(th_) == cB * C(a0) + sB * S(a0)]
            l1 = ctx.prove(tag + '.T1.beta', pre + atn, z3.And(cB == cb, sB == sb), tactics=('nlsat', 'default'), check_vacuity=False)
            l2 = ctx.prove(tag + '.T2.alpha_h', pre + [T0] + inv, z3.And(S(a0) == sg * sa, C(a0) == sg * ca), tactics=('nlsat', 'default'), check_vacuity=False, pins=pins)
            if not (ok0 == PROVED and l1 == PROVED and l2 == PROVED):
                # the trigonometric lemma fails: the alpha_h the code computes does not have (sin, cos) = sigma (sin alpha, cos alpha)
                continue
            l3 = ctx.prove(tag + '.T3.bma', pre + [cB == cb, sB == sb, S(a0) == sg * sa, C(a0) == sg * ca] + add,
                           z3.And(S(th_) == sg * sba, C(th_) == sg * cba), tactics=('nlsat', 'default'), check_vacuity=False)
            if l3 != PROVED:
                continue
            # final goal on this path, over the abstract quantities only
            small = [z3.Or(sg == 1, sg == -1), cba >= z3.Q(1, 10**6), sba >= -1, sba <= 1, S(th_) == sg * sba, C(th_) == sg * cba] + rng + angle_sign_axioms(it, th_) + sym.pc
            # the value returned: sin/cos(beta - alpha_h_final) with alpha_h_final in {a0, a0 - pi, a0 + pi}
            shift = [z3.And(S(z3.simplify(th_ + pi)) == -S(th_), C(z3.simplify(th_ + pi)) == -C(th_)),
                     z3.And(S(z3.simplify(th_ - pi)) == -S(th_), C(z3.simplify(th_ - pi)) == -C(th_))]
            inf = ctx.prove(tag + '.feasible?', small, z3.BoolVal(False), check_vacuity=False, timeout_ms=6000, external=False, tactics=('default', 'nlsat'))
            if inf == PROVED:
                ctx.results[-1].kind = 'infeasible path (nothing to prove on it)'
                continue
            ctx.results.pop()
            ctx.prove(tag, small + shift, z3real(r) == want, tactics=('default', 'nlsat'), check_vacuity=False)

REPLAY_YUK = r'''
#include "gm2calc/THDM.hpp"
#include "gm2calc/SM.hpp"
#include "gm2calc/gm2_error.hpp"
#include <cstdio>
#include <cstdlib>
#include <cmath>
int main(int argc, char** argv) {
   double a[8]; for (int i = 1; i < argc && i <= 8; i++) a[i-1] = strtod(argv[i], nullptr);
   gm2calc::SM sm;
   gm2calc::thdm::Mass_basis b;
   b.yukawa_type = static_cast<gm2calc::thdm::Yukawa_type>((int)a[0]);
   b.mh = 125; b.mH = 400; b.mA = 420; b.mHp = 440; b.sin_beta_minus_alpha = 0.999; b.tan_beta = a[1]; b.m122 = 40000;
   b.zeta_u = a[2]; b.zeta_d = a[3]; b.zeta_l = a[4];
   gm2calc::thdm::Config cfg; cfg.running_couplings = false; cfg.force_output = true;
   int bad = 0;
   try {
      gm2calc::THDM m(b, sm, cfg);
      for (int i = 0; i < 3; i++) {
         double d[3] = { m.get_MFu(i) - sm.get_mu(i), m.get_MFd(i) - sm.get_md(i), m.get_MFe(i) - sm.get_ml(i) };
         for (int k = 0; k < 3; k++) if (!(std::fabs(d[k]) <= 1e-9*(1 + std::fabs(sm.get_mu(2))))) bad++;
         std::printf("gen %d: MFu=%.10g (SM %.10g) MFd=%.10g (SM %.10g) MFe=%.10g (SM %.10g)\n", i, m.get_MFu(i), sm.get_mu(i), m.get_MFd(i), sm.get_md(i), m.get_MFe(i), sm.get_ml(i));
      }
   } catch (const gm2calc::Error& e) { std::printf("EXC %s\n", e.what()); bad++; }
   std::printf("BAD %d\n", bad);
   return 0;
}
'''

def replay_yukawa(yt):
    def rep(model, wd):
        from gm2v import native
        import subprocess
        f = model.get('_float', {})
        tb = float(f.get('v2', 1.0)) / float(f.get('v1', 1.0))
        args = [yt, tb, f.get('zeta_u', 0.0), f.get('zeta_d', 0.0), f.get('zeta_l', 0.0)]
        exe = native.build_program(wd, REPLAY_YUK, native.THDM_SRCS)
        r = subprocess.run([exe] + [repr(float(x)) for x in args], capture_output=True, text=True, timeout=120)
        bad = 'BAD 0' not in r.stdout
        return bad, 'THDM(type %d, tan beta=%r, zeta_u/d/l=%r/%r/%r): %s' % (yt, tb, args[2], args[3], args[4], r.stdout.strip().replace('\n', ' | '))
    return rep

def unitary_facts(V):
    out = []
    for i in range(3):
        for j in range(3):
            re, im = 0, 0
            for k in range(3):
                a, b = V.d[i][k], V.d[j][k]
                re = add(re, add(mul(a.re, b.re), mul(a.im, b.im)))
                im = add(im, sub(mul(a.im, b.re), mul(a.re, b.im)))
            out.append(z3.And(z3real(re) == (1 if i == j else 0), z3real(im) == 0))
    return out

YTYPES = {1: 'type_1', 2: 'type_2', 3: 'type_X', 4: 'type_Y', 5: 'aligned', 6: 'general'}

def make_yukawa_ob(yt):
    @obligation('C08.yukawa_init.%s' % YTYPES[yt], fns=[(TH, 'THDM::init_yukawas'), (TH, 'calc_xi'), (ME, 'THDM_mass_eigenstates::get_mass_matrix_Fu'),
                                                        (ME, 'THDM_mass_eigenstates::get_mass_matrix_Fd'), (ME, 'THDM_mass_eigenstates::get_mass_matrix_Fe')], replay=replay_yukawa(yt))
    def ob(ctx, yt=yt):
        """after init_yukawas() for this Yukawa type, for ALL v1, v2 > 0, SM masses, CKM matrices, zeta_f, Pi_f:
        (v1 Gamma_u + v2 Pi_u)/sqrt2 = V_CKM^dagger diag(m_u), (v1 Gamma_d + v2 Pi_d)/sqrt2 = diag(m_d), same for leptons;
        no division by zero occurs (in particular for the aligned type at zeta_f = cot(beta), the type-I-like point)"""
        it = Interp(ctx.w, mode='sym')
        th = it.new_object('THDM', symbolic_fields(None, prefix=''))
        for nm in ('v1', 'v2', 'zeta_u', 'zeta_d', 'zeta_l'):
            ctx.vars[nm] = th.f[nm]
        th.f['yukawa_type'] = yt
        v1, v2 = th.f['v1'], th.f['v2']
        pre = [v1 > 0, v2 > 0]
        it.assumptions = pre
        def run():
            t2 = Obj(th.cls, {k: (v.copy() if isinstance(v, Mat) else v) for k, v in th.f.items()})
            it.call('init_yukawas', [], this=t2)
            return (it.call('get_mass_matrix_Fu', [], this=t2), it.call('get_mass_matrix_Fd', [], this=t2), it.call('get_mass_matrix_Fe', [], this=t2))
        paths = it.run_paths(run)
        ctx.merge_rules(it)
        sm = th.f['sm']
        ckm = sm.f['ckm']
        for k, (sym, (Fu, Fd, Fe), exc) in enumerate(paths):
            ax = pre + sym.pc + sym.axioms
            ok_div = ctx.sides('path%d' % k, sym, pre, pins=[{'v1': 1, 'v2': 2, 'zeta_u': Fr(1, 2), 'zeta_d': Fr(1, 2), 'zeta_l': Fr(1, 2)}])
            if not ok_div:
                ax = ax + [z3real(c) for g_, c, d_ in sym.sides if d_.startswith('division') and is_sym(c)]
            eqs = []
            for i in range(3):
                for j in range(3):
                    # (V^dagger diag(mu))_{ij} = conj(V_ji) mu_j
                    want_re = mul(ckm.d[j][i].re, sm.f['mu'].get(j))
                    want_im = mul(-1, mul(ckm.d[j][i].im, sm.f['mu'].get(j)))
                    eqs.append(z3.And(z3real(Fu.d[i][j].re) == z3real(want_re), z3real(Fu.d[i][j].im) == z3real(want_im)))
                    dm = sm.f['md'].get(i) if i == j else 0
                    lm = sm.f['ml'].get(i) if i == j else 0
                    eqs.append(z3.And(z3real(Fd.d[i][j].re) == z3real(dm), z3real(Fd.d[i][j].im) == 0))
                    eqs.append(z3.And(z3real(Fe.d[i][j].re) == z3real(lm), z3real(Fe.d[i][j].im) == 0))
            ctx.prove('path%d.mass_matrices' % k, ax, z3.And(*eqs), tactics=('nlsat', 'default'), check_vacuity=False)
    return ob

for _yt in YTYPES:
    make_yukawa_ob(_yt)


def fidelity(tier, seed):
    """A-FRONT guard: THDM a_mu functions and getters, interpreter (float mode) vs compiled real code on real models"""
    from gm2v import fidelity as _fid
    return _fid.thdm_model_guard(seed=seed)

# ------------------------------------------------------------------------------------------------
# "A constructed THDM reproduces the inputs it was constructed from" is stated above for ONE construction.  It carries over to every construction in a
# process only if no function on the way keeps state between calls, and it starts with the constructors handing the basis to the members: the static-frame
# obligation of C19 and the constructor contracts of C09 are lemmas of C08 and are re-registered here.
HISTORY_REPLAY = r'''
#include "gm2calc/THDM.hpp"
#include "gm2calc/SM.hpp"
#include "gm2calc/gm2_error.hpp"
#include <cstdio>
#include <cmath>
// several THDMs with DIFFERENT SM inputs are constructed in one process; each must report its own inputs (W, Z, fermion masses, CKM from Vu Vd^dagger)
int main() {
   int bad = 0;
   for (int k = 0; k < 4; k++) for (int type = 1; type <= 6; type++) {
      gm2calc::SM sm;
      if (k == 1) { sm.set_ckm_from_angles(0.3, 0.02, 0.1, 1.0); sm.set_mw(79.0); sm.set_mu(2, 170.0); sm.set_mh(120.0); }
      if (k == 2) { sm.set_ckm(Eigen::Matrix<std::complex<double>,3,3>::Identity()); sm.set_mz(92.0); sm.set_md(2, 4.5); sm.set_ml(2, 1.8); }
      if (k == 3) { sm.set_ckm_from_wolfenstein(0.22, 0.8, 0.15, 0.35); sm.set_mh(130.0); }
      gm2calc::thdm::Mass_basis b; b.yukawa_type = gm2calc::thdm::int_to_cpp_yukawa_type(type);
      b.mh = sm.get_mh(); b.mH = 400; b.mA = 420; b.mHp = 440; b.sin_beta_minus_alpha = 0.995; b.tan_beta = 3; b.m122 = 40000; b.zeta_u = 0.3; b.zeta_d = -0.2; b.zeta_l = 0.5;
      try {
         const gm2calc::THDM th(b, sm);
         const Eigen::Matrix<std::complex<double>,3,3> ckm = th.get_Vu() * th.get_Vd().adjoint();
         const double d_ckm = (ckm.cwiseAbs() - sm.get_ckm().cwiseAbs()).cwiseAbs().maxCoeff();   // moduli: invariant under the rephasing freedom of the singular vectors
         const double d_w = std::fabs(th.get_MVWm() - sm.get_mw()), d_z = std::fabs(th.get_MVZ() - sm.get_mz());
         double d_f = 0;
         for (int i = 0; i < 3; i++) d_f = std::fmax(d_f, std::fmax(std::fabs(th.get_MFu()(i) - sm.get_mu()(i)), std::fmax(std::fabs(th.get_MFd()(i) - sm.get_md()(i)), std::fabs(th.get_MFe()(i) - sm.get_ml()(i)))));
         if (d_ckm > 1e-12 || d_w > 1e-10 || d_z > 1e-10 || d_f > 1e-10) {
            if (bad++ < 6) std::printf("construction %d (Yukawa type %d): | |CKM| - |input| | = %.3g, |MW - input| = %.3g, |MZ - input| = %.3g, |fermion masses - input| = %.3g\n", k, type, d_ckm, d_w, d_z, d_f);
         }
      } catch (const gm2calc::Error& e) { std::printf("exception in construction %d type %d: %s\n", k, type, e.what()); }
   }
   std::printf("%d of 24 constructions do not report their own SM inputs\n", bad);
   return bad ? 1 : 0;
}
'''

def history_replay(model, wd):
    from gm2v import native
    import subprocess
    exe = native.build_against_library(wd, HISTORY_REPLAY)
    r = subprocess.run([exe], capture_output=True, text=True, timeout=300)
    return r.returncode == 1, r.stdout.strip()[-1500:]

from contracts.shared import reregister as _rr
from contracts import c19 as _c19, c09 as _c09
_rr('C08', 'C19', 'C19.no_stateful_local_statics', 'C08.lemma.no_state_between_constructions', replay=history_replay)
_rr('C08', 'C09', 'C09.constructor.Gauge_basis', 'C08.lemma.constructor.Gauge_basis')
_rr('C08', 'C09', 'C09.constructor.Mass_basis', 'C08.lemma.constructor.Mass_basis')

# the general THDM "reproduces the inputs it was constructed from" only if init_yukawas leaves the input Pi_f alone: C09's frame contract is a lemma of C08
from contracts.shared import reregister as _rr_c08b
from contracts import c09 as _c09_c08b
_rr_c08b('C08', 'C09', 'C09.init_yukawas.frame', 'C08.lemma.init_yukawas.frame')

# 1x1 sectors of the THDM (gauge bosons): stored mass = sqrt(|m^2|) >= 0 on every path
def _make_thdm_scalar_sector(nm, field):
    @obligation('C08.scalar_sector.%s' % nm, fns=[(ME, 'THDM_mass_eigenstates::calculate_M' + nm)])
    def ob(ctx, nm=nm, field=field):
        """ensures for ANY value m2 of the 1x1 mass matrix: the stored mass M satisfies M >= 0 and M^2 == |m2|"""
        x = ctx.real('m2')
        it = Interp(ctx.w, mode='sym')
        it.stubs['THDM_mass_eigenstates::get_mass_matrix_' + nm] = lambda i, ar, t: x
        m = it.new_object('THDM')
        paths = it.run_paths(lambda: (it.call('calculate_M' + nm, [], this=m), m.f[field])[1])
        ctx.merge_rules(it)
        absx = z3.If(x >= 0, x, -x)
        for k, (sym, ms, exc) in enumerate(paths):
            ctx.prove('path%d.mass' % k, sym.pc + sym.axioms, z3.And(z3real(ms) >= 0, z3real(ms) * z3real(ms) == absx), check_vacuity=False, tactics=('nlsat', 'default'),
                      pins=[{'m2': -2165}, {'m2': 2165}, {'m2': 0}])
        ctx.record('paths', PROVED if paths else ERROR, 'B', 0, '%d path(s)' % len(paths))
    return ob
for _nm, _field in (('VZ', 'MVZ'), ('VWm', 'MVWm')):
    _make_thdm_scalar_sector(_nm, _field)

# the THDM Higgs sectors: what reaches the eigen-solver is the mass matrix itself, entry by entry, on every path
from contracts.shared import make_solver_input as _msi_c08
for _nm in ('hh', 'Ah', 'Hm'):
    _msi_c08(_nm, 'fs_diagonalize_hermitian', 2, 'C08', 'THDM_mass_eigenstates', ME, 'THDM')
