"""C01 (continued) -- the Barr-Zee one-variable functions f_PS, f_S, f_sferm, f_CSl, F1, F1~, F2, F3 equal their published definitions.

Specification (never taken from the C++):
  f_PS(z)   = Re[ 2z/y ( Li2(1 - (1-y)/(2z)) - Li2(1 - (1+y)/(2z)) ) ],  y = sqrt(1 - 4z)      hep-ph/0609168 (70), math/ffunctions.m
            = int_0^1 dx  z/(x(1-x) - z)  ln(x(1-x)/z)                                          (Barr-Zee integral; guard: both agree, mpmath)
  f_S(z)    = (2z - 1) f_PS(z) - 2z (2 + ln z)                                                  hep-ph/0609168 (71)
  f_sferm(z)= z/2 (2 + ln z - f_PS(z))                                                          hep-ph/0609168 (72)
  f_CSl(z)  = z [ z + z (z - 1)(Li2(1 - 1/z) - pi^2/6) + (z - 1/2) ln z ]                       1607.06292 (60), times z
  F1(w)     = (w - 1/2) f_PS(w) - w (2 + ln w),   F1~(w) = f_PS(w)/2,
  F2(w)     = 1 + (ln w - f_PS(w))/2,             F3(w)  = (1/2 + 15 w/2)(2 + ln w) + (17/4 - 15 w/2) f_PS(w)      1502.04199 (25)-(28)
              (guard: these closed forms agree with the integral representations of 1502.04199, mpmath quadrature)

Facts about the special functions used as axioms (A-SPECFN), each checked numerically against mpmath on every run:
  inversion  Li2(-q) + Li2(-1/q) = -pi^2/6 - ln^2(q)/2                 (q > 0)
  reflection Re Li2(1+q) + Li2(-q) = pi^2/6 - ln(1+q) ln(q)            (q > 0)
  Clausen    Li2(e^{i t}) - Li2(e^{-i t}) = 2 i Cl2(t)
  small z    |f_PS(z) - z (pi^2/3 + ln^2 z)| <= 3 z^2 (1 + ln^2 z)     (0 < z <= 1e-3)
  large z    f_PS(z) = sum_{k<=K} z^-k B_k (ln z - 2 (H_k - H_{2k+1})) + theta (4z)^-(K+1) (ln z + 10/9)/(1 - 1/(4 Z0)),  |theta| <= 1,  z >= Z0 >= 1
             with B_k = (k!)^2/(2k+1)!  (term-by-term integration of the Barr-Zee integral; tail: x(1-x) <= 1/4)
"""
from fractions import Fraction as Fr
import math
import z3
from gm2v.ob import obligation, PROVED, FAILED, UNDECIDED, ERROR, smt_check
from gm2v.interp import Interp
from gm2v.values import to_z3, z3real, is_sym
from gm2v import specs, ring, numeval
from gm2v.specs import ln, Li2, Cl2, Q

FF = 'src/gm2_ffunctions.cpp'
DL = 'src/gm2_dilog.cpp'
PI = z3.Real('c_PI')
fPS = specs.UF('fPS')

# ---- standard interpretation of fPS for numeric refutation ----
def _fps_num(z):
    import mpmath as mp
    z = mp.mpf(z)
    if z == 0:
        return mp.mpf(0)
    if z == mp.mpf(1) / 4:
        return 2 * mp.log(2)
    y = mp.sqrt(1 - 4 * z)
    return mp.re(2 * z / y * (mp.polylog(2, 1 - (1 - y) / (2 * z)) - mp.polylog(2, 1 - (1 + y) / (2 * z))))
EXTRA_UFS = {'fPS': _fps_num}

def _guard_specs():
    """the closed forms of the module docstring against independent representations (mpmath, 30 digits)"""
    import mpmath as mp
    mp.mp.dps = 30
    worst = mp.mpf(0)
    f = _fps_num
    for z in (0.05, 0.2, 0.3, 0.8, 7.0, 150.0):
        z = mp.mpf(z)
        integ = lambda g: mp.quad(lambda x: g(x) / (z - x * (1 - x)) * mp.log(z / (x * (1 - x))), [0, 0.5 - mp.sqrt(max(0, 0.25 - z)), 0.5, 0.5 + mp.sqrt(max(0, 0.25 - z)), 1]) if z > 0.25 else None
        if z > 0.25:
            worst = max(worst, abs(f(z) - integ(lambda x: z)))                                                     # Barr-Zee integral
            worst = max(worst, abs(((z - mp.mpf(1) / 2) * f(z) - z * (2 + mp.log(z))) - z / 2 * integ(lambda x: 2 * x * (1 - x) - 1) / 1))   # F1
            worst = max(worst, abs((1 + (mp.log(z) - f(z)) / 2) - mp.mpf(1) / 2 * integ(lambda x: x * (x - 1))))   # F2
            worst = max(worst, abs(((mp.mpf(1) / 2 + 15 * z / 2) * (2 + mp.log(z)) + (mp.mpf(17) / 4 - 15 * z / 2) * f(z))
                                   - mp.mpf(1) / 2 * integ(lambda x: x * z * (3 * x * (4 * x - 1) + 10) - x * (1 - x))))  # F3
            y = mp.sqrt(4 * z - 1)
            worst = max(worst, abs(f(z) - 4 * z / y * mp.clsin(2, mp.atan2(y, 2 * z - 1))))                          # Clausen form
        else:
            y = mp.sqrt(1 - 4 * z)
            q = (1 + y) / (1 - y)
            worst = max(worst, abs(mp.polylog(2, -q) + mp.polylog(2, -1 / q) + mp.pi ** 2 / 6 + mp.log(q) ** 2 / 2))
            worst = max(worst, abs(mp.re(mp.polylog(2, 1 + q)) + mp.polylog(2, -q) - mp.pi ** 2 / 6 + mp.log(1 + q) * mp.log(q)))
    for z in (1e-3, 1e-5, 1e-9, 1e-16):
        z = mp.mpf(z)
        L = mp.log(z)
        if abs(f(z) - z * (mp.pi ** 2 / 3 + L * L)) > 3 * z * z * (1 + L * L):
            return False, 'small-z enclosure of f_PS violated at %s' % z
    for z0, K in ((100, 6), (25, 8), (1000, 4)):
        for z in (z0, 3 * z0, 1e6):
            z = mp.mpf(z)
            S, R = fps_large_terms(K, Fr(z0))
            L = mp.log(z)
            val = sum(z ** (-k) * (mp.mpf(b.numerator) / b.denominator * L - mp.mpf(a.numerator) / a.denominator) for k, (b, a) in enumerate(S))
            if abs(f(z) - val) > (4 * z) ** (-(K + 1)) * (L + mp.mpf(10) / 9) * (mp.mpf(R.numerator) / R.denominator) + mp.mpf(10) ** -22:
                return False, 'large-z enclosure of f_PS violated at %s' % z
    return worst < mp.mpf(10) ** -20, 'closed forms vs integral/Clausen representations and functional equations: max deviation %s' % mp.nstr(worst, 3)

def _H(n):
    return sum((Fr(1, k) for k in range(1, n + 1)), Fr(0))

def fps_large_terms(K, Z0):
    """[(B_k, A_k)] with f_PS(z) = sum z^-k (B_k ln z - A_k) + theta (4z)^-(K+1) (ln z + 10/9) R,  R = 1/(1 - 1/(4 Z0))"""
    out = []
    for k in range(K + 1):
        B = Fr(math.factorial(k) ** 2, math.factorial(2 * k + 1))
        out.append((B, 2 * B * (_H(k) - _H(2 * k + 1))))
    return out, 1 / (1 - 1 / (4 * Fr(Z0)))

def fps_large_enclosure(z, L, K, Z0, theta):
    """z3 term for f_PS(z) under the large-z enclosure (L stands for ln z)"""
    terms, R = fps_large_terms(K, Z0)
    iz = 1 / z
    s = None
    p = z3.RealVal(1)
    for k, (B, A) in enumerate(terms):
        t = p * (to_z3(B) * L - to_z3(A))
        s = t if s is None else s + t
        p = p * iz
    q = z3.RealVal(1)
    for _ in range(K + 1):
        q = q * iz / 4
    return s + theta * q * (L + Q(10, 9)) * to_z3(R)

# ---- stubs: callee contracts ----
def fps_stub(it, args, this):
    return fPS(z3real(args[0]))
def dilog_stub(it, args, this):
    return Li2(z3real(args[0]))
def cl2_stub(it, args, this):
    return Cl2(z3real(args[0]))

def replay_fn(fn):
    def rep(model, wd):
        from gm2v import native
        import mpmath as mp
        mp.mp.dps = 40
        pts = []
        f = (model or {}).get('_float', {})
        for k in ('z', 'w', 'x'):
            if k in f and float(f[k]) > 0:
                pts.append(float(f[k]))
        for c in (1e-14, 1e-9, 1e-4, 0.1, 0.2499, 0.25, 0.2501, 0.5, 1.0, 3.0, 30.0, 99.0, 100.0, 100.0000001, 101.0, 150.0, 300.0, 650.0, 1e3, 1e4, 99999.0, 1.000001e5, 3e5, 1e6, 1e8, 1e12):
            pts.append(c)
        exe = native.build_scalar_driver(wd, [FF], [DL, 'src/gm2_numerics.cpp'], [(fn, '%s(a[0])' % fn, 1)])
        vals = native.run_scalar_driver(exe, [(fn, [p]) for p in pts])
        worst = (mp.mpf(0), None, None, None)
        for p, v in zip(pts, vals):
            want = DEFS_NUM[fn](mp.mpf(p))
            err = abs(mp.mpf(v) - want) / max(abs(want), mp.mpf(10) ** -300)
            # cancellation in the closed forms (rounding, not covered by the contract) grows like z * 2^-52: allow it
            err = max(mp.mpf(0), err - mp.mpf(p) * mp.mpf(2) ** -45 / max(abs(want), mp.mpf(10) ** -300)) if p > 10 else err
            if err > worst[0]:
                worst = (err, p, v, want)
        return bool(worst[0] > 1e-7), 'worst of %d points: %s(%r) = %r, definition %s, relative error %s (tolerance 1e-7)' % (
            len(pts), fn, worst[1], worst[2], mp.nstr(worst[3], 20) if worst[3] is not None else None, mp.nstr(worst[0], 4))
    return rep

def _num_defs():
    import mpmath as mp
    f = _fps_num
    return {
        'f_PS': lambda z: f(z),
        'f_S': lambda z: (2 * z - 1) * f(z) - 2 * z * (2 + mp.log(z)),
        'f_sferm': lambda z: z / 2 * (2 + mp.log(z) - f(z)),
        'f_CSl': lambda z: z * (z + z * (z - 1) * (mp.re(mp.polylog(2, 1 - 1 / z)) - mp.pi ** 2 / 6) + (z - mp.mpf(1) / 2) * mp.log(z)),
        'F1': lambda w: (w - mp.mpf(1) / 2) * f(w) - w * (2 + mp.log(w)),
        'F1t': lambda w: f(w) / 2,
        'F2': lambda w: 1 + (mp.log(w) - f(w)) / 2,
        'F3': lambda w: (mp.mpf(1) / 2 + 15 * w / 2) * (2 + mp.log(w)) + (mp.mpf(17) / 4 - 15 * w / 2) * f(w),
    }
DEFS_NUM = _num_defs()
DEFS_NUM['FPZ'] = lambda x: -2 * x * (_fps_num(x) + __import__('mpmath').log(x)) / (4 * x - 1)
DEFS_NUM['FSZ'] = lambda x: 2 * x * (1 - 4 * x + 2 * x * _fps_num(x) + (1 - 2 * x) * __import__('mpmath').log(x)) / (4 * x - 1)

# definitions as z3 terms over (z, ln z, fPS(z), Li2)
DEFS = {
    'f_S': lambda z: (2 * z - 1) * fPS(z) - 2 * z * (2 + ln(z)),
    'f_sferm': lambda z: z / 2 * (2 + ln(z) - fPS(z)),
    'f_CSl': lambda z: z * (z + z * (z - 1) * (Li2(1 - 1 / z) - PI * PI / 6) + (z - Q(1, 2)) * ln(z)),
    'F1': lambda w: (w - Q(1, 2)) * fPS(w) - w * (2 + ln(w)),
    'F1t': lambda w: fPS(w) / 2,
    'F2': lambda w: 1 + (ln(w) - fPS(w)) / 2,
    'F3': lambda w: (Q(1, 2) + Q(15, 2) * w) * (2 + ln(w)) + (Q(17, 4) - Q(15, 2) * w) * fPS(w),
}
# special points where the code may return a documented constant (value of the definition there)
POINT_VALUES = {
    'F1': {Fr(1, 4): lambda: z3.RealVal(-1) / 2}, 'F2': {Fr(1, 4): lambda: 1 - ln(z3.RealVal(4))}, 'F3': {Fr(1, 4): lambda: Q(19, 4)},
}

def _subst_ln(t, z, L):
    """replace ln(z) by the variable L (and ln of rational constants stays uninterpreted)"""
    return z3.substitute(t, (ln(z), L))

def prove_path_against_def(ctx, tag, fn, z, pc, axioms, ret, dfn, pre):
    """ret == dfn as an identity, or (expansion path) within 1e-7 of it under the enclosures of f_PS"""
    try:
        if ring.identity(z3real(ret), dfn):
            ctx.record(tag + '.definition', PROVED, 'B', 0, 'identical to the published definition', solver='ring normalisation (sympy)')
            return
    except ring.NotRing:
        pass
    # expansion path: decide which enclosure applies from the path condition
    L, th = z3.Real('ln_z'), z3.Real('theta')
    assum = list(pre) + list(pc)
    encl = None
    for Z0 in (10**5, 10**4, 10**3, 100, 25):
        if smt_check(assum + [z < Z0], [], 3000)[0] == 'unsat':
            encl = ('large', Z0)
            break
    if encl is None and smt_check(assum + [z > Q(1, 1000)], [], 3000)[0] == 'unsat':
        encl = ('small', None)
    if encl is None:
        _refute_or_undecided(ctx, tag, fn, z, assum, ret, dfn, 'the path is neither the definition itself nor inside the range of a documented expansion of f_PS (z >= 25 or z <= 1e-3)')
        return
    if encl[0] == 'large':
        Z0 = encl[1]
        K = 8
        fps_term = fps_large_enclosure(z, L, K, Z0, th)
        lnlo = Fr(int(math.floor(math.log(Z0) * 1e6)), 10**6)
        box = [th <= 1, th >= -1, L >= to_z3(lnlo), L <= 28]
        ctx.assume_note('A-SPECFN: large-z enclosure of f_PS (module docstring), K = 8, ln z as a free variable in [ln Z0, 28]')
    else:
        fps_term = z * (PI * PI / 3 + L * L) + th * 3 * z * z * (1 + L * L)
        box = [th <= 1, th >= -1, L <= Q(-69, 10)]
        ctx.assume_note('A-SPECFN: small-z enclosure of f_PS (module docstring)')
    r = z3.substitute(_subst_ln(z3real(ret), z, L), (fPS(z), fps_term))
    d = z3.substitute(_subst_ln(dfn, z, L), (fPS(z), fps_term))
    if encl[0] == 'large' and 'Li2' in str(d):
        # Li2(1 - u), u = 1/z <= 1/Z0: reflection Li2(1-u) = pi^2/6 - ln(u) ln(1-u) - Li2(u) with ln u = -ln z, ln(1-u) = -sum u^k/k, Li2(u) = sum u^k/k^2; tails bounded by the
        # geometric series: |sum_{k>K} u^k/k| <= u^(K+1)/((K+1)(1-1/Z0)), |sum_{k>K} u^k/k^2| <= u^(K+1)/((K+1)^2 (1-1/Z0))
        th1, th2 = z3.Real('theta_1'), z3.Real('theta_2')
        KK = 8
        u = 1 / z
        R = to_z3(1 / (1 - Fr(1, Z0)))
        S1 = sum((u ** k) / k for k in range(1, KK + 1)) + th1 * (u ** (KK + 1)) / (KK + 1) * R
        S2 = sum((u ** k) / (k * k) for k in range(1, KK + 1)) + th2 * (u ** (KK + 1)) / ((KK + 1) ** 2) * R
        li_term = PI * PI / 6 - L * S1 - S2
        d = z3.substitute(d, (Li2(1 - 1 / z), li_term))
        r = z3.substitute(r, (Li2(1 - 1 / z), li_term))
        box = box + [th1 >= 0, th1 <= 1, th2 >= 0, th2 <= 1]
        ctx.assume_note('A-SPECFN: Li2(1-u) = pi^2/6 - ln(u) ln(1-u) - Li2(u) with the power series of ln(1-u) and Li2(u) truncated at u^8 and geometric tail bounds (u = 1/z <= 1/%d)' % Z0)
    if 'fPS' in str(r) or 'ln(' in str(r).replace('ln(2)', '').replace('ln(4)', '') or 'Li2' in str(r):
        _refute_or_undecided(ctx, tag, fn, z, assum, ret, dfn, 'expansion path with special-function atoms other than ln z and f_PS(z)')
        return
    tol = Q(1, 10**7)
    claim = specs.absz(r - d) <= tol * specs.absz(d)
    st, mdl, solver, secs = smt_check(assum + box + list(axioms), [z3.Not(claim)], ctx.timeout_ms, {'z': z}, tactics=('nlsat', 'default'))
    if st == 'unsat':
        ctx.record(tag + '.expansion_within_1e-7', PROVED, 'B', secs, 'within 1e-7 of the definition on the whole window (%s-z enclosure of f_PS)' % encl[0], solver=solver, kind='post')
        return
    _refute_or_undecided(ctx, tag, fn, z, assum, ret, dfn, 'solver answered %s for the expansion window' % st, hint=mdl)

def _refute_or_undecided(ctx, tag, fn, z, assum, ret, dfn, why, hint=None):
    """numeric refutation under the standard interpretation (mpmath) at the solver's point and on a sweep of the path's range"""
    import mpmath as mp
    cands = []
    if hint and 'z' in hint:
        cands.append(Fr(hint['z']))
    cands += [Fr(10) ** k * m for k in range(-14, 13) for m in (1, Fr(101, 100), 2, 5)]
    cands += [Fr(1, 4) + Fr(s, 10**k) for k in (2, 4, 8) for s in (1, -1)]
    name = str(z)
    for c in cands:
        env = {name: c}
        try:
            if not all(numeval.evb(a, env, EXTRA_UFS) for a in assum):
                continue
            got = numeval.ev(z3real(ret), env, EXTRA_UFS)
            want = numeval.ev(dfn, env, EXTRA_UFS)
        except (numeval.CannotEval, numeval.Margin):
            continue
        if abs(got - want) > mp.mpf(10) ** -7 * abs(want) + mp.mpf(10) ** -30:
            ctx.record(tag + '.definition', FAILED, 'B', 0, '%s; at %s = %s the path returns %s, the definition is %s (relative error %s)' % (
                why, name, mp.nstr(mp.mpf(c.numerator) / c.denominator, 12), mp.nstr(got, 15), mp.nstr(want, 15), mp.nstr(abs(got - want) / abs(want), 3)),
                model={'_float': {name: float(c)}}, solver='numeric evaluation (mpmath, 40 digits) of the extracted path')
            return
    ctx.record(tag + '.definition', UNDECIDED, 'B', 0, why + '; no refuting point found')

def make_def(fn, par):
    def ob(ctx, fn=fn, par=par):
        """ensures for all %s in [1e-14, 1e12], on every path: the result IS the published definition in terms of f_PS, ln, Li2 (callee contracts: f_PS == its
        definition, dilog == Li2), or -- on an expansion path -- lies within 1e-7 of it on the whole window (enclosures of f_PS, A-SPECFN); where a
        documented constant is returned at a special point it is the value of the definition there"""
        z = ctx.real(par)
        pre = [z >= Q(1, 10**14), z <= 10**12]
        it = Interp(ctx.w, mode='sym', assumptions=pre, stubs={'f_PS': fps_stub, 'dilog': dilog_stub, 'clausen_2': cl2_stub})
        ps = it.run_paths(lambda: it.call(fn, [z], file=FF))
        ctx.merge_rules(it)
        ctx.assume_note('callee contracts: f_PS(z) == fPS(z) (C01.f_PS.def), dilog(t) == Li2(t) (C01.dilog_real.*)')
        if not ps:
            ctx.record('paths', ERROR, 'B', 0, 'no feasible path')
        dfn = DEFS[fn](z)
        for k, (s, r, e) in enumerate(ps):
            tag = 'path%d@L%d' % (k, getattr(s, 'ret_line', 0))
            if e is not None or r is None:
                ctx.record(tag, FAILED, 'B', 0, 'path ends without a value: %s' % (e,))
                continue
            pt = None
            for val, want in POINT_VALUES.get(fn, {}).items():
                if smt_check(pre + list(s.pc) + [z != to_z3(val)], [], 3000)[0] == 'unsat':
                    pt = (val, want)
            if pt is not None:
                val, want = pt
                # value of the definition at the point, with f_PS(1/4) = 2 ln 2 (documented), ln 4 = 2 ln 2, ln(1/4) = -2 ln 2
                l2 = ln(z3.RealVal(2))
                subs = [(fPS(z3.RealVal(val)), 2 * l2), (ln(z3.RealVal(val)), -2 * l2), (ln(z3.RealVal(4)), 2 * l2)]
                dv = z3.substitute(z3.substitute(dfn, (z, z3.RealVal(val))), *subs)
                rv = z3.substitute(z3real(r) if is_sym(r) else to_z3(r), *subs)
                wv = z3.substitute(want(), *subs)
                try:
                    ok_ring = ring.identity(rv, dv) and ring.identity(wv, dv)
                except ring.NotRing:
                    ok_ring = False
                if ok_ring:
                    ctx.record('%s.value_at_%s' % (tag, val), PROVED, 'B', 0, 'the constant returned is the value of the definition', solver='ring normalisation (sympy)')
                else:
                    # a decimal literal of an irrational value (A-CONST): equal to the definition's value to 1e-15
                    import mpmath as mp
                    g, d_, w_ = (numeval.ev(t, {}, EXTRA_UFS) for t in (rv, dv, wv))
                    okn = abs(g - d_) <= mp.mpf(10) ** -15 * max(1, abs(d_)) and abs(w_ - d_) <= mp.mpf(10) ** -15 * max(1, abs(d_))
                    ctx.record('%s.value_at_%s' % (tag, val), PROVED if okn else FAILED, 'B', 0,
                               'the constant returned, %s, vs the value of the definition %s (A-CONST: decimal literal of an irrational number, tolerance 1e-15)' % (mp.nstr(g, 18), mp.nstr(d_, 18)),
                               model=None if okn else {'_float': {str(z): float(val)}}, solver='numeric evaluation (mpmath, 40 digits)')
                continue
            prove_path_against_def(ctx, tag, fn, z, list(s.pc), list(s.axioms), r, dfn, pre)
            ctx.sides(tag, s, pre)
    ob.__doc__ = ob.__doc__ % par
    return obligation('C01.%s.def' % fn, fns=[(FF, fn)], replay=replay_fn(fn))(ob)

for _fn, _par in (('f_S', 'z'), ('f_sferm', 'z'), ('f_CSl', 'z'), ('F1', 'w'), ('F1t', 'w'), ('F2', 'w'), ('F3', 'w')):
    make_def(_fn, _par)

# ---------------------------------------------------------------------------------------------------------------------------------------------------
@obligation('C01.f_PS.def', fns=[(FF, 'f_PS')], replay=replay_fn('f_PS'))
def _(ctx):
    """ensures for all z in [1e-14, 1e12], on every path, result == the published f_PS(z):
    0 < z < 1/4 : the code's closed form equals 2z/y (Li2(1 - (1-y)/(2z)) - Li2(1 - (1+y)/(2z))), y = sqrt(1-4z), by the inversion and reflection formulas of
                  Li2 and the laws of the logarithm (A-SPECFN), as a polynomial identity in (y, Li2(-q), ln(1-y), ln(1+y), ln 2, pi), q = (1+y)/(1-y);
    z > 1/4     : result == 4z/y' Cl2(theta), y' = sqrt(4z-1), with (cos theta, sin theta) = ((2z-1), y')/(2z): the definition with 1 - (1 -+ i y')/(2z) = e^{+- i theta};
    z == 1/4    : 2 ln 2;  tiny z (expansion): within 1e-7 of the definition by the small-z enclosure."""
    ok, msg = _guard_specs()
    ctx.record('spec_vs_mpmath', PROVED if ok else ERROR, 'B', 0, 'transcription guard: ' + msg, solver='mpmath 30 digits')
    import sympy
    z = ctx.real('z')
    pre = [z >= Q(1, 10**300), z <= 10**12]      # below the property's range too, so that the tiny-z expansion is covered
    it = Interp(ctx.w, mode='sym', assumptions=pre, stubs={'dilog': dilog_stub, 'clausen_2': cl2_stub})
    ps = it.run_paths(lambda: it.call('f_PS', [z], file=FF))
    ctx.merge_rules(it)
    ctx.assume_note('A-SPECFN: inversion/reflection of Li2, Li2(e^{it}) - Li2(e^{-it}) = 2i Cl2(t), small-z enclosure of f_PS (module docstring of contracts/c01_fps.py)')
    seen = set()
    for k, (s, r, e) in enumerate(ps):
        tag = 'path%d@L%d' % (k, getattr(s, 'ret_line', 0))
        if e is not None or r is None:
            ctx.record(tag, FAILED, 'B', 0, 'path ends without a value: %s' % (e,))
            continue
        pc = list(s.pc)
        mdl = smt_check(pre + pc, [], 3000, {'z': z})[1]
        mfl = {'_float': {'z': float(mdl['z'])}} if mdl and 'z' in mdl else None
        if smt_check(pre + pc + [z != Q(1, 4)], [], 3000)[0] == 'unsat':
            seen.add('quarter')
            l2 = ln(z3.RealVal(2))
            ctx.prove_ring(tag + '.value_at_1/4', [(z3.substitute(z3real(r), (ln(z3.RealVal(4)), 2 * l2)), 2 * l2)])
            continue
        below = smt_check(pre + pc + [z >= Q(1, 4)], [], 3000)[0] == 'unsat'
        above = smt_check(pre + pc + [z <= Q(1, 4)], [], 3000)[0] == 'unsat'
        rs = ring.to_sympy(z3real(r), {})
        zs = sympy.Symbol('z')
        if above:
            seen.add('above')
            # result == 4 z / y' * Cl2(atan2(y', 2z - 1)) with y' = sqrt(4z - 1): structural identity in the atoms sqrt, atan2, Cl2
            yp = sympy.Function('sqrt')(sympy.cancel(4 * zs - 1))
            want = 4 * zs / yp * sympy.Function('Cl2')(sympy.Function('atan2')(yp, sympy.cancel(2 * zs - 1)))
            diff = sympy.simplify(sympy.together(rs - want))
            okp = diff == 0
            ctx.record(tag + '.clausen_form', PROVED if okp else FAILED, 'B', 0,
                       'result == 4z/y\' Cl2(atan2(y\', 2z-1)), y\' = sqrt(4z-1)' if okp else 'result differs from 4z/y\' Cl2(atan2(y\', 2z-1)): %s' % str(diff)[:200],
                       model=None if okp else mfl, solver='ring normalisation (sympy)')
            ctx.sides(tag, s, pre)
            continue
        if below:
            # tiny-z expansion or the closed form
            if 'Li2' not in str(r):
                seen.add('tiny')
                prove_path_against_def(ctx, tag, 'f_PS', z, pc, list(s.axioms), r, fPS(z), pre)
                continue
            seen.add('below')
            y = sympy.Symbol('y', positive=True)
            a, b, l2, B, pi = sympy.symbols('ln1my ln1py ln2 Li2mq c_PI')
            q = (1 + y) / (1 - y)
            zy = (1 - y ** 2) / 4
            # atoms of the code's expression, recognised by the value of their argument as a function of y
            def norm(arg):
                return sympy.cancel(sympy.together(arg.subs(sympy.Function('sqrt')(sympy.cancel(1 - 4 * zs)), y).subs(zs, zy)))
            repl = {}
            bad = None
            for atom in rs.atoms(sympy.core.function.AppliedUndef):
                nm = atom.func.__name__
                if nm == 'sqrt':
                    if sympy.cancel(atom.args[0] - (1 - 4 * zs)) == 0:
                        repl[atom] = y
                    else:
                        bad = 'square root of %s' % atom.args[0]
            rs1 = rs.xreplace(repl)
            for atom in rs1.atoms(sympy.core.function.AppliedUndef):
                nm = atom.func.__name__
                arg = sympy.cancel(sympy.together(atom.args[0].xreplace(repl).subs(zs, zy)))
                if nm == 'ln':
                    if sympy.cancel(arg - q) == 0:
                        repl[atom] = b - a
                    elif sympy.cancel(arg - zy) == 0:
                        repl[atom] = a + b - 2 * l2
                    elif sympy.cancel(arg - (1 + q)) == 0:
                        repl[atom] = l2 - a
                    elif sympy.cancel(arg - 1 / q) == 0:
                        repl[atom] = a - b
                    else:
                        bad = 'logarithm of %s' % arg
                elif nm == 'Li2':
                    if sympy.cancel(arg - (1 + q)) == 0:
                        repl[atom] = pi ** 2 / 6 - B - (l2 - a) * (b - a)            # reflection
                    elif sympy.cancel(arg + q) == 0:
                        repl[atom] = B
                    elif sympy.cancel(arg + 1 / q) == 0:
                        repl[atom] = -B - pi ** 2 / 6 - (b - a) ** 2 / 2              # inversion
                    else:
                        bad = 'dilogarithm of %s' % arg
                elif nm != 'sqrt':
                    bad = 'atom %s' % atom
            if bad:
                ctx.record(tag + '.closed_form', FAILED, 'B', 0, 'the closed form contains an atom outside the documented derivation: ' + bad, model=mfl)
                continue
            code = rs.xreplace(repl).subs(zs, zy)
            code = code.xreplace(repl)
            # the definition: 2z/y (Li2(-1/q) - Li2(-q)), after  1 - (1-+y)/(2z) = -1/q, -q  (checked here as identities in y)
            l1 = sympy.cancel(1 - (1 - y) / (2 * zy) + 1 / q)
            l2_ = sympy.cancel(1 - (1 + y) / (2 * zy) + q)
            spec = 2 * zy / y * ((-B - pi ** 2 / 6 - (b - a) ** 2 / 2) - B)
            d = sympy.expand(sympy.together(code - spec).as_numer_denom()[0])
            okp = (d == 0 and l1 == 0 and l2_ == 0)
            ctx.record(tag + '.closed_form', PROVED if okp else FAILED, 'B', 0,
                       'code == 2z/y (Li2(-1/q) - Li2(-q)) == published f_PS, identity in (y, Li2(-q), ln(1-y), ln(1+y), ln 2, pi)' if okp else
                       'the closed form differs from the published f_PS: numerator of the difference %s' % str(d)[:300], model=None if okp else mfl,
                       solver='ring normalisation (sympy) with the functional equations substituted')
            # q > 1 and the arguments are inside the domains
            ctx.sides(tag, s, pre)
            continue
        ctx.record(tag + '.range', FAILED, 'B', 0, 'a path straddles z = 1/4: %s' % pc, model=mfl)
    ctx.record('paths', PROVED if {'below', 'above'} <= seen else FAILED, 'B', 0, 'regimes reached: %s' % sorted(seen))
