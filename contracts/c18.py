"""C18 -- uncertainty estimates are finite, non-negative and ordered as documented.

All clauses are IEEE-754 postconditions (back end A, CBMC code contracts) on the ten real functions of
src/MSSMNoFV/gm2_uncertainty.cpp and src/THDM/gm2_uncertainty.cpp.  Callees that take the (const) model
are represented by ghost constants: the value the pure callee returns on the unchanged model.
"""
from gm2v.ob import obligation, cbmc_contract, replay_cbmc_scalar, PROVED, FAILED, ERROR
from gm2v.world import strip_ns

MU = 'src/MSSMNoFV/gm2_uncertainty.cpp'
TU = 'src/THDM/gm2_uncertainty.cpp'
R = '__CPROVER_return_value'
FIN = lambda v: '(!isnan(%s) && !isinf(%s))' % (v, v)
G = lambda n: 'gm2v_ghost_' + n
GHOSTS = ('calculate_amu_1loop', 'calculate_amu_2loop', 'amu2LaCha', 'amu2LaSferm')

def nparams(n, cls):
    return lambda fd: len(fd.params) == n and strip_ns(fd.params[0].type.name) == cls

# ---------------- MSSM ----------------
@obligation('C18.mssm.0loop_given', fns=[(MU, 'calculate_uncertainty_amu_0loop')], backend='A')
def _(ctx):
    """0L uncertainty (a1L given) == |a1L|; finite and >= 0 for finite a1L; empty frame"""
    cbmc_contract(ctx, '', 'calculate_uncertainty_amu_0loop', MU,
                  ['__CPROVER_requires(%s)' % FIN('amu_1L'),
                   '__CPROVER_ensures(%s == __CPROVER_fabs(amu_1L))' % R,
                   '__CPROVER_ensures(%s >= 0.0 && %s)' % (R, FIN(R)), '__CPROVER_assigns()'],
                  pick=nparams(2, 'MSSMNoFV_onshell'), ghosts=GHOSTS)

@obligation('C18.mssm.0loop', fns=[(MU, 'calculate_uncertainty_amu_0loop')], backend='A')
def _(ctx):
    """0L uncertainty (computing overload) == |calculate_amu_1loop(model)| == result of the overload that is given a1L"""
    a1 = G('calculate_amu_1loop')
    cbmc_contract(ctx, '', 'calculate_uncertainty_amu_0loop', MU,
                  ['__CPROVER_requires(%s)' % FIN(a1),
                   '__CPROVER_ensures(%s == __CPROVER_fabs(%s))' % (R, a1),
                   '__CPROVER_ensures(%s >= 0.0 && %s)' % (R, FIN(R)), '__CPROVER_assigns()'],
                  pick=nparams(1, 'MSSMNoFV_onshell'), ghosts=GHOSTS)

@obligation('C18.mssm.2loop', fns=[(MU, 'calculate_uncertainty_amu_2loop')], backend='A')
def _(ctx):
    """2L uncertainty >= 2.3e-10 and finite (IEEE); the formula itself is C18.mssm.2loop_formula (B: SAT cannot do multiplier equivalence)"""
    c, s = G('amu2LaCha'), G('amu2LaSferm')
    ab = lambda v: '__CPROVER_fabs(%s)' % v
    cbmc_contract(ctx, '', 'calculate_uncertainty_amu_2loop', MU,
                  ['__CPROVER_requires(%s && %s && %s <= 1e100 && %s >= -1e100 && %s <= 1e100 && %s >= -1e100)' % (FIN(c), FIN(s), c, c, s, s),
                   '__CPROVER_ensures(%s >= 2.3e-10 && %s)' % (R, FIN(R)),
                   '__CPROVER_assigns()'],
                  pick=nparams(1, 'MSSMNoFV_onshell'), ghosts=GHOSTS)

CALLEE_2L_MSSM = {'calculate_uncertainty_amu_2loop': ['__CPROVER_requires(1)',
                  '__CPROVER_ensures(%s >= 2.3e-10 && %s && %s == gm2v_d2L)' % (R, FIN(R), R), '__CPROVER_assigns()']}

@obligation('C18.mssm.1loop_given', fns=[(MU, 'calculate_uncertainty_amu_1loop')], backend='A')
def _(ctx):
    """1L uncertainty (a2L given) == |a2L| + delta2L where delta2L = calculate_uncertainty_amu_2loop(model) >= 2.3e-10 (callee contract)"""
    ab = lambda v: '__CPROVER_fabs(%s)' % v
    cbmc_contract(ctx, '', 'calculate_uncertainty_amu_1loop', MU,
                  ['__CPROVER_requires(%s && amu_2L <= 1e100 && amu_2L >= -1e100 && gm2v_d2L <= 1e100)' % FIN('amu_2L'),
                   '__CPROVER_ensures(%s == %s + gm2v_d2L)' % (R, ab('amu_2L')),
                   '__CPROVER_ensures(%s >= 2.3e-10 && %s)' % (R, FIN(R)), '__CPROVER_assigns()'],
                  pick=nparams(2, 'MSSMNoFV_onshell'), ghosts=GHOSTS, callee_contracts=CALLEE_2L_MSSM, harness_extra='double gm2v_d2L;')

@obligation('C18.mssm.1loop', fns=[(MU, 'calculate_uncertainty_amu_1loop')], backend='A')
def _(ctx):
    """1L uncertainty (computing overload) == |calculate_amu_2loop(model)| + delta2L"""
    a2 = G('calculate_amu_2loop')
    ab = lambda v: '__CPROVER_fabs(%s)' % v
    cbmc_contract(ctx, '', 'calculate_uncertainty_amu_1loop', MU,
                  ['__CPROVER_requires(%s && %s <= 1e100 && %s >= -1e100 && gm2v_d2L <= 1e100)' % (FIN(a2), a2, a2),
                   '__CPROVER_ensures(%s == %s + gm2v_d2L)' % (R, ab(a2)),
                   '__CPROVER_ensures(%s >= 2.3e-10 && %s)' % (R, FIN(R)), '__CPROVER_assigns()'],
                  pick=nparams(1, 'MSSMNoFV_onshell'), ghosts=GHOSTS, callee_contracts=CALLEE_2L_MSSM, harness_extra='double gm2v_d2L;')

# ---------------- THDM ----------------
TH_PRE = ('(%s && %s && amu_1L <= 1e100 && amu_1L >= -1e100 && amu_2L <= 1e100 && amu_2L >= -1e100)' % (FIN('amu_1L'), FIN('amu_2L')))
MODEL_PRE = ('(gm2v_ghost_get_alpha_em > 0.0 && gm2v_ghost_get_alpha_em <= 1.0 && gm2v_ghost_get_MFe_1 >= 1e-6 && gm2v_ghost_get_MFe_1 <= 1e3'
             ' && gm2v_ghost_get_Mhh_1 >= 1e-3 && gm2v_ghost_get_Mhh_1 <= 1e8 && gm2v_ghost_get_MAh_1 >= 1e-3 && gm2v_ghost_get_MAh_1 <= 1e8'
             ' && gm2v_ghost_get_MHm_1 >= 1e-3 && gm2v_ghost_get_MHm_1 <= 1e8)')

@obligation('C18.thdm.0loop_given', fns=[(TU, 'calculate_uncertainty_amu_0loop')], backend='A')
def _(ctx):
    """0L uncertainty == |a1L| + |a2L| (documented sum of magnitudes), finite, >= 0"""
    ab = lambda v: '__CPROVER_fabs(%s)' % v
    cbmc_contract(ctx, '', 'calculate_uncertainty_amu_0loop', TU,
                  ['__CPROVER_requires(%s)' % TH_PRE,
                   '__CPROVER_ensures(%s == %s + %s)' % (R, ab('amu_1L'), ab('amu_2L')),
                   '__CPROVER_ensures(%s >= 0.0 && %s)' % (R, FIN(R)), '__CPROVER_assigns()'],
                  pick=nparams(3, 'THDM'), ghosts=GHOSTS)

@obligation('C18.thdm.2loop_given', fns=[(TU, 'calculate_uncertainty_amu_2loop')], backend='A')
def _(ctx):
    """2L uncertainty >= 2e-12 and finite for finite a1L, a2L and an accepted model (positive finite masses, 0<alpha<=1)"""
    cbmc_contract(ctx, '', 'calculate_uncertainty_amu_2loop', TU,
                  ['__CPROVER_requires(%s && %s)' % (TH_PRE, MODEL_PRE),
                   '__CPROVER_ensures(%s >= 2e-12 && %s)' % (R, FIN(R)), '__CPROVER_assigns()'],
                  pick=nparams(3, 'THDM'), ghosts=GHOSTS)

CALLEE_2L_THDM = {'calculate_uncertainty_amu_2loop': ['__CPROVER_requires(1)',
                  '__CPROVER_ensures(%s >= 2e-12 && %s && %s == gm2v_d2L)' % (R, FIN(R), R), '__CPROVER_assigns()']}

@obligation('C18.thdm.1loop_given', fns=[(TU, 'calculate_uncertainty_amu_1loop')], backend='A')
def _(ctx):
    """1L uncertainty == |a2L| + delta2L(model, a1L, a2L), >= 2e-12, finite"""
    ab = lambda v: '__CPROVER_fabs(%s)' % v
    cbmc_contract(ctx, '', 'calculate_uncertainty_amu_1loop', TU,
                  ['__CPROVER_requires(%s && gm2v_d2L <= 1e100)' % TH_PRE,
                   '__CPROVER_ensures(%s == %s + gm2v_d2L)' % (R, ab('amu_2L')),
                   '__CPROVER_ensures(%s >= 2e-12 && %s)' % (R, FIN(R)), '__CPROVER_assigns()'],
                  pick=nparams(3, 'THDM'), ghosts=GHOSTS, callee_contracts=CALLEE_2L_THDM, harness_extra='double gm2v_d2L;')

# ---------------- formulas (back end B; IEEE multiplier equivalence is out of SAT's reach: measured 60 s timeout) -------------
import z3
from fractions import Fraction as Fr
from gm2v.interp import Interp
from gm2v.values import z3real
from gm2v.specs import absz, ln

@obligation('C18.mssm.2loop_formula', fns=[(MU, 'calculate_uncertainty_amu_2loop')], backend='B')
def _(ctx):
    """result == 2.3e-10 + 0.3 (|amu2LaCha(model)| + |amu2LaSferm(model)|)  (Eq.(4) of the uncertainty estimate)"""
    c, s = ctx.real('amu2LaCha'), ctx.real('amu2LaSferm')
    it = Interp(ctx.w, mode='sym', stubs={'amu2LaCha': lambda i, a, t: c, 'amu2LaSferm': lambda i, a, t: s})
    m = it.new_object('MSSMNoFV_onshell')
    paths = it.run_paths(lambda: it.call('calculate_uncertainty_amu_2loop', [m], file=MU))
    ctx.merge_rules(it)
    for k, (sym, ret, exc) in enumerate(paths):
        ctx.prove('path%d' % k, sym.pc + sym.axioms, z3real(ret) == z3.Q(23, 10**11) + z3.Q(3, 10) * (absz(c) + absz(s)))

@obligation('C18.thdm.2loop_formula', fns=[(TU, 'calculate_uncertainty_amu_2loop')], backend='B')
def _(ctx):
    """result == 2e-12 + (|a1L| + |a2L|) |4 alpha/pi ln(m_NP/m_mu)|, m_NP = min(mH, mA, mH+)"""
    a1, a2, al, mm, mH, mA, mHp = ctx.reals('a1L a2L alpha mm mH mA mHp')
    pre = [al > 0, mm > 0, mH > 0, mA > 0, mHp > 0]
    stubs = {'THDM::get_alpha_em': lambda i, a, t: al,
             'THDM::get_MFe': lambda i, a, t: mm,
             'THDM::get_Mhh': lambda i, a, t: mH,
             'THDM::get_MAh': lambda i, a, t: mA,
             'THDM::get_MHm': lambda i, a, t: mHp}
    it = Interp(ctx.w, mode='sym', stubs=stubs, assumptions=pre)
    m = it.new_object('THDM')
    paths = it.run_paths(lambda: it.call('calculate_uncertainty_amu_2loop', [m, a1, a2], file=TU))
    ctx.merge_rules(it)
    pi = z3.Real('c_PI')
    mNP = z3.If(z3.And(mH <= mA, mH <= mHp), mH, z3.If(mA <= mHp, mA, mHp))
    for k, (sym, ret, exc) in enumerate(paths):
        ctx.prove('path%d' % k, pre + sym.pc + sym.axioms,
                  z3real(ret) == z3.Q(2, 10**12) + (absz(a1) + absz(a2)) * absz(4 * al / pi * ln(mNP / mm)))
        ctx.sides('path%d' % k, sym, pre)

def _overload_agreement(ctx, cls, file, fn, given_args):
    """lemma: f(model) == f(model, calculate_amu_1loop(model)[, calculate_amu_2loop(model)])"""
    a1, a2, al, mm, mH, mA, mHp, c, s = ctx.reals('a1L a2L alpha mm mH mA mHp amu2LaCha amu2LaSferm')
    pre = [al > 0, mm > 0, mH > 0, mA > 0, mHp > 0]
    stubs = {'calculate_amu_1loop': lambda i, a, t: a1, 'calculate_amu_2loop': lambda i, a, t: a2,
             'amu2LaCha': lambda i, a, t: c, 'amu2LaSferm': lambda i, a, t: s,
             'THDM::get_alpha_em': lambda i, a, t: al, 'THDM::get_MFe': lambda i, a, t: mm,
             'THDM::get_Mhh': lambda i, a, t: mH, 'THDM::get_MAh': lambda i, a, t: mA, 'THDM::get_MHm': lambda i, a, t: mHp}
    it = Interp(ctx.w, mode='sym', stubs=stubs, assumptions=pre)
    # every other function of the (const) model is a ghost constant; the total is tied to its parts by the
    # callee contract of calculate_amu_2loop (sum of parts: proved by C15)
    parts = {}
    def auto(it_, name, args):
        from gm2v.values import Obj
        last = name.split('::')[-1]
        if args and isinstance(args[0], Obj) and not last.startswith('calculate_uncertainty'):
            parts.setdefault(last, z3.Real('ghost_' + last))
            return parts[last]
        return NotImplemented
    it.auto_stub = auto
    m = it.new_object(cls)
    p1 = it.run_paths(lambda: it.call(fn, [m], file=file))
    given = [{'a1': a1, 'a2': a2}[g] for g in given_args]
    p2 = it.run_paths(lambda: it.call(fn, [m] + given, file=file))
    ctx.merge_rules(it)
    n = 0
    rel = []
    if cls != 'THDM':
        g = lambda k: parts.get(k, z3.Real('ghost_' + k))
        rel = [a2 == g('amu2LFSfapprox') + g('amu2LChipmPhotonic') + g('amu2LChi0Photonic') + s + c]
        ctx.assume_note('callee contract: calculate_amu_2loop(model) == amu2LFSfapprox + amu2LChipmPhotonic + amu2LChi0Photonic + amu2LaSferm + amu2LaCha (C15)')
    for (s1, r1, e1) in p1:
        for (s2, r2, e2) in p2:
            n += 1
            ctx.prove('pair%d' % n, pre + rel + s1.pc + s2.pc + s1.axioms + s2.axioms, z3real(r1) == z3real(r2), check_vacuity=False)

for _cls, _file, _fn, _given in [('MSSMNoFV_onshell', MU, 'calculate_uncertainty_amu_0loop', ['a1']),
                                 ('MSSMNoFV_onshell', MU, 'calculate_uncertainty_amu_1loop', ['a2']),
                                 ('THDM', TU, 'calculate_uncertainty_amu_0loop', ['a1', 'a2']),
                                 ('THDM', TU, 'calculate_uncertainty_amu_1loop', ['a1', 'a2']),
                                 ('THDM', TU, 'calculate_uncertainty_amu_2loop', ['a1', 'a2'])]:
    def _mk(cls=_cls, file=_file, fn=_fn, given=_given):
        @obligation('C18.%s.%s.overloads' % ('mssm' if cls != 'THDM' else 'thdm', fn.replace('calculate_uncertainty_amu_', '')),
                    fns=[(file, fn)], backend='B')
        def ob(ctx):
            """lemma (B): the overload that computes a_mu itself returns exactly what the overload given those a_mu values returns"""
            _overload_agreement(ctx, cls, file, fn, given)
    _mk()


def fidelity(tier, seed):
    """A-FRONT guard: MSSM a_mu and mass-matrix functions, interpreter (float mode) vs compiled real code on real spectra"""
    from gm2v import fidelity as _fid
    return _fid.mssm_model_guard(seed=seed)

# Contracts on single calls carry over to every call in a process only if no function keeps state between calls: C19's static-frame obligation is a lemma here.
from contracts.shared import reregister as _rr_static
from contracts import c19 as _c19_static
HISTORY_REPLAY_C18 = r'''
#include "gm2calc/THDM.hpp"
#include "gm2calc/SM.hpp"
#include "gm2calc/gm2_1loop.hpp"
#include "gm2calc/gm2_2loop.hpp"
#include "gm2calc/gm2_uncertainty.hpp"
#include "gm2_uncertainty_helpers.hpp"
#include <cstdio>
#include <cmath>
// several parameter points are assigned in turn to ONE model object (same address); for each the model-taking uncertainty functions must agree with the
// overloads given freshly computed a_mu values, and the documented relations must hold
int main() {
   int bad = 0;
   gm2calc::SM sm;
   gm2calc::thdm::Mass_basis b; b.mh = 125; b.mH = 400; b.mA = 420; b.mHp = 440; b.sin_beta_minus_alpha = 0.995; b.tan_beta = 3; b.m122 = 40000;
   gm2calc::THDM model(b, sm);
   const double mA[4] = {420, 80, 1500, 250}, tb[4] = {3, 40, 10, 0.7};
   for (int k = 0; k < 4; k++) {
      b.mA = mA[k]; b.tan_beta = tb[k]; b.mHp = mA[k] + 20; b.mH = mA[k] > 130 ? mA[k] - 10 : 140;
      model = gm2calc::THDM(b, sm);
      const double a1 = gm2calc::calculate_amu_1loop(model), a2 = gm2calc::calculate_amu_2loop(model);
      const double u0 = gm2calc::calculate_uncertainty_amu_0loop(model), u1 = gm2calc::calculate_uncertainty_amu_1loop(model), u2 = gm2calc::calculate_uncertainty_amu_2loop(model);
      const double w0 = gm2calc::calculate_uncertainty_amu_0loop(model, a1, a2), w1 = gm2calc::calculate_uncertainty_amu_1loop(model, a1, a2), w2 = gm2calc::calculate_uncertainty_amu_2loop(model, a1, a2);
      const bool ok = u0 == w0 && u1 == w1 && u2 == w2 && u2 >= 2e-12 && std::isfinite(u0 + u1 + u2) && std::fabs(u1 - (std::fabs(a2) + u2)) <= 1e-14 * u1;
      if (!ok) { bad++; std::printf("point %d (mA=%g, tan beta=%g): u0 %.6e vs %.6e, u1 %.6e vs %.6e, u2 %.6e vs %.6e, |a2L|+u2 = %.6e\\n", k, mA[k], tb[k], u0, w0, u1, w1, u2, w2, std::fabs(a2) + u2); }
   }
   std::printf("%d of 4 points out of contract\\n", bad);
   return bad ? 1 : 0;
}
'''

def history_replay_c18(model, wd):
    from gm2v import native
    import subprocess
    exe = native.build_against_library(wd, HISTORY_REPLAY_C18)
    r = subprocess.run([exe], capture_output=True, text=True, timeout=300)
    return r.returncode == 1, r.stdout.strip()[-1500:]

_rr_static('C18', 'C19', 'C19.no_stateful_local_statics', 'C18.lemma.no_state_between_calls', replay=history_replay_c18)

# the uncertainty estimates are also handed out through the C interface (and through it to the Mathematica interface): every C wrapper of an uncertainty function returns
# exactly its C++ counterpart on the same model with the extra arguments in order -- C17's forwarder contracts for these wrappers are callee contracts of C18
from gm2v.ob import REGISTRY as _REG18
from contracts.shared import reregister as _rr18
from contracts import c17 as _c17_18
for _o in list(_REG18.get('C17', [])):
    if _o.oid.startswith('C17.forwards.') and 'uncertainty' in _o.oid:
        _rr18('C18', 'C17', _o.oid, _o.oid.replace('C17.forwards.', 'C18.c_interface.forwards.', 1))
