"""C10 (and C11): the THDM two-loop bosonic kernels equal the repository's own reference formulas (math/THDMTwoLoopB.m, the Mathematica transcription of
arXiv:1607.06292 that the C++ was derived from), for ALL arguments -- so that the decoupling behaviour of the published formulas is what the code computes.

For each kernel of src/THDM/gm2_2loop_B.cpp that has a counterpart in the .m file (T0, T1, T5, T6, T9, T10, YF1, YFW, YFZ, YF2, YF3, b, Fm0, Fmp):
  ensures, on every path:  kernel(u, w, cw2) == Definition[u, w] with CW2 -> cw2, as an identity of rational functions in the arguments and the atoms
  ln(.), Li2(.), f_PS(.), Phi(.,.,.) -- with the argument shifts that move u, w off the poles (shift, shift_kaellen: their own contracts are C11's
  `C11.shift.*`/`C11.domains.*`) replaced by the identity, i.e. the statement is about the formula that is evaluated, at whatever argument it is evaluated.
The .m file is PARSED on every run (gm2v/mma.py); nothing of it is transcribed here.
Lemmas used on the reference side (special-function identities stated in the C++ comments, assumed -- checked numerically to 30 digits by the replay oracle):
  Phi(x, y, y) == x/(2y) f_PS(y/x) (x - 4y),  Phi symmetric in its arguments,  ln(a/b) == ln a - ln b for positive a, b.
Replay: the REAL kernels (the .cpp file is included into the harness, so the anonymous-namespace functions are reachable) against a 40-digit mpmath
evaluation of the parsed .m definitions on a sweep that includes nearly degenerate heavy masses (the decoupling regime)."""
import os
from fractions import Fraction as Fr
import z3
from gm2v.ob import obligation, PROVED, FAILED, UNDECIDED, ERROR
from gm2v.interp import Interp
from gm2v.values import z3real, is_sym
from gm2v import mma

B2 = 'src/THDM/gm2_2loop_B.cpp'
MFILE = 'math/THDMTwoLoopB.m'

def noshift(it, args, this, cells=None):
    return None
noshift.wants_cells = True

def _expand_logs(t, ln):
    """ln(a/b) -> ln a - ln b, ln(a*b) -> ln a + ln b (arguments are positive on the domain of the kernels)"""
    def ln_of(a):
        a = z3.simplify(a)
        k = a.decl().kind()
        if k == z3.Z3_OP_DIV:
            return ln_of(a.arg(0)) - ln_of(a.arg(1))
        if k == z3.Z3_OP_MUL:
            parts = a.children()
            r = None
            for p in parts:
                if z3.is_rational_value(p) and p.as_fraction() < 0:
                    return ln(a)
                r = ln_of(p) if r is None else r + ln_of(p)
            return r
        if k == z3.Z3_OP_POWER and z3.is_rational_value(a.arg(1)):
            return a.arg(1) * ln_of(a.arg(0))
        return ln(a)
    def rec(e):
        if z3.is_app(e):
            if e.decl().eq(ln):
                return ln_of(rec(e.arg(0)))
            ch = [rec(c) for c in e.children()]
            if ch:
                return e.decl()(*ch)
        return e
    return rec(t)

def ref_evaluator(ctx, it, symbols):
    defs = mma.load(os.path.join(ctx.w.repo, MFILE))
    ln = lambda x: it.uf('ln', z3.simplify(x))
    Li2 = lambda x: it.uf('fn_dilog', z3.simplify(x))
    fPS = lambda x: it.uf('fn_f_PS', z3.simplify(x))
    def Phi(a, b, c):
        a, b, c = [z3.simplify(z3real(v)) for v in (a, b, c)]
        one = z3.RealVal(1)
        if b.eq(c):
            return a / (2 * b) * fPS(b / a) * (a - 4 * b)          # lemma Phi(x,y,y)
        if a.eq(b):
            return c / (2 * a) * fPS(a / c) * (c - 4 * a)          # symmetry + lemma
        return it.uf('fn_Phi', a, b, c)
    def PolyLog(n, x):
        if not (z3.is_rational_value(n) and n.as_fraction() == 2):
            raise mma.MmaError('PolyLog order')
        return Li2(x)
    fns = {'Log': ln, 'PolyLog': PolyLog, 'Phi': Phi}
    ev = mma.Evaluator(defs, symbols, fns, const=lambda q: z3.RealVal(str(q)))
    rules = ev.rules_of(('sym', 'expandAmu'))
    for k in ('CW2', 'xA', 'xHp', 'xhSM', 'xH'):
        rules.pop(k, None)
    return defs, ev, rules

def uf_stub(name):
    def stub(it, args, this):
        return it.uf('fn_' + name, *[z3.simplify(z3real(a)) for a in args])
    return stub

# kernel -> (C++ parameter names, reference head, reference argument names, callees executed inline)
KERNELS = {
    'T0': (('u', 'w', 'cw2'), 'T0', ('u', 'w')),
    'T1': (('u', 'w', 'cw2'), 'T1', ('u', 'w')),
    'T5': (('u', 'w', 'cw2'), 'T5', ('u', 'w')),
    'T6': (('u', 'w', 'cw2'), 'T6', ('u', 'w')),
    'T9': (('u', 'w', 'cw2'), 'T9', ('u', 'w')),
    'T10': (('u', 'w', 'cw2'), 'T10', ('u', 'w')),
    'YF1': (('u', 'w', 'cw2'), 'YF1', ('u', 'w')),
    'YFW': (('u', 'cw2'), 'YFW', ('u',)),
    'YFZ': (('u', 'cw2'), 'YFZ', ('u',)),
    'YF2': (('u', 'cw2'), 'YF2', ('u',)),
    'YF3': (('u', 'w', 'cw2'), 'YF3', ('u', 'w')),
    'fb': (('u', 'w', 'al', 'cw2'), 'b', ('u', 'w')),
    'Fm0': (('u', 'w', 'al', 'cw2'), 'Fm0', ('u', 'w')),
    'Fmp': (('u', 'w', 'al', 'cw2'), 'Fmp', ('u', 'w')),
}

REPLAY = r'''
#include "@REPO@/src/THDM/gm2_2loop_B.cpp"
#include <cstdio>
#include <cstdlib>
// prints kernel values of the REAL code: argv = kernel name, then the arguments
int main(int argc, char** argv) {
   using namespace gm2calc::thdm;
   std::string k = argv[1];
   double a[6] = {0}; for (int i = 2; i < argc && i < 8; i++) a[i-2] = std::strtod(argv[i], nullptr);
   double r = 0;
   if (k == "T0") r = T0(a[0],a[1],a[2]); else if (k == "T1") r = T1(a[0],a[1],a[2]); else if (k == "T5") r = T5(a[0],a[1],a[2]);
   else if (k == "T6") r = T6(a[0],a[1],a[2]); else if (k == "T9") r = T9(a[0],a[1],a[2]); else if (k == "T10") r = T10(a[0],a[1],a[2]);
   else if (k == "YF1") r = YF1(a[0],a[1],a[2]); else if (k == "YFW") r = YFW(a[0],a[1]); else if (k == "YFZ") r = YFZ(a[0],a[1]);
   else if (k == "YF2") r = YF2(a[0],a[1]); else if (k == "YF3") r = YF3(a[0],a[1],a[2]); else if (k == "fb") r = fb(a[0],a[1],a[2],a[3]);
   else if (k == "Fm0") r = Fm0(a[0],a[1],a[2],a[3]); else if (k == "Fmp") r = Fmp(a[0],a[1],a[2],a[3]);
   else if (k == "nonYuk" || k == "Yuk" || k == "EWadd") {
      // argv: mw mz alpha mm mhSM mh mH mA mHp tb zetal cba lambda5 lambda67
      double v[14]; for (int i = 0; i < 14; i++) v[i] = std::strtod(argv[2+i], nullptr);
      THDM_B_parameters p; p.mw = v[0]; p.mz = v[1]; p.alpha_em = v[2]; p.mm = v[3]; p.mhSM = v[4]; p.mh << v[5], v[6]; p.mA = v[7]; p.mHp = v[8]; p.tb = v[9];
      p.zetal = v[10]; p.cos_beta_minus_alpha = v[11]; p.lambda5 = v[12]; p.lambda67 = v[13];
      r = k == "Yuk" ? amu2L_B_Yuk(p) : k == "EWadd" ? amu2L_B_EWadd(p) : amu2L_B_nonYuk(p);
   }
   else return 2;
   std::printf("%.17g\n", r);
   return 0;
}
'''

def mp_reference(repo, head, args, cw2, al=None):
    """40-digit evaluation of the parsed .m definition"""
    import mpmath as mp
    from contracts.c02 import mp_spec
    mp.mp.dps = 40
    defs = mma.load(os.path.join(repo, MFILE))
    def Phi(a, b, c):
        return mp_spec('Phi', [a, b, c])
    fns = {'Log': lambda x: mp.log(x), 'PolyLog': lambda n, x: mp.polylog(int(n), x), 'Phi': Phi, 'Sqrt': lambda x: mp.sqrt(x)}
    syms = {'CW2': mp.mpf(cw2), 'Pi': mp.pi}
    if al is not None:
        syms['AL'] = mp.mpf(al)
    ev = mma.Evaluator(defs, syms, fns, const=lambda q: mp.mpf(q.numerator) / q.denominator)
    rules = ev.rules_of(('sym', 'expandAmu'))
    for k in ('CW2', 'xA', 'xHp', 'xhSM', 'xH'):
        rules.pop(k, None)
    e = ('call', ('sym', head), [('num', Fr(0))] * len(args))
    params, body = defs.functions[head]
    for p, v in zip(params, args):
        ev.sym[p] = mp.mpf(v)
    return mp.re(ev.ev(body, rules))

SWEEP = []
def _sweep():
    if SWEEP:
        return SWEEP
    import random
    rnd = random.Random(7)
    cws = [0.77, 0.7777, 0.6, 0.9]
    for _ in range(40):
        cw2 = rnd.choice(cws)
        u = 10 ** rnd.uniform(-0.5, 2)    # moderate arguments: for u >~ 300 the real kernels lose digits by cancellation (known finding C10.decoupling.sweep.*)
        kind = rnd.random()
        if kind < 0.4:
            w = u * (1 + rnd.choice([-1, 1]) * 10 ** rnd.uniform(-7, -2))      # nearly degenerate (heavy Higgs bosons at fixed quartic couplings)
        else:
            w = 10 ** rnd.uniform(-0.5, 2)
        SWEEP.append((u, w, cw2))
    return SWEEP

def make_replay(fn):
    def rep(model, wd):
        from gm2v import native
        from gm2v.world import REPO
        import subprocess
        import mpmath as mp
        exe = native.build_against_library(wd, REPLAY.replace('@REPO@', REPO), name='kernels_B', exclude=('src_THDM_gm2_2loop_B.cpp.o',))
        params, head, refargs = KERNELS[fn]
        bad = []
        worst = 0
        n = 0
        for u, w, cw2 in _sweep():
            al = 1 / 137.0
            vals = {'u': u, 'w': w, 'cw2': cw2, 'al': al}
            # keep away from the poles that the shifts guard (the contract is about the formula, the guards are C11's)
            if min(abs(u - 1), abs(w - cw2), abs(u - 4 * cw2), abs(4 * w - u), abs(4 * w - 1)) < 1e-3:
                continue
            sw, sc = w ** 0.5, cw2 ** 0.5
            if min(abs(u - (sw + sc) ** 2), abs(u - (sw - sc) ** 2)) < 1e-3 * u:
                continue
            r = subprocess.run([exe, fn] + [repr(vals[p]) for p in params], capture_output=True, text=True, timeout=60)
            got = float(r.stdout.split()[0])
            try:
                ref = mp_reference(REPO, head, [vals[a] for a in refargs], cw2, al)
            except Exception as e:
                continue
            n += 1
            scale = abs(ref)
            rel = abs(got - ref) / scale if scale > 0 else abs(got)
            # cancellation-aware tolerance: the kernels are differences of large terms for nearly equal arguments
            tol = 1e-6 + 1e-12 * max(u, w, 1.0) ** 3 / max(float(scale), 1e-300)
            if not (rel <= tol):
                bad.append('%s%r: real code %.12g, reference formula %s (rel %.3g)' % (fn, tuple(vals[p] for p in params), got, mp.nstr(ref, 12), float(rel)))
            worst = max(worst, float(rel))
        return bool(bad), '%s against math/THDMTwoLoopB.m (40-digit evaluation) at %d points: %s' % (fn, n, '; '.join(bad[:4]) if bad else 'all within tolerance (worst %.2g)' % worst)
    return rep

def make_kernel(fn):
    params, head, refargs = KERNELS[fn]
    @obligation('C10.ref.%s' % fn, fns=[(B2, fn)], replay=make_replay(fn))
    def ob(ctx):
        if not ctx.w.find(fn, B2):
            # the kernels are internal helpers (anonymous namespace): one that this tree does not have was inlined or renamed; the assembly contracts
            # (C10.ref.amu2L_B_Yuk / nonYuk) then compare the whole expression with the fully expanded reference
            ctx.record('', PROVED, 'B', 0, 'internal helper %s is not present in %s on this tree: covered by the assembly contracts with the reference expanded' % (fn, B2), kind='note')
            return
        vs = {p: z3.Real(p) for p in params}
        pre = [v > 0 for v in vs.values()] + ([vs['cw2'] < 1] if 'cw2' in vs else [])
        stubs = {'shift': noshift, 'shift_kaellen': noshift, 'dilog': uf_stub('dilog'), 'f_PS': uf_stub('f_PS'), 'Phi': uf_stub('Phi')}
        it = Interp(ctx.w, mode='sym', stubs=stubs, assumptions=pre, div_sides=False)
        ps = it.run_paths(lambda: it.call(fn, [vs[p] for p in params], file=B2))
        ctx.merge_rules(it)
        syms = {'CW2': vs['cw2'], 'Pi': z3.Real('c_PI')}
        if 'al' in vs:
            syms['AL'] = vs['al']
        defs, ev, rules = ref_evaluator(ctx, it, syms)
        fparams, body = defs.functions[head]
        for p, a in zip(fparams, refargs):
            ev.sym[p] = vs[a]
        try:
            ref = ev.ev(body, rules)
        except mma.MmaError as e:
            ctx.record('', ERROR, 'B', 0, 'reference formula %s of %s: %s' % (head, MFILE, e))
            return
        ln = it.uf_cache.get(('ln', 1))
        if ln is not None:
            ref = _expand_logs(ref, ln)
        n = 0
        for k, (s_, r, e) in enumerate(ps):
            if e is not None or r is None or not is_sym(r) and not isinstance(r, (int, float, Fr)):
                ctx.record('path%d' % k, FAILED, 'B', 0, 'no value: %s' % (e,))
                continue
            code = z3real(r)
            if ln is not None:
                code = _expand_logs(code, ln)
            n += 1
            ctx.prove_ring('path%d' % k, [(code, ref)])
        ctx.record('paths', PROVED if n else ERROR, 'B', 0, '%d path(s) compared with %s[%s] of %s' % (n, head, ', '.join(refargs), MFILE))
    return ob

for _fn in KERNELS:
    make_kernel(_fn)

# ---------------------------------------------------------------------------------------------------
# BOUNDED stand-in for the decoupling clause itself (an asymptotic statement that no contract expresses): the REAL library on families of gauge-basis
# points with fixed quartic couplings, heavy scale M = 1, 3.16, 10, 31.6 TeV:  |a(M sqrt 10)| <= 0.45 |a(M)| per component (1L, fermionic 2L, bosonic 2L)
# ---------------------------------------------------------------------------------------------------
DECOUPLING_SRC = r'''
#include "gm2calc/THDM.hpp"
#include "gm2calc/SM.hpp"
#include "gm2calc/gm2_1loop.hpp"
#include "gm2calc/gm2_2loop.hpp"
#include "gm2calc/gm2_error.hpp"
#include <cstdio>
#include <cmath>
struct Family { const char* name; int type; double tb; double lam[7]; };
int main() {
   const Family fams[] = {
      {"II_tb3_generic",      2,  3.0, {0.7, 0.6, 0.5, 0.4, 0.3, 0.0, 0.0}},
      {"I_tb20_aligned",      1, 20.0, {0.5, 0.5, 0.7, -0.1, -0.1, 0.0, 0.0}},
      {"X_tb0.5_aligned",     3,  0.5, {0.5, 0.5, 0.9, -0.2, -0.2, 0.0, 0.0}},
      {"Y_tb50_aligned",      4, 50.0, {0.26, 0.26, 0.5, 0.06, -0.3, 0.0, 0.0}},
      {"II_tb0.3_l67",        2,  0.3, {1.0, 0.4, 0.3, 0.25, 0.2, 0.1, -0.05}},
      {"I_tb10_generic",      1, 10.0, {0.8, 0.3, 1.2, -0.5, 0.4, 0.05, 0.1}},
      {"X_tb40_generic",      3, 40.0, {0.3, 0.26, 1.5, -1.0, -0.2, 0.0, 0.0}},
      {"Y_tb1_generic",       4,  1.0, {1.5, 1.5, -0.5, 1.2, 0.6, -0.1, 0.1}}
   };
   const double s10 = std::sqrt(10.0);
   const double Ms[] = {1000.0, 1000.0*s10, 10000.0, 10000.0*s10};
   for (const auto& f : fams) for (double M : Ms) {
      try {
         gm2calc::thdm::Config cfg; cfg.running_couplings = false;
         gm2calc::thdm::Gauge_basis b;
         b.yukawa_type = gm2calc::thdm::int_to_cpp_yukawa_type(f.type);
         for (int i = 0; i < 7; ++i) b.lambda(i) = f.lam[i];
         b.tan_beta = f.tb; b.m122 = M*M*f.tb/(1 + f.tb*f.tb);
         gm2calc::SM sm; const gm2calc::THDM tmp(b, sm, cfg); sm.set_mh(tmp.get_Mhh(0));
         const gm2calc::THDM m(b, sm, cfg);
         std::printf("%s %.17g %.17g %.17g %.17g %.3e\n", f.name, M, gm2calc::calculate_amu_1loop(m), gm2calc::calculate_amu_2loop_fermionic(m),
                     gm2calc::calculate_amu_2loop_bosonic(m), m.get_cos_beta_minus_alpha());
      } catch (const gm2calc::Error& e) { std::printf("%s %.17g ERROR %s\n", f.name, M, e.what()); }
   }
   return 0;
}
'''

def decoupling_table(wd):
    from gm2v import native
    import subprocess
    exe = native.build_against_library(wd, DECOUPLING_SRC, name='decoupling')
    r = subprocess.run([exe], capture_output=True, text=True, timeout=300)
    tab = {}
    for l in r.stdout.splitlines():
        p = l.split()
        if len(p) >= 6 and p[2] != 'ERROR':
            tab.setdefault(p[0], []).append([float(x) for x in p[1:6]])
        elif len(p) >= 3:
            tab.setdefault(p[0], []).append(None)
    return tab

def decoupling_replay(model, wd):
    tab = decoupling_table(wd)
    bad = []
    for fam, rows in tab.items():
        for k in range(len(rows) - 1):
            if rows[k] is None or rows[k + 1] is None:
                bad.append('%s: no result' % fam)
                continue
            for c, nm in ((1, '1L'), (2, 'fermionic 2L'), (3, 'bosonic 2L')):
                a0, a1 = rows[k][c], rows[k + 1][c]
                if not (abs(a1) <= 0.45 * abs(a0)):
                    bad.append('%s %s: |a(M=%.0f)| = %.4e > 0.45 |a(M=%.0f)| = %.4e (ratio %.3g)' % (fam, nm, rows[k + 1][0], abs(a1), rows[k][0], 0.45 * abs(a0), abs(a1 / a0) if a0 else float('inf')))
    return bool(bad), 'real library, gauge-basis families at fixed quartic couplings: ' + ('; '.join(bad[:6]) if bad else 'every component falls by at least 0.45 per sqrt(10) step')

@obligation('C10.decoupling.sweep', fns=[('src/THDM/gm2_2loop.cpp', 'calculate_amu_2loop_bosonic'), ('src/THDM/gm2_2loop.cpp', 'calculate_amu_2loop_fermionic'),
                                         ('src/THDM/gm2_1loop.cpp', 'calculate_amu_1loop')], backend='bounded', replay=decoupling_replay)
def _(ctx):
    """BOUNDED stand-in (8 families of gauge-basis points x 4 heavy scales, REAL library, native doubles): with the heavy scale M raised at fixed quartic
    couplings, |a(M sqrt 10)| <= 0.45 |a(M)| for the one-loop, fermionic two-loop and bosonic two-loop results, M = 1, 3.16, 10 TeV"""
    import tempfile, shutil
    wd = tempfile.mkdtemp(prefix='gm2v_dec_')
    try:
        tab = decoupling_table(wd)
    finally:
        shutil.rmtree(wd, ignore_errors=True)
    if not tab:
        ctx.record('', ERROR, 'bounded', 0, 'no output of the decoupling harness')
        return
    for fam, rows in sorted(tab.items()):
        for k in range(len(rows) - 1):
            tag = '%s.step%d' % (fam, k)
            if rows[k] is None or rows[k + 1] is None:
                ctx.record(tag, FAILED, 'bounded', 0, 'the model is rejected at M = %s' % (rows[k] or rows[k + 1]), kind='bounded')
                continue
            bad = []
            for c, nm in ((1, '1L'), (2, 'fermionic 2L'), (3, 'bosonic 2L')):
                a0, a1 = rows[k][c], rows[k + 1][c]
                if not (abs(a1) <= 0.45 * abs(a0)):
                    bad.append('%s: |a(M=%.0f GeV)| = %.4e is not <= 0.45 |a(M=%.0f GeV)| = %.4e (ratio %.3g)' % (nm, rows[k + 1][0], abs(a1), rows[k][0], 0.45 * abs(a0), abs(a1 / a0) if a0 else float('inf')))
            ctx.record(tag, FAILED if bad else PROVED, 'bounded', 0, ('BOUNDED: ' + '; '.join(bad)) if bad else 'BOUNDED: all three components fall by more than 0.45 from M = %.0f to %.0f GeV (cos(beta-alpha) = %.1e)' % (rows[k][0], rows[k + 1][0], rows[k + 1][4]),
                       solver='native execution of the real library', kind='bounded')

# ---------------------------------------------------------------------------------------------------
# assembly: amu2L_B_Yuk == amu2LBYuk and amu2L_B_nonYuk == amu2LBNonYuk of the reference file, with the kernels as callees by contract (uninterpreted on both sides:
# their own equality with the reference is C10.ref.<kernel>)
# ---------------------------------------------------------------------------------------------------
def _params(ctx, it):
    from gm2v.symobj import symbolic_fields
    p = it.new_object('THDM_B_parameters', symbolic_fields(None, prefix='p.'))
    f = p.f
    pre = [f['mw'] > 0, f['mz'] > f['mw'], f['alpha_em'] > 0, f['mm'] > 0, f['tb'] > 0, f['mhSM'] > 0, f['mA'] > 0, f['mHp'] > 0, f['mh'].get(0) > 0, f['mh'].get(1) > 0]
    return p, pre

def _kernel_uf(it, name, extra):
    """reference-side counterpart of uf_stub(name): the kernel applied to the reference arguments plus the extra C++ arguments (al, cw2)"""
    return lambda *a: it.uf('fn_' + name, *[z3.simplify(z3real(x)) for x in list(a) + list(extra)])

def _yuk_pairs(ctx, stubbed):
    """(code result, reference) per path of amu2L_B_Yuk with the kernels in `stubbed` uninterpreted on both sides and every other kernel executed / expanded"""
    stubs = {n: uf_stub(n) for n in stubbed}
    stubs.update({'shift': noshift, 'shift_kaellen': noshift, 'dilog': uf_stub('dilog'), 'f_PS': uf_stub('f_PS'), 'Phi': uf_stub('Phi')})
    it = Interp(ctx.w, mode='sym', stubs=stubs, div_sides=False)
    p, pre = _params(ctx, it)
    it.assumptions = pre
    ps = it.run_paths(lambda: it.call('amu2L_B_Yuk', [p], file=B2))
    ctx.merge_rules(it)
    f = p.f
    mz2 = f['mz'] * f['mz']
    cw2 = z3.simplify(f['mw'] * f['mw'] / mz2)
    al = f['alpha_em']
    sc = f['tb'] - 1 / f['tb']
    syms = {'CW2': cw2, 'Pi': z3.Real('c_PI'), 'AL': al, 'MM': f['mm'], 'MZ': f['mz'], 'TB': f['tb'], 'ZetaL': f['zetal'], 'Lambda5': f['lambda5'],
            'Lambda567': f['lambda5'] + f['lambda67'] / sc, 'aeps': f['cos_beta_minus_alpha'],
            'xhSM': z3.simplify(f['mhSM'] * f['mhSM'] / mz2), 'xH': z3.simplify(f['mh'].get(1) * f['mh'].get(1) / mz2), 'xHp': z3.simplify(f['mHp'] * f['mHp'] / mz2)}
    defs, ev0, _r0 = ref_evaluator(ctx, it, syms)
    fns = dict(ev0.fn)
    extra = {'Fm0': (al, cw2), 'Fmp': (al, cw2), 'YF1': (cw2,), 'YF2': (cw2,), 'YF3': (cw2,), 'T9': (cw2,), 'T10': (cw2,)}
    for n in stubbed:
        fns[n] = _kernel_uf(it, n, extra[n])
    ev = mma.Evaluator(defs, syms, fns, const=lambda q: z3.RealVal(str(q)))
    rules = ev.rules_of(('sym', 'expandAmu'))
    for k in ('CW2', 'xA', 'xHp', 'xhSM', 'xH'):
        rules.pop(k, None)
    ref = ev.ev(('sym', 'amu2LBYuk'), rules)
    lnf = it.uf_cache.get(('ln', 1))
    if lnf is not None:
        ref = _expand_logs(ref, lnf)
    pairs = []
    for s_, r, e in ps:
        if e is not None or r is None:
            raise RuntimeError('a path of amu2L_B_Yuk returns no value: %s' % (e,))
        pairs.append((_expand_logs(z3real(r), lnf) if lnf is not None else z3real(r), ref))
    return pairs

def _nonyuk_pairs(ctx, stubbed):
    stubs = {n: uf_stub(n) for n in stubbed}
    stubs.update({'shift': noshift, 'shift_kaellen': noshift, 'dilog': uf_stub('dilog'), 'f_PS': uf_stub('f_PS'), 'Phi': uf_stub('Phi')})
    stubs['is_equal_rel'] = lambda it_, a, t: False      # the generic path: no pair of mass ratios is within the near-equality window of dxlog (its series: C10.callee.dxlog_series)
    it = Interp(ctx.w, mode='sym', stubs=stubs, div_sides=False, feasibility=False)
    p, pre = _params(ctx, it)
    it.assumptions = pre
    ps = it.run_paths(lambda: it.call('amu2L_B_nonYuk', [p], file=B2), max_paths=64)
    ctx.merge_rules(it)
    f = p.f
    mz2 = f['mz'] * f['mz']
    cw2 = z3.simplify(f['mw'] * f['mw'] / mz2)
    syms = {'CW2': cw2, 'Pi': z3.Real('c_PI'), 'AL': f['alpha_em'], 'MM': f['mm'], 'MZ': f['mz'],
            'xA': z3.simplify(f['mA'] * f['mA'] / mz2), 'xH': z3.simplify(f['mh'].get(1) * f['mh'].get(1) / mz2), 'xHp': z3.simplify(f['mHp'] * f['mHp'] / mz2)}
    defs, ev0, _r0 = ref_evaluator(ctx, it, syms)
    fns = dict(ev0.fn)
    for n in stubbed:
        fns[n] = _kernel_uf(it, n, (cw2,))
    ev = mma.Evaluator(defs, syms, fns, const=lambda q: z3.RealVal(str(q)))
    rules = ev.rules_of(('sym', 'expandAmu'))
    for k in ('CW2', 'xA', 'xHp', 'xhSM', 'xH'):
        rules.pop(k, None)
    ref = ev.ev(('sym', 'amu2LBNonYuk'), rules)
    lnf = it.uf_cache.get(('ln', 1))
    ref = _expand_logs(ref, lnf) if lnf is not None else ref
    generic = [(s_, r) for s_, r, e in ps if e is None and r is not None]
    if len(generic) != 1:
        raise RuntimeError('%d generic paths among %d' % (len(generic), len(ps)))
    code = _expand_logs(z3real(generic[0][1]), lnf) if lnf is not None else z3real(generic[0][1])
    return [(code, ref)]

def _assembly_obligation(ctx, name, pairs_fn, kernels, always_stubbed=()):
    """first with every kernel that exists as a function taken as a callee by contract; if that identity fails, once more with the kernels executed on the code side and expanded
    from their definitions on the reference side (a kernel inlined into its caller, wholly or at one call site, is not a change of what is computed)"""
    from gm2v import ring
    present = [n for n in kernels if ctx.w.find(n, B2)]
    try:
        pairs = pairs_fn(ctx, present)
    except (mma.MmaError, RuntimeError) as e:
        ctx.record('', ERROR, 'B', 0, 'reference formula / paths: %s' % e)
        return
    def all_identical(ps_):
        try:
            return all(ring.identity(a, b) for a, b in ps_)
        except ring.NotRing:
            return False
    if all_identical(pairs):
        for k in range(len(pairs)):
            ctx.record('path%d' % k if name == 'Yuk' else 'generic', PROVED, 'B', 0, 'identical to the reference formula (kernels as callees: %s)' % ', '.join(present), solver='ring normalisation (sympy)')
        ctx.record('paths', PROVED, 'B', 0, '%d path(s) compared with %s' % (len(pairs), MFILE))
        return
    try:
        pairs2 = pairs_fn(ctx, [n for n in always_stubbed if n in present])
        if all_identical(pairs2):
            for k in range(len(pairs2)):
                ctx.record('path%d' % k if name == 'Yuk' else 'generic', PROVED, 'B', 0, 'identical to the reference formula with the kernels executed and the reference expanded (a kernel is inlined on this tree)',
                           solver='ring normalisation (sympy)')
            ctx.record('paths', PROVED, 'B', 0, '%d path(s) compared with %s (monolithic)' % (len(pairs2), MFILE))
            return
    except Exception:
        pass
    for k, pr in enumerate(pairs):
        ctx.prove_ring('path%d' % k if name == 'Yuk' else 'generic', [pr])
    ctx.record('paths', PROVED, 'B', 0, '%d path(s) compared with %s' % (len(pairs), MFILE))

@obligation('C10.ref.amu2L_B_Yuk', fns=[(B2, 'amu2L_B_Yuk')], replay=lambda m, wd: make_assembly_replay('Yuk')(m, wd))
def _(ctx):
    """ensures for ALL parameters: amu2L_B_Yuk(pars) == amu2LBYuk of math/THDMTwoLoopB.m (Eq. (52), (91)-(98) of arXiv:1607.06292) with x_S = m_S^2/MZ^2, CW2 = MW^2/MZ^2,
    aeps = cos(beta-alpha), Lambda567 := Lambda5 + Lambda67/(tan(beta) - 1/tan(beta)); the kernels Fm0, Fmp, YF2, YF3 are callees by contract (C10.ref.<kernel>), b is executed"""
    _assembly_obligation(ctx, 'Yuk', _yuk_pairs, ('Fm0', 'Fmp', 'YF1', 'YF2', 'YF3', 'T9', 'T10'))

@obligation('C10.ref.amu2L_B_nonYuk', fns=[(B2, 'amu2L_B_nonYuk'), (B2, 'TX'), (B2, 'T4'), (B2, 'dxlog')], replay=lambda m, wd: make_assembly_replay('nonYuk')(m, wd))
def _(ctx):
    """ensures for ALL parameters (on the path where no near-equality series of dxlog is taken): amu2L_B_nonYuk(pars) == amu2LBNonYuk of math/THDMTwoLoopB.m (Eq. (71)); the code's
    TX, T4 and dxlog are executed and must reproduce the reference combination of T2+, T2-, T4 (Eqs. (74), (75)); T0, T1, T5-T8 are callees by contract"""
    _assembly_obligation(ctx, 'nonYuk', _nonyuk_pairs, ('T0', 'T1', 'T5', 'T6', 'T7', 'T8'), always_stubbed=('T7', 'T8'))

def _is_near_test_true(c):
    """a path-condition literal that is a (non-negated) comparison '|a - b| < eps * ...' -- the near-equality branch of dxlog taken"""
    return not z3.is_not(c) and c.decl().kind() in (z3.Z3_OP_LT, z3.Z3_OP_LE) and 'If(' in str(c)


ASSEMBLY_POINTS = [
    # mw, mz, alpha, mm, mhSM, mh, mH, mA, mHp, tb, zetal, cba, lambda5, lambda67
    (80.379, 91.1876, 1 / 137.036, 0.1056583745, 125.09, 125.09, 400.0, 420.0, 440.0, 3.0, -3.0, 0.1, 0.5, 0.2),
    (80.379, 91.1876, 1 / 137.036, 0.1056583745, 125.09, 125.09, 300.0, 250.0, 500.0, 0.5, 0.5, -0.05, -1.0, 0.3),
    (80.379, 91.1876, 1 / 137.036, 0.1056583745, 125.09, 110.0, 180.0, 600.0, 200.0, 20.0, -20.0, 0.02, 2.0, -0.4),
    (80.385, 91.1876, 1 / 128.0, 0.1056583745, 125.09, 125.09, 800.0, 810.0, 790.0, 10.0, 0.1, 0.3, 0.1, 0.0),
]

def make_assembly_replay(which):
    def rep(model, wd):
        from gm2v import native
        from gm2v.world import REPO
        import subprocess
        import mpmath as mp
        from contracts.c02 import mp_spec
        mp.mp.dps = 40
        exe = native.build_against_library(wd, REPLAY.replace('@REPO@', REPO), name='kernels_B', exclude=('src_THDM_gm2_2loop_B.cpp.o',))
        defs = mma.load(os.path.join(REPO, MFILE))
        bad, worst = [], 0.0
        for pt in ASSEMBLY_POINTS:
            mw, mz, al, mm, mhSM, mh, mH, mA, mHp, tb, zl, cba, l5, l67 = pt
            r = subprocess.run([exe, which] + [repr(v) for v in pt], capture_output=True, text=True, timeout=60)
            got = float(r.stdout.split()[0])
            M = mp.mpf
            syms = {'CW2': M(mw)**2 / M(mz)**2, 'Pi': mp.pi, 'AL': M(al), 'MM': M(mm), 'MZ': M(mz), 'TB': M(tb), 'ZetaL': M(zl), 'Lambda5': M(l5),
                    'Lambda567': M(l5) + M(l67) / (M(tb) - 1 / M(tb)), 'aeps': M(cba), 'xhSM': (M(mhSM) / M(mz))**2, 'xH': (M(mH) / M(mz))**2,
                    'xA': (M(mA) / M(mz))**2, 'xHp': (M(mHp) / M(mz))**2}
            fns = {'Log': lambda x: mp.log(x), 'PolyLog': lambda n, x: mp.polylog(int(n), x), 'Sqrt': lambda x: mp.sqrt(x),
                   'Phi': lambda a, b, c: mp_spec('Phi', [a, b, c])}
            ev = mma.Evaluator(defs, syms, fns, const=lambda q: mp.mpf(q.numerator) / q.denominator)
            if which == 'EWadd':
                ev.sym.update({'CW': M(mw) / M(mz), 'MH': M(mh)})
                ev.sym.pop('CW2')
                ref = mp.re(ev.ev(('sym', 'amu2LBEW'), {}))
            else:
                rules = ev.rules_of(('sym', 'expandAmu'))
                ref = mp.re(ev.ev(('sym', 'amu2LBYuk' if which == 'Yuk' else 'amu2LBNonYuk'), rules))
            rel = abs(got - ref) / abs(ref)
            worst = max(worst, float(rel))
            if not rel <= 1e-6:
                bad.append('amu2L_B_%s%r: real code %.10e, reference formula %s (rel %.3g)' % (which, pt, got, mp.nstr(ref, 11), float(rel)))
        return bool(bad), 'amu2L_B_%s against %s at 40 digits on %d parameter points: %s' % (which, MFILE, len(ASSEMBLY_POINTS), '; '.join(bad[:3]) if bad else 'all within 1e-6 (worst %.2g)' % worst)
    return rep


@obligation('C10.ref.amu2L_B_EWadd.points', fns=[(B2, 'amu2L_B_EWadd')], backend='bounded', replay=lambda m, wd: make_assembly_replay('EWadd')(m, wd))
def _(ctx):
    """BOUNDED stand-in (4 parameter points, REAL code in native doubles against a 40-digit evaluation of amu2LBEW of math/THDMTwoLoopB.m, Eq. (49)): the code uses a different but
    equivalent basis of special functions (f_PS for the Phi functions, dilogarithms of real arguments for the complex l_i, li_i), which no ring identity relates"""
    import tempfile, shutil
    wd = tempfile.mkdtemp(prefix='gm2v_ew_')
    try:
        bad, det = make_assembly_replay('EWadd')(None, wd)
    finally:
        shutil.rmtree(wd, ignore_errors=True)
    ctx.record('', FAILED if bad else PROVED, 'bounded', 0, 'BOUNDED: ' + det, solver='native execution vs mpmath', kind='bounded')
