"""C11 -- no spurious singularities: the part that contracts decide.

For the THDM two-loop kernels (src/THDM/gm2_2loop_B.cpp, gm2_2loop_F.cpp) and their helpers:
  domains    : on EVERY path and for ALL admissible arguments (mass ratios > 0, 3/5 < cw2 = mw^2/mz^2 < 19/20) every denominator is non-zero and every
               logarithm / square root receives an argument of its domain -- i.e. each `shift' guard really removes the pole it is meant for, and no
               unguarded pole is left.  A failing side obligation comes with the solver's model: the degenerate mass configuration.
  call sites : the top-level functions call the helpers only inside the helpers' preconditions (modular: helpers are replaced by their contracts)
  guards     : a guard only MOVES the argument: downstream of `xh = near(xh_, 1) ? xh_(1+eps) : xh_' the result depends on the mass only through the
               guarded value (the unguarded temporary is dead), so inside the window the function is the generic formula at the shifted argument
  series     : dxlog's near-equal branch is the Taylor polynomial of (a^2 ln a - b^2 ln b)/(a - b) to second order
Continuity follows from these for the real-arithmetic semantics: a composition of continuous functions, evaluated at an argument moved by 1e-8 relative.
NOT decided: the 1% band itself (a numerical statement about cancellations between the 1/(u-1) terms) and IEEE rounding.
"""
import z3, sympy
from fractions import Fraction as Fr
from gm2v.ob import obligation, PROVED, FAILED, UNDECIDED, ERROR
from gm2v.interp import Interp, Thrown
from gm2v.values import to_z3, z3real, is_sym
from gm2v.symobj import symbolic_fields
from gm2v import ring

B = 'src/THDM/gm2_2loop_B.cpp'
F = 'src/THDM/gm2_2loop_F.cpp'

def uf(name):
    return lambda it, a, t: it.uf(name, *a)

SPECIAL = {'f_PS': uf('f_PS'), 'f_S': uf('f_S'), 'dilog': uf('Li2'), 'Phi': uf('Phi'), 'FPZ': uf('FPZ'), 'FSZ': uf('FSZ'), 'FCWl': uf('FCWl'),
           'FCWu': uf('FCWu'), 'FCWd': uf('FCWd'), 'f_CSl': uf('f_CSl'), 'f_CSu': uf('f_CSu'), 'f_CSd': uf('f_CSd'), 'F1': uf('F1'), 'F1t': uf('F1t'),
           'F2': uf('F2'), 'F3': uf('F3')}

u, w, cw2, xA, xH, xHp, al = z3.Reals('u w cw2 xA xH xHp al')
CW = [cw2 > Fr(3, 5), cw2 < Fr(19, 20)]

HELPERS = [
    ('YF1', [u, w, cw2], [u > 0, w > 0]),
    ('YFZ', [u, cw2], [u > 0]),
    ('YFW', [u, cw2], [u > 0]),
    ('YF2', [u, cw2], [u > 0]),
    ('YF3', [u, w, cw2], [u > 0, w > 0]),
    ('T0', [u, w, cw2], [u > 0, w > 0]),
    ('T1', [u, w, cw2], [u > 0, w > 0]),
    ('dxlog', [u, w], [u > 0, w > 0]),
    ('TX', [xH, xA, xHp, cw2], [xH > 0, xA > 0, xHp > 0]),
    ('T4', [u, cw2, xH, xA], [u > 0, xH > 0, xA > 0]),
    ('T5', [u, w, cw2], [u > 0, w > 0]),
    ('T6', [u, w, cw2], [u > 0, w > 0]),
    ('T9', [u, w, cw2], [u > 0, w > 0]),
    ('T10', [u, w, cw2], [u > 0, w > 0]),
    ('fb', [u, w, al, cw2], [u > 0, w >= 0, al > 0]),
    ('Fm0', [u, w, al, cw2], [u > 0, w > 0, al > 0]),
    ('Fmp', [u, w, al, cw2], [u > 0, w > 0, al > 0]),
]

# ------------------------------------------------------------------------------------------------ replay: one-parameter path through the degenerate point
REPLAY = r'''
#include "@REPO@/src/THDM/gm2_2loop_B.cpp"
#include <cstdio>
#include <cstdlib>
int main(int argc, char** argv) {
   // argv: which(0 nonYuk,1 Yuk,2 EWadd, 3 sum) mw mz mh mH mA mHp  vary(0 mh,1 mH,2 mA,3 mHp)
   const int which = std::atoi(argv[1]);
   const double mw = std::atof(argv[2]), mz = std::atof(argv[3]);
   double m[4] = {std::atof(argv[4]), std::atof(argv[5]), std::atof(argv[6]), std::atof(argv[7])};
   const int vary = std::atoi(argv[8]);
   const double ds[] = {-1e-3, -1e-4, -1e-6, -1e-8, -1e-10, -1e-13, 0, 1e-13, 1e-10, 1e-8, 1e-6, 1e-4, 1e-3};
   double val[13];
   for (int i = 0; i < 13; i++) {
      gm2calc::thdm::THDM_B_parameters p;
      p.alpha_em = 1./137.036; p.mm = 0.10565837; p.mw = mw; p.mz = mz; p.mhSM = 125.09;
      double mm[4] = {m[0], m[1], m[2], m[3]};
      mm[vary] = m[vary] * (1 + ds[i]);
      p.mh << mm[0], mm[1]; p.mA = mm[2]; p.mHp = mm[3];
      p.tb = 3; p.zetal = -3; p.cos_beta_minus_alpha = 0.1; p.lambda5 = 0.5; p.lambda67 = 0.2;
      val[i] = which == 0 ? gm2calc::thdm::amu2L_B_nonYuk(p) : which == 1 ? gm2calc::thdm::amu2L_B_Yuk(p) : which == 2 ? gm2calc::thdm::amu2L_B_EWadd(p) : gm2calc::thdm::amu2L_B(p);
   }
   // the property's criterion: all points within 1% (of the magnitude) of the straight line through d = -1e-3 and d = +1e-3
   const double a = val[0], b = val[12];
   const double mag = std::fmax(std::fabs(a), std::fabs(b));
   int bad = 0;
   if (std::fabs(a - b) > 0.2 * mag) { std::printf("SKIP contribution changes by more than 20%% across the window (%.6g .. %.6g)\n", a, b); return 0; }
   for (int i = 0; i < 13; i++) {
      const double line = a + (b - a) * (ds[i] + 1e-3) / 2e-3;
      if (!(std::fabs(val[i] - line) <= 0.01 * mag)) { std::printf("OFF d=%g value=%.10g line=%.10g\n", ds[i], val[i], line); bad++; }
   }
   std::printf("%s values at d=-1e-3,0,+1e-3: %.10g %.10g %.10g\n", bad ? "DISCONTINUOUS" : "CONTINUOUS", a, val[6], b);
   return bad ? 1 : 0;
}
'''

def replay_path(model, wd):
    """turn the solver's degenerate configuration (u, w, cw2 [, xh]) into masses and walk the property's one-parameter path through it on the REAL code"""
    from gm2v import native
    import subprocess, math
    f = model.get('_float', {}) if model else {}
    g = lambda k, d: float(f.get(k, d))
    mz = 91.1876
    c = g('cw2', 0.777)
    mw = math.sqrt(c) * mz
    exe = native.build_program(wd, REPLAY, ['src/gm2_ffunctions.cpp', 'src/gm2_dilog.cpp', 'src/gm2_numerics.cpp'])
    out = []
    hit = False
    uu, ww = g('u', g('xH', 4.0)), g('w', g('xHp', 9.0))
    mU, mHp = math.sqrt(abs(uu)) * mz, math.sqrt(abs(ww)) * mz
    mh = math.sqrt(abs(g('xh', 1.88))) * mz
    for key in f:
        if key.endswith('mh_0_0_') or key.endswith('mh(0)') or 'mh' in key and key.endswith('0'):
            pass
    if 'p.mz' in f:
        sc = mz / g('p.mz', 1.0)
        mw = g('p.mw', 0.88) * sc
        mh = g('p.mh(0)', 1.37) * sc
    runs = []
    # u is the heavy CP-even Higgs (YF3, T0, T9 via xH) ...
    runs += [(1, 'amu2L_B_Yuk', 1, 'mH', (min(mh, 0.5 * mU), mU, 1.07 * mU, mHp)), (1, 'amu2L_B_Yuk', 3, 'mH+', (min(mh, 0.5 * mU), mU, 1.07 * mU, mHp)),
             (0, 'amu2L_B_nonYuk', 1, 'mH', (min(mh, 0.5 * mU), mU, 1.07 * mU, mHp)), (0, 'amu2L_B_nonYuk', 3, 'mH+', (min(mh, 0.5 * mU), mU, 1.07 * mU, mHp))]
    # ... or the CP-odd one (T0(xA, xHp))
    runs += [(0, 'amu2L_B_nonYuk', 2, 'mA', (min(mh, 0.4 * mU), 0.9 * mU, mU, mHp))]
    # ... or the light one (EWadd: xh)
    runs += [(2, 'amu2L_B_EWadd', 0, 'mh', (mh, max(1.3 * mh, 300.0), 400.0, 420.0))]
    for which, name, vary, vn, (m0, m1, m2, m3) in runs:
        args = [str(which), repr(mw), repr(mz), repr(m0), repr(m1), repr(m2), repr(m3), str(vary)]
        r = subprocess.run([exe] + args, capture_output=True, text=True, timeout=120)
        out.append('%s along %s (mw=%.9g mz=%.4f mh=%.9g mH=%.9g mA=%.9g mH+=%.9g): %s' % (name, vn, mw, mz, m0, m1, m2, m3, r.stdout.strip().replace('\n', ' | ')))
        hit = hit or r.returncode == 1
    return hit, '\n'.join(out)[-4000:]

def run(ctx, fn, args, pre, file=B, stubs=None):
    it = Interp(ctx.w, mode='sym', stubs=dict(stubs or SPECIAL), assumptions=list(pre))
    ps = it.run_paths(lambda: it.call(fn, list(args), file=file), max_paths=400)
    ctx.merge_rules(it)
    return it, ps

def helper_stubs(calls, skip=None):
    def helper(name):
        def st(it, a, t):
            calls.append((name, list(a), list(it.sym.pc)))
            return it.uf('h_' + name, *a)
        return st
    stubs = dict(SPECIAL)
    for h, args, pre in HELPERS:
        if h != skip:
            stubs[h] = helper(h)
    for h in ('T7', 'T8'):
        if h != skip:
            stubs[h] = helper(h)
    return stubs

def prove_call_preconditions(ctx, calls, pre, ren=()):
    hp = {h: (args, pre_) for h, args, pre_ in HELPERS}
    n = 0
    for name, a, pc in calls:
        if name in ('T7', 'T8'):
            want = [z3real(a[0]) > 0, z3real(a[1]) > 0]
        else:
            formal, pre_ = hp[name]
            sub = [(f_, z3real(x)) for f_, x in zip(formal, a)]
            want = [z3.substitute(c, *sub) for c in pre_ + (CW if any(z3.eq(f_, cw2) for f_ in formal) else [])]
        n += 1
        ctx.prove('call%d.%s' % (n, name), list(pre) + list(pc), z3.And(*want), kind='pre:' + name, check_vacuity=False)

LO, HI, SEP = Fr(1, 10**6), 10**4, Fr(1, 1000)

def bounds(vs):
    out = []
    for v in vs:
        out += [v >= LO, v <= HI]
    return out

def separation(ctx, uu, ww, cc):
    """no double coincidence: the removable singularities in u -- 1, 4 cw2 and the two zeros (sqrt w +- sqrt cw2)^2 of the Kaellen function -- are pairwise
    further apart than 1e-3, and so are they from u unless u is within a guard window of at most ONE of them (implied)"""
    rw, rc = ctx.real('sqrt_w'), ctx.real('sqrt_cw2')
    pts = [z3.RealVal(1), 4 * cc, (rw + rc) * (rw + rc), (rw - rc) * (rw - rc)]
    out = [rw > 0, rc > 0, rw * rw == ww, rc * rc == cc]
    for i in range(len(pts)):
        for j in range(i + 1, len(pts)):
            out.append(z3.Or(pts[i] - pts[j] > SEP, pts[j] - pts[i] > SEP))
    return out

def make_helper(fn, args, pre):
    guards = fn in ('YF1', 'YF2', 'YF3', 'T0', 'T9', 'T10')
    @obligation('C11.domains.%s' % fn, fns=[(B, fn)] + ([(B, 'shift')] if guards else []) + ([(B, 'shift_kaellen')] if fn in ('YF3', 'T0', 'T9') else []), replay=replay_path)
    def ob(ctx):
        """ensures (all paths; all mass-ratio arguments in [1e-6, 1e4], 3/5 < cw2 < 19/20, no two removable singularities within 1e-3 of each other):
        no division by zero, no logarithm/square root outside its domain; nested helpers are replaced by their contracts and called inside their preconditions"""
        ren = [(v, ctx.real(str(v))) for v in (u, w, cw2, xA, xH, xHp, al)]
        rn = lambda t: z3.substitute(t, *ren)
        mass_args = [rn(a) for a in args if not z3.eq(a, cw2) and not z3.eq(a, al)]
        p = [rn(c) for c in list(pre) + CW] + bounds(mass_args)
        if guards and any(z3.eq(a, w) for a in args):
            p += separation(ctx, rn(u), rn(w), rn(cw2))
        calls = []
        it, ps = run(ctx, fn, [rn(a) for a in args], p, stubs=helper_stubs(calls, skip=fn))
        if not ps:
            ctx.record('paths', ERROR, 'B', 0, 'no feasible path')
            return
        for k, (s, r, e) in enumerate(ps):
            ctx.sides('path%d' % k, s, p, timeout_ms=20000)
        prove_call_preconditions(ctx, calls, p)
        ctx.record('paths', PROVED, 'B', 0, '%d feasible paths, %d nested helper calls' % (len(ps), len(calls)))
    if guards and any(z3.eq(a, w) for a in args):
        @obligation('C11.double_coincidence.%s' % fn, fns=[(B, fn)], replay=replay_path)
        def ob2(ctx):
            """the same WITHOUT the separation assumption (two removable singularities may coincide, e.g. m_H = 2 m_W and m_H+ = 3 m_W): one goal per function"""
            ren = [(v, ctx.real(str(v))) for v in (u, w, cw2, xA, xH, xHp, al)]
            rn = lambda t: z3.substitute(t, *ren)
            mass_args = [rn(a) for a in args if not z3.eq(a, cw2) and not z3.eq(a, al)]
            p = [rn(c) for c in list(pre) + CW] + bounds(mass_args)
            calls = []
            it, ps = run(ctx, fn, [rn(a) for a in args], p, stubs=helper_stubs(calls, skip=fn))
            sub = type(ctx)(ctx.w, ctx.tier, ctx.seed, ctx.oid)
            sub.vars = ctx.vars
            for k, (s, r, e) in enumerate(ps):
                sub.sides('path%d' % k, s, p, timeout_ms=10000)
            bad = [g for g in sub.results if g.status != PROVED]
            if not bad:
                ctx.record('', PROVED, 'B', 0, 'all %d side obligations hold even when singularities coincide' % len(sub.results))
            else:
                fl = [g for g in bad if g.status == FAILED]
                g0 = (fl or bad)[0]
                ctx.record('', FAILED if fl else UNDECIDED, 'B', sum(g.seconds for g in sub.results), '%d of %d side obligations fail when two guard windows overlap; first: %s %s' %
                           (len(bad), len(sub.results), g0.kind, g0.detail[:200]), model=g0.model, solver=g0.solver)
    return ob

for _h in HELPERS:
    make_helper(*_h)

# ------------------------------------------------------------------------------------------------ top-level functions: helper preconditions at call sites
def pre_struct(th):
    f = th.f
    mh = f['mh']
    return [f['mw'] > 0, f['mz'] > 0, f['mw'] * f['mw'] > Fr(3, 5) * f['mz'] * f['mz'], f['mw'] * f['mw'] < Fr(19, 20) * f['mz'] * f['mz'],
            f['mhSM'] > 0, f['mA'] > 0, f['mHp'] > 0, z3real(mh.get(0, 0)) > 0, z3real(mh.get(1, 0)) > z3real(mh.get(0, 0)), f['alpha_em'] > 0, f['mm'] > 0, f['tb'] > 0]

def make_top(fn):
    @obligation('C11.call_sites.%s' % fn, fns=[(B, fn)], replay=replay_path)
    def ob(ctx):
        """ensures: every helper is called inside its precondition (mass-ratio arguments > 0; the second argument of fb may be 0) and the function's own
        denominators/logarithms are in their domains, for all positive masses with mh < mH and 3/5 < mw^2/mz^2 < 19/20"""
        calls = []
        stubs = helper_stubs(calls)
        it = Interp(ctx.w, mode='sym', stubs=stubs)
        th = it.new_object('THDM_B_parameters', symbolic_fields(ctx, prefix='p.'))
        pre = pre_struct(th)
        it.assumptions = list(pre)
        ps = it.run_paths(lambda: it.call(fn, [th], file=B), max_paths=100)
        ctx.merge_rules(it)
        for k, (s, r, e) in enumerate(ps):
            ctx.sides('path%d' % k, s, pre, timeout_ms=20000)
        prove_call_preconditions(ctx, calls, pre)
        ctx.record('paths', PROVED if ps else ERROR, 'B', 0, '%d paths, %d helper calls' % (len(ps), len(calls)))
    return ob

for _f in ('amu2L_B_nonYuk', 'amu2L_B_Yuk', 'amu2L_B_EWadd'):
    make_top(_f)

# ------------------------------------------------------------------------------------------------ guards only move the argument
@obligation('C11.guard.EWadd', fns=[(B, 'amu2L_B_EWadd')], replay=replay_path)
def _(ctx):
    """ensures: downstream of the guard xh = (xh_ close to 1) ? xh_ (1 + 1e-8) : xh_ the result depends on mh only through xh: with the guarded value
    abstracted, the light-Higgs mass does not occur in the result (the unguarded temporary xh_ is dead)"""
    it = Interp(ctx.w, mode='sym', stubs=dict(SPECIAL), div_sides=False)
    th = it.new_object('THDM_B_parameters', symbolic_fields(ctx, prefix='p.'))
    ps = it.run_paths(lambda: it.call('amu2L_B_EWadd', [th], file=B), max_paths=50)
    ctx.merge_rules(it)
    mh0 = z3real(th.f['mh'].get(0, 0))
    for k, (s, r, e) in enumerate(ps):
        r = z3real(r)
        ites = []
        def walk(t):
            if z3.is_app(t) and t.decl().kind() == z3.Z3_OP_ITE:
                if not any(z3.eq(t, o) for o in ites):
                    ites.append(t)
                return
            for c in t.children():
                walk(c)
        walk(r)
        if len(ites) > 1:
            keep = [ites[0]]
            for t in ites[1:]:
                sv = z3.Solver()
                sv.set('timeout', 3000)
                sv.add(t != ites[0])
                rr_ = sv.check()
                if rr_ == z3.unknown:
                    sv.set('timeout', 60000)
                    rr_ = sv.check()
                if rr_ != z3.unsat:
                    keep.append(t)
            same = [t for t in ites if not any(z3.eq(t, k_) for k_ in keep[1:])]
            if len(keep) == 1:
                r = z3.substitute(r, *[(t, ites[0]) for t in same[1:]])
                ites = [ites[0]]
        if len(ites) != 1:
            ctx.record('path%d' % k, UNDECIDED if len(ites) == 0 else FAILED, 'B', 0, '%d distinct guarded values found in the result (expected exactly one: xh)' % len(ites))
            continue
        X = z3.Real('xh_guarded')
        r2 = z3.substitute(r, (ites[0], X))
        uses = _mentions(r2, mh0)
        ctx.record('path%d' % k, FAILED if uses else PROVED, 'B', 0,
                   'the result uses the unguarded light-Higgs mass besides the guarded xh' if uses else 'the result depends on mh only through the guarded xh',
                   model={'_float': {'xh': 1.0}} if uses else None)

def _mentions(t, v):
    seen = set()
    def walk(x):
        if x.get_id() in seen:
            return False
        seen.add(x.get_id())
        if z3.eq(x, v):
            return True
        return any(walk(c) for c in x.children())
    return walk(t)

# ------------------------------------------------------------------------------------------------ dxlog series
def replay_dxlog(model, wd):
    from gm2v import native
    import mpmath
    mpmath.mp.dps = 40
    exe = native.build_scalar_driver(wd, [B], ['src/gm2_ffunctions.cpp', 'src/gm2_dilog.cpp', 'src/gm2_numerics.cpp'], [('dxlog', 'thdm::dxlog(a[0],a[1])', 2)])
    pts = [(b * (1 + d), b) for b in (0.3, 1.0, 4.0, 37.0, 1200.0) for d in (9e-5, -9e-5, 3e-5, 1e-6, 2e-4, -2e-4)]
    vals = native.run_scalar_driver(exe, [('dxlog', list(p)) for p in pts])
    worst = None
    for (a, b), v in zip(pts, vals):
        A, Bm = mpmath.mpf(a), mpmath.mpf(b)
        want = (A * A * mpmath.log(A) - Bm * Bm * mpmath.log(Bm)) / (A - Bm)
        err = abs((mpmath.mpf(v) - want) / want)
        if worst is None or err > worst[0]:
            worst = (float(err), a, b, v, float(want))
    return worst[0] > 1e-6, 'real dxlog(%r, %r) = %r, definition %r, relative error %.3g (sweep of %d near-equal pairs)' % (worst[1], worst[2], worst[3], worst[4], worst[0], len(pts))

@obligation('C11.series.dxlog', fns=[(B, 'dxlog')], replay=replay_dxlog)
def _(ctx):
    """ensures: for a close to b, dxlog returns the Taylor polynomial in (a-b) to second order of (a^2 ln a - b^2 ln b)/(a-b):
    b(1 + 2 ln b) + (a-b)(3/2 + ln b) + (a-b)^2/(3b); on the other path the defining quotient"""
    a, b = z3.Reals('a b')
    it, ps = run(ctx, 'dxlog', [a, b], [a > 0, b > 0])
    A, Bs, D = sympy.symbols('a b d')
    spec = (A**2 * sympy.log(A) - Bs**2 * sympy.log(Bs)) / (A - Bs)
    ser = sympy.series(spec.subs(A, Bs + D), D, 0, 3).removeO()
    want = sympy.Poly(sympy.expand(ser), D)
    okc = okg = False
    for s, r, e in ps:
        ex = ring.to_sympy(z3real(r), {}).replace(sympy.Function('ln'), sympy.log)
        try:
            got = sympy.Poly(sympy.expand(ex.subs(A, Bs + D)), D)
        except Exception:
            got = None
        if got is not None and got.degree() == 2 and all(sympy.simplify(got.coeff_monomial(D**k) - want.coeff_monomial(D**k)) == 0 for k in range(3)):
            okc = True
        elif sympy.simplify(ex - spec) == 0:
            okg = True
    ctx.record('near_equal', PROVED if okc else FAILED, 'B', 0, 'Taylor coefficients of orders 0..2 in (a-b)', solver='sympy series')
    ctx.record('generic', PROVED if okg else FAILED, 'B', 0, '(a^2 ln a - b^2 ln b)/(a - b)', solver='sympy')


def fidelity(tier, seed):
    """A-FRONT guard: the scalar functions of the files under contract, interpreter (float mode) vs compiled real code, bit for bit"""
    from gm2v import fidelity as _fid
    return _fid.scalar_guard(['src/THDM/gm2_2loop_B.cpp'], ['src/gm2_ffunctions.cpp', 'src/gm2_dilog.cpp', 'src/gm2_numerics.cpp'], n_calls=25 if tier == 'quick' else 200, seed=seed, ns_prefix='thdm::', approx=('T7', 'T8'))

# ------------------------------------------------------------------------------------------------ fermionic two-loop part: Barr-Zee quark functions and their call sites
FF = 'src/gm2_ffunctions.cpp'
F2 = 'src/THDM/gm2_2loop_F.cpp'

def make_ff(fn, nargs, names, pre_fn, stubs_extra):
    @obligation('C11.domains.%s' % fn, fns=[(FF, fn)] + ([(FF, 'shift')] if fn in ('FCWu', 'FCWd') else []))
    def ob(ctx):
        """ensures (all paths, all positive arguments): no division by zero, no logarithm/square root outside its domain (for FCWu/FCWd: after the symmetric
        shift the difference quotient's denominator is non-zero; for phi_over_y: outside the two windows around the zeros of y the denominator y is non-zero)"""
        vs = [ctx.real(n) for n in names]
        pre = pre_fn(vs)
        stubs = dict(SPECIAL)
        stubs.pop(fn, None)
        stubs.update(stubs_extra)
        it = Interp(ctx.w, mode='sym', stubs=stubs, assumptions=list(pre))
        def thunk():
            try:
                return it.call(fn, list(vs), file=FF)
            except Exception as e:
                if 'NaN' in str(e):
                    return 'NaN'
                raise
        ps = it.run_paths(thunk, max_paths=400)
        ctx.merge_rules(it)
        if not ps:
            ctx.record('paths', ERROR, 'B', 0, 'no feasible path')
            return
        for k, (s, r, e) in enumerate(ps):
            ctx.sides('path%d' % k, s, pre, timeout_ms=20000)
        ctx.record('paths', PROVED, 'B', 0, '%d feasible paths' % len(ps))
    return ob

# preconditions (documented in the code: "xd == yd <=> xu == yu, per definition"; physical: the down-type quark is much lighter than W and H+-)
def _pre_fcw(vs):
    xu_, xd_, yu_, yd_ = vs[:4]
    return [xu_ > 0, xd_ > 0, yu_ > 0, yd_ > 0, xu_ * yd_ == xd_ * yu_, xd_ < Fr(1, 4), yd_ < Fr(1, 4)]

def _pre_fcs(vs):
    return [vs[0] > 0, vs[1] > 0, vs[1] < Fr(1, 4)]

make_ff('FCWu', 6, ['xu', 'xd', 'yu', 'yd', 'qu', 'qd'], _pre_fcw, {'f_CSu': uf('f_CSu'), 'f_CSd': uf('f_CSd')})
make_ff('FCWd', 6, ['xu', 'xd', 'yu', 'yd', 'qu', 'qd'], _pre_fcw, {'f_CSu': uf('f_CSu'), 'f_CSd': uf('f_CSd')})
make_ff('f_CSd', 4, ['xu', 'xd', 'qu', 'qd'], _pre_fcs, {'phi_over_y': uf('phi_over_y')})
make_ff('f_CSu', 4, ['xu', 'xd', 'qu', 'qd'], _pre_fcs, {'phi_over_y': uf('phi_over_y')})
make_ff('phi_over_y', 2, ['xu', 'xd'], _pre_fcs, {})

@obligation('C11.call_sites.fermionic_charged', fns=[(F2, 'fuHp'), (F2, 'fdHp'), (F2, 'flHp')])
def _(ctx):
    """ensures: fuHp/fdHp call FCWu/FCWd with xu = mu^2/ms^2, xd = md^2/ms^2, yu = mu^2/mw^2, yd = md^2/mw^2 -- positive, xu yd == xd yu, and xd, yd < 1/4
    for md^2 < min(ms^2, mw^2)/4 (down-type quark lighter than half the W and charged-Higgs masses)"""
    ms2, md2, mu2, mw2, mz2 = [ctx.real(n) for n in ('ms2', 'md2', 'mu2', 'mw2', 'mz2')]
    pre = [ms2 > 0, md2 > 0, mu2 > 0, mw2 > 0, mz2 > mw2, 4 * md2 < ms2, 4 * md2 < mw2]
    for fn, callee in (('fuHp', 'FCWu'), ('fdHp', 'FCWd')):
        calls = []
        stubs = dict(SPECIAL)
        stubs[callee] = lambda it, a, t, calls=calls: (calls.append(list(a)), it.uf('h_' + callee, *a))[1]
        it = Interp(ctx.w, mode='sym', stubs=stubs, assumptions=list(pre))
        fds = [f for f in ctx.w.find(fn, F2) if len(f.params) == 5 and f.params[3].type.name == 'double']
        if len(fds) != 1:
            ctx.record(fn, ERROR, 'B', 0, 'extraction: %d five-parameter overloads of %s' % (len(fds), fn))
            continue
        ps = it.run_paths(lambda: it.invoke(fds[0], [ms2, md2, mu2, mw2, mz2], None))
        ctx.merge_rules(it)
        for k, (s, r, e) in enumerate(ps):
            ctx.sides('%s.path%d' % (fn, k), s, pre)
        if len(calls) != 1:
            ctx.record(fn + '.calls', FAILED, 'B', 0, '%d calls of %s' % (len(calls), callee))
            continue
        a = [z3real(x) for x in calls[0]]
        ctx.prove(fn + '.precondition_of_' + callee, pre, z3.And(*_pre_fcw(a)), check_vacuity=False)

# Contracts on single calls carry over to every call in a process only if no function keeps state between calls: C19's static-frame obligation is a lemma here.
from contracts.shared import reregister as _rr_static
from contracts import c19 as _c19_static
_rr_static('C11', 'C19', 'C19.no_stateful_local_statics', 'C11.lemma.no_state_between_calls', replay=None)

# ------------------------------------------------------------------------------------------------ MSSM: the Higgs mixing angle at M_A = M_Z
# The MSSM two-loop Barr-Zee terms reach the "mass equal to MZ" configuration through tan_alpha(): tan(2 alpha) = tan(2 beta)(MA^2+MZ^2)/(MA^2-MZ^2) has a pole
# at MA = MZ, and tan(alpha) must stay the NEGATIVE root of t x^2 + 2 x - t = 0 on both sides of it (documented: "the result is < 0", -pi/2 < alpha < 0).
M2L = 'src/MSSMNoFV/gm2_2loop.cpp'

TANALPHA_REPLAY = r'''
#include "gm2calc/MSSMNoFV_onshell.hpp"
#include <cstdio>
#include <cmath>
namespace gm2calc { double tan_alpha(const MSSMNoFV_onshell&); }
// the REAL tan_alpha on a path of MA through MZ: negative, finite, equal to the (continuous) negative root of t x^2 + 2 x - t = 0
int main(int argc, char** argv) {
   int bad = 0;
   for (double tb : {1.5, 3.0, 10.0, 50.0}) {
      double prev = 0; bool have = false;
      for (double d : {-1e-2, -1e-4, -1e-8, -1e-13, 0.0, 1e-13, 1e-8, 1e-4, 1e-2}) {
         gm2calc::MSSMNoFV_onshell m; m.set_TB(tb); m.set_MA0(m.get_MZ() * (1 + d));
         const double x = gm2calc::tan_alpha(m);
         const double ma = m.get_MA0(), mz = m.get_MZ(), t2b = 2 * tb / (1 - tb * tb);
         const double c = (ma * ma - mz * mz) / (t2b * (ma * ma + mz * mz));           // 1/tan(2 alpha), finite at MA = MZ
         const double want = -c - std::sqrt(c * c + 1);
         const bool ok = std::isfinite(x) && x < 0 && std::fabs(x - want) <= 1e-9 * std::fabs(want);
         if (!ok) { bad++; std::printf("tan(beta)=%g MA=MZ(1%+g): tan_alpha = %.12g, negative root %.12g, previous point %.12g\n", tb, d, x, want, prev); }
         prev = x; have = true;
      }
   }
   std::printf("%d points out of contract\n", bad);
   return bad ? 1 : 0;
}
'''

def tan_alpha_replay(model, wd):
    from gm2v import native
    import subprocess
    exe = native.build_against_library(wd, TANALPHA_REPLAY)
    r = subprocess.run([exe], capture_output=True, text=True, timeout=120)
    return r.returncode == 1, r.stdout.strip()[-1500:]

@obligation('C11.mssm.tan_alpha.negative_root', fns=[(M2L, 'tan_alpha')], replay=tan_alpha_replay)
def _(ctx):
    """ensures for all tan(beta) > 0, tan(beta) != 1, MA, MZ > 0, MA != MZ:  x = tan_alpha(model) satisfies  t x^2 + 2 x - t == 0  with
    t = tan(2 beta)(MA^2 + MZ^2)/(MA^2 - MZ^2)  and  x < 0  (the documented branch -pi/2 < alpha < 0) -- on BOTH sides of MA = MZ; no other division by zero, sqrt argument >= 0"""
    tb, ma, mz = ctx.real('tb'), ctx.real('ma'), ctx.real('mz')
    pre = [tb > 0, tb != 1, ma > 0, mz > 0, ma != mz]
    it = Interp(ctx.w, mode='sym', assumptions=pre, stubs={'MSSMNoFV_onshell::get_TB': lambda i, a, t: tb, 'MSSMNoFV_onshell::get_MZ': lambda i, a, t: mz,
                                                           'MSSMNoFV_onshell::get_MA0': lambda i, a, t: ma, 'get_TB': lambda i, a, t: tb, 'get_MZ': lambda i, a, t: mz, 'get_MA0': lambda i, a, t: ma})
    m = it.new_object('MSSMNoFV_onshell')
    ps = it.run_paths(lambda: it.call('tan_alpha', [m], file=M2L))
    ctx.merge_rules(it)
    t = 2 * tb / (1 - tb * tb) * (ma * ma + mz * mz) / (ma * ma - mz * mz)
    pins = [{'tb': Fr(3), 'ma': Fr(50), 'mz': Fr(91)}, {'tb': Fr(3), 'ma': Fr(150), 'mz': Fr(91)}, {'tb': Fr(1, 2), 'ma': Fr(50), 'mz': Fr(91)}, {'tb': Fr(1, 2), 'ma': Fr(150), 'mz': Fr(91)}]
    for k, (s, r, e) in enumerate(ps):
        if e is not None or r is None:
            ctx.record('path%d' % k, FAILED, 'B', 0, 'no value: %s' % e)
            continue
        x = z3real(r)
        ctx.prove('path%d.negative' % k, pre + list(s.pc) + list(s.axioms), x < 0, pins=pins, tactics=('default', 'nlsat'))
        ctx.prove('path%d.root_of_tan2alpha' % k, pre + list(s.pc) + list(s.axioms), t * x * x + 2 * x - t == 0, pins=pins, tactics=('default', 'nlsat'))
        ctx.sides('path%d' % k, s, pre, pins=pins)
    ctx.record('paths', PROVED if ps else ERROR, 'B', 0, '%d paths' % len(ps))

@obligation('C11.mssm.tan_alpha.at_MA_equal_MZ', fns=[(M2L, 'tan_alpha')], backend='F', replay=tan_alpha_replay)
def _(ctx):
    """ensures (IEEE-754 doubles, round to nearest -- NOT the real-arithmetic abstraction): for ALL tan(beta) in [1e-3, 1e3] (tan(beta) = 1 included) and ALL
    MZ in [1e-3, 1e5], with MA bit-identical to MZ (tan(2 alpha) = +-inf):  tan_alpha(model) == -1.0 exactly (alpha = -pi/4: finite, negative, the common
    limit of both sides).  Decided by executing the extracted function on SETS of doubles (gm2v/fpset.py: sign-homogeneous pieces + NaN flag; end-point
    evaluation is exact for rounded monotone operations; x - x == +0 for equal finite expressions is the only correlation used); no sampling."""
    from gm2v import fpset
    def run(vals):
        tb, mz = vals['tb'], vals['mz']
        st = {}
        for nm, v in (('get_TB', tb), ('get_MZ', mz), ('get_MA0', mz)):
            st[nm] = st['MSSMNoFV_onshell::' + nm] = (lambda i, a, t, v=v: v)
        it = Interp(ctx.w, mode='float', stubs=st)
        m = it.new_object('MSSMNoFV_onshell')
        r = it.run_single(lambda: it.call('tan_alpha', [m], file=M2L))
        ctx.merge_rules(it)
        return fpset.lift(r)
    t0 = __import__('time').time()
    st, n, info = fpset.decide_on_box(run, {'tb': (1e-3, 1e3), 'mz': (1e-3, 1e5)}, lambda r: r.is_point() and r.value() == -1.0)
    dt = __import__('time').time() - t0
    if st == 'proved':
        ctx.record('', PROVED, 'F', dt, 'result set == {-1.0} on %d box(es) covering tan(beta) in [1e-3,1e3] x MZ = MA in [1e-3,1e5]' % n, solver='IEEE set-enclosure execution (gm2v/fpset.py)')
    elif st == 'failed':
        ctx.record('', FAILED, 'F', dt, 'tan_alpha at MA == MZ = %r, tan(beta) = %r is %s (expected exactly -1)' % (info['mz'], info['tb'], info['_result']),
                   model={'_float': {'tb': info['tb'], 'mz': info['mz']}}, solver='IEEE set-enclosure execution (gm2v/fpset.py)')
    else:
        ctx.record('', UNDECIDED, 'F', dt, 'not decided: %s' % info, solver='IEEE set-enclosure execution (gm2v/fpset.py)')

# ------------------------------------------------------------------------------------------------ guards of removable singularities vs the rounding noise floor
# A guard `|E| < eps` that switches to the analytic limit next to a zero of a denominator only works if eps is ABOVE the rounding noise of E: in the standard model of
# floating-point arithmetic the computed E is off by at most ~k u mag(E), where mag(E) is E with every addition/subtraction replaced by the sum of the magnitudes
# (u = 2^-53, k = number of roundings).  If eps is below that noise, the exact coincidence is not recognised and the generic branch divides by a vanishing number.
# Obligation: for every guard `|E| < c` (c <= 1e-3) on a path of the function, for all admissible arguments near the guard (|E| < 1):  c >= 4 u mag(E).
U_DBL = Fr(1, 2**53)

def _mag(t):
    """magnitude bound of a z3 arithmetic term: additions/subtractions add magnitudes, products multiply them, quotients divide by the |denominator|"""
    if z3.is_rational_value(t) or z3.is_int_value(t):
        return z3.RealVal(abs(Fr(t.numerator_as_long(), t.denominator_as_long()))) if z3.is_rational_value(t) else z3.RealVal(abs(t.as_long()))
    k = t.decl().kind()
    ch = t.children()
    az = lambda x: z3.If(x >= 0, x, -x)
    if k in (z3.Z3_OP_ADD, z3.Z3_OP_SUB):
        r = _mag(ch[0])
        for c in ch[1:]:
            r = r + _mag(c)
        return r
    if k == z3.Z3_OP_UMINUS:
        return _mag(ch[0])
    if k == z3.Z3_OP_MUL:
        r = _mag(ch[0])
        for c in ch[1:]:
            r = r * _mag(c)
        return r
    if k == z3.Z3_OP_DIV:
        return _mag(ch[0]) / az(ch[1])
    if k == z3.Z3_OP_ITE:
        return z3.If(ch[0], _mag(ch[1]), _mag(ch[2]))
    return az(t)

def _abs_guards(pc):
    """(E, c) for path-condition literals of the form |E| < c / not(|E| < c) with a small constant c"""
    out = []
    for lit in pc:
        t = lit
        while z3.is_not(t):
            t = t.arg(0)
        if not (z3.is_lt(t) or z3.is_le(t) or z3.is_gt(t) or z3.is_ge(t)):
            continue
        a, b = t.arg(0), t.arg(1)
        if z3.is_rational_value(a) and not z3.is_rational_value(b):
            a, b = b, a                         # constant on the left: c <= |E| etc.
        if not z3.is_rational_value(b):
            continue
        c = Fr(b.numerator_as_long(), b.denominator_as_long())
        if not (0 < c <= Fr(1, 1000)):
            continue
        if z3.is_app(a) and a.decl().kind() == z3.Z3_OP_ITE and a.num_args() == 3:
            E = a.arg(1)                        # |E| is If(E >= 0, E, -E) (possibly with the comparison rewritten)
            if not any(z3.eq(E, e0) for e0, _ in out):
                out.append((E, c))
    return out

def noise_replay(fn):
    def rep(model, wd):
        from gm2v import native
        import mpmath as mp
        mp.mp.dps = 40
        # the REAL f_CSd along paths of xu through both zeros of y = (xu - xd)^2 - 2 (xu + xd) + 1, i.e. xu = (1 -+ sqrt(xd))^2, against the 40-digit value of the definition
        exe = native.build_scalar_driver(wd, [FF], ['src/gm2_dilog.cpp', 'src/gm2_numerics.cpp'], [('phi_over_y', 'phi_over_y(a[0], a[1])', 2)])
        calls, want = [], []
        for xd in (6e-4, 1e-3, 2.5e-5, 1e-2):
            for sg in (1, -1):
                for d in (0, 1e-13, -1e-13, 1e-11, -1e-11, 1e-9, -1e-9, 1e-6, -1e-6):
                    xu0 = (1 + sg * xd ** 0.5) ** 2
                    xu = xu0 * (1 + d)
                    calls.append(('phi_over_y', [xu, xd]))
        vals = native.run_scalar_driver(exe, calls)
        def ref(xu, xd):
            xu, xd = mp.mpf(xu), mp.mpf(xd)
            y = (xu - xd) ** 2 - 2 * (xu + xd) + 1
            lam = mp.sqrt(y)
            if abs(y) < mp.mpf(10) ** -25:
                return None
            # Davydychev-Tausk Phi(xd, xu, 1) / y  (analytic continuation by mp)
            xp = (1 + xd - xu - lam) / 2
            xm = (1 - xd + xu - lam) / 2
            phi = lam * (2 * mp.log(xp) * mp.log(xm) - mp.log(xd) * mp.log(xu) - 2 * mp.polylog(2, xp) - 2 * mp.polylog(2, xm) + mp.pi ** 2 / 3) if y > 0 else None
            return None if phi is None else mp.re(phi / y)
        worst = (0, None)
        prev = None
        import math
        for (nm, (xu, xd)), v in zip(calls, vals):
            if not math.isfinite(v):
                worst = (float('inf'), (xu, xd, v))
                break
        # continuity: the points of a path must agree to 2% (the function is smooth there)
        n_per = 9
        for p0 in range(0, len(vals), n_per):
            grp = vals[p0:p0 + n_per]
            base = grp[7]      # d = +1e-6
            for v, (nm, a_) in zip(grp, calls[p0:p0 + n_per]):
                if math.isfinite(v) and abs(v - base) > 2e-2 * abs(base) and abs(v - base) / abs(base) > worst[0]:
                    worst = (abs(v - base) / abs(base), (a_[0], a_[1], v, base))
        bad = worst[0] > 2e-2       # rounding noise just outside the guard window reaches 0.6% for xd = 2.5e-5 on the unchanged tree; a missed coincidence gives 0, NaN or O(1) jumps
        return bad, 'phi_over_y along xu -> (1 +- sqrt(xd))^2: worst deviation from the value at relative distance 1e-6: %s' % (worst,)
    return rep

@obligation('C11.guards_above_noise_floor.phi_over_y', fns=[(FF, 'phi_over_y')], replay=noise_replay('phi_over_y'))
def _(ctx):
    """ensures (standard model of floating-point arithmetic, u = 2^-53; not an A-REAL statement): every guard |E| < c with which phi_over_y recognises a zero of its
    denominator satisfies  c >= 4 u mag(E)  for all 1e-6 <= xd < 1/4 and all xu with |E| < 1 -- the window is wider than the rounding noise of the tested
    expression, so the exact coincidence m_H+ = m_t +- m_b is recognised and the analytic limit is used there"""
    xu, xd = ctx.real('xu'), ctx.real('xd')
    pre = [xu > 0, xd >= Fr(1, 10**6), xd < Fr(1, 4)]
    stubs = dict(SPECIAL)
    stubs.pop('phi_over_y', None)
    it = Interp(ctx.w, mode='sym', stubs=stubs, assumptions=list(pre))
    ps = it.run_paths(lambda: it.call('phi_over_y', [xu, xd], file=FF), max_paths=100)
    ctx.merge_rules(it)
    guards = []
    for s, r, e in ps:
        for E, c in _abs_guards(s.pc):
            if not any(z3.eq(E, g[0]) for g in guards):
                guards.append((E, c, list(s.axioms)))
    pins = [{'xu': Fr(1), 'xd': Fr(6, 10**4)}, {'xu': Fr(105, 100), 'xd': Fr(6, 10**4)}, {'xu': Fr(1), 'xd': Fr(1, 10**6)}]
    for i, (E, c, ax) in enumerate(guards):
        near = z3.And(E < 1, E > -1)
        ctx.prove('guard%d' % i, pre + [near] + ax, z3.RealVal(c) >= 4 * to_z3(U_DBL) * _mag(E), check_vacuity=False, tactics=('nlsat', 'default'), pins=pins,
                  model_vars={'xu': xu, 'xd': xd})
    ctx.record('guards', PROVED if len(guards) == 2 else FAILED, 'B', 0, '%d guards of the form |E| < c found on the paths (two zeros of y)' % len(guards))
from contracts import ieee_finite as _ieee; _ieee.register('C11')  # noqa: IEEE finiteness of the one-argument loop functions
_ieee.register_selftest('C11')

# "finite and continuous across mass degeneracies" for the MSSM one-/two-loop and the THDM one-loop/fermionic functions rests on the loop functions they call being, on BOTH sides
# of every internal regime change, within 1e-7 of ONE smooth definition (C01) and on the near-degenerate expansions of the multi-variable functions being the Taylor polynomials
# of their definitions (C02): those obligations are callee contracts of C11 as well.
from contracts import c01 as _c01_cb, c02 as _c02_cb
from gm2v.ob import REGISTRY as _REG_cb
for _o in list(_REG_cb.get('C01', [])):
    if _o.oid.endswith('.def') and _o.oid.count('.') == 2:
        _rr_static('C11', 'C01', _o.oid, _o.oid.replace('C01.', 'C11.callee.', 1))
for _o in list(_REG_cb.get('C02', [])):
    if _o.oid in ('C02.expansion.FaFb', 'C02.expansion.I', 'C02.limits.BarrZee', 'C02.limits.zero', 'C02.equal_arguments.FPZ_FSZ'):
        _rr_static('C11', 'C02', _o.oid, _o.oid.replace('C02.', 'C11.callee.', 1))

# ---------------------------------------------------------------------------------------------------
# BOUNDED stand-in for the 1 % band itself (the property's own test, literally, through the public API): base points x every one-parameter path m -> m0 (1 + d),
# d in {0, +-1e-13, +-1e-10, +-1e-7, +-1e-4}, through each configuration m0 = m_j, 2 m_j, m_j/2, m_j + m_k, |m_j - m_k| formed from the other masses of the point and MW, MZ, m_hSM;
# all values finite and within 1 % of the contribution's magnitude of the straight line through the values at d = -+1e-3 (paths changing by more than 20 % are skipped)
# ---------------------------------------------------------------------------------------------------
BAND_THDM_SRC = r'''#include "gm2calc/THDM.hpp"
#include "gm2calc/SM.hpp"
#include "gm2calc/gm2_1loop.hpp"
#include "gm2calc/gm2_2loop.hpp"
#include "gm2calc/gm2_uncertainty.hpp"
#include "gm2calc/gm2_error.hpp"
#include <cstdio>
#include <cmath>
#include <vector>
#include <string>
struct P { const char* name; int type; double m[4]; double sba, tb, l6, l7, m122; };   // m = mh, mH, mA, mHp
static bool eval(const P& p, const double m[4], double out[4]) {
   try {
      gm2calc::thdm::Mass_basis b; b.yukawa_type = gm2calc::thdm::int_to_cpp_yukawa_type(p.type);
      b.mh = m[0]; b.mH = m[1]; b.mA = m[2]; b.mHp = m[3]; b.sin_beta_minus_alpha = p.sba; b.lambda_6 = p.l6; b.lambda_7 = p.l7; b.tan_beta = p.tb; b.m122 = p.m122;
      gm2calc::SM sm; gm2calc::thdm::Config cfg; cfg.running_couplings = true;
      const gm2calc::THDM model(b, sm, cfg);
      out[0] = gm2calc::calculate_amu_1loop(model); out[1] = gm2calc::calculate_amu_2loop_fermionic(model); out[2] = gm2calc::calculate_amu_2loop_bosonic(model);
      out[3] = gm2calc::calculate_uncertainty_amu_2loop(model);
      return true;
   } catch (const gm2calc::Error&) { return false; }
}
int main() {
   const P pts[] = {
      {"P1", 2, {125.0, 400.0, 420.0, 440.0}, 0.999, 3.0, 0.0, 0.0, 40000.0},
      {"P2", 3, {125.0, 300.0, 250.0, 500.0}, 0.98, 20.0, 0.1, -0.1, 4000.0},
      {"P3", 1, {110.0, 200.0, 150.0, 180.0}, -0.995, 0.7, 0.0, 0.0, 8000.0},
      {"P4", 4, {125.09, 700.0, 650.0, 720.0}, 0.9999, 45.0, 0.0, 0.0, 10000.0},
   };
   const double MW = 80.379, MZ = 91.1876, MHSM = 125.09;
   const char* cn[4] = {"1L", "2LF", "2LB", "unc"};
   const char* mn[4] = {"mh", "mH", "mA", "mH+"};
   const double ds[] = {0, 1e-13, -1e-13, 1e-10, -1e-10, 1e-7, -1e-7, 1e-4, -1e-4};
   int nviol = 0, npaths = 0, nnonfinite = 0;
   for (const auto& p : pts) for (int i = 0; i < 4; i++) {
      std::vector<double> others;
      for (int j = 0; j < 4; j++) if (j != i) others.push_back(p.m[j]);
      others.push_back(MW); others.push_back(MZ); others.push_back(MHSM);
      std::vector<double> m0s;
      for (size_t a = 0; a < others.size(); a++) {
         m0s.push_back(others[a]); m0s.push_back(2*others[a]); m0s.push_back(0.5*others[a]);
         for (size_t c = a + 1; c < others.size(); c++) { m0s.push_back(others[a] + others[c]); m0s.push_back(std::fabs(others[a] - others[c])); }
      }
      for (double m0 : m0s) {
         if (m0 < 20 || m0 > 3000) continue;
         double m[4] = {p.m[0], p.m[1], p.m[2], p.m[3]};
         auto at = [&](double d, double out[4]) { m[i] = m0*(1 + d); if (m[0] > m[1]) return false; return eval(p, m, out); };
         double fm[4], fp[4];
         if (!at(-1e-3, fm) || !at(1e-3, fp)) continue;
         npaths++;
         for (double d : ds) {
            double f[4];
            if (!at(d, f)) continue;
            for (int c = 0; c < 4; c++) {
               if (!std::isfinite(f[c])) { nnonfinite++; std::printf("NONFINITE %s %s through %.10g d=%g: %s = %g\n", p.name, mn[i], m0, d, cn[c], f[c]); continue; }
               const double mag = std::max(std::fabs(fm[c]), std::fabs(fp[c]));
               if (std::fabs(fp[c] - fm[c]) > 0.2*mag) continue;
               const double line = fm[c] + (fp[c] - fm[c])*(d + 1e-3)/2e-3;
               if (std::fabs(f[c] - line) > 0.01*mag) { nviol++; std::printf("BAND %s %s through %.10g d=%g: %s = %.6e, line %.6e (dev %.2f%%)\n", p.name, mn[i], m0, d, cn[c], f[c], line, 100*std::fabs(f[c]-line)/mag); }
            }
         }
      }
   }
   std::printf("%d paths, %d band violations, %d non-finite\n", npaths, nviol, nnonfinite);
   return (nviol || nnonfinite) ? 1 : 0;
}
'''

BAND_MSSM_SRC = r'''#include "gm2calc/gm2_1loop.hpp"
#include "gm2calc/gm2_2loop.hpp"
#include "gm2calc/gm2_uncertainty.hpp"
#include "gm2calc/gm2_error.hpp"
#include "gm2calc/MSSMNoFV_onshell.hpp"
#include <cstdio>
#include <cmath>
#include <vector>
struct B { const char* name; double tb; double p[8]; };  // p = Mu, M1, M2, msl2(=ml2(1,1) root), mse2 root, MA, msq, M3
static bool eval(const B& b, const double p[8], double out[4]) {
   try {
      gm2calc::MSSMNoFV_onshell model;
      const double Pi = 3.141592653589793;
      const Eigen::Matrix<double,3,3> U = Eigen::Matrix<double,3,3>::Identity();
      model.set_alpha_MZ(0.0077552); model.set_alpha_thompson(0.00729735); model.set_g3(std::sqrt(4 * Pi * 0.1184));
      model.get_physical().MFt = 173.34; model.get_physical().MFb = 4.18; model.get_physical().MFm = 0.1056583715; model.get_physical().MFtau = 1.777;
      model.get_physical().MVWm = 80.385; model.get_physical().MVZ = 91.1876;
      model.set_TB(b.tb); model.set_Ae(1,1,0);
      model.set_Mu(p[0]); model.set_MassB(p[1]); model.set_MassWB(p[2]); model.set_MassG(p[7]);
      model.set_mq2(p[6]*p[6]*U); model.set_ml2(p[3]*p[3]*U); model.set_md2(p[6]*p[6]*U); model.set_mu2(p[6]*p[6]*U); model.set_me2(p[4]*p[4]*U);
      model.set_Au(2,2,0); model.set_Ad(2,2,0); model.set_Ae(2,2,0); model.set_MA0(p[5]); model.set_scale(500);
      model.calculate_masses();
      if (model.get_problems().have_problem()) return false;
      out[0] = gm2calc::calculate_amu_1loop(model); out[1] = gm2calc::calculate_amu_2loop(model); out[2] = gm2calc::calculate_amu_1loop_non_tan_beta_resummed(model);
      out[3] = gm2calc::calculate_uncertainty_amu_2loop(model);
      return true;
   } catch (const gm2calc::Error&) { return false; }
}
int main() {
   const B bs[] = {{"M1", 10, {350, 150, 300, 500, 500, 1500, 500, 1000}}, {"M2", 40, {-600, 300, -500, 400, 600, 800, 1000, 2000}}, {"M3", 3, {1000, -400, 800, 350, 900, 2000, 2000, 1500}},
                   {"M4", 50, {200, 250, 220, 300, 280, 500, 700, 900}}};
   const double MW = 80.385, MZ = 91.1876;
   const char* cn[4] = {"1L", "2L", "1Lnonres", "unc"};
   const char* pn[8] = {"Mu", "M1", "M2", "msl", "mse", "MA", "msq", "M3"};
   const double ds[] = {0, 1e-13, -1e-13, 1e-10, -1e-10, 1e-7, -1e-7, 1e-4, -1e-4};
   int nviol = 0, npaths = 0, nnonfinite = 0;
   for (const auto& b : bs) for (int i = 0; i < 8; i++) {
      std::vector<double> others;
      for (int j = 0; j < 8; j++) if (j != i) others.push_back(std::fabs(b.p[j]));
      others.push_back(MW); others.push_back(MZ);
      std::vector<double> m0s;
      for (size_t a = 0; a < others.size(); a++) {
         m0s.push_back(others[a]); m0s.push_back(2*others[a]);
         for (size_t c = a + 1; c < others.size(); c++) { m0s.push_back(others[a] + others[c]); m0s.push_back(std::fabs(others[a] - others[c])); }
      }
      for (double m0 : m0s) for (int sgn = (i < 3 ? -1 : 1); sgn <= 1; sgn += 2) {
         if (m0 < 60 || m0 > 5000) continue;
         double p[8]; for (int j = 0; j < 8; j++) p[j] = b.p[j];
         auto at = [&](double d, double out[4]) { p[i] = sgn*m0*(1 + d); return eval(b, p, out); };
         double fm[4], fp[4];
         if (!at(-1e-3, fm) || !at(1e-3, fp)) continue;
         npaths++;
         for (double d : ds) {
            double f[4];
            if (!at(d, f)) continue;
            for (int c = 0; c < 4; c++) {
               if (!std::isfinite(f[c])) { nnonfinite++; std::printf("NONFINITE %s %s through %.10g d=%g: %s = %g\n", b.name, pn[i], sgn*m0, d, cn[c], f[c]); continue; }
               const double mag = std::max(std::fabs(fm[c]), std::fabs(fp[c]));
               if (std::fabs(fp[c] - fm[c]) > 0.2*mag) continue;
               const double line = fm[c] + (fp[c] - fm[c])*(d + 1e-3)/2e-3;
               if (std::fabs(f[c] - line) > 0.01*mag) { nviol++; std::printf("BAND %s %s through %.10g d=%g: %s = %.6e, line %.6e (dev %.2f%%)\n", b.name, pn[i], sgn*m0, d, cn[c], f[c], line, 100*std::fabs(f[c]-line)/mag); }
            }
         }
      }
   }
   std::printf("%d paths, %d band violations, %d non-finite\n", npaths, nviol, nnonfinite);
   return (nviol || nnonfinite) ? 1 : 0;
}
'''

def band_lines(wd, which):
    from gm2v import native
    import subprocess
    exe = native.build_against_library(wd, BAND_THDM_SRC if which == 'thdm' else BAND_MSSM_SRC, name='band_' + which)
    r = subprocess.run([exe], capture_output=True, text=True, timeout=600)
    return r.stdout.splitlines()

def make_band(which):
    def replay(model, wd):
        ls = band_lines(wd, which)
        bad = [l for l in ls if l.startswith(('BAND', 'NONFINITE'))]
        return bool(bad), '; '.join(bad[:6]) + (' | ' + ls[-1] if ls else '')
    @obligation('C11.band.sweep.' + which, fns=[], backend='bounded', replay=replay)
    def ob(ctx):
        """BOUNDED stand-in (4 base points, every degenerate configuration formed from their masses, 9 distances each; REAL library, native doubles): every contribution and the
        uncertainty finite, and within 1 % of the straight line through the values at relative distance -+1e-3"""
        import tempfile, shutil, collections
        wd = tempfile.mkdtemp(prefix='gm2v_band_')
        try:
            ls = band_lines(wd, which)
        finally:
            shutil.rmtree(wd, ignore_errors=True)
        if not ls or 'paths' not in ls[-1]:
            ctx.record('', ERROR, 'bounded', 0, 'no output of the band harness')
            return
        bad = collections.OrderedDict()
        for l in ls:
            if l.startswith(('BAND', 'NONFINITE')):
                p = l.split()
                key = p[1] + '.' + p[2] + '@' + p[4]            # base point . varied parameter @ configuration
                bad.setdefault(key, []).append(l)
        for key, lines in bad.items():
            ctx.record(key, FAILED, 'bounded', 0, 'BOUNDED: ' + '; '.join(lines[:3]), solver='native execution of the real library', kind='bounded')
        ctx.record('', PROVED, 'bounded', 0, 'BOUNDED: ' + ls[-1] + ('' if not bad else ' (failing configurations are separate goals)'), solver='native execution of the real library', kind='bounded')
    return ob

for _w in ('thdm', 'mssm'):
    make_band(_w)

# ---------------------------------------------------------------------------------------------------
# MSSM leading-log functions: for parameters of EITHER sign every logarithm and square root is inside its domain (a contribution that is NaN is not "a finite number").
# m_SUSY (log_scale) by its callee contract: positive (C07.callee.log_scale.m_susy, re-registered below).
# ---------------------------------------------------------------------------------------------------
M1L = 'src/MSSMNoFV/gm2_1loop.cpp'
MSSM_LL = [(M2L, n) for n in ('amu2LFSfapprox', 'amu2LFSfapprox_non_tan_beta_resummed', 'delta_g1', 'delta_g2', 'delta_yuk_higgsino', 'delta_yuk_bino_higgsino',
                              'delta_yuk_wino_higgsino', 'delta_tan_beta')] + \
          [(M1L, n) for n in ('amu1LWHnu', 'amu1LWHmuL', 'amu1LBHmuL', 'amu1LBHmuR', 'amu1LBmuLmuR', 'amu1Lapprox', 'amu1Lapprox_non_tan_beta_resummed', 'tan_beta_cor',
                              'delta_mu_correction', 'delta_tau_correction', 'delta_bottom_correction')]

def make_mssm_domain(file, fn):
    @obligation('C11.mssm.domains.%s' % fn, fns=[(file, fn)])
    def ob(ctx, file=file, fn=fn):
        """ensures for ALL models with positive soft masses squared, non-zero Mu, M1, M2 of either sign, positive scale, vevs and SM masses, MW < MZ: every logarithm is taken of a
        positive number and every square root of a non-negative one, on every path (loop functions by contract; m_SUSY > 0 by the callee contract of log_scale)"""
        LS = z3.Real('m_SUSY')
        def uf(name):
            return lambda it_, a, t: it_.uf('fn_' + name, *[z3.simplify(z3real(x)) for x in a if is_sym(x) or isinstance(x, (int, float, Fr))])
        stubs = {n: uf(n) for n in ('Fa', 'Fb', 'Iabc', 'F1C', 'F2C', 'F1N', 'F2N', 'F3C', 'F4C', 'F3N', 'F4N')}
        stubs['log_scale'] = lambda it_, a, t: LS
        it = Interp(ctx.w, mode='sym', stubs=stubs, feasibility=False, div_sides=False)
        m = it.new_object('MSSMNoFV_onshell', symbolic_fields(None, prefix='m.'))
        f = m.f
        pre = [LS > 0, f['MassB'] != 0, f['MassWB'] != 0, f['Mu'] != 0, f['MassG'] != 0, f['scale'] > 0, f['vd'] > 0, f['vu'] > 0, f['g1'] > 0, f['g2'] > 0, f['g3'] > 0]
        for nm in ('mq2', 'ml2', 'mu2', 'md2', 'me2'):
            for i in range(3):
                pre.append(z3real(f[nm].get(i, i)) > 0)
        ph = f['physical'].f
        for nm in ('MVWm', 'MVZ', 'MFt', 'MFb', 'MFtau', 'MFm'):
            if nm in ph and is_sym(ph[nm]):
                pre.append(ph[nm] > 0)
        if 'MVWm' in ph and 'MVZ' in ph:
            pre.append(ph['MVWm'] < ph['MVZ'])
        for nm in ('MSm', 'MStau', 'MSb', 'MSt', 'MCha', 'MChi'):
            if nm in f and hasattr(f[nm], 'elems'):
                pre += [z3real(x) > 0 for x in f[nm].elems() if is_sym(x)]
        for nm in ('MSvmL', 'MSveL', 'MSvtL', 'MAh', 'EL', 'EL0'):
            if nm in f and is_sym(f[nm]):
                pre.append(f[nm] > 0)
        it.assumptions = pre
        fds = [d for d in ctx.w.find(fn, file) if len(d.params) == 1]
        if len(fds) != 1:
            ctx.record('', ERROR, 'B', 0, 'extraction: %d definitions of %s' % (len(fds), fn))
            return
        ps = it.run_paths(lambda: it.invoke(fds[0], [m], None), max_paths=200)
        ctx.merge_rules(it)
        n = 0
        for k, (s, r, e) in enumerate(ps):
            n += 1
            ctx.sides('path%d' % k, s, pre, only=lambda d: d.startswith(('ln', 'sqrt', 'log')), timeout_ms=8000)
        ctx.record('paths', PROVED if n else ERROR, 'B', 0, '%d path(s)' % n)
    return ob

for _file, _fn in MSSM_LL:
    make_mssm_domain(_file, _fn)
from contracts import c07 as _c07_c11
_rr_static('C11', 'C07', 'C07.callee.log_scale.m_susy', 'C11.callee.log_scale.m_susy')
