"""C20 -- SM layer: unitary CKM, consistent EW relations, well-behaved running masses.

Contracts on src/SM/SM.cpp (get_ckm_from_angles, get_ckm_from_wolfenstein, get_e_mz/gY/g2/cw/sw/v),
src/gm2_mf.cpp (running masses, Lambda_QCD fallback) and src/THDM/THDM.cpp (get_mu/get_md/get_ml bypass).
"""
from fractions import Fraction as Fr
import z3
from gm2v.ob import obligation, PROVED, FAILED, UNDECIDED, ERROR
from gm2v.interp import Interp, Thrown
from gm2v.values import Cx, Mat, to_z3, z3real, is_sym, mul, add, sub
from gm2v.symobj import symbolic_fields
from gm2v import specs
from gm2v.specs import absz

SM = 'src/SM/SM.cpp'
MF = 'src/gm2_mf.cpp'
TH = 'src/THDM/THDM.cpp'

def unitarity_goals(V):
    """(V V^dagger)_{ij} == delta_ij as real equalities"""
    out = []
    for i in range(3):
        for j in range(3):
            re, im = 0, 0
            for k in range(3):
                a, b = V.d[i][k], V.d[j][k]
                # a * conj(b)
                re = add(re, add(mul(a.re, b.re), mul(a.im, b.im)))
                im = add(im, sub(mul(a.im, b.re), mul(a.re, b.im)))
            out.append(('VVdag(%d,%d)' % (i, j), z3.And(z3real(re) == (1 if i == j else 0), z3real(im) == 0)))
    return out

def replay_ckm_angles(model, wd):
    from gm2v import native
    import math
    f = model.get('_float', {})
    args = [f.get(k, 0.0) for k in ('theta_12', 'theta_13', 'theta_23', 'delta')]
    expr = ('([&]{ auto V = get_ckm_from_angles(a[0],a[1],a[2],a[3]); Eigen::Matrix<std::complex<double>,3,3> U = V*V.adjoint(); '
            'double e = 0; for (int i=0;i<3;i++) for (int j=0;j<3;j++) e = std::fmax(e, std::abs(U(i,j) - std::complex<double>(i==j?1.0:0.0,0.0))); return e; })()')
    exe = native.build_scalar_driver(wd, [SM], [], [('ckm', expr, 4)])
    e = native.run_scalar_driver(exe, [('ckm', args)])[0]
    return bool(not (e <= 1e-14)), 'angles %s: max |V V^dagger - 1| = %r on the real code (tolerance 1e-14)' % (args, e)

@obligation('C20.ckm_from_angles.unitary', fns=[(SM, 'get_ckm_from_angles')], replay=replay_ckm_angles)
def _(ctx):
    """ensures: for ALL theta_12, theta_13, theta_23, delta the returned matrix V satisfies V V^dagger = 1 (9 complex identities),
    using only sin^2+cos^2=1 for the four angles (A-LIBM)"""
    t12, t13, t23, dl = ctx.reals('theta_12 theta_13 theta_23 delta')
    it = Interp(ctx.w, mode='sym')
    paths = it.run_paths(lambda: it.call('get_ckm_from_angles', [t12, t13, t23, dl], file=SM))
    ctx.merge_rules(it)
    if len(paths) != 1:
        ctx.record('paths', ERROR, 'B', 0, 'expected a single path, got %d' % len(paths))
    S, C = (lambda t: it.uf('sin', t)), (lambda t: it.uf('cos', t))
    rels = [S(t) * S(t) + C(t) * C(t) - 1 for t in (t12, t13, t23, dl)]
    for sym, V, exc in paths:
        for name, goal in unitarity_goals(V):
            # goal = And(re == delta_ij, im == 0): polynomial identities modulo sin^2+cos^2=1 -> ring normalisation; SMT (nlsat) as fallback
            pairs = [(c.arg(0), c.arg(1)) for c in goal.children()]
            ctx.prove_ring(name, pairs, relations=rels,
                           fallback=lambda name=name, goal=goal, sym=sym: ctx.prove(name, sym.pc + sym.axioms, goal, tactics=('nlsat', 'default'), timeout_ms=60000))
        ctx.sides('ckm', sym, [])

def ckm_angles_stub(ctx_store):
    """callee contract of get_ckm_from_angles: any angles -> some unitary matrix (proved by C20.ckm_from_angles.unitary)"""
    def stub(it, args, this):
        n = len(ctx_store)
        V = Mat(3, 3, [[Cx(z3.Real('V%d_%d%d.re' % (n, i, j)), z3.Real('V%d_%d%d.im' % (n, i, j))) for j in range(3)] for i in range(3)], 'matrix', True)
        for _, g in unitarity_goals(V):
            it.axiom(g)
        ctx_store.append((args, V))
        return V
    return stub

def replay_wolfenstein(model, wd):
    from gm2v import native
    f = model.get('_float', {})
    args = [f.get(k, 0.0) for k in ('lambdaW', 'aCkm', 'rhobar', 'etabar')]
    expr = ('([&]{ try { auto V = get_ckm_from_wolfenstein(a[0],a[1],a[2],a[3]); Eigen::Matrix<std::complex<double>,3,3> U = V*V.adjoint(); '
            'double e = 0; for (int i=0;i<3;i++) for (int j=0;j<3;j++) { double d = std::abs(U(i,j) - std::complex<double>(i==j?1.0:0.0,0.0)); if (!(d <= e)) e = d; } return e; } catch (const gm2calc::Error&) { return -1.0; } })()')
    exe = native.build_scalar_driver(wd, [SM], [], [('ckm', expr, 4)])
    e = native.run_scalar_driver(exe, [('ckm', args)])[0]
    inrange = all(abs(a) <= 1 for a in args)
    if e == -1.0:
        return bool(inrange), 'Wolfenstein %s rejected by the real code (in range: %s)' % (args, inrange)
    return bool(not (e <= 1e-14)) or not inrange, 'Wolfenstein %s: accepted; max |V V^dagger - 1| = %r on the real code (tolerance 1e-14)' % (args, e)

_BP = {}
def _boundary_pins(ctx):
    """probe points ON the boundary between accepted and rejected input (where a guard that is slightly too lax shows): for several (A, rho, eta) the extracted function is
    executed in IEEE doubles and lambda is bisected between an accepted and a rejected value; the last accepted lambda and its neighbours are candidate points"""
    if 'pins' in _BP:
        return _BP['pins']
    import math
    def accepted(l, a, r, e):
        it2 = Interp(ctx.w, mode='float')
        try:
            it2.run_single(lambda: it2.call('get_ckm_from_wolfenstein', [l, a, r, e], file=SM))
            return True
        except Thrown:
            return False
        except Exception:
            return None
    out = []
    grid = [0.3 + 0.7 * (1 - 10 ** (-k / 8.0)) for k in range(0, 41)]       # denser towards lambda = 1
    for a, r, e in ((0.5, 0.3, 0.4), (1.0, 1.0, 1.0), (0.8, -0.6, 0.7), (0.9, 0.1, -0.9), (1.0, 0.0, 1.0), (-0.7, 0.5, 0.5)):
        cls = [accepted(l, a, r, e) for l in grid]
        for (l0, c0), (l1, c1) in zip(zip(grid, cls), zip(grid[1:], cls[1:])):
            if c0 is None or c1 is None or c0 == c1:
                continue
            lo, hi = (l0, l1) if c0 else (l1, l0)          # lo accepted, hi rejected
            for _ in range(70):
                mid = 0.5 * (lo + hi)
                if mid in (lo, hi):
                    break
                if accepted(mid, a, r, e) is True:
                    lo = mid
                else:
                    hi = mid
            x = lo
            for _ in range(3):
                out.append(dict(lambdaW=Fr(x), aCkm=Fr(a), rhobar=Fr(r), etabar=Fr(e)))
                x = math.nextafter(x, 2 * x - hi)
    _BP['pins'] = out
    return out

@obligation('C20.ckm_from_wolfenstein', fns=[(SM, 'get_ckm_from_wolfenstein')], replay=replay_wolfenstein)
def _(ctx):
    """ensures: throws only EInvalidInput; every input with some |parameter| > 1 is rejected; an accepted input yields a unitary
    matrix (callee by contract) and every asin/sqrt it evaluates is inside its domain (else the result would be NaN, not unitary)"""
    lam, A, rho, eta = ctx.reals('lambdaW aCkm rhobar etabar')
    store = []
    it = Interp(ctx.w, mode='sym', stubs={'get_ckm_from_angles': ckm_angles_stub(store)})
    paths = it.run_paths(lambda: it.call('get_ckm_from_wolfenstein', [lam, A, rho, eta], file=SM))
    ctx.merge_rules(it)
    ctx.assume_note('callee contract: get_ckm_from_angles returns a unitary matrix for all arguments (C20.ckm_from_angles.unitary)')
    inrange = z3.And(absz(lam) <= 1, absz(A) <= 1, absz(rho) <= 1, absz(eta) <= 1)
    n_throw = n_ok = 0
    for k, (sym, V, exc) in enumerate(paths):
        if exc is not None:
            n_throw += 1
            ok = exc.cls == 'EInvalidInput'
            ctx.record('throw%d.class' % k, PROVED if ok else FAILED, 'B', 0, 'exception class %s' % exc.cls)
            # a rejection is either a parameter out of range or an unphysical |V13| > 1 (checked after the range tests)
            nthrow_range = n_throw <= 4
            if n_throw <= 4:
                ctx.prove('throw%d.only_out_of_range' % k, sym.pc, z3.Not(inrange))
        else:
            n_ok += 1
            ctx.prove('accept%d.in_range' % k, sym.pc, inrange)
            for name, goal in unitarity_goals(V):
                ctx.prove('accept%d.%s' % (k, name), sym.pc + sym.axioms, goal, check_vacuity=False)
            # domains: for every admissible input strictly inside the range
            # divisions by zero (|lambda| = 1, A^2 lambda^4 (rho + i eta) = 1) are caught by the code's non-finite guard
            # (theta_13 = delta = 0 fallback, an IEEE mechanism outside B); asin/sqrt domains are NOT guarded: they must hold
            pre = [inrange]
            pins = [dict(lambdaW=Fr(a), aCkm=Fr(b), rhobar=Fr(c), etabar=Fr(d)) for (a, b, c, d) in
                    [('0.9', 1, 1, 1), ('0.5', 1, 1, 1), ('0.99', 1, '0.5', '0.5'), ('0.2', '0.8', '0.1', '0.3'), ('0.9', '0.9', '0.9', '0.9'), ('-0.9', -1, -1, -1)]]
            pins = pins + _boundary_pins(ctx)
            ev = ctx.refute_by_execution(lambda it2, a: it2.call('get_ckm_from_wolfenstein', a, file=SM), pins, ['lambdaW', 'aCkm', 'rhobar', 'etabar'])
            ctx.sides('accept%d' % k, sym, pre, only=lambda d: not d.startswith('division'), pins=pins, timeout_ms=8000, exec_events=ev)
    if n_throw < 4 or n_ok < 1:
        ctx.record('shape', ERROR, 'B', 0, 'expected >= 4 rejecting paths and >= 1 accepting path, got %d/%d' % (n_throw, n_ok))

def replay_ew(model, wd):
    """the eight real SM getters at the counterexample's SM input against the documented relations"""
    from gm2v import fidelity
    import math
    f = dict((model or {}).get('_float', {}))
    vals = {'mw': f.get('mw', 80.379), 'mz': f.get('mz', 91.1876), 'alpha_em_mz': f.get('alpha_em_mz', 1 / 128.9), 'alpha_em_0': f.get('alpha_em_0', 1 / 137.036),
            'alpha_s_mz': f.get('alpha_s_mz', 0.1184)}
    names = ['get_cw', 'get_sw', 'get_e_mz', 'get_gY', 'get_g2', 'get_v', 'get_e_0', 'get_g3']
    out, n = fidelity.native_model_eval(wd, 'SM', vals, ['m.%s()' % g for g in names])
    V = dict(zip(names, out))
    mw, mz, al, a0, als = vals['mw'], vals['mz'], vals['alpha_em_mz'], vals['alpha_em_0'], vals['alpha_s_mz']
    rel = {'cw = MW/MZ': (V['get_cw'], mw / mz), 'sw^2+cw^2 = 1': (V['get_sw']**2 + V['get_cw']**2, 1.0), 'e = g2 sw': (V['get_e_mz'], V['get_g2'] * V['get_sw']),
           'e = gY cw': (V['get_e_mz'], V['get_gY'] * V['get_cw']), 'e^2 = 4 pi alpha': (V['get_e_mz']**2, 4 * math.pi * al), 'e0^2 = 4 pi alpha0': (V['get_e_0']**2, 4 * math.pi * a0),
           'g3^2 = 4 pi alpha_s': (V['get_g3']**2, 4 * math.pi * als), 'v = 2 MW/g2': (V['get_v'] * V['get_g2'], 2 * mw)}
    bad = {k: v for k, v in rel.items() if abs(v[0] - v[1]) > 1e-12 * max(abs(v[0]), abs(v[1]), 1e-300)}
    return bool(bad), 'real SM getters at mw=%r mz=%r alpha=%r: %s; violated relations: %s' % (mw, mz, al, {k: V[k] for k in names}, bad or 'none')

@obligation('C20.ew_relations', replay=replay_ew, fns=[(SM, 'SM::get_cw'), (SM, 'SM::get_sw'), (SM, 'SM::get_e_mz'), (SM, 'SM::get_gY'), (SM, 'SM::get_g2'), (SM, 'SM::get_v'), (SM, 'SM::get_e_0'), (SM, 'SM::get_g3')])
def _(ctx):
    """for all 0 < MW < MZ, alpha > 0: cw = MW/MZ, sw^2 + cw^2 = 1, sw > 0, e = g2 sw = gY cw, e^2 = 4 pi alpha, v = 2 MW/g2, g3^2 = 4 pi alpha_s"""
    it = Interp(ctx.w, mode='sym')
    sm = it.new_object('SM', symbolic_fields(ctx))
    mw, mz, al, a0, als = sm.f['mw'], sm.f['mz'], sm.f['alpha_em_mz'], sm.f['alpha_em_0'], sm.f['alpha_s_mz']
    pre = [mw > 0, mz > mw, al > 0, a0 > 0, als > 0]
    it.assumptions = pre
    def call(name):
        ps = it.run_paths(lambda: it.call(name, [], this=sm))
        assert len(ps) == 1, (name, len(ps))
        return ps[0]
    res = {n: call(n) for n in ('get_cw', 'get_sw', 'get_e_mz', 'get_gY', 'get_g2', 'get_v', 'get_e_0', 'get_g3')}
    ctx.merge_rules(it)
    ax = []
    for n, (sym, v, exc) in res.items():
        ax += sym.axioms
        ctx.sides(n, sym, pre)
    V = {n: z3real(r[1]) for n, r in res.items()}
    pi = z3.Real('c_PI')
    ctx.prove('cw', pre + ax, V['get_cw'] * mz == mw)
    ctx.prove('sw2+cw2', pre + ax, z3.And(V['get_sw'] * V['get_sw'] + V['get_cw'] * V['get_cw'] == 1, V['get_sw'] > 0))
    ctx.prove('e=g2*sw', pre + ax, V['get_e_mz'] == V['get_g2'] * V['get_sw'])
    ctx.prove('e=gY*cw', pre + ax, V['get_e_mz'] == V['get_gY'] * V['get_cw'])
    ctx.prove('e2=4pi*alpha', pre + ax, z3.And(V['get_e_mz'] * V['get_e_mz'] == 4 * pi * al, V['get_e_mz'] > 0))
    ctx.prove('e0', pre + ax, z3.And(V['get_e_0'] * V['get_e_0'] == 4 * pi * a0, V['get_e_0'] > 0))
    ctx.prove('g3', pre + ax, z3.And(V['get_g3'] * V['get_g3'] == 4 * pi * als, V['get_g3'] > 0))
    ctx.prove('v', pre + ax, V['get_v'] * V['get_g2'] == 2 * mw)

# ---------------------------------------------------------------------------------------------------
# running masses
# ---------------------------------------------------------------------------------------------------
def pow_axioms(it, terms):
    """A-LIBM power laws, instantiated for the listed (base, exponent) terms"""
    facts = []
    P = lambda a, y: it.uf('pow', a, y)
    for (a, y) in terms:
        facts.append(z3.Implies(a > 0, P(a, y) > 0))
        facts.append(z3.Implies(a == 1, P(a, y) == 1))
    for (a, y) in terms:
        for (b, y2) in terms:
            if a.get_id() == b.get_id():
                continue
            facts.append(z3.Implies(z3.And(a > 0, b > 0, y == y2, y < 0, a < b), P(a, y) > P(b, y2)))
            facts.append(z3.Implies(z3.And(a > 0, b > 0, y == y2), P(a, y) == P(b, y2) * P(a / b, y)))
    return facts

def run_one(ctx, it, fn, args, file=MF):
    ps = it.run_paths(lambda: it.call(fn, args, file=file))
    ctx.merge_rules(it)
    return ps

@obligation('C20.mt_running', fns=[(MF, 'calculate_mt_SM6_MSbar'), (MF, 'calculate_alpha_s_SM6_MSbar_at_mt'), (MF, 'calculate_mt_SM6_MSbar_at')])
def _(ctx):
    """mt(Q): positive for all Q>0; at Q = mt_pole equals mt_pole/(1+4 alpha_s(mt)/(3 pi)); strictly decreasing in Q;
    mt(Q3)/mt(Q2) = (Q3/Q2)^(-2 alpha_s(mt)/pi) (composition law); under the power laws of pow (A-LIBM)"""
    mt, als, mz, Q1, Q2 = ctx.reals('mt_pole alpha_s_mz mz Q1 Q2')
    pre = [mt >= 100, mt <= 300, als >= Fr(5, 100), als <= Fr(3, 10), mz >= 80, mz <= 100, Q1 >= 1, Q1 <= 10**6, Q2 >= 1, Q2 <= 10**6]
    it = Interp(ctx.w, mode='sym', assumptions=pre)
    L = specs.ln(mz / mt)
    lnfacts = [L < 0, L > -2]      # ln(mz/mt) in (-2,0) for mz in [80,100], mt in [100,300]  (A-SPECFN: ln monotone, ln(80/300) > -2)
    ctx.assume_note('A-SPECFN: -2 < ln(mz/mt) < 0 for mz in [80,100], mt in [100,300]')
    ctx.assume_note('A-LIBM: pow(a,y)>0 for a>0; pow(1,y)=1; y<0 & 0<a<b => pow(a,y)>pow(b,y); pow(a,y)=pow(b,y) pow(a/b,y)')
    (s1, r1, _), = run_one(ctx, it, 'calculate_mt_SM6_MSbar', [mt, als, mz, Q1])
    (s2, r2, _), = run_one(ctx, it, 'calculate_mt_SM6_MSbar', [mt, als, mz, Q2])
    (s0, r0, _), = run_one(ctx, it, 'calculate_mt_SM6_MSbar', [mt, als, mz, mt])
    pi = z3.Real('c_PI')
    as_mt = als / (1 - Fr(23) / (6 * pi) * als * L)
    y = -2 / pi * as_mt
    pw = pow_axioms(it, [(Q1 / mt, y), (Q2 / mt, y), (mt / mt, y), (Q2 / Q1, y)])
    base = pre + lnfacts + s1.axioms + s2.axioms + s0.axioms + pw
    ctx.prove('boundary', base + s0.pc, z3real(r0) * (1 + 4 / (3 * pi) * as_mt) == mt)
    ctx.prove('positive', base + s1.pc, z3real(r1) > 0)
    ctx.prove('monotone', base + s1.pc + s2.pc + [Q1 < Q2], z3real(r1) > z3real(r2))
    ctx.prove('composition', base + s1.pc + s2.pc, z3real(r2) == z3real(r1) * it.uf('pow', Q2 / Q1, y))
    for nm, s in (('Q1', s1), ('Q0', s0)):
        ctx.sides(nm, s, pre + lnfacts)

@obligation('C20.mtau_running', fns=[(MF, 'calculate_mtau_SM6_MSbar')])
def _(ctx):
    """mtau(Q): positive; equals the pole mass at Q = mtau; strictly decreasing in Q; composition law with exponent -3 alpha/(2 pi)"""
    m, al, Q1, Q2 = ctx.reals('mtau_pole alpha_em_mz Q1 Q2')
    pre = [m >= 1, m <= 3, al > 0, al <= Fr(1, 10), Q1 >= 1, Q1 <= 10**6, Q2 >= 1, Q2 <= 10**6]
    it = Interp(ctx.w, mode='sym', assumptions=pre)
    (s1, r1, _), = run_one(ctx, it, 'calculate_mtau_SM6_MSbar', [m, al, Q1])
    (s2, r2, _), = run_one(ctx, it, 'calculate_mtau_SM6_MSbar', [m, al, Q2])
    (s0, r0, _), = run_one(ctx, it, 'calculate_mtau_SM6_MSbar', [m, al, m])
    pi = z3.Real('c_PI')
    y = -3 / (2 * pi) * al
    pw = pow_axioms(it, [(Q1 / m, y), (Q2 / m, y), (m / m, y), (Q2 / Q1, y)])
    base = pre + s1.axioms + s2.axioms + s0.axioms + pw
    ctx.prove('boundary', base + s0.pc, z3real(r0) == m)
    ctx.prove('positive', base + s1.pc, z3real(r1) > 0)
    ctx.prove('monotone', base + s1.pc + s2.pc + [Q1 < Q2], z3real(r1) > z3real(r2))
    ctx.prove('composition', base + s1.pc + s2.pc, z3real(r2) == z3real(r1) * it.uf('pow', Q2 / Q1, y))
    ctx.sides('Q1', s1, pre)

def alpha5_stub(vals):
    def stub(it, args, this):
        # callee contract of calculate_alpha_s_SM5_at: a positive number depending only on its arguments
        r = it.uf('alpha_s5', args[0], args[1])
        it.axiom(z3.And(r > 0, r < 1))
        return r
    return stub

@obligation('C20.mb_running', fns=[(MF, 'calculate_mb_SM6_MSbar'), (MF, 'Fb')])
def _(ctx):
    """mb(Q) above mt: positive; at Q = mt equals mb(mb) Fb(alpha_s(mt))/Fb(alpha_s(mb)); strictly decreasing; composition law.
    callees by contract: calculate_lambda_qcd returns some Lambda>0; calculate_alpha_s_SM5_at in (0,1)"""
    mb, mt, als, mz, Q1, Q2 = ctx.reals('mb_mb mt_pole alpha_s_mz mz Q1 Q2')
    pre = [mb >= 2, mb <= 6, mt >= 100, mt <= 300, als >= Fr(5, 100), als <= Fr(3, 10), mz >= 80, mz <= 100, Q1 >= 1, Q1 <= 10**6, Q2 >= 1, Q2 <= 10**6]
    lam = z3.Real('lambda_qcd')
    stubs = {'calculate_lambda_qcd': lambda it, a, t: lam, 'calculate_alpha_s_SM5_at': alpha5_stub(None)}
    it = Interp(ctx.w, mode='sym', assumptions=pre + [lam > 0], stubs=stubs)
    ctx.assume_note('callee contracts: calculate_lambda_qcd(...) > 0 ; 0 < calculate_alpha_s_SM5_at(Q, Lambda) < 1 (function of its arguments)')
    (s1, r1, _), = run_one(ctx, it, 'calculate_mb_SM6_MSbar', [mb, mt, als, mz, Q1])
    (s2, r2, _), = run_one(ctx, it, 'calculate_mb_SM6_MSbar', [mb, mt, als, mz, Q2])
    (s0, r0, _), = run_one(ctx, it, 'calculate_mb_SM6_MSbar', [mb, mt, als, mz, mt])
    pi = z3.Real('c_PI')
    a_mt = it.uf('alpha_s5', mt, lam)
    a_mb = it.uf('alpha_s5', mb, lam)
    y = -2 / pi * a_mt
    # Fb(alpha) = pow(23/6 as, 12/23) (1 + as(3731/3174 + 1.500706 as)), as = alpha/pi
    def Fb(a):
        as_ = a / pi
        return it.uf('pow', Fr(23, 6) * as_, Fr(12, 23)) * (1 + as_ * (Fr(3731, 3174) + Fr('1.500706') * as_))
    pw = pow_axioms(it, [(Q1 / mt, y), (Q2 / mt, y), (mt / mt, y), (Q2 / Q1, y)])
    pw += [it.uf('pow', Fr(23, 6) * (a_mt / pi), Fr(12, 23)) > 0, it.uf('pow', Fr(23, 6) * (a_mb / pi), Fr(12, 23)) > 0]
    base = pre + [lam > 0] + s1.axioms + s2.axioms + s0.axioms + pw
    ctx.prove('boundary', base + s0.pc, z3real(r0) * Fb(a_mb) == mb * Fb(a_mt))
    ctx.prove('positive', base + s1.pc, z3real(r1) > 0)
    ctx.prove('monotone', base + s1.pc + s2.pc + [Q1 < Q2], z3real(r1) > z3real(r2))
    ctx.prove('composition', base + s1.pc + s2.pc, z3real(r2) == z3real(r1) * it.uf('pow', Q2 / Q1, y))
    ctx.sides('Q1', s1, pre + [lam > 0] + pw)

@obligation('C20.lambda_qcd_fallback', fns=[(MF, 'calculate_lambda_qcd')])
def _(ctx):
    """exception-effect contract: if the root finder throws (cannot bracket), calculate_lambda_qcd does NOT throw, returns the
    PDG default 0.217 and emits a WARNING; if the root finder returns a bracket (a,b) the result is (a+b)/2"""
    al, sc = ctx.reals('alpha scale')
    a, b = ctx.reals('root_a root_b')
    for mode in ('throws', 'returns'):
        def toms(it, args, this, mode=mode):
            if mode == 'throws':
                raise Thrown('std::domain_error', 'cannot bracket')
            return (a, b)
        it = Interp(ctx.w, mode='sym', stubs={'toms748_solve': toms, 'calculate_alpha_s_SM5_at': alpha5_stub(None)})
        try:
            ps = it.run_paths(lambda: it.call('calculate_lambda_qcd', [al, sc], file=MF))
        except Thrown as t:
            ctx.record(mode + '.nothrow', FAILED, 'B', 0, 'exception %s escapes calculate_lambda_qcd' % t.cls)
            continue
        ctx.merge_rules(it)
        for k, (sym, r, exc) in enumerate(ps):
            if exc is not None:
                ctx.record('%s.path%d.nothrow' % (mode, k), FAILED, 'B', 0, 'exception %s escapes calculate_lambda_qcd' % exc.cls)
                continue
            ctx.record('%s.path%d.nothrow' % (mode, k), PROVED, 'B', 0, 'no exception on this path')
            if mode == 'throws':
                warned = any(e[0] == 'WARNING' and 'lambda_QCD' in e[1] for e in sym.effects)
                ctx.record('%s.path%d.warning' % (mode, k), PROVED if warned else FAILED, 'B', 0, 'effects: %s' % ([e[0] for e in sym.effects],))
                ctx.prove('%s.path%d.default' % (mode, k), sym.pc + sym.axioms, z3real(r) == z3.Q(217, 1000))
            else:
                ctx.prove('%s.path%d.midpoint' % (mode, k), sym.pc + sym.axioms, 2 * z3real(r) == a + b)

@obligation('C20.running_bypass', fns=[(TH, 'THDM::get_mu'), (TH, 'THDM::get_md'), (TH, 'THDM::get_ml')])
def _(ctx):
    """THDM::get_mu/md/ml(scale): with running couplings off OR scale <= 0 the SM input masses are returned unchanged and no
    running-mass routine is called; with running on and scale > 0 exactly the third-generation mass is replaced by the running mass"""
    for fn, run_fn, fld in (('get_mu', 'calculate_mt_SM6_MSbar', 'mu'), ('get_md', 'calculate_mb_SM6_MSbar', 'md'), ('get_ml', 'calculate_mtau_SM6_MSbar', 'ml')):
        for running in (False, True):
            calls = []
            rv = z3.Real('running_' + fld)
            def stub(it, args, this, calls=calls, rv=rv):
                calls.append(args)
                return rv
            it = Interp(ctx.w, mode='sym', stubs={run_fn: stub})
            th = it.new_object('THDM', symbolic_fields(None, prefix=fn + '.'))
            th.f['config'].f['running_couplings'] = running
            sc = ctx.real('scale')
            ps = it.run_paths(lambda: it.call(fn, [sc], this=th))
            ctx.merge_rules(it)
            for k, (sym, r, exc) in enumerate(ps):
                tag = '%s.running_%s.path%d' % (fn, running, k)
                src = th.f['sm'].f[fld]
                same01 = z3.And(z3real(r.get(0)) == z3real(src.get(0)), z3real(r.get(1)) == z3real(src.get(1)))
                unchanged = z3.And(same01, z3real(r.get(2)) == z3real(src.get(2)))
                replaced = z3.And(same01, z3real(r.get(2)) == rv)
                if not running:
                    ctx.prove(tag, sym.pc, unchanged)
                else:
                    ctx.prove(tag, sym.pc, z3.If(sc > 0, replaced, unchanged))


def fidelity(tier, seed):
    """A-FRONT guard: the scalar functions of the files under contract, interpreter (float mode) vs compiled real code, bit for bit"""
    from gm2v import fidelity as _fid
    return _fid.scalar_guard(['src/gm2_mf.cpp'], ['src/gm2_numerics.cpp'], n_calls=25 if tier == 'quick' else 200, seed=seed)

# Contracts on single calls carry over to every call in a process only if no function keeps state between calls: C19's static-frame obligation is a lemma here.
from contracts.shared import reregister as _rr_static
from contracts import c19 as _c19_static
_rr_static('C20', 'C19', 'C19.no_stateful_local_statics', 'C20.lemma.no_state_between_calls', replay=None)
