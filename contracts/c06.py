"""C06 -- MSSM a_mu is invariant under the joint sign flip of mu, M1, M2, M3 and all A_f.

Relational contracts f(state) == f(flip(state)) on the real functions (rational-function identities with the loop functions as
uninterpreted, argument-canonicalised atoms: ring normalisation):
  * parameter-level functions (leading-log one-loop terms and their two-loop counterparts, Delta_mu, Delta_tau, Delta_b, tan(beta)
    resummation factor, two-loop log corrections): flip = (Mu, MassB, MassWB, MassG, Ae, Au, Ad, TYe, TYu, TYd) -> minus
  * mass matrices: every sfermion matrix keeps trace and determinant, the chargino matrix keeps tr(X^T X) and det X, the neutralino matrix
    Y -> -P Y P (power sums tr Y^k -> (-1)^k tr Y^k, det Y unchanged): all masses are invariant
  * mixing-level functions (amu1LChi0, amu1LChipm, photonic 2L): invariant under the INDUCED change of the mixing matrices,
    N -> i N P (P = diag(1,1,-1,-1)), U_smu -> U_smu diag(1,-1), U -> U sigma_3, V -> -V sigma_3   (that the decompositions of the flipped
    matrices are these is linear algebra: assumption A-LINALG)
Callee contracts used: Iabc, |.| and abs_sqrt depend on their arguments only through their squares (C06.even_callees).
"""
import z3
from fractions import Fraction as Fr
from gm2v.ob import obligation, PROVED, FAILED, UNDECIDED, ERROR
from gm2v.interp import Interp, Thrown
from gm2v.values import Cx, Mat, Obj, to_z3, z3real, is_sym, deep_copy, neg, mul
from gm2v.symobj import symbolic_fields
from gm2v import ring

M1 = 'src/MSSMNoFV/gm2_1loop.cpp'
M2 = 'src/MSSMNoFV/gm2_2loop.cpp'
ME = 'src/MSSMNoFV/MSSMNoFV_onshell_mass_eigenstates.cpp'
FLIP_FIELDS = ['Mu', 'MassB', 'MassWB', 'MassG', 'Ae', 'Au', 'Ad', 'TYe', 'TYu', 'TYd']
LOOP = ['F1C', 'F2C', 'F3C', 'F4C', 'F1N', 'F2N', 'F3N', 'F4N', 'Fa', 'Fb', 'G3', 'G4', 'f_PS', 'f_S', 'f_sferm']

def stubs():
    s = {n: (lambda n: (lambda it, a, t: it.uf('fn_' + n, *a)))(n) for n in LOOP}
    # even callees: functions of the squares of their arguments (C06.even_callees)
    s['Iabc'] = lambda it, a, t: it.uf('fn_Iabc_sq', *[mul(x, x) for x in a])
    s['abs_sqrt'] = lambda it, a, t: it.uf('fn_abs_sqrt', a[0])
    s['std::abs'] = lambda it, a, t: it.uf('fn_abs_sq', mul(a[0], a[0])) if not isinstance(a[0], (Cx, Mat)) else NotImplemented
    s['std::fmin'] = lambda it, a, t: it.uf('fn_fmin', *a)
    return s

def flip(m, mixing=False):
    f = deep_copy(m)
    for k in FLIP_FIELDS:
        v = f.f[k]
        f.f[k] = neg(v)
    if mixing:
        i = Cx(0, 1)
        P = [1, 1, -1, -1]
        ZN = f.f['ZN']
        f.f['ZN'] = Mat(4, 4, [[_cmul(i, _scale(ZN.d[a][b], P[b])) for b in range(4)] for a in range(4)], 'matrix', True)
        for nm in ('ZM', 'ZT', 'ZB', 'ZTau', 'ZE', 'ZD', 'ZU', 'ZS', 'ZC'):
            Z = f.f[nm]
            f.f[nm] = Mat(2, 2, [[Z.d[a][0], neg(Z.d[a][1])] for a in range(2)], 'matrix', Z.cplx)
        UM, UP = f.f['UM'], f.f['UP']
        f.f['UM'] = Mat(2, 2, [[UM.d[a][0], neg(UM.d[a][1])] for a in range(2)], 'matrix', UM.cplx)
        f.f['UP'] = Mat(2, 2, [[neg(UP.d[a][0]), UP.d[a][1]] for a in range(2)], 'matrix', UP.cplx)
    return f

def _scale(c, s):
    return c if s == 1 else neg(c)

def _cmul(a, b):
    from gm2v.values import mul as vmul
    return vmul(a, b)

def model(it):
    return it.new_object('MSSMNoFV_onshell', symbolic_fields(None, prefix='m.'))

def compare(ctx, file, fn, mixing=False, nargs=1, extra=(), transform=None):
    it = Interp(ctx.w, mode='sym', stubs=stubs(), feasibility=False, div_sides=False)
    m = model(it)
    mf = transform(m) if transform is not None else flip(m, mixing)
    fds = [f for f in ctx.w.find(fn, file) if len(f.params) == nargs]
    if len(fds) != 1:
        ctx.record('', ERROR, 'B', 0, 'extraction: %d definitions of %s/%d' % (len(fds), fn, nargs))
        return
    p1 = it.run_paths(lambda: it.invoke(fds[0], [m] + list(extra), None), max_paths=200)
    p2 = it.run_paths(lambda: it.invoke(fds[0], [mf] + list(extra), None), max_paths=200)
    ctx.merge_rules(it)
    # complete relational check: for every pair of paths (i of the state, j of the flipped state) whose path conditions can hold
    # together the two results must coincide  (equal results need no feasibility check)
    pre = []
    n_pairs = 0
    for i, (s1, r1, e1) in enumerate(p1):
        for j, (s2, r2, e2) in enumerate(p2):
            same = False
            if e1 is not None or e2 is not None:
                same = e1 is not None and e2 is not None and e1.cls == e2.cls
            elif not is_sym(r1) and not is_sym(r2):
                same = r1 == r2
            else:
                try:
                    same = ring.identity(z3real(r1), z3real(r2))
                except ring.NotRing:
                    same = None
            if same:
                n_pairs += 1
                continue
            sv = z3.Solver()
            sv.set('timeout', 4000)
            sv.add(*[to_z3(c) for c in s1.pc + s2.pc])
            st = sv.check()
            if st == z3.unknown:
                sv.set('timeout', 60000)       # a wall-clock timeout under load is not an answer
                st = sv.check()
            if st == z3.unsat:
                continue
            tag = 'path%d_vs_%s_path%d' % (i, 'flipped' if transform is None else 'other', j)
            if st == z3.sat and same is False:
                mdl = sv.model()
                ctx.record(tag, FAILED, 'B', 0, 'both path conditions hold at %s but the results differ: %s  vs  %s' %
                           ({str(d): str(mdl[d]) for d in mdl.decls() if d.arity() == 0}, str(r1)[:150], str(r2)[:150]), solver='ring normalisation + z3')
            else:
                ctx.record(tag, UNDECIDED, 'B', 0, 'results not shown equal and joint feasibility of the two path conditions is %s' % st)
    ctx.record('all_path_pairs', PROVED, 'B', 0, '%d x %d path pairs examined, %d with identical results (ring identity)' % (len(p1), len(p2), n_pairs), solver='ring normalisation (sympy) + z3')

REPLAY_MAIN = r"""
#include "gm2calc/MSSMNoFV_onshell.hpp"
#include "gm2calc/gm2_error.hpp"
#include <cstdio>
#include <cmath>
#include <cstdlib>
namespace gm2calc { double @FN@(const MSSMNoFV_onshell&); }
static unsigned long long st = 88172645463325252ULL;
static double rnd() { st ^= st << 13; st ^= st >> 7; st ^= st << 17; return (st >> 11) * (1.0 / 9007199254740992.0); }
static double sgn() { return rnd() < 0.5 ? -1.0 : 1.0; }
struct P { double tb, mu, m1, m2, m3, ae[3], au[3], ad[3], ml[3], me[3], mq[3], mu2[3], md[3], ma, q; };
static gm2calc::MSSMNoFV_onshell setup(const P& p, double s) {
   gm2calc::MSSMNoFV_onshell m;
   m.set_alpha_MZ(0.0077552); m.set_alpha_thompson(0.00729735); m.set_g3(std::sqrt(4 * 3.141592653589793 * 0.1184));
   m.get_physical().MFt = 173.34; m.get_physical().MFb = 4.18; m.get_physical().MFm = 0.1056583715; m.get_physical().MFtau = 1.777;
   m.get_physical().MVWm = 80.385; m.get_physical().MVZ = 91.1876;
   m.set_TB(p.tb); m.set_Mu(s * p.mu); m.set_MassB(s * p.m1); m.set_MassWB(s * p.m2); m.set_MassG(s * p.m3);
   Eigen::Matrix<double,3,3> a = Eigen::Matrix<double,3,3>::Zero();
   for (int i = 0; i < 3; i++) { m.set_Ae(i, i, s * p.ae[i]); m.set_Au(i, i, s * p.au[i]); m.set_Ad(i, i, s * p.ad[i]); }
   a.setZero(); for (int i = 0; i < 3; i++) a(i, i) = p.ml[i] * p.ml[i]; m.set_ml2(a);
   a.setZero(); for (int i = 0; i < 3; i++) a(i, i) = p.me[i] * p.me[i]; m.set_me2(a);
   a.setZero(); for (int i = 0; i < 3; i++) a(i, i) = p.mq[i] * p.mq[i]; m.set_mq2(a);
   a.setZero(); for (int i = 0; i < 3; i++) a(i, i) = p.mu2[i] * p.mu2[i]; m.set_mu2(a);
   a.setZero(); for (int i = 0; i < 3; i++) a(i, i) = p.md[i] * p.md[i]; m.set_md2(a);
   m.set_MA0(p.ma); m.set_scale(p.q);
   m.calculate_masses();
   return m;
}
int main(int argc, char** argv) {
   int n = argc > 1 ? std::atoi(argv[1]) : 2000, tried = 0;
   for (int k = 0; k < n; k++) {
      P p; p.tb = 1.5 + 78.5 * rnd(); p.mu = sgn() * (100 + 1900 * rnd()); p.m1 = sgn() * (100 + 1900 * rnd()); p.m2 = sgn() * (100 + 1900 * rnd());
      p.m3 = sgn() * (500 + 2500 * rnd());
      for (int i = 0; i < 3; i++) { p.ae[i] = sgn() * 1500 * rnd(); p.au[i] = sgn() * 1500 * rnd(); p.ad[i] = sgn() * 1500 * rnd();
         p.ml[i] = 200 + 1800 * rnd(); p.me[i] = 200 + 1800 * rnd(); p.mq[i] = 500 + 2500 * rnd(); p.mu2[i] = 500 + 2500 * rnd(); p.md[i] = 500 + 2500 * rnd(); }
      p.ma = 300 + 2000 * rnd(); p.q = 300 + 1000 * rnd();
      try {
         gm2calc::MSSMNoFV_onshell a = setup(p, 1.0), b = setup(p, -1.0);
         if (a.get_problems().have_problem() || b.get_problems().have_problem()) continue;
         tried++;
         const double x = gm2calc::@FN@(a), y = gm2calc::@FN@(b);
         if (!(std::fabs(x - y) <= 1e-9 * std::fmax(std::fabs(x), std::fabs(y)))) {
            std::printf("DIFF tb=%.17g Mu=%.17g M1=%.17g M2=%.17g M3=%.17g Ae=(%.17g,%.17g,%.17g) Au=(%.17g,%.17g,%.17g) Ad=(%.17g,%.17g,%.17g) "
                        "ml=(%.17g,%.17g,%.17g) me=(%.17g,%.17g,%.17g) mq=(%.17g,%.17g,%.17g) mu=(%.17g,%.17g,%.17g) md=(%.17g,%.17g,%.17g) MA0=%.17g Q=%.17g : "
                        "@FN@(point)=%.17g @FN@(flipped point)=%.17g\n", p.tb, p.mu, p.m1, p.m2, p.m3, p.ae[0], p.ae[1], p.ae[2], p.au[0], p.au[1], p.au[2],
                        p.ad[0], p.ad[1], p.ad[2], p.ml[0], p.ml[1], p.ml[2], p.me[0], p.me[1], p.me[2], p.mq[0], p.mq[1], p.mq[2], p.mu2[0], p.mu2[1], p.mu2[2],
                        p.md[0], p.md[1], p.md[2], p.ma, p.q, x, y);
            return 1;
         }
      } catch (const gm2calc::Error&) { continue; }
   }
   std::printf("SAME on %d admissible points\n", tried);
   return 0;
}
"""

def make_replay(fn):
    def replay(model, wd):
        """the failed lemma says f(point) != f(flipped point) as rational functions; look for an admissible parameter point where the REAL code
        (spectrum calculation included) shows it: deterministic sweep over the quantifier domain of C06"""
        from gm2v import native
        import subprocess
        exe = native.build_against_library(wd, REPLAY_MAIN.replace('@FN@', fn))
        r = subprocess.run([exe, '3000'], capture_output=True, text=True, timeout=600)
        out = r.stdout.strip()
        return (r.returncode == 1 and out.startswith('DIFF')), out[-1500:]
    return replay

PARAM_FNS = [(M1, n) for n in ('amu1LWHnu', 'amu1LWHmuL', 'amu1LBHmuL', 'amu1LBHmuR', 'amu1LBmuLmuR', 'amu1Lapprox', 'amu1Lapprox_non_tan_beta_resummed', 'tan_beta_cor',
                               'delta_mu_correction', 'delta_tau_correction', 'delta_bottom_correction')] + \
            [(M2, n) for n in ('amu2LFSfapprox', 'amu2LFSfapprox_non_tan_beta_resummed', 'delta_g1', 'delta_g2', 'delta_yuk_higgsino', 'delta_yuk_bino_higgsino',
                               'delta_yuk_wino_higgsino', 'delta_tan_beta')]
MIXING_FNS = [(M1, 'amu1LChi0'), (M1, 'amu1LChipm'), (M1, 'calculate_amu_1loop'), (M2, 'amu2LChipmPhotonic'), (M2, 'amu2LChi0Photonic'), (M2, 'amu2LaSferm'), (M2, 'amu2LaCha')]

def make_param(file, fn):
    @obligation('C06.flip.%s' % fn, fns=[(file, fn)], replay=make_replay(fn))
    def ob(ctx):
        """lemma: f(state) == f(state with Mu, M1, M2, M3, A_f, T_f negated) on every path (loop functions uninterpreted; Iabc, |.|, abs_sqrt even)"""
        compare(ctx, file, fn)
    return ob

def make_mixing(file, fn):
    @obligation('C06.flip.%s' % fn, fns=[(file, fn)], replay=make_replay(fn))
    def ob(ctx):
        """lemma: f(state) == f(flipped state with the induced mixing matrices N -> iNP, U_sf -> U_sf diag(1,-1), U -> U sigma_3, V -> -V sigma_3)"""
        compare(ctx, file, fn, mixing=True)
    return ob

for _f in PARAM_FNS:
    make_param(*_f)
for _f in MIXING_FNS:
    make_mixing(*_f)

@obligation('C06.even_callees', fns=[('src/gm2_ffunctions.cpp', 'Iabc'), ('src/gm2_numerics.cpp', 'abs_sqrt')])
def _(ctx):
    """callee contracts used above, stated on the PUBLIC functions (independent of how their helpers are split up):
    Iabc(a,b,c) is even in each argument -- every value that reaches the sorting step, every path condition and the result are unchanged under a -> -a, b -> -b, c -> -c;
    abs_sqrt(x) >= 0 and abs_sqrt(x)^2 == |x|"""
    from contracts.c02 import sorted_stub, ATOMS
    seen = []
    stubs = dict(ATOMS)
    stubs['sort'] = sorted_stub(seen)
    it = Interp(ctx.w, mode='sym', stubs=stubs, feasibility=False)
    a, b, c = z3.Reals('a b c')
    ps = it.run_paths(lambda: it.call('Iabc', [a, b, c], file='src/gm2_ffunctions.cpp'))
    ctx.merge_rules(it)
    exprs = [z3real(x) for call in seen for x in call]
    for s_, r, e in ps:
        exprs += list(s_.pc) + ([z3real(r)] if r is not None and is_sym(r) else [])
    bad = []
    for v in (a, b, c):
        for e in exprs:
            e2 = z3.substitute(e, (v, -v))
            same = z3.is_true(z3.simplify(e2 == e))
            if not same:
                s = z3.Solver(); s.set('timeout', 5000); s.add(z3.Not(e2 == e))
                same = s.check() == z3.unsat
            if not same:
                bad.append('%s changes under %s -> -%s' % (str(e)[:120], v, v))
    ok = bool(ps) and bool(seen) and not bad
    ctx.record('Iabc', PROVED if ok else FAILED, 'B', 0, '%d paths, %d values reach the sorting step; %s' % (len(ps), len(exprs), bad[0] if bad else 'all even in a, b, c'))
    it2 = Interp(ctx.w, mode='sym')
    x = z3.Real('x')
    ps = it2.run_paths(lambda: it2.call('abs_sqrt', [x], file='src/gm2_numerics.cpp'))
    ctx.merge_rules(it2)
    for k, (s_, r, e) in enumerate(ps):
        if e is not None or r is None:
            ctx.record('abs_sqrt.path%d' % k, FAILED, 'B', 0, 'no value: %s' % e)
            continue
        ctx.prove('abs_sqrt.path%d' % k, list(s_.pc) + list(s_.axioms), z3.And(z3real(r) >= 0, z3real(r) * z3real(r) == z3.If(x >= 0, x, -x)), check_vacuity=False)
        ctx.sides('abs_sqrt.path%d' % k, s_, [])
    ctx.record('abs_sqrt.paths', PROVED if ps else ERROR, 'B', 0, '%d paths' % len(ps))

@obligation('C06.mass_matrices', fns=[(ME, 'MSSMNoFV_onshell_mass_eigenstates::get_mass_matrix_' + n) for n in ('Sd', 'Su', 'Se', 'Sm', 'Stau', 'Ss', 'Sc', 'Sb', 'St', 'Cha', 'Chi', 'hh', 'Ah', 'Hpm', 'SvmL', 'VWm', 'VZ')])
def _(ctx):
    """all masses are invariant: each sfermion matrix keeps trace and determinant under the flip; X_cha keeps tr(X^T X) and det X; the neutralino
    matrix becomes -P Y P (tr Y^k -> (-1)^k tr Y^k for k=1..3, det Y unchanged); Higgs, sneutrino and gauge-boson matrices are unchanged"""
    it = Interp(ctx.w, mode='sym', div_sides=False)
    m = model(it)
    mf = flip(m)
    def get(obj, n):
        ps = it.run_paths(lambda: it.call_method(obj, 'get_mass_matrix_' + n, []))
        return ps[0][1], ps[0][0].axioms
    from gm2v.values import mat_mul
    tr = lambda M: sum(z3real(M.get(i, i)) for i in range(M.r))
    det2 = lambda M: z3real(M.get(0, 0)) * z3real(M.get(1, 1)) - z3real(M.get(0, 1)) * z3real(M.get(1, 0))
    for n in ('Sd', 'Su', 'Se', 'Sm', 'Stau', 'Ss', 'Sc', 'Sb', 'St'):
        A, ax = get(m, n)
        B, _ = get(mf, n)
        ctx.prove(n + '.trace_det', ax, z3.And(tr(A) == tr(B), det2(A) == det2(B)), check_vacuity=False)
    for n in ('hh', 'Ah', 'Hpm'):
        A, ax = get(m, n)
        B, _ = get(mf, n)
        ctx.prove(n + '.unchanged', ax, z3.And(*[z3real(A.get(i, j)) == z3real(B.get(i, j)) for i in range(2) for j in range(2)]), check_vacuity=False)
    for n in ('SvmL', 'VWm', 'VZ'):
        A, ax = get(m, n)
        B, _ = get(mf, n)
        ctx.prove(n + '.unchanged', ax, z3real(A) == z3real(B), check_vacuity=False)
    X, ax = get(m, 'Cha')
    Xf, _ = get(mf, 'Cha')
    xtx = lambda M: sum(z3real(M.get(i, j)) ** 2 for i in range(2) for j in range(2))
    ctx.prove('Cha.singular_values', ax, z3.And(xtx(X) == xtx(Xf), det2(X) == det2(Xf)), check_vacuity=False)
    Y, ax = get(m, 'Chi')
    Yf, _ = get(mf, 'Chi')
    P = [1, 1, -1, -1]
    ctx.prove('Chi.is_minus_PYP', ax, z3.And(*[z3real(Yf.get(i, j)) == -P[i] * P[j] * z3real(Y.get(i, j)) for i in range(4) for j in range(4)]), check_vacuity=False)
    ctx.merge_rules(it)


def fidelity(tier, seed):
    """A-FRONT guard: MSSM a_mu and mass-matrix functions, interpreter (float mode) vs compiled real code on real spectra"""
    from gm2v import fidelity as _fid
    return _fid.mssm_model_guard(seed=seed)

# Contracts on single calls carry over to every call in a process only if no function keeps state between calls: C19's static-frame obligation is a lemma here.
from contracts.shared import reregister as _rr_static
from contracts import c19 as _c19_static
_rr_static('C06', 'C19', 'C19.no_stateful_local_statics', 'C06.lemma.no_state_between_calls', replay=None)
