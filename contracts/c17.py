"""C17 -- the C interface is a faithful, exception-tight mirror of the C++ interface.

Contracts on every `extern "C"` function of src/**/*_c.cpp:
  nothrow           -- exception-effect inference (gm2v/effects.py): the set of exception classes that may escape must be empty
  forwards          -- calculation wrappers return exactly the value of their C++ counterpart on the same model
  setter/getter     -- C setter followed by the matching C getter returns the value set (through the real C++ accessors)
  error codes       -- EInvalidInput -> gm2calc_InvalidInput, EPhysicalProblem -> gm2calc_PhysicalProblem, anything else -> gm2calc_UnknownError
  string getters    -- write only inside [msg, msg+len)   (back end A, CBMC)
"""
import re
import z3
from fractions import Fraction as Fr
from gm2v.ob import obligation, PROVED, FAILED, UNDECIDED, ERROR
from gm2v.interp import Interp, Thrown, Opaque
from gm2v.values import Cx, Mat, Obj, to_z3, z3real, is_sym, deep_copy
from gm2v.effects import Effects
from gm2v.symobj import symbolic_fields

CFILES = ['src/MSSMNoFV/MSSMNoFV_onshell_c.cpp', 'src/MSSMNoFV/gm2_1loop_c.cpp', 'src/MSSMNoFV/gm2_2loop_c.cpp', 'src/MSSMNoFV/gm2_uncertainty_c.cpp',
          'src/THDM/THDM_c.cpp', 'src/THDM/gm2_1loop_c.cpp', 'src/THDM/gm2_2loop_c.cpp', 'src/THDM/gm2_uncertainty_c.cpp', 'src/SM/SM_c.cpp', 'src/gm2_error_c.cpp']

def extern_c_functions(w):
    out = []
    for p, u in w.units.items():
        if w.rel(p) in CFILES:
            for fd in u.funcs:
                if fd.extern_c:
                    out.append(fd)
    return out

REPLAY_ESCAPE = r'''
#include "gm2calc/MSSMNoFV_onshell.h"
#include "gm2calc/THDM.h"
#include "gm2calc/SM.h"
#include "gm2calc/gm2_1loop.h"
#include "gm2calc/gm2_2loop.h"
#include "gm2calc/gm2_uncertainty.h"
#include "gm2calc/gm2_error.h"
#include <cstdio>
#include <cstring>
#include <limits>
extern "C" double gm2calc_mssmnofv_calculate_uncertainty_amu_1loop_amu2L(const MSSMNoFV_onshell*, double);
extern "C" double gm2calc_mssmnofv_calculate_uncertainty_amu_0loop_amu1L(const MSSMNoFV_onshell*, double);
template <class F> int probe(const char* what, F f) {
   try { f(); std::printf("%s: returned normally\n", what); return 0; }
   catch (...) { std::printf("%s: EXCEPTION ESCAPED the extern \"C\" function\n", what); return 1; }
}
int main() {
   int bad = 0;
   @BODY@
   std::printf("ESCAPES %d\n", bad);
   return 0;
}
'''

def replay_escape(fn):
    def rep(model, wd):
        from gm2v import native
        import subprocess
        if 'thdm' in fn:
            body = ('gm2calc_THDM_mass_basis b; std::memset(&b, 0, sizeof(b)); b.yukawa_type = (gm2calc_THDM_yukawa_type)42; b.mh = 125; b.mH = 400; b.mA = 420; b.mHp = 440;'
                    ' b.sin_beta_minus_alpha = 0.999; b.tan_beta = 3; b.m122 = 40000; gm2calc_THDM* m = 0; gm2calc_THDM_config cfg; cfg.force_output = 0; cfg.running_couplings = 1;'
                    ' gm2calc_error e = gm2calc_thdm_new_with_mass_basis(&m, &b, 0, &cfg); std::printf("constructor error code %%d\\n", (int)e);'
                    ' if (m) bad += probe("%s(model with yukawa_type = 42)", [&]{ %s(m); });' % (fn, fn))
        else:
            args = 'm'
            if fn.endswith('_amu2L'):
                args = 'm, 1e-9'
            body = ('MSSMNoFV_onshell* m = gm2calc_mssmnofv_new(); bad += probe("%s(freshly allocated model)", [&]{ %s(%s); });' % (fn, fn, args))
        exe = native.build_against_library(wd, REPLAY_ESCAPE.replace('@BODY@', body))
        r = subprocess.run([exe], capture_output=True, text=True, timeout=120)
        return 'ESCAPES 1' in r.stdout, r.stdout.strip().replace('\n', ' | ') + (' stderr: ' + r.stderr.strip()[:200] if r.stderr.strip() else '')
    return rep

def make_nothrow(fn, file):
    @obligation('C17.nothrow.' + fn, fns=[(file, fn)], replay=replay_escape(fn))
    def ob(ctx, fn=fn, file=file):
        """nothrow: no exception class may escape this extern "C" function (callee throw contracts inferred bottom-up from the extracted
        bodies; unknown library calls assumed not to throw; allocation failure ignored)"""
        ef = Effects(ctx.w)
        fd = [f for f in ctx.w.find(fn, file) if f.extern_c][0]
        esc = ef.fn_throws(fd)
        ctx.assume_note('library calls assumed nothrow (no body in the extracted sources): ' + ', '.join(sorted(x for x in ef.assumed_nothrow if x[:1].islower() and '::' in x)[:40]))
        if esc:
            ctx.record('', FAILED, 'B', 0, 'exception classes that may escape: %s' % sorted(esc), model={'escaping': sorted(esc)}, solver='exception-effect inference')
        else:
            ctx.record('', PROVED, 'B', 0, 'escape set is empty', solver='exception-effect inference')
    return ob

def _register():
    from gm2v.ob import get_world
    w = get_world()
    for fd in extern_c_functions(w):
        make_nothrow(fd.qname, w.rel(fd.file))
_register()

# ---------------------------------------------------------------------------------------------------
# forwards: wrapper == C++ counterpart on the same model
# ---------------------------------------------------------------------------------------------------
CALC_FILES = ['src/MSSMNoFV/gm2_1loop_c.cpp', 'src/MSSMNoFV/gm2_2loop_c.cpp', 'src/MSSMNoFV/gm2_uncertainty_c.cpp',
              'src/THDM/gm2_1loop_c.cpp', 'src/THDM/gm2_2loop_c.cpp', 'src/THDM/gm2_uncertainty_c.cpp']

def cpp_name(cname):
    n = re.sub(r'^gm2calc_(mssmnofv|thdm)_', '', cname)
    n = re.sub(r'(_amu1L_amu2L|_amu1L|_amu2L)$', '', n)
    return n

def make_forward(fn, file):
    @obligation('C17.forwards.' + fn, fns=[(file, fn)])
    def ob(ctx, fn=fn, file=file):
        """ensures (no exception in the callee): the wrapper returns exactly <C++ counterpart>(*model, extra arguments in order) -- one call, no
        arithmetic on the way; on an exception in the callee the wrapper returns NaN (the initial value) instead"""
        calls = []
        it = Interp(ctx.w, mode='sym')
        def auto(it_, name, args):
            last = name.split('::')[-1]
            if args and isinstance(args[0], Obj):
                calls.append((last, args))
                return it_.uf('ghost_' + last, *[a for a in args[1:]]) if len(args) > 1 else z3.Real('ghost_' + last)
            return NotImplemented
        it.auto_stub = auto
        it.stubs['std::numeric_limits<>::quiet_NaN'] = lambda i, a, t: z3.Real('NaN')
        fd = [f for f in ctx.w.find(fn, file) if f.extern_c][0]
        model = Obj('THDM' if 'thdm' in fn else 'MSSMNoFV_onshell', {})
        extra = [z3.Real('arg%d' % k) for k in range(len(fd.params) - 1)]
        ps = it.run_paths(lambda: it.invoke(fd, [model] + extra, None))
        ctx.merge_rules(it)
        ok = len(ps) == 1 and ps[0][2] is None and len(calls) == 1 and calls[0][0] == cpp_name(fn)
        if ok:
            want = it.uf('ghost_' + calls[0][0], *extra) if extra else z3.Real('ghost_' + calls[0][0])
            r = ps[0][1]
            ok = is_sym(r) and r.eq(want) and calls[0][1][0] is model
        ctx.record('', PROVED if ok else FAILED, 'B', 0, 'calls: %s; returned %s' % ([(c[0], len(c[1])) for c in calls], ps[0][1] if ps else None), solver='symbolic execution')
    return ob

# ---------------------------------------------------------------------------------------------------
# setter followed by getter
# ---------------------------------------------------------------------------------------------------
PAIRS = {'set_' + x: 'get_' + x for x in ('Ae', 'Au', 'Ad', 'g3', 'MassB', 'MassWB', 'MassG', 'mq2', 'mu2', 'md2', 'ml2', 'me2', 'Mu', 'scale')}
PAIRS.update({'set_MZ_pole': 'get_MZ', 'set_MW_pole': 'get_MW', 'set_MM_pole': 'get_MM', 'set_ML_pole': 'get_ML', 'set_MT_pole': 'get_MT', 'set_MB_running': 'get_MBMB'})
MC = 'src/MSSMNoFV/MSSMNoFV_onshell_c.cpp'

@obligation('C17.setter_getter', fns=[(MC, 'gm2calc_mssmnofv_' + s) for s in PAIRS] + [(MC, 'gm2calc_mssmnofv_' + g) for g in PAIRS.values()])
def _(ctx):
    """for every setter/getter pair of the MSSM C interface and every index combination: getter(model, idx) after setter(model, idx, v) returns v,
    and the setter changes no other entry of the same matrix (executed through the real C++ accessors)"""
    it = Interp(ctx.w, mode='sym')
    for sname, gname in sorted(PAIRS.items()):
        sfd = [f for f in ctx.w.find('gm2calc_mssmnofv_' + sname, MC) if f.extern_c][0]
        gfd = [f for f in ctx.w.find('gm2calc_mssmnofv_' + gname, MC) if f.extern_c][0]
        nidx = len(sfd.params) - 2
        combos = [()] if nidx == 0 else ([(i,) for i in range(3)] if nidx == 1 else [(i, k) for i in range(3) for k in range(3)])
        for idx in combos:
            m = it.new_object('MSSMNoFV_onshell', symbolic_fields(None, prefix='m.'))
            v = z3.Real('v')
            try:
                before = {c: it.run_single(lambda: it.invoke(gfd, [m] + list(c), None)) for c in combos}
                it.run_single(lambda: it.invoke(sfd, [m] + list(idx) + [v], None))
                after = {c: it.run_single(lambda: it.invoke(gfd, [m] + list(c), None)) for c in combos}
            except Exception as e:
                ctx.record('%s%s' % (sname, list(idx)), ERROR, 'B', 0, 'execution: %s' % e)
                continue
            ok = is_sym(after[idx]) and after[idx].eq(v)
            others = all((str(after[c]) == str(before[c])) for c in combos if c != idx)
            # Ae/Au/Ad etc. are diagonal-only in the C++ accessors? (report exactly what happened)
            ctx.record('%s%s' % (sname, list(idx)), PROVED if (ok and others) else FAILED, 'B', 0, 'get after set: %s (other entries unchanged: %s)' % (after[idx], others))
    ctx.merge_rules(it)

# ---------------------------------------------------------------------------------------------------
# error codes
# ---------------------------------------------------------------------------------------------------
ONSHELL_REPLAY = r'''
#include "gm2calc/MSSMNoFV_onshell.h"
#include "gm2calc/MSSMNoFV_onshell.hpp"
#include "gm2calc/gm2_error.hpp"
#include <cstdio>
#include <cstring>
#include <cmath>
// REAL C wrapper against the REAL C++ method on a COPY of the same object: gm2calc_mssmnofv_convert_to_onshell(m) vs copy.convert_to_onshell()
// (and the _params variant vs convert_to_onshell(p, n)) on pole-mass sets for which the (Mu, M1, M2) iteration converges slowly or not at all
struct P { double tb, mu, m1, m2, mcha[2], mchi[4], msvm, msm[2]; };
static const P pts[] = {
   {40, 500, 200, 400, {4.09989890e+02, 5.46057190e+02}, {2.01611468e+02, 4.10040273e+02, -5.16529941e+02, 5.45628749e+02}, 5.18860573e+02, {5.05095249e+02, 5.25187016e+02}},
   {59.332297290189103, 507.8951320755653, 463.14348070466144, 737.46773973080997, {326.67633549170432, 448.17756418254919}, {770.00101596912259, 410, -516, 545}, 961.00672177313004, {644.1831789185261, 692.19335159333082}},
   {28.116063766402373, -768.628854906058, 784.7599555234915, 199.31025805603042, {846.4728260926654, 958.51319609833718}, {863.61783535099016, 410, -516, 545}, 343.42930600187822, {420.82518149197119, 692.39870368418281}},
   {27.157017808371798, 839.67406808651356, 498.62079417562791, 562.59308270360646, {295.41521560291721, 418.7162900927791}, {156.07173855568621, 410, -516, 545}, 399.83536460558048, {722.24773948292705, 821.02341336653399}},
};
static void setup(MSSMNoFV_onshell* m, const P& p) {
   gm2calc_mssmnofv_set_alpha_MZ(m, 0.00775531); gm2calc_mssmnofv_set_alpha_thompson(m, 0.00729735); gm2calc_mssmnofv_set_g3(m, std::sqrt(4*3.14159265358979323846*0.1184));
   gm2calc_mssmnofv_set_MT_pole(m, 173.34); gm2calc_mssmnofv_set_MB_running(m, 4.18); gm2calc_mssmnofv_set_MM_pole(m, 0.1056583715); gm2calc_mssmnofv_set_ML_pole(m, 1.777);
   gm2calc_mssmnofv_set_MW_pole(m, 80.385); gm2calc_mssmnofv_set_MZ_pole(m, 91.1876); gm2calc_mssmnofv_set_MSvmL_pole(m, p.msvm);
   for (unsigned i = 0; i < 2; i++) gm2calc_mssmnofv_set_MSm_pole(m, i, p.msm[i]);
   for (unsigned i = 0; i < 4; i++) gm2calc_mssmnofv_set_MChi_pole(m, i, p.mchi[i]);
   for (unsigned i = 0; i < 2; i++) gm2calc_mssmnofv_set_MCha_pole(m, i, p.mcha[i]);
   gm2calc_mssmnofv_set_MAh_pole(m, 1500); gm2calc_mssmnofv_set_TB(m, p.tb); gm2calc_mssmnofv_set_Mu(m, p.mu); gm2calc_mssmnofv_set_MassB(m, p.m1);
   gm2calc_mssmnofv_set_MassWB(m, p.m2); gm2calc_mssmnofv_set_MassG(m, 2000);
   for (unsigned i = 0; i < 3; i++) { gm2calc_mssmnofv_set_mq2(m, i, i, 49e6); gm2calc_mssmnofv_set_md2(m, i, i, 49e6); gm2calc_mssmnofv_set_mu2(m, i, i, 49e6);
      gm2calc_mssmnofv_set_ml2(m, i, i, 25e4); gm2calc_mssmnofv_set_me2(m, i, i, 25e4); }
   gm2calc_mssmnofv_set_Au(m, 2, 2, 0); gm2calc_mssmnofv_set_Ad(m, 2, 2, 0); gm2calc_mssmnofv_set_Ae(m, 1, 1, 0); gm2calc_mssmnofv_set_Ae(m, 2, 2, 0); gm2calc_mssmnofv_set_scale(m, 1000);
}
static bool same(double a, double b) { return std::memcmp(&a, &b, sizeof a) == 0 || (std::isnan(a) && std::isnan(b)); }
int main() {
   int bad = 0, k = 0;
   for (const auto& p : pts) {
      for (int variant = 0; variant < 2; variant++) {
         MSSMNoFV_onshell* m = gm2calc_mssmnofv_new(); setup(m, p);
         gm2calc::MSSMNoFV_onshell copy(*reinterpret_cast<gm2calc::MSSMNoFV_onshell*>(m));
         int ec = variant == 0 ? gm2calc_mssmnofv_convert_to_onshell(m) : gm2calc_mssmnofv_convert_to_onshell_params(m, 1e-6, 300);
         int ecpp = 0;
         try { if (variant == 0) copy.convert_to_onshell(); else copy.convert_to_onshell(1e-6, 300); }
         catch (const gm2calc::EInvalidInput&) { ecpp = 1; } catch (const gm2calc::EPhysicalProblem&) { ecpp = 2; } catch (...) { ecpp = 3; }
         const double c[4] = {gm2calc_mssmnofv_get_Mu(m), gm2calc_mssmnofv_get_MassB(m), gm2calc_mssmnofv_get_MassWB(m), gm2calc_mssmnofv_get_me2(m, 1, 1)};
         const double x[4] = {copy.get_Mu(), copy.get_MassB(), copy.get_MassWB(), copy.get_me2(1, 1)};
         const char* nm[4] = {"Mu", "MassB", "MassWB", "me2(1,1)"};
         for (int i = 0; i < 4; i++) if (!same(c[i], x[i])) { bad++; std::printf("point %d %s: %s after the C call %.17g, after the C++ call %.17g\n", k, variant ? "convert_to_onshell_params(1e-6,300)" : "convert_to_onshell()", nm[i], c[i], x[i]); }
         if ((ec != 0) != (ecpp != 0)) { bad++; std::printf("point %d: C error code %d, C++ outcome %d\n", k, ec, ecpp); }
         if ((gm2calc_mssmnofv_have_warning(m) != 0) != copy.get_problems().have_warning()) { bad++; std::printf("point %d: warning status differs between C and C++\n", k); }
         gm2calc_mssmnofv_free(m);
      }
      k++;
   }
   std::printf("%d differences between the C wrapper and the C++ method\n", bad);
   return bad ? 1 : 0;
}
'''

def onshell_replay(model, wd):
    from gm2v import native
    import subprocess
    exe = native.build_against_library(wd, ONSHELL_REPLAY, name='onshell_c')
    r = subprocess.run([exe], capture_output=True, text=True, timeout=300)
    return r.returncode == 1, r.stdout.strip()[-1500:]

@obligation('C17.error_codes', fns=[(MC, 'gm2calc_mssmnofv_convert_to_onshell'), (MC, 'gm2calc_mssmnofv_convert_to_onshell_params'), (MC, 'gm2calc_mssmnofv_calculate_masses'),
                                    ('src/THDM/THDM_c.cpp', 'gm2calc_thdm_new_with_gauge_basis'), ('src/THDM/THDM_c.cpp', 'gm2calc_thdm_new_with_mass_basis')], replay=onshell_replay)
def _(ctx):
    """the C++ method throws EInvalidInput / EPhysicalProblem / any other exception / nothing  ==>  the wrapper returns
    gm2calc_InvalidInput / gm2calc_PhysicalProblem / gm2calc_UnknownError / gm2calc_NoError (one-to-one), never throws itself"""
    E = ctx.w.enumerators
    want = {'EInvalidInput': E['gm2calc_InvalidInput'], 'EPhysicalProblem': E['gm2calc_PhysicalProblem'], 'ESetupError': E['gm2calc_UnknownError'],
            'std::bad_alloc': E['gm2calc_UnknownError'], None: E['gm2calc_NoError']}
    for fn, callee in (('gm2calc_mssmnofv_convert_to_onshell', 'MSSMNoFV_onshell::convert_to_onshell'), ('gm2calc_mssmnofv_convert_to_onshell_params', 'MSSMNoFV_onshell::convert_to_onshell'),
                       ('gm2calc_mssmnofv_calculate_masses', 'MSSMNoFV_onshell::calculate_masses')):
        fd = [f for f in ctx.w.find(fn, MC) if f.extern_c][0]
        for exc, code in want.items():
            got = []
            def stub(i, a, t, exc=exc, got=got):
                got.append((t, list(a)))
                if exc is not None:
                    raise Thrown(exc, 'ghost')
                return None
            it = Interp(ctx.w, mode='sym', stubs={callee: stub})
            m = Obj('MSSMNoFV_onshell', {})
            extra = [z3.Real('precision'), z3.Int('max_iterations')][:len(fd.params) - 1]
            try:
                ps = it.run_paths(lambda: it.invoke(fd, [m] + extra, None))
                ok = len(ps) == 1 and ps[0][2] is None and ps[0][1] == code
                det = 'returned %s' % (ps[0][1] if ps else None)
            except Thrown as t:
                ok, det = False, 'exception %s escapes' % t.cls
            ctx.record('%s.%s' % (fn, exc or 'no_exception'), PROVED if ok else FAILED, 'B', 0, det + ' (expected %s)' % code)
            if exc is None:
                # faithful mirror: the C++ method is called ONCE, on the same object, with exactly the wrapper's own arguments in order; arguments the wrapper does not
                # have are left to the C++ DEFAULTS of the public header (the C call without parameters behaves like the C++ call without parameters)
                decl = [f for f in ctx.w.find(callee.split('::')[-1]) if strip_ns_(f.qname).endswith(callee) and any(p.default is not None for p in f.params)]
                defaults = []
                if decl:
                    itd = Interp(ctx.w, mode='sym')
                    defaults = [itd.run_single(lambda p=p: itd.ev(p.default)) if p.default is not None else None for p in decl[0].params]
                eff = None
                if len(got) == 1:
                    eff = list(got[0][1]) + defaults[len(got[0][1]):]
                want_args = list(extra) + defaults[len(extra):]
                def same(a, b):
                    if is_sym(a) or is_sym(b):
                        return is_sym(a) and is_sym(b) and z3.is_true(z3.simplify(z3real(a) == z3real(b)))
                    return a is not None and b is not None and Fr(a) == Fr(b)
                okm = eff is not None and got[0][0] is m and len(eff) == len(want_args) and all(same(a, b) for a, b in zip(eff, want_args))
                ctx.record('%s.arguments' % fn, PROVED if okm else FAILED, 'B', 0, 'C++ %s receives %s (after default expansion); faithful mirror requires %s' % (callee, eff, want_args),
                           model=None if okm else {'_forwarder': fn})

def _register2():
    from gm2v.ob import get_world
    w = get_world()
    for fd in extern_c_functions(w):
        if w.rel(fd.file) in CALC_FILES:
            make_forward(fd.qname, w.rel(fd.file))
_register2()

TC = 'src/THDM/THDM_c.cpp'

def _flat(v):
    if isinstance(v, Mat):
        return v.elems()
    if isinstance(v, list):
        out = []
        for x in v:
            out += _flat(x)
        return out
    if isinstance(v, Cx):
        return [v.re, v.im]
    return [v]

@obligation('C17.thdm_struct_conversion', fns=[(TC, 'convert_to_basis'), (TC, 'convert_to_config'), (TC, 'convert_to_SM'), (TC, 'c_yukawa_type_to_cpptype')])
def _(ctx):
    """the C -> C++ conversions used by the THDM constructors copy every field of the C struct into the C++ field of the same name
    (element by element for arrays/matrices); a null pointer yields the default-constructed C++ object; the enum cast is total (any int)"""
    for cname, cppname, special in (('gm2calc_THDM_mass_basis', 'Mass_basis', {}), ('gm2calc_THDM_gauge_basis', 'Gauge_basis', {}),
                                    ('gm2calc_THDM_config', 'Config', {})):
        it = Interp(ctx.w, mode='sym')
        c = it.new_object(cname, symbolic_fields(None, prefix='c.'))
        if 'yukawa_type' in c.f:
            c.f['yukawa_type'] = z3.Int('c.yukawa_type')
        fn = 'convert_to_config' if cppname == 'Config' else 'convert_to_basis'
        fds = [f for f in ctx.w.find(fn, TC) if strip_ns_(f.params[0].type.name) == cname]
        ps = it.run_paths(lambda: it.invoke(fds[0], [c], None))
        ctx.merge_rules(it)
        for k, (sym, r, exc) in enumerate(ps):
            if exc is not None or not isinstance(r, Obj):
                ctx.record('%s.path%d' % (cppname, k), FAILED, 'B', 0, 'exception or no object: %s' % exc)
                continue
            for fld in sorted(r.f):
                if fld not in c.f:
                    ctx.record('%s.%s' % (cppname, fld), FAILED, 'B', 0, 'no C field of that name')
                    continue
                a, b = _flat(r.f[fld]), _flat(c.f[fld])
                if cppname == 'Config':
                    ok = all(z3.is_true(z3.simplify(z3.simplify(to_z3(x)) == (to_z3(y) != 0))) if is_sym(y) else x == (y != 0) for x, y in zip(a, b))
                else:
                    ok = len(a) == len(b) and all((is_sym(x) and is_sym(y) and x.eq(y)) or (not is_sym(x) and x == y) or z3.is_true(z3.simplify(to_z3(x) == to_z3(y))) for x, y in zip(a, b))
                ctx.record('%s.%s' % (cppname, fld), PROVED if ok else FAILED, 'B', 0, 'C++ %s.%s == C %s.%s: %s' % (cppname, fld, cname, fld, ok))
            missing = set(c.f) - set(r.f)
            ctx.record('%s.all_fields_covered' % cppname, PROVED if not missing else FAILED, 'B', 0, 'C fields without C++ counterpart: %s' % sorted(missing))
        # null pointer -> defaults
        it2 = Interp(ctx.w, mode='sym')
        r0 = it2.run_single(lambda: it2.invoke(fds[0], [None], None))
        d0 = it2.new_object(cppname)
        same = isinstance(r0, Obj) and all(str(_flat(r0.f[k])) == str(_flat(d0.f[k])) for k in d0.f)
        ctx.record('%s.null_gives_default' % cppname, PROVED if same else FAILED, 'B', 0, 'conversion of a null pointer equals the default-constructed object: %s' % same)

def strip_ns_(n):
    from gm2v.world import strip_ns
    return strip_ns(n)

from gm2v.ob import cbmc_contract

REPLAY_STR = r'''
#include "gm2calc/MSSMNoFV_onshell.h"
#include <cstdio>
#include <cstring>
int main() {
   MSSMNoFV_onshell* m = gm2calc_mssmnofv_new();
   int bad = 0;
   for (unsigned len = 0; len <= 3; len++) {
      unsigned char buf[32];
      std::memset(buf, 0x55, sizeof(buf));
      @FN@(m, reinterpret_cast<char*>(buf) + 8, len);
      for (unsigned i = 0; i < sizeof(buf); i++) {
         const bool inside = (i >= 8 && i < 8 + len);
         if (!inside && buf[i] != 0x55) { std::printf("len=%u: byte at offset %d relative to msg was overwritten\n", len, (int)i - 8); bad++; }
      }
   }
   std::printf("OUTSIDE_WRITES %d\n", bad);
   return 0;
}
'''

def replay_string(fn):
    def rep(model, wd):
        from gm2v import native
        import subprocess
        exe = native.build_against_library(wd, REPLAY_STR.replace('@FN@', fn))
        r = subprocess.run([exe], capture_output=True, text=True, timeout=60)
        return 'OUTSIDE_WRITES 0' not in r.stdout, r.stdout.strip().replace('\n', ' | ')
    return rep

def make_string_getter(fn):
    @obligation('C17.string_getter.' + fn, fns=[(MC, fn)], backend='A', replay=replay_string(fn))
    def ob(ctx, fn=fn):
        """A (CBMC, IEEE/bit-precise unsigned arithmetic): for every buffer length len >= 0 (including 0) and every message length, the function
        writes only inside [msg, msg+len), dereferences nothing when msg is null, and has no other side effect
        [std::string::copy by its documented contract; the model pointer is opaque]"""
        cbmc_contract(ctx, '', fn, MC,
                      ['__CPROVER_requires(msg == 0 || __CPROVER_is_fresh(msg, len))',
                       '__CPROVER_ensures(1)',
                       '__CPROVER_assigns(msg != 0: __CPROVER_object_whole(msg))'],
                      checks=('--bounds-check', '--pointer-check', '--pointer-overflow-check'), ghosts=('get_problems', 'get_warnings'))
    return ob

for _fn in ('gm2calc_mssmnofv_get_problems', 'gm2calc_mssmnofv_get_warnings'):
    make_string_getter(_fn)

# ------------------------------------------------------------------------------------------------ THDM handles: allocation contract
NEW_REPLAY = r'''
#include "gm2calc/THDM.h"
#include "gm2calc/SM.h"
#include <cstdio>
// documented: "If an error occurs, the model pointer will be set to 0".  History: the handle variable still holds a stale (non-null) value when a construction fails.
int main() {
   int bad = 0;
   gm2calc_SM sm; gm2calc_sm_set_to_default(&sm);
   gm2calc_THDM_config cfg; gm2calc_thdm_config_set_to_default(&cfg);
   int dummy = 0;
   {
      gm2calc_THDM_mass_basis b = {}; b.yukawa_type = gm2calc_THDM_type_2; b.mh = 125; b.mH = 400; b.mA = 420; b.mHp = 440; b.sin_beta_minus_alpha = 0.995; b.tan_beta = -1; b.m122 = 40000;
      gm2calc_THDM* h = reinterpret_cast<gm2calc_THDM*>(&dummy);      // stale non-null handle (never dereferenced here)
      const gm2calc_error e = gm2calc_thdm_new_with_mass_basis(&h, &b, &sm, &cfg);
      if (e == gm2calc_NoError) std::printf("mass basis with tan(beta) = -1 was accepted\n");
      else if (h != nullptr) { bad++; std::printf("gm2calc_thdm_new_with_mass_basis failed with error %d but left the handle non-null\n", int(e)); }
   }
   {
      gm2calc_THDM_gauge_basis b = {}; b.yukawa_type = gm2calc_THDM_type_2; b.tan_beta = -1; b.m122 = 40000; b.lambda[0] = 0.7; b.lambda[1] = 0.6; b.lambda[2] = 0.5; b.lambda[3] = 0.4; b.lambda[4] = 0.3;
      gm2calc_THDM* h = reinterpret_cast<gm2calc_THDM*>(&dummy);
      const gm2calc_error e = gm2calc_thdm_new_with_gauge_basis(&h, &b, &sm, &cfg);
      if (e == gm2calc_NoError) std::printf("gauge basis with tan(beta) = -1 was accepted\n");
      else if (h != nullptr) { bad++; std::printf("gm2calc_thdm_new_with_gauge_basis failed with error %d but left the handle non-null\n", int(e)); }
   }
   std::printf("%d failed constructions left a dangling handle\n", bad);
   return bad ? 1 : 0;
}
'''

def new_replay(model, wd):
    from gm2v import native
    import subprocess
    exe = native.build_against_library(wd, NEW_REPLAY)
    r = subprocess.run([exe], capture_output=True, text=True, timeout=120)
    return r.returncode == 1, r.stdout.strip()[-1200:]

@obligation('C17.thdm_new.handle_contract', fns=[(TC, 'gm2calc_thdm_new_with_gauge_basis'), (TC, 'gm2calc_thdm_new_with_mass_basis')], replay=new_replay)
def _(ctx):
    """ensures for both constructors of the C interface, for EVERY previous value of the caller's handle variable: the C++ constructor throws EInvalidInput /
    EPhysicalProblem / anything else ==> the function returns gm2calc_InvalidInput / gm2calc_PhysicalProblem / gm2calc_UnknownError AND *model == 0 (documented:
    "If an error occurs, the model pointer will be set to 0" -- otherwise a stale handle is freed twice); it succeeds ==> gm2calc_NoError and *model is the newly
    allocated object; model == 0 ==> gm2calc_InvalidInput and nothing is written; the struct conversions are called with the caller's structs"""
    from gm2v.interp import Cell
    E = ctx.w.enumerators
    want = {'EInvalidInput': E['gm2calc_InvalidInput'], 'EPhysicalProblem': E['gm2calc_PhysicalProblem'], 'ESetupError': E['gm2calc_UnknownError'],
            'std::bad_alloc': E['gm2calc_UnknownError'], None: E['gm2calc_NoError']}
    for fn, bcls in (('gm2calc_thdm_new_with_gauge_basis', 'Gauge_basis'), ('gm2calc_thdm_new_with_mass_basis', 'Mass_basis')):
        fd = [f for f in ctx.w.find(fn, TC) if f.extern_c][0]
        for where in ('constructor', 'convert_to_basis'):
            for exc, code in want.items():
                fresh = Obj('THDM', {'tag': 'fresh'})
                got = {}
                def thrower(i, a, t, exc=exc):
                    raise Thrown(exc, 'ghost')
                def ctor(i, a, t):
                    got['ctor_args'] = [x.cls if isinstance(x, Obj) else x for x in a]
                    if isinstance(t, Obj):
                        t.f['tag'] = 'fresh'       # `new T(args)`: the constructor runs on the newly allocated object
                    return fresh
                stubs = {'convert_to_config': lambda i, a, t: Obj('Config', {}), 'convert_to_basis': lambda i, a, t: Obj(bcls, {}), 'convert_to_SM': lambda i, a, t: Obj('SM', {}),
                         'THDM::THDM': ctor}
                if exc is not None:
                    stubs['THDM::THDM' if where == 'constructor' else 'convert_to_basis'] = thrower
                elif where != 'constructor':
                    continue
                it = Interp(ctx.w, mode='sym', stubs=stubs)
                handle = Cell('STALE')
                tag = '%s.%s_throws_%s' % (fn, where, exc) if exc else '%s.success' % fn
                try:
                    ps = it.run_paths(lambda: (setattr(handle, 'v', 'STALE'), it.invoke(fd, [handle, Obj('gm2calc_THDM_%s' % bcls.lower(), {}), Obj('gm2calc_SM', {}), Obj('gm2calc_THDM_config', {})], None))[1])
                except Thrown as t:
                    ctx.record(tag, FAILED, 'B', 0, 'exception %s escapes' % t.cls)
                    continue
                ok = len(ps) == 1 and ps[0][2] is None and ps[0][1] == code
                if exc is None:
                    isnew = isinstance(handle.v, Obj) and handle.v.cls == 'THDM' and handle.v.f.get('tag') == 'fresh'
                    ok = ok and isnew and got.get('ctor_args') == [bcls, 'SM', 'Config']
                    det = 'returned %s, *model is %s, constructor called with %s' % (ps[0][1] if ps else None, 'the new object' if isnew else repr(handle.v), got.get('ctor_args'))
                else:
                    ok = ok and (handle.v == 0 or handle.v is None) and not isinstance(handle.v, str)
                    det = 'returned %s, *model == %r afterwards (previous value: a stale non-null handle)' % (ps[0][1] if ps else None, handle.v)
                ctx.record(tag, PROVED if ok else FAILED, 'B', 0, det + ' (expected code %s)' % code, model=None if ok else {'_history': 'handle variable non-null before the call; constructor throws %s' % exc})
        # null out-parameter
        it = Interp(ctx.w, mode='sym', stubs={})
        try:
            ps = it.run_paths(lambda: it.invoke(fd, [0, Obj('x', {}), Obj('gm2calc_SM', {}), Obj('gm2calc_THDM_config', {})], None))
            ok = len(ps) == 1 and ps[0][2] is None and ps[0][1] == E['gm2calc_InvalidInput']
            ctx.record(fn + '.null_out_parameter', PROVED if ok else FAILED, 'B', 0, 'returned %s' % (ps[0][1] if ps else None))
        except Exception as e_:
            ctx.record(fn + '.null_out_parameter', FAILED, 'B', 0, 'model == 0 is dereferenced or an exception escapes: %s' % e_)
