"""IEEE-level postconditions of the one-argument loop and special functions, for ALL doubles of their domain (no sampling): the result is a finite number.

Back end F (gm2v/fpset.py): the extracted function is executed on sets of doubles (sign-homogeneous pieces + NaN flag, end-point evaluation of rounded monotone
operations, libm log/log1p/atan2/fmod by enclosure), comparisons that the set does not decide are followed both ways with the operands restricted, the domain
[1e-14, 1e12] (dilog, Cl2: +-[1e-300, 1e300]) is bisected where an enclosure admits inf or NaN.  This closes, for these functions, the gap that the real-arithmetic
abstraction (A-REAL) leaves: no overflow, no 0/0, no inf-inf, no log of a non-positive number can occur for any admissible double."""
import time
from gm2v.ob import obligation, PROVED, FAILED, UNDECIDED, ERROR
from gm2v.interp import Interp
from gm2v import fpset

FF = 'src/gm2_ffunctions.cpp'
DL = 'src/gm2_dilog.cpp'
ONE_ARG = [(f, FF, [(1e-14, 1e12)]) for f in 'F1C F2C F3C F4C F1N F2N F3N F4N G3 G4 f_PS f_S f_sferm f_CSl F1 F1t F2 F3'.split()] + \
          [('dilog', DL, [(1e-300, 1e300), (-1e300, -1e-300)]), ('clausen_2', DL, [(1e-300, 1e300), (-1e300, -1e-300)])]

REPLAY = r'''
#include "gm2_ffunctions.hpp"
#include "gm2_dilog.hpp"
#include <cstdio>
#include <cstdlib>
#include <cmath>
#include <string>
int main(int argc, char** argv) {
   using namespace gm2calc;
   const std::string f = argv[1]; const double x = std::strtod(argv[2], nullptr); double r = 0;
#define F(n) if (f == #n) r = n(x);
   F(F1C) F(F2C) F(F3C) F(F4C) F(F1N) F(F2N) F(F3N) F(F4N) F(G3) F(G4) F(f_PS) F(f_S) F(f_sferm) F(f_CSl) F(F1) F(F1t) F(F2) F(F3) F(dilog) F(clausen_2)
   std::printf("%s(%.17g) = %.17g\n", f.c_str(), x, r);
   return std::isfinite(r) ? 0 : 1;
}
'''

def make_replay(fn):
    def rep(model, wd):
        from gm2v import native
        import subprocess
        x = (model or {}).get('_float', {}).get('x')
        if x is None:
            return None, 'no input'
        exe = native.build_against_library(wd, REPLAY, name='ieee_finite')
        r = subprocess.run([exe, fn, repr(x)], capture_output=True, text=True, timeout=60)
        return r.returncode == 1, 'real code: ' + r.stdout.strip()
    return rep

def make(prop, fn, file, boxes):
    @obligation('%s.ieee_finite.%s' % (prop, fn), fns=[(file, fn)], backend='F', replay=make_replay(fn))
    def ob(ctx):
        """ensures (IEEE-754 doubles, round to nearest): for EVERY double x of the domain the value returned is finite (neither an infinity nor NaN)"""
        def run_set(vals):
            it = Interp(ctx.w, mode='float')
            ps = it.run_paths(lambda: it.call(fn, [vals['x'].clone()], file=file), max_paths=4000)
            ctx.merge_rules(it)
            return fpset.union([r for s_, r, e in ps])
        def run_point(pt):
            it = Interp(ctx.w, mode='float')
            return it.run_single(lambda: it.call(fn, [float(pt['x'])], file=file))
        import math
        t0 = time.time()
        total = 0
        for lo, hi in boxes:
            st, n, info = fpset.decide_on_box(run_set, {'x': (lo, hi)}, lambda r: r.finite(), run_point=run_point,
                                              accept_point=lambda v: isinstance(v, (int, float)) and math.isfinite(v), max_boxes=3000)
            total += n
            if st == 'failed':
                ctx.record('', FAILED, 'F', time.time() - t0, '%s(%r) = %s: not a finite number' % (fn, info['x'], info['_result']), model={'_float': {'x': info['x']}},
                           solver='IEEE set-enclosure execution (gm2v/fpset.py)')
                return
            if st != 'proved':
                ctx.record('', UNDECIDED, 'F', time.time() - t0, 'not decided on [%g, %g]: %s' % (lo, hi, info), solver='IEEE set-enclosure execution (gm2v/fpset.py)')
                return
        ctx.record('', PROVED, 'F', time.time() - t0, 'finite on %s (%d sub-boxes)' % (' u '.join('[%g, %g]' % b for b in boxes), total), solver='IEEE set-enclosure execution (gm2v/fpset.py)')
    return ob

def register(prop):
    for fn, file, boxes in ONE_ARG:
        make(prop, fn, file, boxes)

def register_selftest(prop):
    @obligation('%s.ieee_backend.soundness_fuzz' % prop, fns=[], tier='thorough', backend='F')
    def _(ctx):
        """machinery self-check (thorough tier): (1) the transfer functions of gm2v/fpset.py against brute force on grids of doubles including all special values;
        (2) for the 20 functions, random boxes: every concrete IEEE execution at a point of the box lies in the set computed for the box"""
        import random, math
        n1 = fpset._selftest()
        rnd = random.Random(5)
        bad, n = [], 0
        def contains(fp, v):
            if v != v:
                return fp.nan
            return any(fpset._le(lo, v) and fpset._le(v, hi) for lo, hi in fp.pieces)
        for fn, file, boxes in ONE_ARG:
            for _ in range(25):
                c = 10 ** rnd.uniform(-14, 12) if rnd.random() < 0.6 else rnd.choice([1.0, 0.25, 0.5, 2.0, 100.0, 1.03, 0.97, 1.01, 0.99, 6.283185307179586, 3.141592653589793, 1.5707963267948966])
                wdt = 10 ** rnd.uniform(-17, 0.5)
                lo, hi = (c * (1 - wdt) if wdt < 1 else c / (1 + wdt)), c * (1 + wdt)
                if rnd.random() < 0.2 and fn in ('dilog', 'clausen_2'):
                    lo, hi = -hi, -lo
                it = Interp(ctx.w, mode='float')
                X = fpset.FP.range(lo, hi, 'x')
                ps = it.run_paths(lambda: it.call(fn, [X.clone()], file=file), max_paths=4000)
                R = fpset.union([r for s_, r, e in ps])
                for k in range(10):
                    xv = rnd.choice([lo, hi, c, math.nextafter(c, 0), math.nextafter(c, 1e300)]) if k < 4 else rnd.uniform(lo, hi)
                    if not (lo <= xv <= hi):
                        continue
                    it2 = Interp(ctx.w, mode='float')
                    v = it2.run_single(lambda: it2.call(fn, [xv], file=file))
                    n += 1
                    if not contains(R, float(v)):
                        bad.append('%s(%r) = %r is outside the set %r computed for [%r, %r]' % (fn, xv, v, R, lo, hi))
        ctx.record('', PROVED if not bad else ERROR, 'F', 0, '%d end-point cases, %d concrete executions inside their enclosures' % (n1, n) if not bad else bad[0], kind='selftest')
