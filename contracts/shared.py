"""helpers shared by contract modules: re-registration of an obligation of one property as a lemma of another"""
from gm2v.ob import REGISTRY, Obligation

def reregister(prop, from_prop, oid, new_oid, replay='same'):
    """the obligation `oid` of `from_prop` becomes the obligation `new_oid` of `prop` as well (same contract, same real functions); replay: 'same' | callable | None"""
    for o in REGISTRY.get(from_prop, []):
        if o.oid == oid:
            rp = o.replay if replay == 'same' else replay
            REGISTRY.setdefault(prop, []).append(Obligation(new_oid, o.func, o.fns, o.tier, o.backend, o.doc, rp, prop))
            return
    raise RuntimeError('obligation %s not found in %s' % (oid, from_prop))
