"""helpers shared by contract modules: re-registration of an obligation of one property as a lemma of another"""
from gm2v.ob import REGISTRY, Obligation

def reregister(prop, from_prop, oid, new_oid, replay='same'):
    """the obligation `oid` of `from_prop` becomes the obligation `new_oid` of `prop` as well (same contract, same real functions); replay: 'same' | callable | None"""
    for o in REGISTRY.get(from_prop, []):
        if o.oid == oid:
            rp = o.replay if replay == 'same' else replay
            REGISTRY.setdefault(prop, []).append(Obligation(new_oid, o.func, o.fns, o.tier, o.backend, o.doc, rp, prop))
            return
    raise RuntimeError('obligation %s not found in %s' % (oid, from_prop))


def make_solver_input(nm, solver, n, prop, cls, file, model_cls):
    """obligation: calculate_M<X> hands get_mass_matrix_<X>() -- every entry, on every path -- to the decomposition routine, exactly once"""
    import z3
    from gm2v.ob import obligation, PROVED, FAILED, ERROR
    from gm2v.interp import Interp
    from gm2v.values import Mat, z3real
    @obligation('%s.spectrum.solver_input.%s' % (prop, nm), fns=[(file, cls + '::calculate_M' + nm)])
    def ob(ctx, nm=nm, solver=solver, n=n, CLS=cls, model_cls=model_cls):
        """ensures: calculate_M<X> hands get_mass_matrix_<X>() -- every entry, on every path -- to the decomposition routine, exactly once"""
        handed = []
        it = Interp(ctx.w, mode='sym')
        M = Mat(n, n, [[z3.Real('m%d%d' % (i, j)) for j in range(n)] for i in range(n)], 'matrix', False)
        it.stubs.update({solver: lambda i, ar, t: handed.append(ar[0].copy()), CLS + '::get_mass_matrix_' + nm: lambda i, ar, t: M})
        m = it.new_object(model_cls)
        def run():
            del handed[:]
            it.call('calculate_M' + nm, [], this=m)
            return list(handed)
        paths = it.run_paths(run)
        ctx.merge_rules(it)
        for k, (sym, hd, exc) in enumerate(paths):
            if len(hd) != 1 or hd[0].r != n:
                ctx.record('path%d' % k, FAILED, 'B', 0, 'the decomposition routine is called %d times' % len(hd))
                continue
            ctx.prove('path%d' % k, sym.pc, z3.And(*[z3real(hd[0].get(i, j)) == z3real(M.get(i, j)) for i in range(n) for j in range(n)]), check_vacuity=False)
        ctx.record('paths', PROVED if paths else ERROR, 'B', 0, '%d path(s)' % len(paths))
    return ob
