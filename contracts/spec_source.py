"""Provenance of the specifications: the definitions that the C01 and C02 contracts compare the code with (transcribed into the contract modules from the publications)
are themselves compared with the repository's own reference file math/ffunctions.m, parsed on every run (gm2v/mma.py).  A discrepancy between a transcribed definition and the
repository's statement of the same formula is reported here as an ERROR (exit 2: the two sources of the specification disagree -- it is not the code that broke, so this is never a
VIOLATION), so a contract cannot silently encode a formula of the verifier's making.

  C01.spec_source.<fn>   F1C..F4C, F1N..F4N, G3, G4: N(x, ln x, Li2(1-x))/Den(x) == <fn>[x] of the file (ring identity); documented values <fn>[1], <fn>[0]
  C01.spec_source.fps    f_S, f_sferm, f_CSl in terms of f_PS, ln, Li2 == fS, fsferm, fCl of the file; values fPS[0] = 0, fPS[1/4] = 2 ln 2
  C02.spec_source        Fa, Fb (divided differences of G3, G4), I2abc, Iabc, FPZ, FSZ, FCWl generic forms and the equal-argument forms FPZ[x,x], FSZ[x,x], Fa[x,x], Fb[x,x];
                         Phi == LambdaK/2 (2 ln a+ ln a- - ln(x/z) ln(y/z) - 2 Li2 a+ - 2 Li2 a- + pi^2/3) with the file's alpha+-, LambdaK
Not compared (outside the reader's subset: Re[], I, Which): the closed forms fPS, F1, F1t, F2, F3 of the file (C01 proves those functions against f_PS and f_PS against its
published dilogarithm/Clausen forms)."""
import os
from fractions import Fraction as Fr
import z3
from gm2v.ob import obligation, PROVED, FAILED, UNDECIDED, ERROR
from gm2v import mma, specs, ring
from gm2v.specs import ln, Li2, Q

MFILE = 'math/ffunctions.m'

def _load(ctx):
    return mma.load(os.path.join(ctx.w.repo, MFILE))

def _num(q):
    return ('num', Fr(q))

def _evaluator(defs, symbols, extra=None):
    def PolyLog(n, x):
        if not (z3.is_rational_value(n) and n.as_fraction() == 2):
            raise mma.MmaError('PolyLog order')
        return Li2(z3.simplify(x))
    fns = {'Log': lambda x: ln(z3.simplify(x)), 'PolyLog': PolyLog, 'Sqrt': lambda x: specs.UF('sqrt')(z3.simplify(x))}
    fns.update(extra or {})
    syms = {'Pi': z3.Real('c_PI')}
    syms.update(symbols)
    return mma.Evaluator(defs, syms, fns, const=lambda q: z3.RealVal(str(q)))

def _ring_eq(a, b):
    try:
        return ring.identity(z3.simplify(a), z3.simplify(b))
    except ring.NotRing:
        return None

def _const_value(ev, body):
    """value of a special-value definition as a z3 term (may contain ln 2, pi)"""
    return ev.ev(body, {})

def register_c01():
    from contracts.c01 import SPEC1
    from contracts.c01_fps import DEFS, fPS, PI
    for fn in SPEC1:
        def ob(ctx, fn=fn):
            """the transcribed definition N(x, ln x, Li2(1-x))/Den(x) used by C01.<fn>.def IS the definition <fn>[x_] of math/ffunctions.m, and the documented values at 1 and 0 are the file's"""
            defs = _load(ctx)
            x = z3.Real('x')
            N, Den, v1, v0 = SPEC1[fn]
            mine = N(x, ln(x), Li2(1 - x)) / Den(x)
            ev = _evaluator(defs, {})
            params, body = defs.functions[fn]
            ev.sym[params[0]] = x
            ref = ev.ev(body, {})
            ok = _ring_eq(mine, ref)
            ctx.record('general', PROVED if ok else (ERROR if ok is False else UNDECIDED), 'B', 0, '%s[x] of %s %s the transcribed N/Den' % (fn, MFILE, '==' if ok else '!='), solver='ring normalisation (sympy)', kind='lemma')
            for val, mine_v in ((1, v1), (0, v0)):
                b = defs.special_value(fn, [_num(val)])
                if b is None or mine_v is None:
                    continue
                want = _const_value(_evaluator(defs, {}), b)
                got = z3.RealVal(str(Fr(mine_v))) if not z3.is_expr(mine_v) else mine_v
                okv = _ring_eq(got, want)
                if not okv:
                    # a decimal/irrational documented value (F4N[0] = -3(pi^2 - 9)/4): compare numerically
                    from gm2v import numeval
                    import mpmath as mp
                    try:
                        okv = abs(numeval.ev(got, {}, {}) - numeval.ev(want, {}, {})) <= mp.mpf(10) ** -15
                    except Exception:
                        okv = False
                ctx.record('value_at_%d' % val, PROVED if okv else ERROR, 'B', 0, '%s[%d] of %s vs the documented value used by the contract' % (fn, val, MFILE), kind='lemma')
        obligation('C01.spec_source.%s' % fn, fns=[])(ob)

    @obligation('C01.spec_source.fps', fns=[])
    def _(ctx):
        """the definitions of f_S, f_sferm, f_CSl in terms of f_PS, ln, Li2 used by C01.<fn>.def ARE fS, fsferm, fCl of math/ffunctions.m; fPS[0] = 0 and fPS[1/4] = 2 ln 2 as documented"""
        defs = _load(ctx)
        z = z3.Real('z')
        for mine_name, file_name in (('f_S', 'fS'), ('f_sferm', 'fsferm'), ('f_CSl', 'fCl')):
            ev = _evaluator(defs, {}, extra={'fPS': lambda t: fPS(z3.simplify(t))})
            params, body = defs.functions[file_name]
            ev.sym[params[0]] = z
            ref = ev.ev(body, {})
            mine = z3.substitute(DEFS[mine_name](z), (PI, z3.Real('c_PI'))) if not PI.eq(z3.Real('c_PI')) else DEFS[mine_name](z)
            ok = _ring_eq(mine, ref)
            ctx.record(mine_name, PROVED if ok else (ERROR if ok is False else UNDECIDED), 'B', 0, '%s[z] of %s %s the transcribed definition' % (file_name, MFILE, '==' if ok else '!='), solver='ring normalisation (sympy)', kind='lemma')
        ev = _evaluator(defs, {})
        b0, b14 = defs.special_value('fPS', [_num(0)]), defs.special_value('fPS', [('/', _num(1), _num(4))])
        ok0 = b0 is not None and _ring_eq(ev.ev(b0, {}), z3.RealVal(0))
        ok14 = b14 is not None and _ring_eq(ev.ev(b14, {}), 2 * ln(z3.RealVal(2)))
        ctx.record('fPS.values', PROVED if (ok0 and ok14) else ERROR, 'B', 0, 'fPS[0] = 0: %s, fPS[1/4] = 2 ln 2: %s' % (ok0, ok14), kind='lemma')

def register_c02():
    @obligation('C02.spec_source', fns=[])
    def _(ctx):
        """the definitions used by the C02 contracts ARE those of math/ffunctions.m: Fa, Fb as divided differences of G3, G4; I2abc and Iabc(a,b,c) = I2abc(a^2,b^2,c^2);
        FPZ, FSZ, FCWl as (y f(x) - x f(y))/(x - y) of fPS, fS, fCl; the equal-argument forms FPZ[x,x], FSZ[x,x], Fa[x,x], Fb[x,x]; Phi with LambdaK and alpha+-"""
        defs = _load(ctx)
        x, y, c = z3.Reals('x y c')
        UF = specs.UF
        G3, G4, fPSu, fSu, fClu = UF('G3'), UF('G4'), UF('fPS'), UF('fS'), UF('fCl')
        extra = {'G3': lambda t: G3(z3.simplify(t)), 'G4': lambda t: G4(z3.simplify(t)), 'fPS': lambda t: fPSu(z3.simplify(t)), 'fS': lambda t: fSu(z3.simplify(t)), 'fCl': lambda t: fClu(z3.simplify(t))}
        def general(name, args):
            ev = _evaluator(defs, {}, extra=extra)
            params, body = defs.functions[name]
            for p, a in zip(params, args):
                ev.sym[p] = a
            return ev.ev(body, {})
        checks = [
            ('Fa', general('Fa', [x, y]), -(G3(x) - G3(y)) / (x - y)),
            ('Fb', general('Fb', [x, y]), -(G4(x) - G4(y)) / (x - y)),
            ('FPZ', general('FPZ', [x, y]), (y * fPSu(x) - x * fPSu(y)) / (x - y)),
            ('FSZ', general('FSZ', [x, y]), (y * fSu(x) - x * fSu(y)) / (x - y)),
            ('FCWl', general('FCWl', [x, y]), (y * fClu(x) - x * fClu(y)) / (x - y)),
        ]
        # I2abc with ln(a/b) = ln a - ln b
        la, lb, lc = ln(x), ln(y), ln(c)
        i2 = general('I2abc', [x, y, c])
        from contracts.c10_ref import _expand_logs
        i2 = _expand_logs(i2, specs.ln_decl() if hasattr(specs, 'ln_decl') else ln(x).decl())
        checks.append(('I2abc', i2, (x * y * (la - lb) + y * c * (lb - lc) + c * x * (lc - la)) / ((x - y) * (y - c) * (x - c))))
        # equal-argument forms documented in the file vs the forms the contracts use (C02.equal_arguments.FPZ_FSZ, C02.expansion.FaFb diagonal values -G'(x))
        for name, mine in (('FPZ', lambda t: -2 * t * (fPSu(t) + ln(t)) / (4 * t - 1)),
                           ('FSZ', lambda t: 2 * t * (1 - 4 * t + 2 * t * fPSu(t) + ln(t) - 2 * t * ln(t)) / (4 * t - 1))):
            rb = defs.repeated_blank(name, (0, 0))
            if rb is None:
                ctx.record(name + '.equal', ERROR, 'B', 0, 'no definition %s[x_, x_] in %s' % (name, MFILE))
                continue
            ev = _evaluator(defs, {}, extra=extra)
            ev.sym[rb[0][0]] = x
            checks.append((name + '[x,x]', ev.ev(rb[1], {}), mine(x)))
        import sympy
        for name, Gs in (('Fa', lambda t: ((t - 1) * (t - 3) + 2 * sympy.log(t)) / (2 * (t - 1)**3)), ('Fb', lambda t: ((t - 1) * (t + 1) - 2 * t * sympy.log(t)) / (2 * (t - 1)**3))):
            rb = defs.repeated_blank(name, (0, 0))
            ev = _evaluator(defs, {})
            ev.sym[rb[0][0]] = x
            ref = ring.to_sympy(z3.simplify(ev.ev(rb[1], {})), {})
            X = sympy.Symbol('x')
            ref = ref.replace(sympy.Function('ln'), sympy.log)
            want = -sympy.diff(Gs(X), X)
            L = sympy.Symbol('L')
            d = sympy.simplify((ref - want).subs(sympy.log(X), L))
            ctx.record(name + '[x,x]', PROVED if d == 0 else ERROR, 'B', 0, "%s[x,x] of the file == -G'(x) (the diagonal value used by C02.expansion.FaFb)" % name, solver='sympy diff + simplification', kind='lemma')
        for tag, ref, mine in checks:
            ok = _ring_eq(mine, ref)
            ctx.record(tag, PROVED if ok else (ERROR if ok is False else UNDECIDED), 'B', 0, '%s of %s %s the definition used by the C02 contracts' % (tag, MFILE, '==' if ok else '!='), solver='ring normalisation (sympy)', kind='lemma')

        # f_CSd / f_CSu: the transcription used by C02.def.f_CSd_f_CSu against fCSd, fCSu of the file (PhiOverY as an atom on both sides)
        from contracts.c02 import _fcs_spec
        xu, xd, qu, qd = z3.Reals('xu xd qu qd')
        POY = specs.UF('PhiOverY', 2)
        ev = _evaluator(defs, {}, extra={'PhiOverY': lambda a, b: POY(z3.simplify(a), z3.simplify(b))})
        params, body = defs.functions['fCSd']
        for p, a in zip(params, (xu, xd, qu, qd)):
            ev.sym[p] = a
        ref_d = ev.ev(body, {})
        mine_d = _fcs_spec(xu, xd, qu, qd, POY(xu, xd), lambda t: Li2(z3.simplify(t)), lambda t: ln(z3.simplify(t)))
        okd = _ring_eq(mine_d, ref_d)
        ctx.record('fCSd', PROVED if okd else (ERROR if okd is False else UNDECIDED), 'B', 0, 'fCSd[xu,xd,qu,qd] of %s %s the transcription used by C02.def.f_CSd_f_CSu' % (MFILE, '==' if okd else '!='), solver='ring normalisation (sympy)', kind='lemma')
        ev = _evaluator(defs, {}, extra={'PhiOverY': lambda a, b: POY(z3.simplify(a), z3.simplify(b))})
        params, body = defs.functions['fCSu']
        for p, a in zip(params, (xu, xd, qu, qd)):
            ev.sym[p] = a
        ref_u = ev.ev(body, {})
        lxu, lxd = ln(xu), ln(xd)
        mine_u = xu * (_fcs_spec(xu, xd, qu + 2, qd + 2, POY(xu, xd), lambda t: Li2(z3.simplify(t)), lambda t: ln(z3.simplify(t))) / xd - Q(4, 3) * (xu - xd - 1) * POY(xu, xd) - (lxd + lxu) * (lxd - lxu) / 3)
        oku = _ring_eq(mine_u, ref_u)
        ctx.record('fCSu', PROVED if oku else (ERROR if oku is False else UNDECIDED), 'B', 0, 'fCSu[xu,xd,qu,qd] of %s %s fCSd(q+2)/xd - 4/3 (xu-xd-1) PhiOverY - (ln^2 xd - ln^2 xu)/3 times xu' % (MFILE, '==' if oku else '!='), solver='ring normalisation (sympy)', kind='lemma')
        # Iabc
        ev = _evaluator(defs, {}, extra={'I2abc': lambda a, b, cc: UF('I2abc', 3)(z3.simplify(a), z3.simplify(b), z3.simplify(cc)) if False else specs.UF('I2abc')(z3.simplify(a))})
        params, body = defs.functions['Iabc']
        okI = body[0] == 'call' and body[1] == ('sym', 'I2abc') and [a for a in body[2]] == [('^', ('sym', p), ('num', Fr(2))) for p in params]
        ctx.record('Iabc', PROVED if okI else ERROR, 'B', 0, 'Iabc[a,b,c] := I2abc[a^2, b^2, c^2] in %s' % MFILE, kind='lemma')
        # Phi: the file's formula with its own LambdaK, alphaPlus, alphaMinus against the form used by C02.def.Phi (lambda_K = z lambda, a+- = (1 - lambda +- (u - v))/2 with u = x/z, v = y/z)
        xx, yy, zz = z3.Reals('x y z')
        sq = specs.UF('sqrt')
        ev = _evaluator(defs, {})
        params, body = defs.functions['Phi']
        for p, a in zip(params, (xx, yy, zz)):
            ev.sym[p] = a
        ref = _expand_logs(ev.ev(body, {}), ln(xx).decl())
        lamK = sq(z3.simplify(xx * xx + yy * yy + zz * zz - 2 * xx * yy - 2 * yy * zz - 2 * zz * xx))
        ap, am = (zz + xx - yy - lamK) / (2 * zz), (zz - xx + yy - lamK) / (2 * zz)
        PI_ = z3.Real('c_PI')
        mine = lamK / 2 * (2 * ln(z3.simplify(ap)) * ln(z3.simplify(am)) - (ln(xx) - ln(zz)) * (ln(yy) - ln(zz)) - 2 * Li2(z3.simplify(ap)) - 2 * Li2(z3.simplify(am)) + PI_ * PI_ / 3)
        mine = _expand_logs(mine, ln(xx).decl())
        ok = _ring_eq(mine, ref)
        ctx.record('Phi', PROVED if ok else (ERROR if ok is False else UNDECIDED), 'B', 0, 'Phi[x,y,z] of %s %s the Davydychev-Tausk form used by C02.def.Phi and by the replay oracles' % (MFILE, '==' if ok else '!='),
                   solver='ring normalisation (sympy)', kind='lemma')
