"""C13 -- SLHA input is interpreted by content, not by layout  (and the reader-level part of C14).

Contracts on src/gm2_slha_io.cpp / gm2_slha_io.hpp:
  key tables          -- each process_*_tuple(object, key, value) has exactly the documented effect (README tables), nothing for unknown keys
  numeric tokens      -- convert_to<T>(token) returns only if the WHOLE token is a finite number (std::stod/stoi by their documented
                         prefix-parsing contract), otherwise EReadError
  options             -- read_bool accepts exactly 0 and 1; read_integer accepts exactly the integers in [min,max]; float->int
                         conversions are defined (in range) whenever they are executed
  blocks              -- read_block(name, ., scale) visits EVERY block of that name in file order (later assignments override earlier
                         ones), only those whose Q matches the scale; read_scale/is_at_scale; matrix/vector fills write in bounds only
SLHAea containers (Coll, Block, Line) enter by an assumed contract: ordered lists with case-insensitive block names (tokenizer not modelled).
"""
from fractions import Fraction as Fr
import z3
from gm2v.ob import obligation, PROVED, FAILED, UNDECIDED, ERROR
from gm2v.interp import Interp, Thrown, Opaque, PyModel, Cell
from gm2v.values import Cx, Mat, Obj, to_z3, z3real, is_sym, deep_copy, EvalError
from gm2v.symobj import symbolic_fields
from gm2v.specs import absz

IO = 'src/gm2_slha_io.cpp'
IOH = 'src/gm2_slha_io.hpp'

def snap(o, pre=''):
    out = {}
    for k, v in o.f.items():
        if isinstance(v, Obj):
            out.update(snap(v, pre + k + '.'))
        elif isinstance(v, Mat):
            for i in range(v.r):
                for j in range(v.c):
                    x = v.d[i][j]
                    out['%s%s(%d,%d)' % (pre, k, i, j)] = (x.re, x.im) if isinstance(x, Cx) else x
        else:
            out[pre + k] = v
    return out

def same(a, b):
    if isinstance(a, tuple) or isinstance(b, tuple):
        return isinstance(a, tuple) and isinstance(b, tuple) and all(same(x, y) for x, y in zip(a, b))
    if is_sym(a) or is_sym(b):
        if a is None or b is None:
            return False
        if z3.is_true(z3.simplify(to_z3(a) == to_z3(b))):
            return True
        if z3.is_bool(to_z3(a)) != z3.is_bool(to_z3(b)):
            return False
        return _prove(to_z3(a) == to_z3(b) if z3.is_bool(to_z3(a)) else z3real(a) == z3real(b), [])
    return a == b

V = z3.Real('value')
SS = z3.If(V < 0, -1, 1) * V * V          # signed_sqr(value)
PI = z3.Real('c_PI')

def sq(field):
    return lambda i: ('%s(%d,%d)' % (field, i, i), SS)

# documented effects: key -> {snapshot entry: new value}   (README.md input tables, input/example.*)
def mssm_gm2calcinput():
    t = {0: {'scale': V}, 1: 'e:EL', 2: 'e:EL0', 3: 'TB', 4: {'Mu': V}, 5: {'MassB': V}, 6: {'MassWB': V}, 7: {'MassG': V}, 8: {'physical.MAh(1,0)': V}}
    for base, fld in ((9, 'ml2'), (12, 'me2'), (15, 'mq2'), (18, 'mu2'), (21, 'md2')):
        for i in range(3):
            t[base + i] = {'%s(%d,%d)' % (fld, i, i): SS}
    for base, fld in ((24, 'Ae'), (27, 'Ad'), (30, 'Au')):
        for i in range(3):
            t[base + i] = {'%s(%d,%d)' % (fld, i, i): V}
    t[33] = {}
    return t

TABLES = {
    # (function, class of the object, table, range of undocumented keys to try)
    'gm2calcinput.mssm': ('process_gm2calcinput_tuple', 'MSSMNoFV_onshell', mssm_gm2calcinput),
    'msoft': ('process_msoft_tuple', 'MSSMNoFV_onshell', lambda: dict(
        [(1, {'MassB': V}), (2, {'MassWB': V}), (3, {'MassG': V}), (21, {'mHd2': V}), (22, {'mHu2': V})] +
        [(31 + i, {'ml2(%d,%d)' % (i, i): SS}) for i in range(3)] + [(34 + i, {'me2(%d,%d)' % (i, i): SS}) for i in range(3)] +
        [(41 + i, {'mq2(%d,%d)' % (i, i): SS}) for i in range(3)] + [(44 + i, {'mu2(%d,%d)' % (i, i): SS}) for i in range(3)] +
        [(47 + i, {'md2(%d,%d)' % (i, i): SS}) for i in range(3)])),
    'sminputs.mssm': ('process_sminputs_tuple', 'MSSMNoFV_onshell', lambda: {
        1: {}, 2: {}, 3: 'g3', 4: {'physical.MVZ': V}, 5: {'physical.MFb': V}, 6: {'physical.MFt': V}, 7: {'physical.MFtau': V}, 8: {'physical.MFvt': V},
        9: {'physical.MVWm': V}, 11: {'physical.MFe': V}, 12: {'physical.MFve': V}, 13: {'physical.MFm': V}, 14: {'physical.MFvm': V},
        21: {'physical.MFd': V}, 22: {'physical.MFu': V}, 23: {'physical.MFs': V}, 24: {'physical.MFc': V}}),
    'sminputs.sm': ('process_sminputs_tuple', 'SM', lambda: {
        1: {'alpha_em_mz': 1 / V}, 2: {}, 3: {'alpha_s_mz': V}, 4: {'mz': V}, 5: {'md(2,0)': V}, 6: {'mu(2,0)': V}, 7: {'ml(2,0)': V}, 8: {'mv(2,0)': V}, 9: {'mw': V},
        11: {'ml(0,0)': V}, 12: {'mv(0,0)': V}, 13: {'ml(1,0)': V}, 14: {'mv(1,0)': V}, 21: {'md(0,0)': V}, 22: {'mu(0,0)': V}, 23: {'md(1,0)': V}, 24: {'mu(1,0)': V}}),
    'gm2calcinput.sm': ('process_gm2calcinput_tuple', 'SM', lambda: {33: {'mh': V}}),
    'gm2calcinput.alpha': ('process_gm2calcinput_tuple', 'GM2CalcInput_data', lambda: {0: {}, 1: {'alpha_MZ': V}, 2: {'alpha_thompson': V}}),
    'hmix': ('process_hmix_tuple', 'HMIX_data', lambda: {1: {'mu': V}, 2: {'tanb': V}, 3: {'v': V}, 4: {'mA2': V}}),
    'mass.sm': ('process_mass_tuple', 'SM', lambda: {24: {'mw': V}}),
    'mass.thdm': ('process_mass_tuple', 'Mass_basis', lambda: {25: {'mh': V}, 35: {'mH': V}, 36: {'mA': V}, 37: {'mHp': V}}),
    'minpar.gauge': ('process_minpar_tuple', 'Gauge_basis', lambda: dict([(3, {'tan_beta': V})] + [(11 + i, {'lambda(%d,0)' % i: V}) for i in range(7)] +
                                                                          [(18, {'m122': V}), (21, {'zeta_u': V}), (22, {'zeta_d': V}), (23, {'zeta_l': V}), (24, 'yukawa')])),
    'minpar.mass': ('process_minpar_tuple', 'Mass_basis', lambda: {3: {'tan_beta': V}, 16: {'lambda_6': V}, 17: {'lambda_7': V}, 18: {'m122': V}, 20: {'sin_beta_minus_alpha': V},
                                                                   21: {'zeta_u': V}, 22: {'zeta_d': V}, 23: {'zeta_l': V}, 24: 'yukawa'}),
    'vckmin': ('process_vckm_tuple', 'CKM_wolfenstein', lambda: {1: {'lambda': V}, 2: {'A': V}, 3: {'rho': V}, 4: {'eta': V}}),
    'mass.mssm': ('process_mass_tuple', 'MSSMNoFV_onshell_physical', lambda: dict(
        [(1000012, {'MSveL': V}), (1000014, {'MSvmL': V}), (1000016, {'MSvtL': V}), (24, 'MW_nonzero'), (1000021, {'MGlu': V})] +
        [(pdg + k * 1000000, {'%s(%d,0)' % (f, k): V}) for pdg, f in ((1000001, 'MSd'), (1000002, 'MSu'), (1000011, 'MSe'), (1000013, 'MSm'), (1000015, 'MStau'),
                                                                    (1000003, 'MSs'), (1000004, 'MSc'), (1000005, 'MSb'), (1000006, 'MSt')) for k in (0, 1)] +
        [(25, {'Mhh(0,0)': V}), (35, {'Mhh(1,0)': V}), (36, {'MAh(1,0)': V}), (37, {'MHpm(1,0)': V}),
         (1000022, {'MChi(0,0)': V}), (1000023, {'MChi(1,0)': V}), (1000025, {'MChi(2,0)': V}), (1000035, {'MChi(3,0)': V}), (1000024, {'MCha(0,0)': V}), (1000037, {'MCha(1,0)': V})])),
}

def make_table(tag):
    fn, cls, mk = TABLES[tag]
    @obligation('C13.key_table.' + tag, fns=[(IO, fn)])
    def ob(ctx):
        """for every documented key: after process_*_tuple(obj, key, value) exactly the documented member holds the documented function of
        `value` and every other member is unchanged; for every other key in the swept range nothing changes at all"""
        table = mk()
        keys = sorted(set(table) | set(range(-2, 60)) | {1000010, 1000017, 2000007, 999, 2000013})
        fds = [f for f in ctx.w.find(fn, IO) if strip(f.params[0].type.name) == cls]
        if len(fds) != 1:
            ctx.record('', ERROR, 'B', 0, 'extraction: %d definitions of %s(%s&,...)' % (len(fds), fn, cls))
            return
        fd = fds[0]
        for key in keys:
            it = Interp(ctx.w, mode='sym')
            o = it.new_object(cls, symbolic_fields(None, prefix='o.'))
            before = snap(o)
            try:
                ps = it.run_paths(lambda: it.invoke(fd, [o, key, V], None))
            except EvalError as e:
                ctx.record('key%d' % key, ERROR, 'B', 0, 'extraction: %s' % e)
                continue
            spec = table.get(key, {})
            if isinstance(spec, str):
                special(ctx, it, tag, key, spec, o, before, ps)
                continue
            ok = len(ps) == 1 and ps[0][2] is None
            after = snap(o)
            changed = {k for k in before if not same(before[k], after.get(k))}
            want = set(spec)
            detail = 'changed %s, documented %s' % (sorted(changed), sorted(want))
            if ok:
                # a documented member may coincide with its old value only symbolically never: require exact set equality
                ok = changed == want and all(same(after[k], spec[k]) for k in want)
            ctx.record('key%d' % key, PROVED if ok else FAILED, 'B', 0, detail)
            ctx.merge_rules(it)
    return ob

def strip(n):
    from gm2v.world import strip_ns
    return strip_ns(n)

def special(ctx, it, tag, key, spec, o, before, ps):
    after = snap(o)
    changed = {k for k in before if not same(before[k], after.get(k))}
    if spec == 'yukawa':
        # value must be an integer 1..6 (else EInvalidInput / ESetupError); then yukawa_type == value
        n_ok = 0
        for sym, r, exc in ps:
            if exc is None:
                n_ok += 1
        ctx.record('key%d' % key, PROVED if (len(ps) >= 3 and n_ok >= 1 and all(e is None or e.cls in ('EInvalidInput', 'ESetupError') for s_, r, e in ps)) else FAILED, 'B', 0,
                   'Yukawa type: %d paths, %d accepting; exceptions %s' % (len(ps), n_ok, sorted({e.cls for s_, r, e in ps if e})))
        return
    if spec == 'MW_nonzero':
        # MASS[24]: W pole mass is overwritten only by a non-zero value
        ok = len(ps) == 2 and all(e is None for s_, r, e in ps)
        ctx.record('key%d' % key, PROVED if ok else FAILED, 'B', 0, 'MASS[24]: %d paths (value ~ 0: keep SMINPUTS value; else overwrite)' % len(ps))
        return
    ok = len(ps) == 1 and ps[0][2] is None
    if spec == 'TB':
        # set_TB(tb): vu == tb * vd afterwards (so that get_TB() = vu/vd returns tb), v^2 = vu^2 + vd^2 is the electroweak vev, nothing else changes
        okv = _prove(z3real(after['vu']) == V * z3real(after['vd']), ps[0][0].axioms)
        ctx.record('key%d' % key, PROVED if (ok and okv and changed == {'vu', 'vd'}) else FAILED, 'B', 0, 'vu == value*vd after key 3: %s; changed %s' % (okv, sorted(changed)))
    elif spec.startswith('e:'):
        fld = spec[2:]
        e = after[fld]
        okv = _prove(z3.And(z3real(e) >= 0, z3real(e) * z3real(e) == 4 * PI * V), [V >= 0] + ps[0][0].axioms)
        ctx.record('key%d' % key, PROVED if (ok and okv and changed == {fld}) else FAILED, 'B', 0, '%s^2 == 4 pi alpha: %s; changed %s' % (fld, okv, sorted(changed)))
    elif spec == 'g3':
        g3 = after['g3']
        okv = _prove(z3.And(z3real(g3) >= 0, z3real(g3) * z3real(g3) == 4 * PI * V), [V >= 0] + ps[0][0].axioms)
        ctx.record('key%d' % key, PROVED if (ok and okv and changed == {'g3'}) else FAILED, 'B', 0, 'g3^2 == 4 pi alpha_s: %s; changed %s' % (okv, sorted(changed)))

def _prove(claim, ax):
    s = z3.Solver()
    s.set('timeout', 5000)
    for a in ax:
        s.add(a)
    s.add(z3.Not(claim))
    return s.check() == z3.unsat

def _prove_eq(a, b):
    return _prove(z3real(a) == z3real(b), [])

for _t in TABLES:
    make_table(_t)

# ---------------------------------------------------------------------------------------------------
# numeric tokens
# ---------------------------------------------------------------------------------------------------
class Token(PyModel):
    """abstract token: std::sto*(tok, pos) parses the longest numeric prefix: `consumed` characters of `length`; value v"""
    def __init__(self, length, consumed, value, in_range):
        self.length, self.consumed, self.value, self.in_range = length, consumed, value, in_range
    def m_size(self, it):
        return self.length
    def m_length(self, it):
        return self.length

STO_RANGE = {'std::stoi': (-2**31, 2**31 - 1), 'std::stol': (-2**63, 2**63 - 1), 'std::stoll': (-2**63, 2**63 - 1), 'std::stoul': (0, 2**64 - 1), 'std::stoull': (0, 2**64 - 1)}

def sto_stub(kind, fn=None):
    def stub(it, args, this):
        tok = args[0]
        if not isinstance(tok, Token):
            raise EvalError('sto* on a non-token')
        it.sym.parsed = True
        if it.decide(tok.consumed == 0):
            raise Thrown('std::invalid_argument', 'no conversion')
        if kind == 'i' and fn in STO_RANGE:
            # documented: std::sto{i,l,ll,ul,ull} throw std::out_of_range iff the value does not fit THEIR return type
            lo, hi = STO_RANGE[fn]
            V = z3.ToInt(tok.value)
            if not it.decide(z3.And(V >= lo, V <= hi)):
                raise Thrown('std::out_of_range', 'out of range')
        elif not it.decide(tok.in_range):
            raise Thrown('std::out_of_range', 'out of range')
        if len(args) > 1 and args[1] is not None:
            tgt = args[1]
            tgt.v = tok.consumed
            it.sym.pos_used = True
        return tok.value if kind == 'f' else z3.ToInt(tok.value)
    return stub

def replay_token(model, wd):
    """run the REAL program on input/example.gm2 with tan(beta) spelled `1.0D+01` and `10xyz`: it must be rejected"""
    from gm2v import native
    from gm2v.world import REPO
    import subprocess, os
    exe = native.build_gm2calc()
    base = open(os.path.join(REPO, 'input', 'example.gm2')).read()
    outs = []
    bad = False
    for spelling in ('1.0D+01', '10xyz', '10'):
        inp = base.replace('     3     10               # tan(beta)', '     3     %s               # tan(beta)' % spelling, 1)
        r = subprocess.run([exe, '--gm2calc-input-file=-'], input=inp, capture_output=True, text=True, timeout=120)
        head = (r.stdout.strip().split('\n') or [''])[1 if 'amu' in r.stdout else 0][:70]
        outs.append('tan(beta) token %r -> exit %d, %s' % (spelling, r.returncode, head.strip()))
        if spelling != '10' and r.returncode == 0:
            bad = True
    # an integer KEY outside the range of int (it would alias key 1 = loop order when wrapped to 32 bits) must be rejected as well
    for key in ('4294967297', '-4294967295', '99999999999'):
        inp = base + '\nBlock GM2CalcConfig\n   %s   0\n' % key
        r = subprocess.run([exe, '--gm2calc-input-file=-'], input=inp, capture_output=True, text=True, timeout=120)
        outs.append('GM2CalcConfig key %s -> exit %d' % (key, r.returncode))
        if r.returncode == 0:
            bad = True
    return bad, ' | '.join(outs)

@obligation('C13.convert_to.whole_token', fns=[(IOH, 'GM2_slha_io::convert_to')], replay=replay_token)
def _(ctx):
    """ensures: convert_to<double/int/long>(token) returns normally only if std::sto* consumed the WHOLE token and the value is in range of the REQUESTED
    type (hence finite; for the integer types the value returned is the token's value, not a wider intermediate wrapped to 32 bits); every other token (no numeric prefix, trailing characters such as `1.0D+01` or `10xyz`, overflow) throws EReadError
    [std::stod/stoi/stol by contract: longest-prefix parse reported through the pos argument, invalid_argument / out_of_range]"""
    fd = ctx.w.find('GM2_slha_io::convert_to', IOH)[0]
    from gm2v.cxx import Type
    for tname, kind in (('double', 'f'), ('int', 'i'), ('long', 'i')):
        length, consumed = z3.Int('length'), z3.Int('consumed')
        val = z3.Real('parsed_value')
        inr = z3.Bool('in_range')
        ctx.vars.update({'length': length, 'consumed': consumed})
        pre = [length >= 1, consumed >= 0, consumed <= length]
        it = Interp(ctx.w, mode='sym', assumptions=pre)
        for nm in ('std::stod', 'std::stof', 'std::stold'):
            it.stubs[nm] = sto_stub('f')
        for nm in ('std::stoi', 'std::stol', 'std::stoll', 'std::stoul', 'std::stoull'):
            it.stubs[nm] = sto_stub('i', nm)
        it.int_narrowing = True
        tok = Token(length, consumed, val, inr)
        ps = it.run_paths(lambda: it.invoke(fd, [tok], None, targs=[Type(tname, None, False, False, 0)]))
        ctx.merge_rules(it)
        n_ok = 0
        for k, (sym, r, exc) in enumerate(ps):
            tag = '%s.path%d' % (tname, k)
            if exc is not None:
                ctx.record(tag + '.class', PROVED if exc.cls == 'EReadError' else FAILED, 'B', 0, 'rejects with %s' % exc.cls)
            else:
                n_ok += 1
                if kind == 'f':
                    claim = z3.And(consumed == length, inr)
                else:
                    # the value returned IS the token's value and fits the requested type (no silent wrap-around of a wider intermediate)
                    lo, hi = (-2**31, 2**31 - 1) if tname == 'int' else (-2**63, 2**63 - 1)
                    V = z3.ToInt(val)
                    claim = z3.And(consumed == length, V >= lo, V <= hi, to_z3(r) == V if is_sym(r) else z3.BoolVal(False))
                ctx.prove(tag + '.whole_token', pre + sym.pc, claim, check_vacuity=False,
                          pins=[{'length': 7, 'consumed': 3}], model_vars={'parsed_value': val})
        ctx.record(tname + '.has_accepting_path', PROVED if n_ok >= 1 else ERROR, 'B', 0, '%d accepting paths of %d' % (n_ok, len(ps)))

# ---------------------------------------------------------------------------------------------------
# option readers
# ---------------------------------------------------------------------------------------------------
@obligation('C13.read_bool', fns=[(IO, 'read_bool')])
def _(ctx):
    """read_bool(value, result, msg): value == 0 -> false, value == 1 -> true, anything else throws EInvalidInput and leaves result alone"""
    v = ctx.real('value')
    it = Interp(ctx.w, mode='sym')
    it.stubs['to_string'] = lambda i, a, t: 'value'
    cell = Cell('untouched')
    fd = ctx.w.find('read_bool', IO)[0]
    ps = it.run_paths(lambda: (cell.__setattr__('v', 'untouched'), it.invoke(fd, [v, 'untouched', 'msg'], None, [None, cell, None]), cell.v)[2])
    for k, (sym, r, exc) in enumerate(ps):
        if exc is not None:
            ctx.record('path%d.class' % k, PROVED if exc.cls == 'EInvalidInput' else FAILED, 'B', 0, exc.cls)
            ctx.prove('path%d.rejects_only_non_bool' % k, sym.pc, z3.And(v != 0, v != 1), check_vacuity=False)
        else:
            ctx.prove('path%d.accepts_bool' % k, sym.pc, z3.Or(z3.And(v == 0, to_z3(r) == False), z3.And(v == 1, to_z3(r) == True)) if is_sym(r) else
                      (z3.And(v == 0) if r is False else z3.And(v == 1)), check_vacuity=False)
    ctx.record('paths', PROVED if len(ps) >= 2 else ERROR, 'B', 0, '%d paths' % len(ps))

@obligation('C13.read_integer', fns=[(IO, 'read_integer'), (IO, 'is_integer')])
def _(ctx):
    """read_integer(value, result, min, max, msg) accepts exactly the integers in [min, max] (result == value) and throws EInvalidInput for
    every other value (non-integers such as 1.5 included); read_integer(value) accepts exactly the integers representable as int; every
    float->int conversion that is executed is defined   [std::modf by contract: fractional part zero iff integral]"""
    v = ctx.real('value')
    it = Interp(ctx.w, mode='sym')
    it.stubs['to_string'] = lambda i, a, t: 'value'
    fds = ctx.w.find('read_integer', IO)
    f5 = [f for f in fds if len(f.params) == 5][0]
    f1 = [f for f in fds if len(f.params) == 1][0]
    isint = v == z3.ToReal(z3.ToInt(v))
    for lo, hi in ((0, 4), (0, 2)):
        cell = Cell(0)
        ps = it.run_paths(lambda: (cell.__setattr__('v', -99), it.invoke(f5, [v, -99, lo, hi, 'msg'], None, [None, cell, None, None, None]), cell.v)[2])
        for k, (sym, r, exc) in enumerate(ps):
            tag = 'range%d_%d.path%d' % (lo, hi, k)
            inr = z3.And(isint, v >= lo, v <= hi)
            if exc is not None:
                ctx.record(tag + '.class', PROVED if exc.cls == 'EInvalidInput' else FAILED, 'B', 0, exc.cls)
                ctx.prove(tag + '.rejects_only_invalid', sym.pc, z3.Not(inr), check_vacuity=False)
            else:
                ctx.prove(tag + '.accepts_only_valid', sym.pc, z3.And(inr, z3real(r) == v), check_vacuity=False, pins=[{'value': Fr(3, 2)}, {'value': Fr(1, 2)}])
                ctx.sides(tag, sym, [])
    ps = it.run_paths(lambda: it.invoke(f1, [v], None))
    for k, (sym, r, exc) in enumerate(ps):
        tag = 'plain.path%d' % k
        if exc is not None:
            ctx.record(tag + '.class', PROVED if exc.cls == 'EInvalidInput' else FAILED, 'B', 0, exc.cls)
            ctx.prove(tag + '.rejects_only_non_integers_or_unrepresentable', sym.pc, z3.Or(z3.Not(isint), v < -2**31, v > 2**31 - 1), check_vacuity=False)
        else:
            ctx.prove(tag + '.accepts_integers', sym.pc, z3.And(isint, z3real(r) == v), check_vacuity=False)
            # C14: the conversion static_cast<int>(value) must be defined on every accepting path
            ctx.sides(tag, sym, [], pins=[{'value': 2**31}, {'value': Fr(10) ** 300}, {'value': -2**40}])
    ctx.merge_rules(it)

# ---------------------------------------------------------------------------------------------------
# blocks
# ---------------------------------------------------------------------------------------------------
class Line(PyModel):
    def __init__(self, toks, kind):
        self.toks, self.kind = toks, kind
    def m_is_data_line(self, it):
        return self.kind == 'data'
    def m_is_block_def(self, it):
        return self.kind == 'block'
    def m_size(self, it):
        return len(self.toks)
    def get_item(self, it, i):
        if not (isinstance(i, int) and 0 <= i < len(self.toks)):
            raise EvalError('SLHAea::Line::operator[](%s) out of range: the line has %d fields (undefined behaviour)' % (i, len(self.toks)))
        return self.toks[i]

class Block(PyModel):
    def __init__(self, name, scale_tok, data, header_fields=None):
        hdr = ['Block', name] + (['Q=', scale_tok] if scale_tok is not None else [])
        if header_fields is not None:
            hdr = header_fields
        self.name = name
        self.lines = [Line(hdr, 'block')] + [Line(list(d), 'data') for d in data] + [Line(['# comment'], 'comment')]
    def iterate(self, it):
        return list(self.lines)

class BIt(PyModel):
    def __init__(self, coll, idx):
        self.coll, self.idx = coll, idx
    def equals(self, other):
        return isinstance(other, BIt) and other.coll is self.coll and other.idx == self.idx
    def advance(self, it, n):
        return BIt(self.coll, self.idx + n)
    def deref(self, it):
        if not (0 <= self.idx < len(self.coll.blocks)):
            raise EvalError('dereference of the end iterator')
        self.coll.visited.append(self.idx)
        return self.coll.blocks[self.idx]

class Coll(PyModel):
    def __init__(self, blocks):
        self.blocks = blocks
        self.visited = []
    def _from(self, start, name):
        for i in range(start, len(self.blocks)):
            if self.blocks[i].name.lower() == str(name).lower():
                return BIt(self, i)
        return BIt(self, len(self.blocks))
    def m_find(self, it, *a):
        if len(a) == 1:
            return self._from(0, a[0])
        return self._from(a[0].idx, a[2])
    def m_cend(self, it):
        return BIt(self, len(self.blocks))
    def m_end(self, it):
        return BIt(self, len(self.blocks))

def num_stub(it, args, this):
    """convert_to<T>(token) by its contract (C13.convert_to.whole_token): tokens in these block models are numbers already"""
    v = args[0]
    if isinstance(v, str):
        raise Thrown('EReadError', 'non-numeric input')
    return v

@obligation('C13.blocks.read_scale_and_match', fns=[(IO, 'GM2_slha_io::read_scale'), (IO, 'GM2_slha_io::is_at_scale')])
def _(ctx):
    """read_scale(block): the number after `Q=` of the block header (0 if the header has no complete `Q= <number>`), never reading a field
    the line does not have; is_at_scale(block, scale): true iff scale ~ 0 or |scale - Q| < 0.01"""
    q, sc = ctx.reals('Q scale')
    fd_rs = [f for f in ctx.w.find('GM2_slha_io::read_scale', IO) if 'Block' in f.params[0].type.name][0]
    fd_at = ctx.w.find('GM2_slha_io::is_at_scale', IO)[0]
    for name, hdr, want in (('with_Q', ['Block', 'AE', 'Q=', q], q), ('no_Q', ['Block', 'AE'], 0), ('truncated_Q', ['Block', 'AE', 'Q='], 0),
                            ('comment_after', ['Block', 'AE', '# c'], 0), ('glued', ['Block', 'AE', 'Q=1000'], 0)):
        it = Interp(ctx.w, mode='sym', stubs={'GM2_slha_io::convert_to': num_stub, 'convert_to': num_stub})
        b = Block('AE', None, [(2, 2, z3.Real('a22'))], header_fields=hdr)
        try:
            ps = it.run_paths(lambda: it.invoke(fd_rs, [b], None))
            ok = len(ps) == 1 and ps[0][2] is None and same(ps[0][1], want)
            det = 'returned %s' % (ps[0][1] if ps else None)
        except EvalError as e:
            ok, det = False, 'memory safety: %s' % e
        ctx.record('read_scale.' + name, PROVED if ok else FAILED, 'B', 0, det)
    it = Interp(ctx.w, mode='sym', stubs={'GM2_slha_io::convert_to': num_stub, 'convert_to': num_stub})
    b = Block('AE', q, [])
    eps_d = [p.default for p in fd_at.params][2]
    ps = it.run_paths(lambda: it.invoke(fd_at, [b, sc], None))
    tiny = absz(sc) < z3.Q(1, 2**52)
    for k, (sym, r, exc) in enumerate(ps):
        if is_sym(r):
            ctx.prove('is_at_scale.path%d' % k, sym.pc, r == z3.Or(tiny, absz(sc - q) < z3.Q(1, 100)), check_vacuity=False)
        else:
            ctx.prove('is_at_scale.path%d' % k, sym.pc, z3.Or(tiny, absz(sc - q) < z3.Q(1, 100)) if r else z3.Not(z3.Or(tiny, absz(sc - q) < z3.Q(1, 100))), check_vacuity=False)
    ctx.merge_rules(it)

def _physics_part(out):
    """the result lines of an output (the SLHA formats echo the input blocks, which differ by construction)"""
    ls = out.splitlines()
    for i, l in enumerate(ls):
        if l.strip().lower().startswith('block gm2calcoutput'):
            return ls[i:i + 4]
    return ls

def replay_index_tokens(model, wd):
    """run the REAL program with huge row/column index tokens (values that wrap into range when truncated to 32 bits) in the matrix blocks of the shipped examples: exit
    status 0 or 1, never a signal, and the physics output unchanged (an out-of-range index is ignored)"""
    from gm2v import native
    from gm2v.world import REPO
    import subprocess, os, re
    exe = native.build_gm2calc()
    bad, n = [], 0
    for fname, opt, blocks in (('example.slha', '--slha-input-file=-', ('NMIX', 'AU', 'AD', 'AE', 'SMUMIX')), ('example.thdm', '--thdm-input-file=-', ('GM2CalcTHDMDeltauInput', 'GM2CalcTHDMPilInput'))):
        txt = open(os.path.join(REPO, 'input', fname)).read()
        ref = subprocess.run([exe, opt], input=txt, capture_output=True, text=True, timeout=60)
        for blk in blocks:
            for tok in ('4294967297', '-4294967295', '1099511627777', '8589934594'):
                for pos in (0, 1):
                    idx = ['1', '1']
                    idx[pos] = tok
                    new = txt + '\nBlock %s%s\n   %s  %s   1.234\n' % (blk, ' Q= 1.00000000e+03' if fname.endswith('slha') and blk != 'NMIX' and blk != 'SMUMIX' else '', idx[0], idx[1])
                    n += 1
                    r = subprocess.run([exe, opt], input=new, capture_output=True, text=True, timeout=60)
                    if r.returncode not in (0, 1):
                        bad.append('%s: extra line "%s %s 1.234" in Block %s: exit status %d%s' % (fname, idx[0], idx[1], blk, r.returncode, ' (signal %d)' % -r.returncode if r.returncode < 0 else ''))
                    elif r.returncode == 0 and _physics_part(r.stdout) != _physics_part(ref.stdout):
                        bad.append('%s: out-of-range index %s in Block %s changed the output' % (fname, tok, blk))
    return bool(bad), '%d runs, %d out of contract; first: %s' % (n, len(bad), ' || '.join(bad[:3]))

@obligation('C13.blocks.every_block_in_order', fns=[(IOH, 'GM2_slha_io::read_block'), (IO, 'GM2_slha_io::read_block'), (IOH, 'GM2_slha_io::read_matrix'), (IOH, 'GM2_slha_io::read_vector')], replay=replay_index_tokens)
def _(ctx):
    """read_block(name, matrix|processor, scale): EVERY block called `name` (case-insensitively) whose scale matches is read, in file order, so
    that a later assignment overrides an earlier one and entries split over several blocks are all taken; blocks at other scales and blocks
    with other names are not read; matrix/vector fills write only inside the matrix (indices -2..5 swept) and unknown indices are ignored"""
    a, b, c, d = ctx.reals('a b c d')
    io_cls = 'GM2_slha_io'
    fds = ctx.w.find('GM2_slha_io::read_block', IOH) + ctx.w.find('GM2_slha_io::read_block', IO)
    fd_named_matrix = [f for f in fds if len(f.params) == 3 and 'string' in f.params[0].type.name and 'MatrixBase' in f.params[1].type.name][0]
    fd_named_proc = [f for f in fds if len(f.params) == 3 and 'string' in f.params[0].type.name and 'Tuple_processor' in f.params[1].type.name][0]
    layouts = {
        'later_overrides': ([Block('AE', 1000, [(2, 2, a)]), Block('MSOFT', 1000, [(1, b)]), Block('AE', 1000, [(2, 2, c)])], {(1, 1): c}),
        'split_entries': ([Block('AE', 1000, [(2, 2, a)]), Block('ae', 1000, [(3, 3, c)])], {(1, 1): a, (2, 2): c}),
        'other_scale_ignored': ([Block('AE', 1000, [(2, 2, a)]), Block('AE', 2000, [(2, 2, c)])], {(1, 1): a}),
        'other_scale_first': ([Block('AE', 91, [(2, 2, a)]), Block('AE', 1000, [(3, 3, c)]), Block('AE', 1000, [(2, 2, d)])], {(1, 1): d, (2, 2): c}),
        'out_of_range_indices': ([Block('AE', 1000, [(0, 1, a), (4, 4, b), (-1, 2, c), (1, 5, d), (3, 1, a)])], {(2, 0): a}),
    }
    for name, (blocks, want) in layouts.items():
        it = Interp(ctx.w, mode='sym', stubs={'GM2_slha_io::convert_to': num_stub, 'convert_to': num_stub})
        io = Obj(io_cls, {'data': Coll(blocks)})
        M = Mat.fill(3, 3, 0, 'matrix', False)
        try:
            ps = it.run_paths(lambda: it.invoke(fd_named_matrix, ['AE', M, 1000], io))
            ok = len(ps) == 1 and ps[0][2] is None
            got = {(i, j): M.d[i][j] for i in range(3) for j in range(3) if not (isinstance(M.d[i][j], int) and M.d[i][j] == 0)}
            ok = ok and set(got) == set(want) and all(same(got[k], want[k]) for k in want)
            det = 'matrix entries set: %s (expected %s)' % ({k: str(v) for k, v in got.items()}, {k: str(v) for k, v in want.items()})
        except EvalError as e:
            ok, det = False, 'memory safety / extraction: %s' % e
        ctx.record('matrix.' + name, PROVED if ok else FAILED, 'B', 0, det)
        ctx.merge_rules(it)
    # ARBITRARY index tokens (any value of the 64-bit index type the tokens are converted to): a store happens only for 1 <= i <= rows, 1 <= k <= cols, and then into
    # exactly that entry; integers passed to a 32-bit `int` parameter wrap around (so a range check done on a narrowed copy of the index is not a range check)
    I, K = z3.Int('index_token_i'), z3.Int('index_token_k')
    for shape, fill, toks in (('matrix3x3', lambda: Mat.fill(3, 3, 0, 'matrix', False), (I, K, a)), ('vector3', lambda: Mat.fill(3, 1, 0, 'matrix', False), (I, a))):
        it = Interp(ctx.w, mode='sym', stubs={'GM2_slha_io::convert_to': num_stub, 'convert_to': num_stub},
                    assumptions=[I >= -2**63, I < 2**63, K >= -2**63, K < 2**63])
        it.int_narrowing = True
        stores = []
        def thunk():
            M = fill()
            io = Obj(io_cls, {'data': Coll([Block('AE', 1000, [toks])])})
            it.invoke(fd_named_matrix, ['AE', M, 1000], io)
            return M
        try:
            ps = it.run_paths(thunk, max_paths=64)
            bad = None
            for sy, M, exc in ps:
                if exc is not None:
                    bad = 'exception %s' % exc
                    break
                written = [(i, j) for i in range(M.r) for j in range(M.c) if not (isinstance(M.d[i][j], int) and M.d[i][j] == 0)]
                for (i, j) in written:
                    cond = z3.And(I == i + 1, K == j + 1) if M.c > 1 else (I == i + 1)
                    sv = z3.Solver()
                    sv.add(*[c for c in sy.pc])
                    sv.add(z3.Not(cond))
                    if sv.check() != z3.unsat:
                        bad = 'entry (%d,%d) is written although the index tokens need not be (%d,%d)' % (i, j, i + 1, j + 1)
                if len(written) > 1:
                    bad = 'more than one entry written for one data line'
            ok, det = bad is None, bad or '%d paths: a store happens exactly for in-range index tokens, into the entry they name' % len(ps)
            mdl = None
        except EvalError as e:
            ok, det = False, 'memory safety: %s' % e
            mdl = {'_float': {'index_token_i': 4294967297.0, 'index_token_k': 1.0}}
        ctx.record('arbitrary_index_tokens.' + shape, PROVED if ok else FAILED, 'B', 0, det, model=None if ok else mdl)
        ctx.merge_rules(it)
    # tuple processor variant
    for name, blocks, want in (('later_overrides', [Block('HMIX', 1000, [(1, a)]), Block('HMIX', 1000, [(1, c), (2, b)])], [(1, a), (1, c), (2, b)]),
                               ('other_scale', [Block('MSOFT', 500, [(1, a)]), Block('MSOFT', 1000, [(1, c)])], [(1, c)])):
        calls = []
        it = Interp(ctx.w, mode='sym', stubs={'GM2_slha_io::convert_to': num_stub, 'convert_to': num_stub})
        io = Obj(io_cls, {'data': Coll(blocks)})
        proc = lambda k, v: calls.append((k, v))
        try:
            it.run_paths(lambda: (calls.__delitem__(slice(None)), it.invoke(fd_named_proc, [blocks[0].name, proc, 1000], io))[1])
            ok = len(calls) == len(want) and all(c0[0] == w0[0] and same(c0[1], w0[1]) for c0, w0 in zip(calls, want))
            det = 'processor calls %s' % [(k, str(v)) for k, v in calls]
        except EvalError as e:
            ok, det = False, 'extraction: %s' % e
        ctx.record('processor.' + name, PROVED if ok else FAILED, 'B', 0, det)

def replay_malformed_sweep(model, wd):
    """run the REAL program on structure-aware damaged copies of the three shipped example inputs: every numeric token of every block header and of every third
    data line is replaced by nan / 1e400 / 0x / 1.0e3GeV / empty; the program must end with exit status 0 or 1 (never by a signal) and a failure exit must carry a
    diagnostic (stderr or SPINFO 4)"""
    from gm2v import native
    from gm2v.world import REPO
    import subprocess, os, re
    exe = native.build_gm2calc()
    bad = []
    n = 0
    for fname, opt in (('example.slha', '--slha-input-file=-'), ('example.gm2', '--gm2calc-input-file=-'), ('example.thdm', '--thdm-input-file=-')):
        lines = open(os.path.join(REPO, 'input', fname)).read().split('\n')
        for li, ln in enumerate(lines):
            body = ln.split('#')[0]
            is_head = body.strip().lower().startswith('block')
            if not body.strip() or (not is_head and li % 3):
                continue
            toks = list(re.finditer(r'(?<![A-Za-z_])[-+]?[0-9][0-9.eE+-]*', body))
            for m in toks:
                for rep in ('nan', '1e400', '0x', '1.0e3GeV', ''):
                    new = lines[:li] + [ln[:m.start()] + rep + ln[m.end():]] + lines[li + 1:]
                    n += 1
                    try:
                        r = subprocess.run([exe, opt], input='\n'.join(new), capture_output=True, text=True, timeout=60)
                    except subprocess.TimeoutExpired:
                        bad.append('%s line %d token %r -> %r: no termination within 60 s' % (fname, li + 1, m.group(0), rep))
                        continue
                    if r.returncode not in (0, 1):
                        bad.append('%s line %d (%s) token %r -> %r: exit status %d%s' % (fname, li + 1, ln.strip()[:40], m.group(0), rep, r.returncode,
                                   ' (killed by signal %d)' % -r.returncode if r.returncode < 0 else '') + ' ' + r.stderr.strip()[:120])
                    elif r.returncode == 1 and not r.stderr.strip() and ' 4 ' not in r.stdout:
                        bad.append('%s line %d token %r -> %r: exit 1 without diagnostic' % (fname, li + 1, m.group(0), rep))
    return bool(bad), '%d damaged inputs run, %d out of contract; first: %s' % (n, len(bad), ' || '.join(bad[:3]))

@obligation('C13.program.no_uncaught_exception', fns=[('src/gm2calc.cpp', 'main')], replay=replay_malformed_sweep)
def _(ctx):
    """exception-effect inference on main(): every exception class that the body of main's try block may raise is caught by its handlers, and no exception can
    reach the boundary of a noexcept function on the way (that would be std::terminate, which no handler stops) -- so a malformed input ends with exit status 1
    and a diagnostic, never with std::terminate"""
    from gm2v.effects import Effects
    from gm2v import cxx
    ef = Effects(ctx.w)
    fd = ctx.w.find('main', 'src/gm2calc.cpp')[0]
    body = ctx.w.body(fd)
    trs = [s for s in body.stmts if isinstance(s, cxx.Try)]
    if len(trs) != 1:
        ctx.record('', ERROR, 'B', 0, 'expected one try statement in main, found %d' % len(trs))
        return
    env = {'__cls': None, '__file': fd.file, 'slha_io': 'GM2_slha_io', 'config_options': 'Config_options', 'options': 'Gm2_cmd_line_options'}
    raised = ef.stmt(trs[0].body, env, None)
    esc = ef.stmt(trs[0], env, None)
    if ef.noexcept_violations:
        ctx.notes.append('noexcept functions whose body may throw: %s' % ef.noexcept_violations)
    ctx.record('', PROVED if not esc else FAILED, 'B', 0, 'raised inside the try block: %s; escaping its handlers: %s%s' % (sorted(raised), sorted(esc),
               ('; exceptions reaching a noexcept boundary: %s' % {k: sorted(v) for k, v in ef.noexcept_violations.items()}) if ef.noexcept_violations else ''),
               solver='exception-effect inference', model={'escaping': sorted(esc)} if esc else None)
    ctx.record('vacuity', PROVED if {'EReadError', 'EInvalidInput', 'EPhysicalProblem'} <= raised else ERROR, 'B', 0, 'the analysis sees the documented exception classes: %s' % sorted(raised))

# ------------------------------------------------------------------------------------------------ the fill layer: which block feeds which parameter, at which scale
# Documented (README "Input", SLHA conventions, doc/ of GM2_slha_io): the table below.  read_block / read_scale and the tuple processors enter by their own contracts
# (C13.blocks.*, C13.key_table.*); what is checked here is the wiring the real fill_* functions add on top: block name -> processor -> target object, scale filter, final stores.
Q_ = z3.Real('Q_HMIX')
FILL_TABLE = {
    'fill_slha': [('tuples', 'SMINPUTS', None, 'process_sminputs_tuple', 'MSSMNoFV_onshell'), ('tuples', 'MASS', None, 'process_mass_tuple', 'MSSMNoFV_onshell_physical'),
                  ('matrix', 'NMIX', None, 'physical.ZN'), ('matrix', 'SMUMIX', None, 'physical.ZM'), ('read_scale', 'HMIX'),
                  ('tuples', 'HMIX', 'Q', 'process_hmix_tuple', 'HMIX_data'), ('matrix', 'AE', 'Q', None), ('matrix', 'AU', 'Q', None), ('matrix', 'AD', 'Q', None),
                  ('tuples', 'MSOFT', 'Q', 'process_msoft_tuple', 'MSSMNoFV_onshell'), ('tuples', 'GM2CalcInput', None, 'process_gm2calcinput_tuple', 'GM2CalcInput_data')],
    'fill_gm2calc': [('tuples', 'SMINPUTS', None, 'process_sminputs_tuple', 'MSSMNoFV_onshell'), ('tuples', 'GM2CalcInput', None, 'process_gm2calcinput_tuple', 'MSSMNoFV_onshell')],
    'fill/SM': [('tuples', 'SMINPUTS', None, 'process_sminputs_tuple', 'SM'), ('tuples', 'MASS', None, 'process_mass_tuple', 'SM'),
                ('tuples', 'GM2CalcInput', None, 'process_gm2calcinput_tuple', 'SM'), ('tuples', 'VCKMIN', None, 'process_vckm_tuple', 'CKM_wolfenstein')],
    'fill/Gauge_basis': [('tuples', 'MINPAR', None, 'process_minpar_tuple', 'Gauge_basis')] +
                        [('matrix', 'GM2CalcTHDM%s%sInput' % (k, f), None, '%s_%s' % (k, f)) for k in ('Delta', 'Pi') for f in 'udl'],
    'fill/Mass_basis': [('tuples', 'MINPAR', None, 'process_minpar_tuple', 'Mass_basis'), ('tuples', 'MASS', None, 'process_mass_tuple', 'Mass_basis')] +
                       [('matrix', 'GM2CalcTHDM%s%sInput' % (k, f), None, '%s_%s' % (k, f)) for k in ('Delta', 'Pi') for f in 'udl'],
    'fill/Config_options': [('tuples', 'GM2CalcConfig', None, 'process_gm2calcconfig_tuple', 'Config_options')],
}

def replay_fill(model, wd):
    """run the REAL program on the shipped SLHA example with the entries of AU and AD distinct, an MSOFT copy at another scale, and on the THDM example with
    distinct Delta/Pi blocks: the library object filled by GM2_slha_io must carry each block in its documented parameter"""
    from gm2v import native
    from gm2v.world import REPO
    import subprocess
    src = r'''
#include "gm2_slha_io.hpp"
#include "gm2calc/MSSMNoFV_onshell.hpp"
#include "gm2calc/THDM.hpp"
#include "gm2calc/gm2_error.hpp"
#include <cstdio>
#include <sstream>
int main() {
   int bad = 0;
   {
      std::istringstream in(
         "Block SMINPUTS\n 3 0.1184\n 4 91.1876\n 5 4.18\n 6 173.34\n 7 1.777\n 9 80.385\n 13 0.1056583715\n"
         "Block MASS\n 1000013 5.05e2\n 1000014 5.18e2\n 1000022 2.0e2\n 1000023 4.1e2\n 1000024 4.1e2\n 1000025 -5.1e2\n 1000035 5.4e2\n 1000037 5.4e2\n 2000013 5.25e2\n 36 1.5e3\n"
         "Block HMIX Q= 1000\n 1 500\n 2 40\n 4 2.25e6\n"
         "Block AU Q= 1000\n 3 3 11\nBlock AD Q= 1000\n 3 3 22\nBlock AE Q= 1000\n 2 2 33\n 3 3 44\n"
         "Block AU Q= 2000\n 3 3 -1\nBlock MSOFT Q= 2000\n 1 -7\n"
         "Block MSOFT Q= 1000\n 1 200\n 2 400\n 3 2000\n 31 500\n 32 510\n 33 520\n 34 530\n 35 540\n 36 550\n 41 7000\n 42 7000\n 43 7000\n 44 7000\n 45 7000\n 46 7000\n 47 7000\n 48 7000\n 49 7000\n");
      gm2calc::GM2_slha_io io; io.read_from_stream(in);
      gm2calc::MSSMNoFV_onshell m;
      try { io.fill_slha(m); } catch (const gm2calc::Error& e) { std::printf("exception %s\n", e.what()); return 2; }
      struct { const char* what; double got, want; } c[] = {
         {"Au(3,3) from AU at Q", m.get_Au(2, 2), 11}, {"Ad(3,3) from AD at Q", m.get_Ad(2, 2), 22}, {"Ae(2,2) from AE at Q", m.get_Ae(1, 1), 33}, {"Ae(3,3) from AE at Q", m.get_Ae(2, 2), 44},
         {"M1 from MSOFT at Q (not from the block at 2000)", m.get_MassB(), 200}, {"Mu from HMIX", m.get_Mu(), 500}, {"tan(beta) from HMIX", m.get_TB(), 40},
         {"scale from HMIX", m.get_scale(), 1000}, {"ml2(2,2) from MSOFT 32", m.get_ml2(1, 1), 510. * 510}, {"me2(2,2) from MSOFT 35", m.get_me2(1, 1), 540. * 540},
         {"MSvmL pole from MASS 1000014", m.get_physical().MSvmL, 518}, {"MAh pole from MASS 36", m.get_physical().MAh(1), 1500}};
      for (auto& x : c) if (std::fabs(x.got - x.want) > 1e-9 * std::fabs(x.want)) { bad++; std::printf("SLHA: %s: got %.10g, expected %.10g\n", x.what, x.got, x.want); }
   }
   {
      std::istringstream in(
         "Block SMINPUTS\n 3 0.1184\n 4 91.1876\n 5 4.18\n 6 173.34\n 7 1.777\n 9 80.385\n 13 0.1056583715\n"
         "Block MINPAR\n 3 3\n 11 1\n 12 2\n 13 3\n 14 4\n 15 5\n 16 0.1\n 17 0.2\n 18 40000\n 21 0.5\n 22 -2\n 23 3\n 24 5\n"
         "Block GM2CalcTHDMDeltauInput\n 1 2 1\nBlock GM2CalcTHDMDeltadInput\n 1 2 2\nBlock GM2CalcTHDMDeltalInput\n 1 2 3\n"
         "Block GM2CalcTHDMPiuInput\n 1 2 4\nBlock GM2CalcTHDMPidInput\n 1 2 5\nBlock GM2CalcTHDMPilInput\n 1 2 6\n");
      gm2calc::GM2_slha_io io; io.read_from_stream(in);
      gm2calc::thdm::Gauge_basis g; gm2calc::thdm::Mass_basis mb;
      try { io.fill(g); io.fill(mb); } catch (const gm2calc::Error& e) { std::printf("exception %s\n", e.what()); return 2; }
      const double got[12] = {g.Delta_u(0,1), g.Delta_d(0,1), g.Delta_l(0,1), g.Pi_u(0,1), g.Pi_d(0,1), g.Pi_l(0,1), mb.Delta_u(0,1), mb.Delta_d(0,1), mb.Delta_l(0,1), mb.Pi_u(0,1), mb.Pi_d(0,1), mb.Pi_l(0,1)};
      for (int i = 0; i < 12; i++) if (got[i] != double(i % 6 + 1)) { bad++; std::printf("THDM %s basis: matrix block %d went elsewhere (got %g)\n", i < 6 ? "gauge" : "mass", i % 6 + 1, got[i]); }
   }
   std::printf("%d parameters not filled from their documented block\n", bad);
   return bad ? 1 : 0;
}
'''
    exe = native.build_against_library(wd, src)
    r = subprocess.run([exe], capture_output=True, text=True, timeout=120)
    return r.returncode == 1, r.stdout.strip()[-1500:]

def make_fill(entry):
    meth, _, cls = entry.partition('/')
    @obligation('C13.fill.%s' % (cls or meth), fns=[(IO, 'GM2_slha_io::' + meth)] + ([(IO, 'GM2_slha_io::' + h) for h in
                ('fill_from_sminputs', 'fill_from_mass', 'fill_scale', 'fill_from_hmix', 'fill_from_A', 'fill_from_msoft', 'fill_alpha_from_gm2calcinput')] if meth == 'fill_slha' else []) +
                ([(IO, 'GM2_slha_io::fill_from_sminputs'), (IO, 'GM2_slha_io::fill_from_gm2calcinput')] if meth == 'fill_gm2calc' else []), replay=replay_fill)
    def ob(ctx):
        """ensures (read_block, read_scale and the tuple processors by their contracts): on every path the real function reads exactly the documented blocks, each with the
        documented tuple processor applied to the documented target object resp. stored in the documented matrix parameter, in an order in which later stores do not
        undo earlier ones; the scale-dependent SLHA blocks (HMIX, AE, AU, AD, MSOFT) are read with the scale taken from the HMIX block header and all other blocks
        without a scale; the final stores are the documented ones (Mu, tan(beta), B mu = mA^2 tb/(1+tb^2) from HMIX; A_f from AE/AU/AD; alpha only if positive)"""
        want = FILL_TABLE[entry]
        trace = []
        holder = {}
        def read_block(it, a, this):
            name, tgt = a[0], a[1]
            scale = a[2] if len(a) > 2 else None
            if isinstance(tgt, Mat):
                for i in range(tgt.r):
                    for j in range(tgt.c):
                        tgt.d[i][j] = z3.Real('%s(%d,%d)' % (name, i + 1, j + 1))
                trace.append(['matrix', name, scale, tgt])
            else:
                trace.append(['tuples', name, scale, None, None])
                it.call_value(tgt, [z3.Real(name + '.key'), z3.Real(name + '.value')])
            return None
        def proc(nm):
            def st(it, a, t):
                last = trace[-1]
                ok_args = str(a[1]) == last[1] + '.key' and str(a[2]) == last[1] + '.value'
                last[3], last[4] = nm, (a[0].cls if isinstance(a[0], Obj) else type(a[0]).__name__) + ('' if ok_args else ' (key/value not passed through)')
                if isinstance(a[0], Obj) and a[0].cls in ('HMIX_data', 'GM2CalcInput_data', 'CKM_wolfenstein'):
                    for f in list(a[0].f):
                        a[0].f[f] = z3.Real('%s.%s' % (last[1], f))
                    holder[a[0].cls] = a[0]
                return None
            return st
        def rscale(it, a, t):
            trace.append(['read_scale', a[0]])
            return Q_
        calls = []
        rec = lambda nm: (lambda it, a, t: (calls.append((nm, list(a))), None)[1])
        stubs = {'GM2_slha_io::read_block': read_block, 'read_block': read_block, 'GM2_slha_io::read_scale': rscale, 'read_scale': rscale,
                 'MSSMNoFV_onshell::set_alpha_MZ': rec('set_alpha_MZ'), 'MSSMNoFV_onshell::set_alpha_thompson': rec('set_alpha_thompson'),
                 'SM::set_ckm_from_wolfenstein': rec('set_ckm_from_wolfenstein'), 'set_ckm_from_wolfenstein': rec('set_ckm_from_wolfenstein'),
                 'MSSMNoFV_onshell_physical::convert_to_hk': rec('convert_to_hk'), 'convert_to_hk': rec('convert_to_hk')}
        for n in ('process_sminputs_tuple', 'process_mass_tuple', 'process_hmix_tuple', 'process_msoft_tuple', 'process_gm2calcinput_tuple', 'process_minpar_tuple',
                  'process_vckm_tuple', 'process_gm2calcconfig_tuple'):
            stubs[n] = proc(n)
        it = Interp(ctx.w, mode='sym', stubs=stubs, assumptions=[Q_ > 0])
        io = Obj('GM2_slha_io', {})
        def thunk():
            del trace[:]
            del calls[:]
            holder.clear()
            if meth == 'fill':
                tgt = it.new_object(cls, symbolic_fields(None, prefix='t.'))
                fds = [f for f in ctx.w.find('GM2_slha_io::fill', IO) if len(f.params) == 1 and f.params[0].type.name.split('::')[-1] == cls]
                if len(fds) != 1:
                    raise EvalError('%d overloads of fill(%s&)' % (len(fds), cls))
                it.invoke(fds[0], [tgt], io)
            else:
                tgt = it.new_object('MSSMNoFV_onshell', symbolic_fields(None, prefix='m.'))
                it.call_method(io, meth, [tgt])
            return (tgt, [list(t) for t in trace], list(calls), dict(holder))
        try:
            ps = it.run_paths(thunk, max_paths=400)
        except EvalError as e:
            ctx.record('extraction', ERROR, 'B', 0, str(e))
            return
        ctx.merge_rules(it)
        n_ok = 0
        for k, (s, r, e) in enumerate(ps):
            if e is not None:
                # documented rejection: no scale in the HMIX header (fill_scale)
                if e.cls == 'EInvalidInput' and meth == 'fill_slha':
                    continue
                ctx.record('path%d' % k, FAILED, 'B', 0, 'exception %s' % e)
                continue
            tgt, tr, cl, hold = r
            got = []
            for t in tr:
                if t[0] == 'read_scale':
                    got.append(('read_scale', t[1]))
                    continue
                sc = None if t[2] is None else ('Q' if (is_sym(t[2]) and z3.eq(z3.simplify(z3real(t[2])), Q_)) or (meth == 'fill_slha' and is_sym(t[2]) and z3.eq(z3.simplify(z3real(t[2])), z3.simplify(z3real(tgt.f['scale'])))) else 'other scale %s' % t[2])
                if t[0] == 'tuples':
                    got.append(('tuples', t[1], sc, t[3], t[4]))
                else:
                    # where did the matrix end up?
                    where = None
                    mat = t[3]
                    def find(o, prefix):
                        nonlocal where
                        for n, v in o.f.items():
                            if isinstance(v, Obj):
                                find(v, prefix + n + '.')
                            elif isinstance(v, Mat) and v.r == mat.r and v.c == mat.c and all(is_sym(x) and is_sym(y) and z3.eq(z3real(x), z3real(y)) for x, y in zip(v.elems(), mat.elems()) if not isinstance(x, Cx)) \
                                    and not any(isinstance(x, Cx) for x in v.elems()):
                                where = prefix + n
                            elif isinstance(v, Mat) and v.cplx and v.r == mat.r and v.c == mat.c and all(isinstance(x, Cx) and is_sym(x.re) and z3.eq(z3real(x.re), z3real(y)) for x, y in zip(v.elems(), mat.elems())):
                                where = prefix + n
                    find(tgt, '')
                    got.append(('matrix', t[1], sc, where))
            exp = []
            for wnt in want:
                if wnt[0] == 'matrix' and wnt[3] is None:
                    exp.append(('matrix', wnt[1], wnt[2], {'AE': 'Ae', 'AU': 'Au', 'AD': 'Ad'}[wnt[1]]))
                else:
                    exp.append(tuple(wnt))
            # A_f blocks are stored as T_f = Y_f A_f or as A_f depending on the class layout: accept the documented parameter name only
            ok = got == exp
            if not ok:
                diff = [(g, w_) for g, w_ in zip(got, exp) if g != w_] or [('length', len(got), len(exp))]
                ctx.record('path%d.wiring' % k, FAILED, 'B', 0, 'block wiring differs from the documented table: first difference (found, documented) = %s' % (diff[0],),
                           model={'_found': [str(g) for g in got][:14]})
                continue
            post = []
            if meth == 'fill_slha':
                h = hold.get('HMIX_data')
                f = tgt.f
                tb = z3real(h.f['tanb'])
                post += [z3real(f['Mu']) == z3real(h.f['mu']), z3real(f['BMu']) == z3real(h.f['mA2']) * tb / (1 + tb * tb), z3real(f['scale']) == Q_]
                names = [c[0] for c in cl]
                d = hold.get('GM2CalcInput_data')
                for nm, fld in (('set_alpha_MZ', 'alpha_MZ'), ('set_alpha_thompson', 'alpha_thompson')):
                    sets = [c for c in cl if c[0] == nm]
                    if sets:
                        post.append(z3.And(z3real(sets[0][1][0]) == z3real(d.f[fld]), z3real(d.f[fld]) > 0))
                    else:
                        post.append(z3real(d.f[fld]) <= Fr(1, 10**10))
                if names.count('convert_to_hk') != 1:
                    post.append(z3.BoolVal(False))
            if cls == 'SM':
                c = hold.get('CKM_wolfenstein')
                sets = [x for x in cl if x[0] == 'set_ckm_from_wolfenstein']
                if len(sets) != 1:
                    post.append(z3.BoolVal(False))
                else:
                    post += [z3real(a_) == z3real(c.f[n_]) for a_, n_ in zip(sets[0][1], ('lambda', 'A', 'rho', 'eta'))]
            if post:
                # tan(beta) is set through set_TB (vu/vd); checked via the recorded field where it exists
                ctx.prove('path%d.final_stores' % k, list(s.pc) + list(s.axioms), z3.And(*post), check_vacuity=False)
            ctx.record('path%d.wiring' % k, PROVED, 'B', 0, '%d block reads as documented' % len(got))
            n_ok += 1
        ctx.record('paths', PROVED if n_ok >= 1 else FAILED, 'B', 0, '%d paths, %d complete the fill' % (len(ps), n_ok))
    return ob

for _e in FILL_TABLE:
    make_fill(_e)

# ------------------------------------------------------------------------------------------------ bounded: foreign blocks whose names extend the names of read blocks
# The block look-up itself (SLHAea::Coll::find, key_matches) lives in the third-party header src/slhaea.h and enters the contracts above as the assumption "find(name) returns
# the blocks whose name equals name case-insensitively" (A-SLHAEA).  That assumption is exercised here on the REAL program: "blocks it does not document are ignored".
FOREIGN_SUFFIXES = ('IN', 'X', 'OLD', 'ES', '2', '_')

def _foreign_variants():
    import os, re
    from gm2v.world import REPO
    for fname, opt in (('example.slha', '--slha-input-file=-'), ('example.gm2', '--gm2calc-input-file=-'), ('example.thdm', '--thdm-input-file=-')):
        text = open(os.path.join(REPO, 'input', fname)).read()
        lines = text.split('\n')
        heads = [i for i, l in enumerate(lines) if l.split('#')[0].strip().lower().startswith('block')]
        for hi, h in enumerate(heads):
            end = heads[hi + 1] if hi + 1 < len(heads) else len(lines)
            m = re.match(r'(\s*[Bb][Ll][Oo][Cc][Kk]\s+)(\S+)(.*)', lines[h])
            name = m.group(2)
            for suf in FOREIGN_SUFFIXES:
                # a copy of the block under a foreign name, every number replaced by a different one (the same keys: "later overrides earlier" would take it)
                body = []
                for l in lines[h + 1:end]:
                    code, _, com = l.partition('#')
                    toks = code.split()
                    if not toks:
                        continue
                    toks[-1] = '7.7e1' if re.search(r'[.eE]', toks[-1]) else toks[-1]
                    body.append('   ' + '  '.join(toks))
                blk = [m.group(1) + name + suf + m.group(3).split('#')[0]] + body
                yield fname, opt, text, '%s%s appended' % (name, suf), text.rstrip('\n') + '\n' + '\n'.join(blk) + '\n'
                if suf in ('IN', 'X'):
                    yield fname, opt, text, '%s%s in front' % (name, suf), '\n'.join(blk) + '\n' + text
                    # a foreign block with text entries must not make the file unreadable either
                    yield fname, opt, text, '%s%s with text entries' % (name, suf), text.rstrip('\n') + '\n' + blk[0] + '\n   1   none   # text\n'

def _written_part(out):
    lines = out.split('\n')
    if not any(l.strip().lower().startswith('block') for l in lines):
        return lines
    keep, on = [], False
    for l in lines:
        if l.strip().lower().startswith('block'):
            on = l.split()[1].lower() in ('gm2calcoutput', 'spinfo')
        if on:
            keep.append(l)
    return keep

def _run_foreign(exe, opt, text, new):
    import subprocess
    r0 = subprocess.run([exe, opt], input=text, capture_output=True, text=True, timeout=120)
    r = subprocess.run([exe, opt], input=new, capture_output=True, text=True, timeout=120)
    return r0, r

def replay_foreign(model, wd):
    """re-run the real program on the failing extended input (written next to the replay file) and on the unextended one"""
    from gm2v import native
    import os
    if not model or 'variant' not in model:
        return None, 'no failing variant recorded'
    exe = native.build_gm2calc()
    for fname, opt, text, what, new in _foreign_variants():
        if fname == model['file'] and what == model['variant']:
            p = os.path.join(wd, 'foreign_block_input.txt')
            open(p, 'w').write(new)
            r0, r = _run_foreign(exe, opt, text, new)
            got, exp = _written_part(r.stdout), _written_part(r0.stdout)
            diff = [(x, y) for x, y in zip(got, exp) if x != y][:2]
            return (r.returncode != r0.returncode or got != exp), 'gm2calc.x %s < %s: exit %d (unextended input: %d); first differing output lines (extended, unextended): %s' % (
                opt, p, r.returncode, r0.returncode, diff)
    return None, 'variant not generated any more'

@obligation('C13.program.foreign_blocks', fns=[('src/gm2calc.cpp', 'main')], backend='bounded', replay=replay_foreign)
def _(ctx):
    """BOUNDED (not a proof): the real program on the three shipped example inputs, each extended by one foreign block whose name has the name of a block GM2Calc reads as a
    proper prefix (<NAME>IN, <NAME>X, <NAME>OLD, ...; appended, in front, with text entries): exit status and output are those of the unextended input"""
    from gm2v import native
    import subprocess
    exe = native.build_gm2calc()
    base = {}
    n, bad = 0, []
    for fname, opt, text, what, new in _foreign_variants():
        if fname not in base:
            r0 = subprocess.run([exe, opt], input=text, capture_output=True, text=True, timeout=120)
            base[fname] = (r0.returncode, r0.stdout)
        r = subprocess.run([exe, opt], input=new, capture_output=True, text=True, timeout=120)
        n += 1
        want = base[fname]
        # SLHA output echoes the input document: compare the blocks the program writes (GM2CalcOutput, SPINFO); other output formats are compared as a whole
        got, exp = _written_part(r.stdout), _written_part(want[1])
        if r.returncode != want[0] or got != exp:
            diff = [(x, y) for x, y in zip(got, exp) if x != y][:1]
            bad.append(('%s + %s: exit %d (want %d) %s %s' % (fname, what, r.returncode, want[0], diff or (len(got), len(exp)), r.stderr.strip()[:100]), fname, what))
    if n < 60:
        ctx.record('', ERROR, 'bounded', 0, 'only %d variants generated' % n)
        return
    for b in bad[:5]:
        ctx.record(b[0].split(':')[0].replace(' ', '_'), FAILED, 'bounded', 0, 'BOUNDED: ' + b[0], solver='native execution of the real program', kind='bounded',
                   model={'file': b[1], 'variant': b[2]})
    ctx.record('', PROVED, 'bounded', 0, 'BOUNDED: %d inputs with a foreign block run, %d with a different result%s' % (n, len(bad), ' (separate goals)' if bad else ''),
               solver='native execution of the real program', kind='bounded')

# ------------------------------------------------------------------------------------------------ the look-up predicates of src/slhaea.h under a delegation contract
@obligation('C13.slhaea.lookup_predicates', fns=[('src/slhaea.h', 'Coll::key_matches::operator()'), ('src/slhaea.h', 'Block::key_matches::parts_equal')])
def _(ctx):
    """the two predicates through which every block and every line is found, extracted from src/slhaea.h on this run: Coll::key_matches(name)(block) IS
    boost::iequals(name, block.name()) and Block::key_matches::parts_equal(key_part, field) IS key_part == "(any)" || boost::iequals(key_part, field), for opaque
    string tokens; boost::iequals itself (case-insensitive equality of the WHOLE strings) is trusted (A-BOOST)"""
    import os
    from gm2v import cxx
    from gm2v.values import Obj
    u = cxx.parse_file(os.path.join(ctx.w.repo, 'src/slhaea.h'))
    ops = [f for f in u.funcs if f.qname.endswith('key_matches::operator()') and f.params and f.params[0].name == 'block']
    pes = [f for f in u.funcs if f.qname.endswith('key_matches::parts_equal')]
    if len(ops) != 1 or len(pes) != 1:
        ctx.record('', ERROR, 'B', 0, 'extraction: %d block predicates, %d parts_equal in src/slhaea.h' % (len(ops), len(pes)))
        return
    class Tok(str):
        pass
    for tag, fd, mk in (('block', ops[0], None), ('line_part', pes[0], None)):
        calls = []
        it = Interp(ctx.w, mode='float')
        marker = object()
        def ieq(i, ar, t, calls=calls):
            calls.append(tuple(ar))
            return len(ar) == 2 and str(ar[0]).lower() == str(ar[1]).lower()
        it.stubs.update({'boost::iequals': ieq})
        ok, det = True, []
        for a, b in (('MASS', 'mass'), ('MASS', 'MASSX'), ('MASSX', 'MASS'), ('', 'MASS'), ('MASS', ''), ('Mass', 'MASt'), ('(any)', 'zz'), ('zz', '(any)'), ('6', '60'), ('60', '6')):
            del calls[:]
            try:
                if tag == 'block':
                    class Blk(PyModel):
                        def m_name(self, it_, b=b):
                            return b
                    r = it.invoke(fd, [Blk()], Obj('key_matches', {'name_': a}))
                    want = a.lower() == b.lower()
                else:
                    r = it.invoke(fd, [a, b], None)
                    want = a == '(any)' or a.lower() == b.lower()
            except EvalError as e:
                ctx.record(tag, ERROR, 'B', 0, 'extraction / interpretation of %s: %s' % (fd.qname, e))
                ok = None
                break
            deleg = all(set(map(str, c)) == {a, b} or (a == b and list(map(str, c)) == [a, b]) for c in calls)
            if bool(r) != want or not deleg or (not calls and not (tag == 'line_part' and a == '(any)')):
                ok = False
                det.append('(%r, %r) -> %r, iequals calls %s' % (a, b, r, calls))
        if ok is None:
            continue
        ctx.record(tag, PROVED if ok else FAILED, 'B', 0, ('%s delegates to boost::iequals on the two whole strings' % fd.qname) if ok else 'not the documented predicate: ' + '; '.join(det[:3]),
                   solver='interpretation of the extracted predicate, boost::iequals trusted')
    ctx.assume_note('A-BOOST: boost::iequals(a, b) is case-insensitive equality of the whole strings; std::find_if / std::equal by their standard contracts')
