"""C05 -- DR-bar to on-shell conversion reproduces the input pole masses or warns: the part that contracts decide.

The conversion is an iteration around LAPACK-style diagonalisations; its convergence on a given input is not a contract-level statement.
What is under contract (src/MSSMNoFV/MSSMNoFV_onshell.cpp):
  selection     : find_right_like_smuon(ZM) returns the index of the state with the larger right-handed component (for a unitary ZM);
                  detail::find_bino_like_neutralino(ZN) the index of the largest |ZN(i,0)| (complex modulus); the member function applies it to the pole
                  mixing matrix whenever that is filled
  inversion     : convert_ml2 makes the sneutrino mass matrix exactly MSvmL_pole^2 (ring identity through the real mass-matrix function);
                  the fixed-point updates invert the right entries: X(0,0) -> MassWB, X(1,1) -> Mu, Y(0,0) -> MassB, and the me2 update subtracts exactly the
                  D-/F-term part of the (1,1) entry of the real smuon mass matrix
  warn-or-fit   : convert_me2 and convert_Mu_M1_M2 leave their warning flag set exactly when the achieved precision exceeds the goal, write no other flag,
                  and pass the achieved precision on (exception/flag effects as ghost traces; the Mu/M1/M2 loop is unrolled up to 2 iterations over
                  havocked spectra -- BOUNDED in the iteration count, the flag logic after the loop does not depend on it)
  preservation  : the steps of convert_to_onshell that follow a fit do not write anything the fitted mass matrix reads (write frame of the later steps
                  disjoint from the read frame of the fitted matrix)
Not decided: convergence itself, the accuracy of the diagonalisations (A-LINALG), parameter recovery and conditioning (numerical statements).
"""
import z3
from fractions import Fraction as Fr
from gm2v.ob import obligation, PROVED, FAILED, UNDECIDED, ERROR
from gm2v.interp import Interp, Thrown, Cell
from gm2v.values import to_z3, z3real, is_sym, Mat, Cx, Obj, deep_copy
from gm2v.symobj import symbolic_fields
from gm2v import ring

OS = 'src/MSSMNoFV/MSSMNoFV_onshell.cpp'
ME = 'src/MSSMNoFV/MSSMNoFV_onshell_mass_eigenstates.cpp'

def noop(it, args, this):
    return None

def cmat(name, r, c):
    return Mat(r, c, [[Cx(z3.Real('%s%d%dr' % (name, i, j)), z3.Real('%s%d%di' % (name, i, j))) for j in range(c)] for i in range(r)], 'matrix', True)

def rmat(name, r, c):
    return Mat(r, c, [[z3.Real('%s%d%d' % (name, i, j)) for j in range(c)] for i in range(r)], 'matrix', False)

def mod2(x):
    return z3real(x.re) * z3real(x.re) + z3real(x.im) * z3real(x.im) if isinstance(x, Cx) else z3real(x) * z3real(x)

# ------------------------------------------------------------------------------------------------ selection
@obligation('C05.selection.right_like_smuon', fns=[(OS, 'find_right_like_smuon')])
def _(ctx):
    """ensures (ZM orthogonal): the returned index k is the mass eigenstate with the larger right-handed component, ZM(k,1)^2 >= ZM(1-k,1)^2"""
    it = Interp(ctx.w, mode='sym')
    ZM = rmat('zm', 2, 2)
    g = lambda i, j: z3real(ZM.get(i, j))
    unitary = [g(0, 0)**2 + g(0, 1)**2 == 1, g(1, 0)**2 + g(1, 1)**2 == 1, g(0, 0) * g(1, 0) + g(0, 1) * g(1, 1) == 0,
               g(0, 0)**2 + g(1, 0)**2 == 1, g(0, 1)**2 + g(1, 1)**2 == 1]
    ps = it.run_paths(lambda: it.call('find_right_like_smuon', [ZM], file=OS))
    ctx.merge_rules(it)
    for k, (s, r, e) in enumerate(ps):
        r = z3real(r)
        claim = z3.And(z3.Or(r == 0, r == 1),
                       z3.Implies(r == 0, g(0, 1)**2 >= g(1, 1)**2), z3.Implies(r == 1, g(1, 1)**2 >= g(0, 1)**2))
        ctx.prove('path%d' % k, unitary + s.pc, claim)

def bino_claim(ZN, r):
    return z3.And(*[z3.Implies(z3real(r) == k, z3.And(*[mod2(ZN.get(k, 0)) >= mod2(ZN.get(i, 0)) for i in range(4)])) for k in range(4)] +
                  [z3.Or(*[z3real(r) == k for k in range(4)])])

@obligation('C05.selection.bino_like_neutralino', fns=[(OS, 'detail::find_bino_like_neutralino'), (OS, 'MSSMNoFV_onshell::find_bino_like_neutralino')])
def _(ctx):
    """ensures: detail::find_bino_like_neutralino(ZN) returns k with |ZN(k,0)| >= |ZN(i,0)| for all i (COMPLEX modulus: for M1 < 0 the bino column is imaginary);
    the member function returns exactly that for the pole mixing matrix when it is filled (max |ZN_pole| >= eps), else for the DR-bar one"""
    it = Interp(ctx.w, mode='sym')
    ZN = cmat('n', 4, 4)
    ps = it.run_paths(lambda: it.call('detail::find_bino_like_neutralino', [ZN], file=OS))
    ctx.merge_rules(it)
    for k, (s, r, e) in enumerate(ps):
        ctx.prove('free.path%d' % k, s.pc, bino_claim(ZN, r), check_vacuity=False)
    ctx.record('free.paths', PROVED if len(ps) >= 4 else FAILED, 'B', 0, '%d paths' % len(ps))
    # member
    stubs = {'MSSMNoFV_onshell_mass_eigenstates::calculate_MChi': noop, 'calculate_MChi': noop}
    it2 = Interp(ctx.w, mode='sym', stubs=stubs)
    m = it2.new_object('MSSMNoFV_onshell', symbolic_fields(None, prefix='m.'))
    ZP = cmat('p', 4, 4)
    ZD = cmat('d', 4, 4)
    m.f['physical'].f['ZN'] = ZP
    m.f['ZN'] = ZD
    # pole matrix filled: some entry with |.| >= 1/2  (a unitary matrix has one in every column)
    filled = [mod2(ZP.get(0, 0)) >= Fr(1, 4)]
    it2.assumptions = list(filled)
    ps = it2.run_paths(lambda: it2.call_method(m, 'find_bino_like_neutralino', []), max_paths=3000)
    ctx.merge_rules(it2)
    bad = 0
    for k, (s, r, e) in enumerate(ps):
        st = ctx.prove('member.pole.path%d' % k, filled + s.pc, bino_claim(ZP, r), check_vacuity=False)
    ctx.record('member.pole.paths', PROVED if ps else ERROR, 'B', 0, '%d feasible paths with a filled pole mixing matrix' % len(ps))

# ------------------------------------------------------------------------------------------------ inversion identities
def model(it, prefix='m.'):
    return it.new_object('MSSMNoFV_onshell', symbolic_fields(None, prefix=prefix))

@obligation('C05.inversion.ml2', fns=[(OS, 'MSSMNoFV_onshell::convert_ml2'), (ME, 'MSSMNoFV_onshell_mass_eigenstates::get_mass_matrix_SvmL')])
def _(ctx):
    """ensures: after convert_ml2 the (real) sneutrino mass matrix equals MSvmL_pole^2 exactly, for all couplings and VEVs"""
    stubs = {'MSSMNoFV_onshell_mass_eigenstates::calculate_MSvmL': noop, 'calculate_MSvmL': noop, 'std::isfinite': lambda it, a, t: True}
    it = Interp(ctx.w, mode='sym', stubs=stubs, div_sides=False)
    m = model(it)
    m.f['verbose_output'] = False
    pole = m.f['physical'].f['MSvmL']
    def thunk():
        it.call_method(m, 'convert_ml2', [])
        return it.call_method(m, 'get_mass_matrix_SvmL', [])
    ps = it.run_paths(thunk, max_paths=20)
    ctx.merge_rules(it)
    for k, (s, r, e) in enumerate(ps):
        ctx.prove_ring('path%d' % k, [(r, z3real(pole) * z3real(pole))])
    ctx.record('paths', PROVED if ps else ERROR, 'B', 0, '%d paths' % len(ps))

@obligation('C05.inversion.fixed_point_entries', fns=[(ME, 'MSSMNoFV_onshell_mass_eigenstates::get_mass_matrix_Cha'), (ME, 'MSSMNoFV_onshell_mass_eigenstates::get_mass_matrix_Chi'),
                                                     (ME, 'MSSMNoFV_onshell_mass_eigenstates::get_mass_matrix_Sm'), (OS, 'MSSMNoFV_onshell::convert_me2_fpi_modify'),
                                                     (OS, 'MSSMNoFV_onshell::convert_Mu_M1_M2')])
def _(ctx):
    """ensures: the entries the fixed-point iterations assign are the entries of the real mass matrices: X_cha(0,0) == MassWB, X_cha(1,1) == Mu,
    Y_chi(0,0) == MassB, and M_smu(1,1) == me2(1,1) + (ymu^2 vd^2/2 - 0.15 g1^2 vd^2 + 0.15 g1^2 vu^2), the term convert_me2_fpi_modify subtracts"""
    it = Interp(ctx.w, mode='sym', div_sides=False)
    m = model(it)
    f = m.f
    X = it.run_paths(lambda: it.call_method(m, 'get_mass_matrix_Cha', []))[0][1]
    Y = it.run_paths(lambda: it.call_method(m, 'get_mass_matrix_Chi', []))[0][1]
    S = it.run_paths(lambda: it.call_method(m, 'get_mass_matrix_Sm', []))[0][1]
    ctx.merge_rules(it)
    ctx.prove_ring('Cha00_is_MassWB', [(X.get(0, 0), f['MassWB'])])
    ctx.prove_ring('Cha11_is_Mu', [(X.get(1, 1), f['Mu'])])
    ctx.prove_ring('Chi00_is_MassB', [(Y.get(0, 0), f['MassB'])])
    ye = f['Ye'].get(1, 1)
    ymu2 = mod2(ye) if isinstance(ye, Cx) else z3real(ye) * z3real(ye)
    g1, vd, vu = z3real(f['g1']), z3real(f['vd']), z3real(f['vu'])
    me211 = z3real(f['me2'].get(1, 1))
    ctx.prove_ring('Sm11', [(S.get(1, 1), me211 + (ymu2 * vd * vd / 2 - Fr(15, 100) * g1 * g1 * vd * vd + Fr(15, 100) * g1 * g1 * vu * vu))])
    # the code subtracts the same term (extracted from the real loop body by running one iteration with the spectrum havocked)
    sub = []
    def set_me2(it_, a, t):
        sub.append(list(a))
        return None
    stubs = {'MSSMNoFV_onshell_mass_eigenstates::calculate_MSm': noop, 'calculate_MSm': noop, 'std::isfinite': lambda it_, a, t: True,
             'find_right_like_smuon': lambda it_, a, t: 0}
    it2 = Interp(ctx.w, mode='sym', stubs=stubs, div_sides=False, feasibility=False)
    m2 = model(it2)
    m2.f['verbose_output'] = False
    cells = {}
    orig_set = None
    def thunk():
        return it2.call_method(m2, 'convert_me2_fpi_modify', [z3.Real('goal'), 1])
    ps = it2.run_paths(thunk, max_paths=64)
    ctx.merge_rules(it2)
    # find a path that performed one update: me2(1,1) differs from its initial symbol
    me0 = z3.Real('m.me2(1,1)')
    upd = None
    for s, r, e in ps:
        v = z3real(m2.f['me2'].get(1, 1)) if False else None
    # the final object state is shared between paths; re-run a single straight path instead
    it3 = Interp(ctx.w, mode='sym', stubs=stubs, div_sides=False, feasibility=False)
    m3 = model(it3)
    m3.f['verbose_output'] = False
    it3.prefix = []
    seen = []
    stubs3 = dict(stubs)
    def set_me2_rec(it_, a, this):
        seen.append(a)
        this.f['me2'].set(a[0], a[1], a[2])
        return None
    it3.stubs['MSSMNoFV_onshell_mass_eigenstates::set_me2'] = set_me2_rec
    it3.stubs['set_me2'] = set_me2_rec
    ps3 = it3.run_paths(lambda: it3.call_method(m3, 'convert_me2_fpi_modify', [z3.Real('goal'), 1]), max_paths=64)
    ctx.merge_rules(it3)
    if not seen:
        ctx.record('me2_update', ERROR, 'B', 0, 'no call of set_me2 observed in one iteration of the fixed-point loop')
        return
    a = seen[0]
    f3 = m3.f
    ZM = f3['ZM']
    pole = f3['physical'].f['MSm']
    g = lambda i, j: z3real(ZM.get(i, j))
    # M = ZM^T diag(goal^2) ZM with goal = pole masses (sort and selection stubbed: identity / index 0)
    p0, p1 = z3real(pole.get(0, 0) if hasattr(pole, 'get') else pole[0]), z3real(pole.get(1, 0) if hasattr(pole, 'get') else pole[1])
    M11 = g(0, 1) * g(0, 1) * p0 * p0 + g(1, 1) * g(1, 1) * p1 * p1
    ye3 = f3['Ye'].get(1, 1)
    ymu2_3 = mod2(ye3) if isinstance(ye3, Cx) else z3real(ye3) * z3real(ye3)
    g1_3, vd3, vu3 = z3real(f3['g1']), z3real(f3['vd']), z3real(f3['vu'])
    want = M11 - (ymu2_3 * vd3 * vd3 / 2 - Fr(15, 100) * g1_3 * g1_3 * vd3 * vd3 + Fr(15, 100) * g1_3 * g1_3 * vu3 * vu3)
    ok = a[0] == 1 and a[1] == 1
    ctx.record('me2_update.index', PROVED if ok else FAILED, 'B', 0, 'set_me2(%s,%s,.)' % (a[0], a[1]))
    # the pole masses are sorted first (std::sort on two elements = (min, max)); take them ascending: p0 <= p1
    val = z3real(a[2])
    conds = []
    def walk(t):
        if z3.is_app(t) and t.decl().kind() == z3.Z3_OP_ITE:
            c = t.arg(0)
            if not any(z3.eq(c, o) for o in conds):
                conds.append(c)
        for ch in t.children():
            walk(ch)
    walk(val)
    sv = z3.Solver()
    for c in conds:
        sv.push()
        sv.add(p0 <= p1, z3.Not(c))
        only_order = sv.check() == z3.unsat
        sv.pop()
        if not only_order:
            ctx.record('me2_update.value', UNDECIDED, 'B', 0, 'unexpected case split %s in the update' % c)
            return
    val = z3.simplify(z3.substitute(val, *[(c, z3.BoolVal(True)) for c in conds]))
    ctx.prove_ring('me2_update.value', [(val, want)])

# ------------------------------------------------------------------------------------------------ warn-or-fit
FLAG_METHODS = ['flag_no_convergence_me2', 'unflag_no_convergence_me2', 'flag_no_convergence_Mu_MassB_MassWB', 'unflag_no_convergence_Mu_MassB_MassWB',
                'clear', 'clear_warnings', 'clear_problems', 'flag_tachyon']

def flag_stubs(trace):
    st = {}
    for n in FLAG_METHODS:
        def mk(n):
            def f(it, a, this):
                it.sym.effects.append((n, tuple(a)))
                return None
            return f
        st['MSSMNoFV_onshell_problems::' + n] = mk(n)
    return st

@obligation('C05.warn_or_fit.me2', fns=[(OS, 'MSSMNoFV_onshell::convert_me2')])
def _(ctx):
    """ensures (callees convert_me2_fpi / convert_me2_root replaced by 'returns the achieved precision'): on every path exactly one flag operation happens,
    on the me2 flag only: flag_no_convergence_me2(achieved, max_iterations) if the finally achieved precision exceeds the goal, unflag_no_convergence_me2() otherwise;
    the root finder is tried exactly when the fixed-point iteration missed the goal"""
    p1, p2, goal = z3.Reals('p_fpi p_root goal')
    calls = []
    stubs = flag_stubs(None)
    stubs['MSSMNoFV_onshell::convert_me2_fpi'] = lambda it, a, t: (it.sym.effects.append(('fpi', tuple(a))), p1)[1]
    stubs['MSSMNoFV_onshell::convert_me2_root'] = lambda it, a, t: (it.sym.effects.append(('root', tuple(a))), p2)[1]
    it = Interp(ctx.w, mode='sym', stubs=stubs)
    m = model(it)
    ps = it.run_paths(lambda: it.call_method(m, 'convert_me2', [goal, 7]), max_paths=20)
    ctx.merge_rules(it)
    for k, (s, r, e) in enumerate(ps):
        eff = [x for x in s.effects if isinstance(x, tuple) and x and isinstance(x[0], str)]
        names = [x[0] for x in eff]
        flags = [x for x in eff if x[0] in FLAG_METHODS]
        final = p2 if 'root' in names else p1
        pc = z3.And(*s.pc) if s.pc else z3.BoolVal(True)
        ok_struct = len(flags) == 1 and flags[0][0] in ('flag_no_convergence_me2', 'unflag_no_convergence_me2') and names[0] == 'fpi'
        if not ok_struct:
            ctx.record('path%d' % k, FAILED, 'B', 0, 'flag operations on this path: %s (expected exactly one, on the me2 flag)' % (names,))
            continue
        flagged = flags[0][0] == 'flag_no_convergence_me2'
        claims = [(final > goal) == z3.BoolVal(flagged), ('root' in names) == z3.BoolVal(True) if False else z3.BoolVal(True)]
        claims.append(z3.BoolVal('root' in names) == (p1 > goal))
        if flagged:
            claims.append(z3real(flags[0][1][0]) == final)
        ctx.prove('path%d' % k, s.pc, z3.And(*claims), check_vacuity=False)
    ctx.record('paths', PROVED if len(ps) == 3 else FAILED, 'B', 0, '%d paths (fit by FPI / fit by root finder / no fit)' % len(ps))

def spectrum_stubs():
    """contracts of the spectrum routines used inside the Mu/M1/M2 iteration: the chargino/neutralino masses are FUNCTIONS of the current parameters
    (same parameters -> same masses); mixing matrices are arbitrary"""
    cnt = [0]
    def pars(this):
        f = this.f
        return [f['MassB'], f['MassWB'], f['Mu'], f['g1'], f['g2'], f['vd'], f['vu']]
    def calc_cha(it, a, this):
        cnt[0] += 1
        this.f['MCha'] = Mat(2, 1, [[it.uf('MCha%d' % i, *pars(this))] for i in range(2)], 'array', False)
        this.f['UM'] = cmat('um%d_' % cnt[0], 2, 2)
        this.f['UP'] = cmat('up%d_' % cnt[0], 2, 2)
        return None
    def calc_chi(it, a, this):
        cnt[0] += 1
        this.f['MChi'] = Mat(4, 1, [[it.uf('MChi%d' % i, *pars(this))] for i in range(4)], 'array', False)
        this.f['ZN'] = cmat('zn%d_' % cnt[0], 4, 4)
        return None
    def calc_all(it, a, this):
        calc_cha(it, a, this)
        calc_chi(it, a, this)
        return None
    return {'MSSMNoFV_onshell_mass_eigenstates::calculate_MCha': calc_cha, 'MSSMNoFV_onshell_mass_eigenstates::calculate_MChi': calc_chi,
            'MSSMNoFV_onshell_mass_eigenstates::calculate_DRbar_masses': calc_all, 'calculate_MCha': calc_cha, 'calculate_MChi': calc_chi,
            'calculate_DRbar_masses': calc_all}, calc_all

def make_mu_loop(n_it):
    @obligation('C05.warn_or_fit.Mu_M1_M2.max_iterations_%d' % n_it, fns=[(OS, 'MSSMNoFV_onshell::convert_Mu_M1_M2')])
    def ob(ctx):
        """ensures (BOUNDED in the iteration count: max_iterations = %d; spectrum routines replaced by 'masses are functions of the current parameters', bino index 0):
        on every path exactly one flag operation, on the Mu/M1/M2 flag; if the flag is cleared, the FINAL spectrum reproduces both chargino pole masses and the
        bino-like neutralino pole mass within the goal; if it is set, the reported precision is the distance of the final spectrum from those pole masses""" % n_it
        goal = z3.Real('goal')
        stubs, calc_all = spectrum_stubs()
        stubs.update(flag_stubs(None))
        stubs['find_bino_like_neutralino'] = lambda it, a, t: 0
        stubs['MSSMNoFV_onshell::find_bino_like_neutralino'] = lambda it, a, t: 0
        it = Interp(ctx.w, mode='sym', stubs=stubs, div_sides=False)
        m = model(it)
        m.f['verbose_output'] = False
        pole_cha = m.f['physical'].f['MCha']
        pole_chi = m.f['physical'].f['MChi']
        def thunk():
            calc_all(it, [], m)
            it.call_method(m, 'convert_Mu_M1_M2', [goal, n_it])
            return (m.f['MCha'], m.f['MChi'])
        ps = it.run_paths(thunk, max_paths=4000)
        ctx.merge_rules(it)
        absz = lambda t: z3.If(t >= 0, t, -t)
        for k, (s, r, e) in enumerate(ps):
            flags = [x for x in s.effects if isinstance(x, tuple) and x and x[0] in FLAG_METHODS]
            if len(flags) != 1 or flags[0][0] not in ('flag_no_convergence_Mu_MassB_MassWB', 'unflag_no_convergence_Mu_MassB_MassWB'):
                ctx.record('path%d' % k, FAILED, 'B', 0, 'flag operations on this path: %s (expected exactly one, on the Mu/M1/M2 flag)' % ([x[0] for x in flags],))
                continue
            cha, chi = r
            dist = [absz(z3real(pole_cha.get(i, 0)) - z3real(cha.get(i, 0))) for i in range(2)] + [absz(z3real(pole_chi.get(0, 0)) - z3real(chi.get(0, 0)))]
            if flags[0][0].startswith('unflag'):
                claim = z3.And(*[d <= goal for d in dist])
            else:
                p = z3real(flags[0][1][0])
                claim = z3.And(p > goal, z3.Or(*[p == d for d in dist]), z3.And(*[p >= d for d in dist]))
            ctx.prove('path%d' % k, s.pc + s.axioms, claim, check_vacuity=False)
        ctx.record('paths', PROVED if ps else ERROR, 'B', 0, '%d paths' % len(ps))
    return ob

# the bounded unrolling (max_iterations = 0, 1, 2) is superseded by the loop contract C05.loop_contract.convert_Mu_M1_M2.* below and no longer registered

# ------------------------------------------------------------------------------------------------ preservation of the fitted masses by the later steps
from gm2v.cxx import ExprStmt, Call, Id, Member

def step_sequence(w):
    """the ordered calls that make up convert_to_onshell (extracted from the real body)"""
    fd = [f for f in w.find('MSSMNoFV_onshell::convert_to_onshell', OS)][0]
    seq = []
    for st in w.body(fd).stmts if hasattr(w.body(fd), 'stmts') else w.body(fd):
        if isinstance(st, ExprStmt) and isinstance(st.e, Call):
            f = st.e.f
            if isinstance(f, Id):
                seq.append(f.name)
            elif isinstance(f, Member):
                inner = f.e
                seq.append((inner.f.name if isinstance(inner, Call) and isinstance(inner.f, Id) else '?') + '().' + f.name)
    return seq

def snapshot(obj):
    out = {}
    for k, v in obj.f.items():
        if isinstance(v, Obj):
            for k2, v2 in snapshot(v).items():
                out[k + '.' + k2] = v2
        elif isinstance(v, Mat):
            for i in range(v.r):
                for j in range(v.c):
                    out['%s(%d,%d)' % (k, i, j)] = v.d[i][j]
        else:
            out[k] = v
    return out

def same(a, b):
    if isinstance(a, Cx) or isinstance(b, Cx):
        if not (isinstance(a, Cx) and isinstance(b, Cx)):
            return False
        return same(a.re, b.re) and same(a.im, b.im)
    if is_sym(a) or is_sym(b):
        try:
            return z3.eq(z3.simplify(z3real(a)), z3.simplify(z3real(b)))
        except Exception:
            return False
    return a == b

def step_stubs():
    """contracts of the diagonalisations inside the later steps: they write masses and mixings only (arbitrary values)"""
    cnt = [0]
    def havoc(*names):
        def f(it, a, this):
            cnt[0] += 1
            for n in names:
                v = this.f[n]
                if isinstance(v, Mat):
                    this.f[n] = Mat(v.r, v.c, [[(Cx(z3.Real('hv%d_%s%d%dr' % (cnt[0], n, i, j)), z3.Real('hv%d_%s%d%di' % (cnt[0], n, i, j))) if v.cplx else
                                                 z3.Real('hv%d_%s%d%d' % (cnt[0], n, i, j))) for j in range(v.c)] for i in range(v.r)], v.kind, v.cplx)
                else:
                    this.f[n] = z3.Real('hv%d_%s' % (cnt[0], n))
            return None
        return f
    st = {}
    for meth, names in (('calculate_MSm', ('MSm', 'ZM')), ('calculate_MSvmL', ('MSvmL',)), ('calculate_MCha', ('MCha', 'UM', 'UP')), ('calculate_MChi', ('MChi', 'ZN'))):
        st['MSSMNoFV_onshell_mass_eigenstates::' + meth] = havoc(*names)
        st[meth] = havoc(*names)
    st['std::isfinite'] = lambda it, a, t: True
    st['find_right_like_smuon'] = lambda it, a, t: 0
    # contract of the bracketing root finder: returns some bracket (it works on a COPY of the model held by the functor)
    st['boost::math::tools::toms748_solve'] = lambda it, a, t: (z3.Real('root_lo'), z3.Real('root_hi'))
    for n in ('Iabc', 'abs_sqrt', 'Fa', 'Fb'):
        st[n] = (lambda n: (lambda it, a, t: it.uf('fn_' + n, *a)))(n)
    return st

def writes_of(ctx, step):
    """fields of the model that `step' can change (any path), by symbolic execution with the diagonalisations havocking masses/mixings"""
    stubs = step_stubs()
    stubs.update(flag_stubs(None))
    it = Interp(ctx.w, mode='sym', stubs=stubs, div_sides=False, feasibility=False)
    m = model(it)
    m.f['verbose_output'] = False
    before = snapshot(m)
    args = {'convert_me2': [z3.Real('goal'), 1], 'convert_Mu_M1_M2': [z3.Real('goal'), 1]}.get(step, [])
    written = set()
    def thunk():
        mm = deep_copy(m)
        it.call_method(mm, step, list(args))
        return snapshot(mm)
    ps = it.run_paths(thunk, max_paths=500)
    ctx.merge_rules(it)
    for s, after, e in ps:
        if after is None:
            continue
        for k, v in after.items():
            if k not in before or not same(before[k], v):
                written.add(k)
    return written, len(ps)

def reads_of(ctx, getter):
    it = Interp(ctx.w, mode='sym', div_sides=False)
    m = model(it, prefix='')
    ps = it.run_paths(lambda: it.call_method(m, getter, []))
    syms = set()
    def walk(t):
        if z3.is_const(t) and t.decl().kind() == z3.Z3_OP_UNINTERPRETED:
            syms.add(t.decl().name())
        for c in t.children():
            walk(c)
    for s, r, e in ps:
        if isinstance(r, Mat):
            for row in r.d:
                for x in row:
                    for y in ((x.re, x.im) if isinstance(x, Cx) else (x,)):
                        if is_sym(y):
                            walk(z3real(y))
        elif is_sym(r):
            walk(z3real(r))
    ctx.merge_rules(it)
    return syms

FIT_REPLAY = r'''
#include "gm2calc/MSSMNoFV_onshell.hpp"
#include "gm2calc/gm2_error.hpp"
#include <cstdio>
#include <cmath>
#include <algorithm>
// the SLHA-type point of the repository's own conversion test (test_MSSMNoFV.cpp: setup_slha), for several tan(beta) and precision goals
int main() {
   int bad = 0;
   for (double tb : {5.0, 20.0, 40.0}) for (double eps : {1e-4, 1e-6, 1e-8, 1e-10}) {
      gm2calc::MSSMNoFV_onshell model;
      const double Pi = 3.141592653589793;
      const Eigen::Matrix<double,3,3> one = Eigen::Matrix<double,3,3>::Identity();
      model.set_alpha_MZ(0.0077552); model.set_alpha_thompson(0.00729735); model.set_g3(std::sqrt(4 * Pi * 0.1184));
      model.get_physical().MFt = 173.34; model.get_physical().MFb = 4.18; model.get_physical().MFm = 0.1056583715; model.get_physical().MFtau = 1.777;
      model.get_physical().MVWm = 80.385; model.get_physical().MVZ = 91.1876;
      model.get_physical().MSvmL = 5.18860573e+02; model.get_physical().MSm(0) = 5.05095249e+02; model.get_physical().MSm(1) = 5.25187016e+02;
      model.get_physical().MChi(0) = 2.01611468e+02; model.get_physical().MChi(1) = 4.10040273e+02; model.get_physical().MChi(2) = 5.16529941e+02; model.get_physical().MChi(3) = 5.45628749e+02;
      model.get_physical().MCha(0) = 4.09989890e+02; model.get_physical().MCha(1) = 5.46057190e+02; model.get_physical().MAh(1) = 1.5e+03;
      model.set_TB(tb); model.set_Mu(500); model.set_MassB(200); model.set_MassWB(400); model.set_MassG(2000);
      model.set_mq2(7000. * 7000 * one); model.set_ml2(0, 0, 500. * 500); model.set_ml2(1, 1, 500. * 500); model.set_ml2(2, 2, 500. * 500);
      model.set_md2(7000. * 7000 * one); model.set_mu2(7000. * 7000 * one);
      model.set_me2(0, 0, 500. * 500); model.set_me2(1, 1, 500. * 500); model.set_me2(2, 2, 500. * 500);
      model.set_Au(2, 2, 0); model.set_Ad(2, 2, 0); model.set_Ae(1, 1, 0); model.set_Ae(2, 2, 0); model.set_scale(1000);
      try { model.convert_to_onshell(eps, 1000); } catch (const gm2calc::Error& e) { continue; }
      if (model.get_problems().have_warning()) continue;
      const int r = std::norm(model.get_ZM()(0, 1)) >= std::norm(model.get_ZM()(1, 1)) ? 0 : 1;   // mostly right-handed smuon
      double pole[2] = {model.get_physical().MSm(0), model.get_physical().MSm(1)};
      std::sort(pole, pole + 2);
      const double d_smu = std::fabs(model.get_MSm(r) - pole[r]);
      const double d_cha = std::fmax(std::fabs(model.get_MCha(0) - model.get_physical().MCha(0)), std::fabs(model.get_MCha(1) - model.get_physical().MCha(1)));
      const double d_chi = std::fabs(model.get_MChi(0) - model.get_physical().MChi(0));
      const double d_snu = std::fabs(model.get_MSvmL() - model.get_physical().MSvmL);
      const bool off = d_smu > eps || d_cha > eps || d_chi > eps || d_snu > eps;
      if (off) bad++;
      std::printf("%s tan(beta)=%g precision goal=%g, no warning: |MSm(right-like) - pole| = %.3e, |MCha - pole| = %.3e, |MChi(bino) - pole| = %.3e, |MSvmL - pole| = %.3e\n",
                  off ? "OFF" : "ok ", tb, eps, d_smu, d_cha, d_chi, d_snu);
   }
   return bad ? 1 : 0;
}
'''

def fit_replay(model_, wd):
    from gm2v import native
    import subprocess
    exe = native.build_against_library(wd, FIT_REPLAY)
    r = subprocess.run([exe], capture_output=True, text=True, timeout=600)
    return r.returncode == 1, r.stdout.strip()[-3000:]

FITS = [('convert_Mu_M1_M2', ['get_mass_matrix_Cha', 'get_mass_matrix_Chi'], 'chargino and neutralino'),
        ('convert_ml2', ['get_mass_matrix_SvmL'], 'muon sneutrino'),
        ('convert_me2', ['get_mass_matrix_Sm'], 'smuon')]

def make_preservation(fit, getters, what):
    @obligation('C05.preserved.%s' % fit, fns=[(OS, 'MSSMNoFV_onshell::convert_to_onshell'), (OS, 'MSSMNoFV_onshell::' + fit)] + [(ME, 'MSSMNoFV_onshell_mass_eigenstates::' + g) for g in getters], replay=fit_replay)
    def ob(ctx):
        """frame: every step of convert_to_onshell after the LAST call of this fit (up to the final spectrum calculation) writes no model field that the
        fitted mass matrix reads -- so the fitted masses are still the pole masses in the final spectrum"""
        seq = step_sequence(ctx.w)
        if fit not in seq:
            ctx.record('sequence', ERROR, 'B', 0, 'extraction: %s not found in convert_to_onshell: %s' % (fit, seq))
            return
        last = max(i for i, n in enumerate(seq) if n == fit)
        later = [n for n in seq[last + 1:] if n not in ('calculate_DRbar_masses', 'check_problems', 'get_problems().clear_problems')]
        ctx.record('sequence', PROVED, 'B', 0, 'steps after the fit: %s' % later)
        reads = set()
        for g in getters:
            reads |= reads_of(ctx, g)
        for step in sorted(set(later)):
            wr, npaths = writes_of(ctx, step)
            # compare on the level of fields/entries: symbols are named like the snapshot keys
            hit = sorted(k for k in wr if k in reads or k.split('(')[0] in {r.split('(')[0] for r in reads} and k in reads)
            ctx.record('step.%s' % step, FAILED if hit else PROVED, 'B', 0,
                       ('%s rewrites %s, which the %s mass matrix reads (%d paths)' % (step, hit, what, npaths)) if hit else
                       '%s writes %d fields, none read by the %s mass matrix' % (step, len(wr), what), model={'_written_and_read': hit} if hit else None,
                       solver='frame inference (symbolic execution)')
    return ob

for _f in FITS:
    make_preservation(*_f)


def fidelity(tier, seed):
    """A-FRONT guard: MSSM a_mu and mass-matrix functions, interpreter (float mode) vs compiled real code on real spectra"""
    from gm2v import fidelity as _fid
    return _fid.mssm_model_guard(seed=seed)

# ------------------------------------------------------------------------------------------------ loop contracts (unbounded in the iteration count)
from gm2v.interp import LoopContract, PathEnd
from gm2v.values import UnknownBool

DBL_MAX = Fr(int(1.7976931348623157e308))

def smuon_stubs(cnt):
    """callee contract of calculate_MSm for the me2 iteration: it writes MSm and ZM (arbitrary new values: nothing about them is needed) and the tachyon flag"""
    def calc_MSm(it, a, this):
        cnt[0] += 1
        this.f['MSm'] = Mat(2, 1, [[z3.Real('MSm!%d!%d' % (cnt[0], i))] for i in range(2)], 'array', False)
        this.f['ZM'] = rmat('zm!%d!' % cnt[0], 2, 2)
        return None
    return {'MSSMNoFV_onshell_mass_eigenstates::calculate_MSm': calc_MSm, 'calculate_MSm': calc_MSm}

def right_index_of(it, ZM):
    """the REAL find_right_like_smuon on the given mixing matrix (forks on its comparison)"""
    return it.concretize_index(it.call('find_right_like_smuon', [ZM], file=OS), 2)

def me2_invariant(it, fr):
    f = fr.this.f
    ri = it.concretize_index(fr.lookup('right_index').v, 2)
    goal = fr.lookup('MSm_goal').v
    pole = fr.lookup('MSm_pole_sorted').v
    prec = fr.lookup('precision').v
    n_it = fr.lookup('it').v
    k = right_index_of(it, f['ZM'])
    d = z3real(f['MSm'].get(ri, 0)) - z3real(goal.get(ri, 0))
    return [('right_index is the right-like smuon of the current mixing matrix', k == ri),
            ('the goal of the right-like smuon is its (sorted) pole mass', z3real(goal.get(ri, 0)) == z3real(pole.get(ri, 0))),
            ('precision is the distance of the current right-like smuon mass from its goal', z3real(prec) == z3.If(d >= 0, d, -d)),
            ('iteration counter >= 0', z3real(n_it) >= 0)]

@obligation('C05.loop_contract.convert_me2_fpi_modify', fns=[(OS, 'MSSMNoFV_onshell::convert_me2_fpi_modify'), (OS, 'find_right_like_smuon')], replay=lambda m, wd: sweep_replay(m, wd))
def _(ctx):
    """LOOP CONTRACT (holds for any number of iterations, no unrolling) of the fixed-point iteration for mse2(2,2):
    invariant: right_index == find_right_like_smuon(current ZM)  &&  MSm_goal(right_index) == sorted pole mass(right_index)  &&
               precision == |MSm(right_index) - MSm_goal(right_index)|;   modifies: right_index, MSm_goal, precision, it, this->me2, this->MSm, this->ZM only;
               variant: max_iterations - it.
    ensures (function): the value returned is DBL_MAX (a non-finite value appeared) or exactly |MSm(k) - sorted pole mass(k)| of the FINAL spectrum with
    k = find_right_like_smuon(final ZM) -- the achieved precision handed to convert_me2 is the distance of the final right-like smuon from its pole mass.
    Callee calculate_MSm by contract (writes MSm, ZM); finiteness tests undetermined (both outcomes explored)."""
    goal, maxit = z3.Real('precision_goal'), z3.Real('max_iterations')
    cnt = [0]
    stubs = smuon_stubs(cnt)
    stubs.update(flag_stubs(None))
    it = Interp(ctx.w, mode='sym', stubs=stubs, div_sides=False)
    it.nonfinite_unknown = True
    it.loop_contracts[('MSSMNoFV_onshell::convert_me2_fpi_modify', frozenset({'precision_goal', 'max_iterations'}))] = LoopContract(   # the loop whose condition tests the goal and the iteration limit (while or for)
        modifies=['right_index', 'MSm_goal', 'precision', 'it', 'this.me2', 'this.MSm', 'this.ZM'],
        invariant=me2_invariant, choices={'right_index': [0, 1]},
        variant=lambda it_, fr: maxit - z3real(fr.lookup('it').v))
    def thunk():
        m = model(it)
        m.f['verbose_output'] = False
        pole = deep_copy(m.f['physical'].f['MSm'])
        r = it.call_method(m, 'convert_me2_fpi_modify', [goal, maxit])
        k = right_index_of(it, m.f['ZM'])
        return (r, k, deep_copy(m.f['MSm']), pole)
    ps = it.run_paths(thunk, max_paths=400)
    ctx.merge_rules(it)
    n_ret = n_body = 0
    for j, (s, r, e) in enumerate(ps):
        tag = 'path%d' % j
        if e is not None:
            ctx.record(tag, FAILED, 'B', 0, 'unexpected exception %s' % e)
            continue
        # side obligations: invariant on entry / preserved, frame, variant (and nothing else: div_sides off)
        for i, (guards, cond, desc) in enumerate(s.sides):
            ctx.prove('%s.side%d' % (tag, i), list(guards) + list(s.axioms), cond if is_sym(cond) else z3.BoolVal(bool(cond)), kind='loop:' + desc, check_vacuity=False)
        if isinstance(r, PathEnd):
            n_body += 1
            continue
        n_ret += 1
        ret, k, MSm, pole = r
        p0, p1 = z3real(pole.get(0, 0)), z3real(pole.get(1, 0))
        sorted_pole = [z3.If(p0 <= p1, p0, p1), z3.If(p0 <= p1, p1, p0)]
        d = z3real(MSm.get(k, 0)) - sorted_pole[k]
        claim = z3.Or(z3real(ret) == to_z3(DBL_MAX), z3real(ret) == z3.If(d >= 0, d, -d))
        ctx.prove('%s.returns_distance_of_final_spectrum' % tag, list(s.pc) + list(s.axioms), claim, kind='post', check_vacuity=False)
    ctx.record('paths', PROVED if n_ret >= 2 and n_body >= 1 else FAILED, 'B', 0, '%d paths return, %d paths check one arbitrary iteration of the body' % (n_ret, n_body))

SWEEP_REPLAY = r'''
#include "gm2calc/MSSMNoFV_onshell.hpp"
#include "gm2calc/gm2_error.hpp"
#include <cstdio>
#include <cmath>
#include <cstdint>
#include <algorithm>
// warn-or-fit on a deterministic sweep: on-shell points -> their spectrum as pole masses -> guesses perturbed by up to 5% -> convert_to_onshell.
// Concentrated where the left/right smuon parameters are a few per cent apart (the mixing flips during the iteration there).
// Tolerance: max(precision goal, 0.02 GeV) for charginos, neutralino, sneutrino; 0.5 GeV for the right-like smuon, because the listed OPEN finding
// (Yukawa update after the smuon fit) moves it by up to 0.18 GeV on this sweep at large tan(beta) mu / m_smuon^2; a wrongly selected smuon is GeV off.
static std::uint64_t S = 88172645463325252ULL;
static double uni() { S = S * 6364136223846793005ULL + 1442695040888963407ULL; return double(S >> 11) / 9007199254740992.0; }
static double uni(double a, double b) { return a + (b - a) * uni(); }
static gm2calc::MSSMNoFV_onshell base() {
   gm2calc::MSSMNoFV_onshell m; const double Pi = 3.141592653589793;
   m.set_alpha_MZ(0.0077552); m.set_alpha_thompson(0.00729735); m.set_g3(std::sqrt(4 * Pi * 0.1184));
   m.get_physical().MFt = 173.34; m.get_physical().MFb = 4.18; m.get_physical().MFm = 0.1056583715; m.get_physical().MFtau = 1.777;
   m.get_physical().MVWm = 80.385; m.get_physical().MVZ = 91.1876; return m; }
static void fill(gm2calc::MSSMNoFV_onshell& m, double tb, double mu, double m1, double m2, double ml, double me) {
   const Eigen::Matrix<double,3,3> U = Eigen::Matrix<double,3,3>::Identity();
   m.set_TB(tb); m.set_Mu(mu); m.set_MassB(m1); m.set_MassWB(m2); m.set_MassG(2000);
   m.set_mq2(3000. * 3000 * U); m.set_md2(3000. * 3000 * U); m.set_mu2(3000. * 3000 * U); m.set_ml2(1000. * 1000 * U); m.set_me2(1000. * 1000 * U);
   m.set_ml2(1, 1, ml * ml); m.set_me2(1, 1, me * me); m.set_Au(2, 2, 0); m.set_Ad(2, 2, 0); m.set_Ae(1, 1, 0); m.set_Ae(2, 2, 0); m.set_MA0(1500); m.set_scale(1000); }
template <class M> static int right_smuon(const M& Z) { return std::abs(Z(0,1)) > std::abs(Z(1,1)) ? 0 : 1; }
template <class M> static int bino(const M& Z) { int k = 0; for (int i = 1; i < 4; i++) if (std::abs(Z(i,0)) > std::abs(Z(k,0))) k = i; return k; }
int main() {
   int bad = 0, checked = 0, warned = 0, total = 0;
   for (int n = 0; n < 400; n++) for (double eps : {1e-4, 1e-8}) {
      const double tb = uni(2, 60), sg1 = uni() < .5 ? -1 : 1, sg2 = uni() < .5 ? -1 : 1, sg3 = uni() < .5 ? -1 : 1;
      const double mu = sg1 * uni(150, 2000), m1 = sg2 * uni(100, 1500), m2 = sg3 * uni(150, 2000);
      const double ml = uni(150, 2500), me = (n % 2) ? ml * uni(0.93, 1.07) : uni(150, 2500);
      total++;
      gm2calc::MSSMNoFV_onshell os = base(); fill(os, tb, mu, m1, m2, ml, me);
      try { os.calculate_masses(); } catch (const gm2calc::Error&) { continue; }
      const int r0 = right_smuon(os.get_ZM()), b0 = bino(os.get_ZN());
      gm2calc::MSSMNoFV_onshell m = base();
      fill(m, tb, mu * uni(0.95, 1.05), m1 * uni(0.95, 1.05), m2 * uni(0.95, 1.05), ml * uni(0.95, 1.05), me * uni(0.95, 1.05));
      m.get_physical().MSvmL = os.get_MSvmL(); m.get_physical().MSm(0) = os.get_MSm(1 - r0); m.get_physical().MSm(1) = os.get_MSm(r0);
      m.get_physical().MChi = os.get_MChi(); m.get_physical().ZN = os.get_ZN(); m.get_physical().MCha = os.get_MCha(); m.get_physical().MAh(1) = 1500;
      try { m.convert_to_onshell(eps, 1000); } catch (const gm2calc::Error&) { continue; }
      if (m.get_problems().have_warning()) { warned++; continue; }
      checked++;
      const double tol = std::max(eps, 0.02);
      const int r = right_smuon(m.get_ZM()), b = bino(m.get_ZN());
      const double d_cha = (m.get_MCha() - os.get_MCha()).abs().maxCoeff(), d_chi = std::abs(m.get_MChi(b) - os.get_MChi(b0));
      const double d_snu = std::abs(m.get_MSvmL() - os.get_MSvmL()), d_smu = std::abs(m.get_MSm(r) - os.get_MSm(r0));
      if (!(d_cha <= tol && d_chi <= tol && d_snu <= tol && d_smu <= std::max(tol, 0.5))) {
         if (bad++ < 5) std::printf("OFF (no warning, goal %.0e): TB=%.4g Mu=%.6g M1=%.6g M2=%.6g msl=%.8g mse=%.8g: |dMCha|=%.3g |dMChi(bino)|=%.3g |dMSvm|=%.3g |dMSm(right-like)|=%.3g GeV\n",
                                eps, tb, mu, m1, m2, ml, me, d_cha, d_chi, d_snu, d_smu);
      }
   }
   std::printf("%d points, %d warned, %d checked, %d off\n", total, warned, checked, bad);
   return bad ? 1 : 0;
}
'''

def sweep_replay(model_, wd):
    from gm2v import native
    import subprocess
    exe = native.build_against_library(wd, SWEEP_REPLAY)
    r = subprocess.run([exe], capture_output=True, text=True, timeout=1200)
    return r.returncode == 1, r.stdout.strip()[-3000:]

# ---- Mu / M1 / M2 iteration -------------------------------------------------------------------------------------------------------------------------
def spectrum_of(f):
    """the chargino/neutralino spectrum as an (uninterpreted) FUNCTION of the current parameters: callee contract of calculate_MCha/MChi/DRbar_masses"""
    pars = [z3real(f[n]) for n in ('MassB', 'MassWB', 'Mu', 'g1', 'g2', 'vd', 'vu')]
    key = tuple(p.get_id() for p in pars)
    if key in _SPEC_CACHE:
        return {k: deep_copy(v) for k, v in _SPEC_CACHE[key][1].items()}
    U = lambda name: _spec_fn(name, len(pars))(*pars)
    cm = lambda name, r, c: Mat(r, c, [[Cx(U('%s_%d%d_re' % (name, i, j)), U('%s_%d%d_im' % (name, i, j))) for j in range(c)] for i in range(r)], 'matrix', True)
    sp = {'MCha': Mat(2, 1, [[U('MCha_%d' % i)] for i in range(2)], 'array', False),
          'MChi': Mat(4, 1, [[U('MChi_%d' % i)] for i in range(4)], 'array', False),
          'UM': cm('UM', 2, 2), 'UP': cm('UP', 2, 2), 'ZN': cm('ZN', 4, 4)}
    _SPEC_CACHE[key] = (pars, sp)       # pars kept alive so that the ids stay unique
    return {k: deep_copy(v) for k, v in sp.items()}

_SPEC_CACHE = {}
_SPEC_FN = {}
def _spec_fn(name, n):
    if name not in _SPEC_FN:
        _SPEC_FN[name] = z3.Function(name, *([z3.RealSort()] * (n + 1)))
    return _SPEC_FN[name]

def functional_spectrum_stubs():
    def calc_cha(it, a, this):
        sp = spectrum_of(this.f)
        for n in ('MCha', 'UM', 'UP'):
            this.f[n] = sp[n]
        return None
    def calc_chi(it, a, this):
        sp = spectrum_of(this.f)
        for n in ('MChi', 'ZN'):
            this.f[n] = sp[n]
        return None
    def calc_all(it, a, this):
        calc_cha(it, a, this); calc_chi(it, a, this)
        return None
    st = {}
    for pre in ('', 'MSSMNoFV_onshell_mass_eigenstates::'):
        st[pre + 'calculate_MCha'] = calc_cha
        st[pre + 'calculate_MChi'] = calc_chi
        st[pre + 'calculate_DRbar_masses'] = calc_all
    return st, calc_all

def first_argmax(ZN, idx):
    """idx is the FIRST index with maximal |ZN(i,0)|^2 (what Eigen's maxCoeff(&idx) returns; contract of detail::find_bino_like_neutralino, C05.selection.*)"""
    m = [mod2(ZN.get(i, 0)) for i in range(4)]
    return z3.And(*([m[i] < m[idx] for i in range(idx)] + [m[i] <= m[idx] for i in range(idx + 1, 4)]))

def absz_(t):
    return z3.If(t >= 0, t, -t)

def mu_precision(MCha_goal, MCha, MChi_goal, MChi, idx):
    d0 = absz_(z3real(MCha_goal.get(0, 0)) - z3real(MCha.get(0, 0)))
    d1 = absz_(z3real(MCha_goal.get(1, 0)) - z3real(MCha.get(1, 0)))
    dc = z3.If(d0 >= d1, d0, d1)
    dn = absz_(z3real(MChi_goal.get(idx, 0)) - z3real(MChi.get(idx, 0)))
    return z3.If(dc >= dn, dc, dn)

def mat_eqs(a, b):
    out = []
    for x, y in zip(a.elems(), b.elems()):
        if isinstance(x, Cx) or isinstance(y, Cx):
            from gm2v.values import cx as _cx
            x, y = _cx(x), _cx(y)
            out += [z3real(x.re) == z3real(y.re), z3real(x.im) == z3real(y.im)]
        else:
            out.append(z3real(x) == z3real(y))
    return out

def mu_invariant(it, fr):
    f = fr.this.f
    idx = it.concretize_index(fr.lookup('bino_idx_DR').v, 4)
    pidx = it.concretize_index(fr.lookup('bino_idx_pole').v, 4)
    goal_chi = fr.lookup('MChi_goal').v
    goal_cha = fr.lookup('MCha_goal').v
    prec = fr.lookup('precision').v
    n_it = fr.lookup('it').v
    sp = spectrum_of(f)
    cur = z3.And(*[c for n in ('MCha', 'MChi', 'UM', 'UP', 'ZN') for c in mat_eqs(f[n], sp[n])])
    return [('the spectrum stored in the model is the spectrum of the current Mu, M1, M2', cur),
            ('bino_idx_DR is the bino-like neutralino of the current mixing matrix', first_argmax(f['ZN'], idx)),
            ('the goal of the bino-like neutralino is the pole mass of the bino-like pole neutralino', z3real(goal_chi.get(idx, 0)) == z3real(f['physical'].f['MChi'].get(pidx, 0))),
            ('precision is the distance of the current spectrum from the goals', z3real(prec) == mu_precision(goal_cha, f['MCha'], goal_chi, f['MChi'], idx)),
            ('iteration counter >= 0', z3real(n_it) >= 0)]

def make_mu_loop_contract(POLE_IDX):
  @obligation('C05.loop_contract.convert_Mu_M1_M2.pole_bino_%d' % POLE_IDX, fns=[(OS, 'MSSMNoFV_onshell::convert_Mu_M1_M2'), (OS, 'find_bino_like_neutralino')], replay=lambda m, wd: sweep_replay(m, wd))
  def ob(ctx):
    """LOOP CONTRACT (any number of iterations; replaces the bounded unrolling) of the fixed-point iteration for Mu, M1, M2:
    invariant: the stored chargino/neutralino spectrum is the spectrum of the current parameters  &&  bino_idx_DR == first argmax_i |ZN(i,0)|  &&
               MChi_goal(bino_idx_DR) == pole MChi(bino_idx_pole)  &&  precision == max(max_i |MCha_goal_i - MCha_i|, |MChi_goal(idx) - MChi(idx)|);
    modifies: bino_idx_DR, MChi_goal, precision, it, this->MassB, MassWB, Mu, MCha, MChi, ZN, UM, UP only;  variant: max_iterations - it.
    ensures (function, precondition: the spectrum is up to date on entry): exactly one flag operation, on the Mu/M1/M2 flag; if the flag is cleared, the FINAL
    spectrum (after the closing calculate_DRbar_masses) reproduces both chargino pole masses and, for k = first argmax |ZN_final(i,0)|, the pole mass of the
    bino-like pole neutralino within the goal; if it is set, the reported precision is that distance (a superfluous warning is not a violation).
    Callees calculate_MCha/MChi/DRbar_masses by contract 'the spectrum is a function of (M1, M2, Mu, g1, g2, vd, vu)'; one obligation per value of bino_idx_pole in 0..3; detail::find_bino_like_neutralino by its contract (first argmax, C05.selection.*)."""
    goal, maxit = z3.Real('precision_goal'), z3.Real('max_iterations')
    stubs, calc_all = functional_spectrum_stubs()
    stubs.update(flag_stubs(None))
    stubs['MSSMNoFV_onshell::find_bino_like_neutralino'] = lambda it_, a, t: POLE_IDX
    def bino_by_contract(it_, a, t):
        """callee contract of detail::find_bino_like_neutralino (proved on the real body by C05.selection.bino_like_neutralino): the first argmax of |ZN(i,0)|"""
        if not a:
            return POLE_IDX                      # the member function of the same name (selection among the POLE neutralinos)
        for k in range(4):
            if k == 3 or it_.decide(UnknownBool()):
                it_.sym.pc.append(first_argmax(a[0], k))
                if not it_.feasible(z3.BoolVal(True)):
                    from gm2v.interp import Infeasible
                    raise Infeasible()
                return k
    stubs['find_bino_like_neutralino'] = bino_by_contract
    stubs['detail::find_bino_like_neutralino'] = bino_by_contract
    it = Interp(ctx.w, mode='sym', stubs=stubs, div_sides=False)
    it.nonfinite_unknown = True
    it.loop_contracts[('MSSMNoFV_onshell::convert_Mu_M1_M2', frozenset({'precision_goal', 'max_iterations'}))] = LoopContract(
        modifies=['bino_idx_DR', 'MChi_goal', 'precision', 'it', 'this.MassB', 'this.MassWB', 'this.Mu', 'this.MCha', 'this.MChi', 'this.ZN', 'this.UM', 'this.UP'],
        invariant=mu_invariant, choices={'bino_idx_DR': [0, 1, 2, 3]},
        variant=lambda it_, fr: maxit - z3real(fr.lookup('it').v))
    def thunk():
        m = model(it)
        m.f['verbose_output'] = False
        calc_all(it, [], m)                      # precondition: spectrum up to date
        pole_cha, pole_chi = deep_copy(m.f['physical'].f['MCha']), deep_copy(m.f['physical'].f['MChi'])
        it.call_method(m, 'convert_Mu_M1_M2', [goal, maxit])
        return (m, pole_cha, pole_chi)
    ps = it.run_paths(thunk, max_paths=20000)
    ctx.merge_rules(it)
    n_ret = n_body = 0
    for j, (s, r, e) in enumerate(ps):
        tag = 'path%d' % j
        if e is not None:
            ctx.record(tag, FAILED, 'B', 0, 'unexpected exception %s' % e)
            continue
        for i, (guards, cond, desc) in enumerate(s.sides):
            ctx.prove('%s.side%d' % (tag, i), list(guards) + list(s.axioms), cond if is_sym(cond) else z3.BoolVal(bool(cond)), kind='loop:' + desc, check_vacuity=False)
        if isinstance(r, PathEnd):
            n_body += 1
            continue
        n_ret += 1
        m, pole_cha, pole_chi = r
        flags = [x for x in s.effects if isinstance(x, tuple) and x and x[0] in FLAG_METHODS]
        if len(flags) != 1 or flags[0][0] not in ('flag_no_convergence_Mu_MassB_MassWB', 'unflag_no_convergence_Mu_MassB_MassWB'):
            ctx.record(tag + '.flags', FAILED, 'B', 0, 'flag operations on this path: %s (expected exactly one, on the Mu/M1/M2 flag)' % ([x[0] for x in flags],))
            continue
        # which pole neutralino was selected on this path (the stub's choice is the first UnknownBool decisions): recover it from the goal relation
        fin = m.f
        dists = []
        for k in range(4):
            for pk in range(4):
                dists.append((k, pk))
        cha_d = [absz_(z3real(pole_cha.get(i, 0)) - z3real(fin['MCha'].get(i, 0))) for i in range(2)]
        pidx = s.pole_idx if hasattr(s, 'pole_idx') else None
        # final bino index: first argmax of the final mixing matrix (spec of the selection function)
        claims = []
        for k in range(4):
            chi_d = [absz_(z3real(pole_chi.get(pk, 0)) - z3real(fin['MChi'].get(k, 0))) for pk in range(4)]
            claims.append((k, chi_d))
        pk = POLE_IDX
        per_k = []
        for k, chi_d in claims:
            dk = [cha_d[0], cha_d[1], chi_d[pk]]
            if flags[0][0].startswith('unflag'):
                per_k.append(z3.Implies(first_argmax(fin['ZN'], k), z3.And(*[d <= goal for d in dk])))
            else:
                p = z3real(flags[0][1][0])
                per_k.append(z3.Implies(first_argmax(fin['ZN'], k), z3.And(z3.Or(*[p == d for d in dk]), z3.And(*[p >= d for d in dk]))))
        ctx.prove(tag + '.warn_or_fit', list(s.pc) + list(s.axioms), z3.And(*per_k), kind='post', check_vacuity=False)
    ctx.record('paths', PROVED if n_ret >= 2 and n_body >= 1 else FAILED, 'B', 0, '%d paths return, %d paths check one arbitrary iteration of the body' % (n_ret, n_body))
  return ob

for _k in range(4):
    make_mu_loop_contract(_k)

# ---- from the loop contract to the flag: the wrappers and convert_me2 -----------------------------------------------------------------------------------
def smuon_distance(it, f, pole):
    """|MSm(k) - sorted pole mass(k)| with k the right-like smuon of the CURRENT mixing matrix (the real selection function)"""
    k = right_index_of(it, f['ZM'])
    p0, p1 = z3real(pole.get(0, 0)), z3real(pole.get(1, 0))
    sp = [z3.If(p0 <= p1, p0, p1), z3.If(p0 <= p1, p1, p0)]
    d = z3real(f['MSm'].get(k, 0)) - sp[k]
    return z3.If(d >= 0, d, -d)

def achieved_precision_contract(name, cnt):
    """callee contract shared by convert_me2_fpi_modify (PROVED: C05.loop_contract.convert_me2_fpi_modify) and convert_me2_root_modify (PROVED:
    C05.achieved_precision.convert_me2_root_modify, with boost's TOMS748 root finder by an assumed contract): writes me2(1,1), MSm, ZM; returns DBL_MAX or the
    distance of the right-like smuon of the resulting spectrum from its pole mass"""
    def stub(it, a, this):
        cnt[0] += 1
        this.f['me2'].set(1, 1, z3.Real('me2!%s!%d' % (name, cnt[0])))
        this.f['MSm'] = Mat(2, 1, [[z3.Real('MSm!%s!%d!%d' % (name, cnt[0], i))] for i in range(2)], 'array', False)
        this.f['ZM'] = rmat('zm!%s!%d!' % (name, cnt[0]), 2, 2)
        p = z3.Real('p!%s!%d' % (name, cnt[0]))
        d = smuon_distance(it, this.f, this.f['physical'].f['MSm'])
        it.sym.pc.append(z3.Or(p == to_z3(DBL_MAX), p == d))
        it.sym.effects.append((name, tuple(a)))
        return p
    return stub

def make_wrapper(wrapper, callee, assumed):
    @obligation('C05.achieved_precision.%s' % wrapper, fns=[(OS, 'MSSMNoFV_onshell::' + wrapper)], replay=lambda m, wd: sweep_replay(m, wd))
    def ob(ctx):
        """ensures (callee %s by its contract%s): the wrapper returns DBL_MAX, or exactly the distance of the right-like smuon of the spectrum it leaves behind
        from its pole mass -- also on the path that resets mse2(2,2) after a non-finite intermediate (that path returns DBL_MAX)"""
        goal, maxit = z3.Real('precision_goal'), z3.Real('max_iterations')
        cnt = [0]
        stubs = smuon_stubs(cnt)
        stubs.update(flag_stubs(None))
        st = achieved_precision_contract(callee, cnt)
        stubs['MSSMNoFV_onshell::' + callee] = st
        stubs[callee] = st
        it = Interp(ctx.w, mode='sym', stubs=stubs, div_sides=False)
        it.nonfinite_unknown = True
        def thunk():
            m = model(it)
            m.f['verbose_output'] = False
            r = it.call_method(m, wrapper, [goal, maxit])
            return (r, smuon_distance(it, m.f, m.f['physical'].f['MSm']))
        ps = it.run_paths(thunk, max_paths=200)
        ctx.merge_rules(it)
        for j, (s, r, e) in enumerate(ps):
            if e is not None:
                ctx.record('path%d' % j, FAILED, 'B', 0, 'unexpected exception %s' % e)
                continue
            ret, d = r
            ctx.prove('path%d' % j, list(s.pc) + list(s.axioms), z3.Or(z3real(ret) == to_z3(DBL_MAX), z3real(ret) == d), check_vacuity=False)
        ctx.record('paths', PROVED if len(ps) >= 2 else FAILED, 'B', 0, '%d paths' % len(ps))
        if assumed:
            ctx.assume_note('ASSUMED callee contract: %s returns DBL_MAX or the distance of the resulting right-like smuon from its pole mass (boost TOMS748 + local functor class: outside the extractor)' % callee)
    ob.__doc__ = ob.__doc__ % (callee, ' -- ASSUMED' if assumed else ', proved by C05.%s.%s' % ('loop_contract' if 'fpi' in callee else 'achieved_precision', callee))
    return ob

make_wrapper('convert_me2_fpi', 'convert_me2_fpi_modify', False)
make_wrapper('convert_me2_root', 'convert_me2_root_modify', False)

@obligation('C05.warn_or_fit.me2.spectrum', fns=[(OS, 'MSSMNoFV_onshell::convert_me2')], replay=lambda m, wd: sweep_replay(m, wd))
def _(ctx):
    """ensures (callees convert_me2_fpi / convert_me2_root by the contract C05.achieved_precision.* proves for them; precision_goal < DBL_MAX): if convert_me2
    leaves the me2 flag cleared, the right-like smuon of the spectrum it leaves behind is within the goal of its pole mass -- warn-or-fit stated on the
    final state, for any number of iterations of either method"""
    goal, maxit = z3.Real('precision_goal'), z3.Real('max_iterations')
    cnt = [0]
    stubs = flag_stubs(None)
    for w_ in ('convert_me2_fpi', 'convert_me2_root'):
        st = achieved_precision_contract(w_, cnt)
        stubs['MSSMNoFV_onshell::' + w_] = st
        stubs[w_] = st
    it = Interp(ctx.w, mode='sym', stubs=stubs, div_sides=False)
    def thunk():
        m = model(it)
        m.f['verbose_output'] = False
        it.call_method(m, 'convert_me2', [goal, maxit])
        return smuon_distance(it, m.f, m.f['physical'].f['MSm'])
    ps = it.run_paths(thunk, max_paths=200)
    ctx.merge_rules(it)
    n_unflag = 0
    for j, (s, d, e) in enumerate(ps):
        if e is not None:
            ctx.record('path%d' % j, FAILED, 'B', 0, 'unexpected exception %s' % e)
            continue
        flags = [x for x in s.effects if isinstance(x, tuple) and x and x[0] in FLAG_METHODS]
        if len(flags) != 1 or flags[0][0] not in ('flag_no_convergence_me2', 'unflag_no_convergence_me2'):
            ctx.record('path%d.flags' % j, FAILED, 'B', 0, 'flag operations on this path: %s' % ([x[0] for x in flags],))
            continue
        if flags[0][0].startswith('unflag'):
            n_unflag += 1
            ctx.prove('path%d.fit' % j, [goal < to_z3(DBL_MAX)] + list(s.pc) + list(s.axioms), d <= goal, check_vacuity=False)
        else:
            ctx.record('path%d.warned' % j, PROVED, 'B', 0, 'the warning is set on this path')
    ctx.record('paths', PROVED if n_unflag >= 2 else FAILED, 'B', 0, '%d paths, %d leave the flag cleared' % (len(ps), n_unflag))

# Contracts on single calls carry over to every call in a process only if no function keeps state between calls: C19's static-frame obligation is a lemma here.
from contracts.shared import reregister as _rr_static
from contracts import c19 as _c19_static
_rr_static('C05', 'C19', 'C19.no_stateful_local_statics', 'C05.lemma.no_state_between_calls', replay=None)

# ---- the root-finder variant: convert_me2_root_modify under contract (only boost's TOMS748 itself stays assumed) ------------------------------------------
def functional_smuon_stubs():
    """callee contract of calculate_MSm for the root-finder variant: MSm and ZM are (uninterpreted) FUNCTIONS of the parameters the smuon mass matrix reads, so the
    copy of the model inside the local functor and the model itself have the same spectrum for the same mse2(2,2)"""
    def calc_MSm(it, a, this):
        f = this.f
        ye = f['Ye'].get(1, 1)
        tye = f['TYe'].get(1, 1)
        pars = [z3real(f['me2'].get(1, 1)), z3real(f['ml2'].get(1, 1)), z3real(f['vd']), z3real(f['vu']), z3real(f['g1']), z3real(f['g2']), z3real(f['Mu']),
                z3real(ye.re if isinstance(ye, Cx) else ye), z3real(ye.im if isinstance(ye, Cx) else 0), z3real(tye.re if isinstance(tye, Cx) else tye), z3real(tye.im if isinstance(tye, Cx) else 0)]
        U = lambda n: _spec_fn(n, len(pars))(*pars)
        f['MSm'] = Mat(2, 1, [[U('MSm_fn_%d' % i)] for i in range(2)], 'array', False)
        f['ZM'] = Mat(2, 2, [[U('ZM_fn_%d%d' % (i, j)) for j in range(2)] for i in range(2)], 'matrix', False)
        return None
    return {'MSSMNoFV_onshell_mass_eigenstates::calculate_MSm': calc_MSm, 'calculate_MSm': calc_MSm}, calc_MSm

@obligation('C05.achieved_precision.convert_me2_root_modify', fns=[(OS, 'MSSMNoFV_onshell::convert_me2_root_modify'), (OS, 'Difference_MSm::operator()'), (OS, 'find_right_like_smuon')],
            replay=lambda m, wd: sweep_replay(m, wd))
def _(ctx):
    """ensures (precondition: the smuon spectrum is up to date; ASSUMED: boost::math::tools::toms748_solve returns a bracket (a, b) or throws std::exception, and touches
    the model only through the COPY held by the functor it is given): the value returned is exactly |MSm(k) - sorted pole mass(k)| of the spectrum the function leaves
    behind, k = find_right_like_smuon(final ZM) -- on the path where the root finder throws as well (mse2(2,2) is then unchanged).  The local functor class
    Difference_MSm (copy of the model, operator()) is real code executed symbolically; calculate_MSm by the contract 'the smuon spectrum is a function of the
    parameters of its mass matrix'"""
    goal, maxit = z3.Real('precision_goal'), z3.Real('max_iterations')
    stubs, calc = functional_smuon_stubs()
    stubs.update(flag_stubs(None))
    def toms(it_, a, t):
        if it_.decide(UnknownBool()):
            raise Thrown('std::exception', 'root finder failed')
        return (z3.Real('bracket_lo'), z3.Real('bracket_hi'))
    stubs['boost::math::tools::toms748_solve'] = toms
    stubs['toms748_solve'] = toms
    it = Interp(ctx.w, mode='sym', stubs=stubs, div_sides=False)
    def thunk():
        m = model(it)
        m.f['verbose_output'] = False
        calc(it, [], m)
        r = it.call_method(m, 'convert_me2_root_modify', [goal, maxit])
        return (r, smuon_distance(it, m.f, m.f['physical'].f['MSm']), deep_copy(m.f['me2']))
    ps = it.run_paths(thunk, max_paths=200)
    ctx.merge_rules(it)
    ctx.assume_note('ASSUMED callee contract: boost::math::tools::toms748_solve(f, a, b, tol, it) returns a pair or throws std::exception; it evaluates only the functor copy it is given')
    n = 0
    for j, (s, r, e) in enumerate(ps):
        if e is not None:
            ctx.record('path%d' % j, FAILED, 'B', 0, 'exception %s escapes' % e)
            continue
        ret, d, me2 = r
        n += 1
        ctx.prove('path%d.returns_distance_of_final_spectrum' % j, list(s.pc) + list(s.axioms), z3real(ret) == d, check_vacuity=False)
    ctx.record('paths', PROVED if n >= 4 else FAILED, 'B', 0, '%d paths (root found / root finder throws) x (right-like smuon index 0 / 1 ...)' % n)

# ------------------------------------------------------------------------------------------------ the scheme-defining relations of the SM-like inputs
SCHEME_REPLAY = r'''
#include "gm2calc/MSSMNoFV_onshell.hpp"
#include "gm2calc/gm2_error.hpp"
#include <cstdio>
#include <cmath>
// after convert_to_onshell the vector-boson masses of the fitted parameters are the input pole masses, tan(beta) is the input, the tree-level pseudoscalar mass is MA0 and the
// tree-level first/second generation masses are the inputs
int main() {
   int bad = 0;
   for (double tb : {2.0, 10.0, 50.0}) for (double ma : {300.0, 1500.0}) for (double mw : {80.385, 79.0}) {
      gm2calc::MSSMNoFV_onshell m; const double Pi = 3.141592653589793;
      const Eigen::Matrix<double,3,3> one = Eigen::Matrix<double,3,3>::Identity();
      m.set_alpha_MZ(0.0077552); m.set_alpha_thompson(0.00729735); m.set_g3(std::sqrt(4 * Pi * 0.1184));
      m.get_physical().MFt = 173.34; m.get_physical().MFb = 4.18; m.get_physical().MFm = 0.1056583715; m.get_physical().MFtau = 1.777;
      m.get_physical().MVWm = mw; m.get_physical().MVZ = 91.1876; m.get_physical().MAh(1) = ma;
      m.set_TB(tb); m.set_Mu(500); m.set_MassB(200); m.set_MassWB(400); m.set_MassG(2000);
      m.set_mq2(7000. * 7000 * one); m.set_ml2(500. * 500 * one); m.set_md2(7000. * 7000 * one); m.set_mu2(7000. * 7000 * one); m.set_me2(520. * 520 * one);
      m.set_Au(2, 2, 0); m.set_Ad(2, 2, 0); m.set_Ae(1, 1, 0); m.set_Ae(2, 2, 0); m.set_scale(1000);
      try { m.convert_to_onshell(); } catch (const gm2calc::Error& e) { std::printf("exception %s\n", e.what()); continue; }
      const double v2 = m.get_vu() * m.get_vu() + m.get_vd() * m.get_vd();
      const double d[5] = {std::fabs(m.get_MVWm() - mw) / mw, std::fabs(m.get_MVZ() - 91.1876) / 91.1876, std::fabs(m.get_vu() / m.get_vd() - tb) / tb,
                           std::fabs(std::sqrt(m.get_BMu() * (tb + 1 / tb)) - ma) / ma, std::fabs(0.5 * m.get_g2() * std::sqrt(v2) - mw) / mw};
      for (int i = 0; i < 5; i++) if (!(d[i] <= 1e-12)) { bad++; std::printf("tan(beta)=%g MA=%g MW=%g: relation %d off by %.3g (0: MW, 1: MZ, 2: tan beta, 3: MA, 4: g2 v/2)\n", tb, ma, mw, i, d[i]); }
   }
   std::printf("%d relations violated\n", bad);
   return bad ? 1 : 0;
}
'''

def scheme_replay(model_, wd):
    from gm2v import native
    import subprocess
    exe = native.build_against_library(wd, SCHEME_REPLAY)
    r = subprocess.run([exe], capture_output=True, text=True, timeout=300)
    return r.returncode == 1, r.stdout.strip()[-1500:]

@obligation('C05.scheme.gauge_sector_and_vev', fns=[(OS, 'MSSMNoFV_onshell::convert_gauge_couplings'), (OS, 'MSSMNoFV_onshell::convert_vev'), (OS, 'MSSMNoFV_onshell::convert_BMu'),
                                                     (OS, 'MSSMNoFV_onshell::set_TB'), (OS, 'MSSMNoFV_onshell::get_vev'), (OS, 'MSSMNoFV_onshell::convert_yukawa_couplings_treelevel'),
                                                     (ME, 'MSSMNoFV_onshell_mass_eigenstates::get_mass_matrix_VWm'), (ME, 'MSSMNoFV_onshell_mass_eigenstates::get_mass_matrix_VZ')],
            replay=scheme_replay)
def _(ctx):
    """ensures for all MZ > MW > 0, e > 0, tan(beta) > 0 (the scheme-defining relations of the SM-like inputs): after convert_gauge_couplings(); convert_vev() the REAL
    gauge-boson mass matrices of the model evaluate to MW^2 and MZ^2 (the pole masses), vu/vd == tan(beta), g2 == e/sin(theta_W) with cos(theta_W) = MW/MZ; convert_BMu() gives
    B mu (tan(beta) + 1/tan(beta)) == MA0^2; set_TB() keeps vu^2 + vd^2 == (2 MW/g2)^2 with vu/vd == tan(beta); convert_yukawa_couplings_treelevel() gives
    y_f v_f/sqrt(2) == m_f for all nine fermions and T_f == Y_f A_f"""
    it = Interp(ctx.w, mode='sym', div_sides=True)
    def fresh():
        m = model(it)
        m.f['verbose_output'] = False
        return m
    def run1(seq, post):
        def thunk():
            m = fresh()
            for fn in seq:
                it.call_method(m, fn[0], fn[1])
            return m
        ps = it.run_paths(thunk, max_paths=50)
        return ps
    # ---- gauge couplings and VEVs
    def thunk():
        m = fresh()
        f = m.f
        tb0 = z3real(f['vu']) / z3real(f['vd'])
        it.call_method(m, 'convert_gauge_couplings', [])
        it.call_method(m, 'convert_vev', [])
        mw2 = it.call_method(m, 'get_mass_matrix_VWm', [])
        mz2 = it.call_method(m, 'get_mass_matrix_VZ', [])
        return (m, tb0, mw2, mz2)
    ps = it.run_paths(thunk, max_paths=50)
    ctx.merge_rules(it)
    n = 0
    for k, (s, r, e) in enumerate(ps):
        if e is not None:
            if e.cls == 'EInvalidInput':
                continue       # vd == 0: documented rejection in get_TB
            ctx.record('gauge.path%d' % k, FAILED, 'B', 0, 'exception %s' % e)
            continue
        m, tb0, mw2, mz2 = r
        f = m.f
        MW, MZ, EL = z3real(f['physical'].f['MVWm']), z3real(f['physical'].f['MVZ']), z3real(f['EL'])
        pre = [MW > 0, MZ > MW, EL > 0, tb0 > 0, z3real(ps[k][1][0].f['vd']) != 0]
        n += 1
        ax = list(s.pc) + list(s.axioms)
        m0 = ps[k][1][0].f
        pins = [{z3.Real('m.physical.MVWm'): Fr(80), z3.Real('m.physical.MVZ'): Fr(91), z3.Real('m.EL'): Fr(3, 10), z3.Real('m.vu'): Fr(240), z3.Real('m.vd'): Fr(24)},
                {z3.Real('m.physical.MVWm'): Fr(40), z3.Real('m.physical.MVZ'): Fr(50), z3.Real('m.EL'): Fr(1, 2), z3.Real('m.vu'): Fr(100), z3.Real('m.vd'): Fr(100)}]
        ctx.prove('gauge.path%d.MW_reproduced' % k, pre + ax, z3real(mw2) == MW * MW, check_vacuity=False, tactics=('default', 'nlsat'), pins=pins)
        ctx.prove('gauge.path%d.MZ_reproduced' % k, pre + ax, z3real(mz2) == MZ * MZ, check_vacuity=False, tactics=('default', 'nlsat'), pins=pins)
        ctx.prove('gauge.path%d.tan_beta_kept' % k, pre + ax, z3real(f['vu']) == tb0 * z3real(f['vd']), check_vacuity=False, tactics=('default', 'nlsat'), pins=pins)
        ctx.prove('gauge.path%d.weak_mixing_angle' % k, pre + ax, z3.And(z3real(f['g2']) > 0, z3real(f['g2']) * z3real(f['g2']) * (MZ * MZ - MW * MW) == EL * EL * MZ * MZ), check_vacuity=False, tactics=('default', 'nlsat'))
        ctx.sides('gauge.path%d' % k, s, pre)
    ctx.record('gauge.paths', PROVED if n >= 1 else FAILED, 'B', 0, '%d paths' % n)
    # ---- B mu
    def thunk2():
        m = fresh()
        it.call_method(m, 'convert_BMu', [])
        return m
    ps = it.run_paths(thunk2, max_paths=20)
    for k, (s, r, e) in enumerate(ps):
        if e is not None:
            continue
        f = r.f
        tb = z3real(f['vu']) / z3real(f['vd'])
        MA = z3real(f['physical'].f['MAh'].get(1, 0))
        ctx.prove('BMu.path%d' % k, [tb > 0, z3real(f['vd']) != 0] + list(s.pc) + list(s.axioms), z3real(f['BMu']) * (tb + 1 / tb) == MA * MA, check_vacuity=False)
    # ---- set_TB
    tbn = z3.Real('tan_beta_new')
    def thunk3():
        m = fresh()
        it.call_method(m, 'set_TB', [tbn])
        return m
    ps = it.run_paths(thunk3, max_paths=20)
    for k, (s, r, e) in enumerate(ps):
        if e is not None:
            continue
        f = r.f
        MW, MZ, EL = z3real(f['physical'].f['MVWm']), z3real(f['physical'].f['MVZ']), z3real(f['EL'])
        pre = [MW > 0, MZ > MW, EL > 0, tbn > 0]
        vu, vd = z3real(f['vu']), z3real(f['vd'])
        ctx.prove('set_TB.path%d' % k, pre + list(s.pc) + list(s.axioms), z3.And(vu == tbn * vd, vd > 0, (vu * vu + vd * vd) * EL * EL * MZ * MZ == 4 * MW * MW * (MZ * MZ - MW * MW)),
                  check_vacuity=False, tactics=('default', 'nlsat'))
    # ---- tree-level Yukawa couplings
    def thunk4():
        m = fresh()
        it.call_method(m, 'convert_yukawa_couplings_treelevel', [])
        return m
    ps = it.run_paths(thunk4, max_paths=20)
    for k, (s, r, e) in enumerate(ps):
        if e is not None:
            continue
        f = r.f
        ph = f['physical'].f
        root2 = z3.Real('c_SQRT2')
        pairs = []
        masses = {'Ye': [ph['MFe'], ph['MFm'], ph['MFtau']], 'Yu': [ph['MFu'], ph['MFc'], ph['MFt']], 'Yd': [ph['MFd'], ph['MFs'], f['mb_DRbar_MZ']]}
        for nm, vev in (('Ye', 'vd'), ('Yu', 'vu'), ('Yd', 'vd')):
            Y = f[nm]
            for g in range(3):
                mf = masses[nm][g]
                y = Y.get(g, g)
                y = y.re if isinstance(y, Cx) else y
                if mf is not None:
                    pairs.append((z3real(y) * z3real(f[vev]), root2 * z3real(mf)))
                for g2 in range(3):
                    if g2 != g:
                        o = Y.get(g, g2)
                        pairs.append((z3real(o.re if isinstance(o, Cx) else o), z3.RealVal(0)))
        ctx.prove('yukawa_treelevel.path%d' % k, [z3real(f['vd']) != 0, z3real(f['vu']) != 0, root2 * root2 == 2, root2 > 0] + list(s.pc) + list(s.axioms),
                  z3.And(*[a == b for a, b in pairs]), check_vacuity=False)
