"""C05 -- DR-bar to on-shell conversion reproduces the input pole masses or warns: the part that contracts decide.

The conversion is an iteration around LAPACK-style diagonalisations; its convergence on a given input is not a contract-level statement.
What is under contract (src/MSSMNoFV/MSSMNoFV_onshell.cpp):
  selection     : find_right_like_smuon(ZM) returns the index of the state with the larger right-handed component (for a unitary ZM);
                  detail::find_bino_like_neutralino(ZN) the index of the largest |ZN(i,0)| (complex modulus); the member function applies it to the pole
                  mixing matrix whenever that is filled
  inversion     : convert_ml2 makes the sneutrino mass matrix exactly MSvmL_pole^2 (ring identity through the real mass-matrix function);
                  the fixed-point updates invert the right entries: X(0,0) -> MassWB, X(1,1) -> Mu, Y(0,0) -> MassB, and the me2 update subtracts exactly the
                  D-/F-term part of the (1,1) entry of the real smuon mass matrix
  warn-or-fit   : convert_me2 and convert_Mu_M1_M2 leave their warning flag set exactly when the achieved precision exceeds the goal, write no other flag,
                  and pass the achieved precision on (exception/flag effects as ghost traces; the Mu/M1/M2 loop is unrolled up to 2 iterations over
                  havocked spectra -- BOUNDED in the iteration count, the flag logic after the loop does not depend on it)
  preservation  : the steps of convert_to_onshell that follow a fit do not write anything the fitted mass matrix reads (write frame of the later steps
                  disjoint from the read frame of the fitted matrix)
Not decided: convergence itself, the accuracy of the diagonalisations (A-LINALG), parameter recovery and conditioning (numerical statements).
"""
import z3
from fractions import Fraction as Fr
from gm2v.ob import obligation, PROVED, FAILED, UNDECIDED, ERROR
from gm2v.interp import Interp, Thrown, Cell
from gm2v.values import to_z3, z3real, is_sym, Mat, Cx, Obj, deep_copy
from gm2v.symobj import symbolic_fields
from gm2v import ring

OS = 'src/MSSMNoFV/MSSMNoFV_onshell.cpp'
ME = 'src/MSSMNoFV/MSSMNoFV_onshell_mass_eigenstates.cpp'

def noop(it, args, this):
    return None

def cmat(name, r, c):
    return Mat(r, c, [[Cx(z3.Real('%s%d%dr' % (name, i, j)), z3.Real('%s%d%di' % (name, i, j))) for j in range(c)] for i in range(r)], 'matrix', True)

def rmat(name, r, c):
    return Mat(r, c, [[z3.Real('%s%d%d' % (name, i, j)) for j in range(c)] for i in range(r)], 'matrix', False)

def mod2(x):
    return z3real(x.re) * z3real(x.re) + z3real(x.im) * z3real(x.im) if isinstance(x, Cx) else z3real(x) * z3real(x)

# ------------------------------------------------------------------------------------------------ selection
@obligation('C05.selection.right_like_smuon', fns=[(OS, 'find_right_like_smuon')])
def _(ctx):
    """ensures (ZM orthogonal): the returned index k is the mass eigenstate with the larger right-handed component, ZM(k,1)^2 >= ZM(1-k,1)^2"""
    it = Interp(ctx.w, mode='sym')
    ZM = rmat('zm', 2, 2)
    g = lambda i, j: z3real(ZM.get(i, j))
    unitary = [g(0, 0)**2 + g(0, 1)**2 == 1, g(1, 0)**2 + g(1, 1)**2 == 1, g(0, 0) * g(1, 0) + g(0, 1) * g(1, 1) == 0,
               g(0, 0)**2 + g(1, 0)**2 == 1, g(0, 1)**2 + g(1, 1)**2 == 1]
    ps = it.run_paths(lambda: it.call('find_right_like_smuon', [ZM], file=OS))
    ctx.merge_rules(it)
    for k, (s, r, e) in enumerate(ps):
        r = z3real(r)
        claim = z3.And(z3.Or(r == 0, r == 1),
                       z3.Implies(r == 0, g(0, 1)**2 >= g(1, 1)**2), z3.Implies(r == 1, g(1, 1)**2 >= g(0, 1)**2))
        ctx.prove('path%d' % k, unitary + s.pc, claim)

def bino_claim(ZN, r):
    return z3.And(*[z3.Implies(z3real(r) == k, z3.And(*[mod2(ZN.get(k, 0)) >= mod2(ZN.get(i, 0)) for i in range(4)])) for k in range(4)] +
                  [z3.Or(*[z3real(r) == k for k in range(4)])])

@obligation('C05.selection.bino_like_neutralino', fns=[(OS, 'detail::find_bino_like_neutralino'), (OS, 'MSSMNoFV_onshell::find_bino_like_neutralino')])
def _(ctx):
    """ensures: detail::find_bino_like_neutralino(ZN) returns k with |ZN(k,0)| >= |ZN(i,0)| for all i (COMPLEX modulus: for M1 < 0 the bino column is imaginary);
    the member function returns exactly that for the pole mixing matrix when it is filled (max |ZN_pole| >= eps), else for the DR-bar one"""
    it = Interp(ctx.w, mode='sym')
    ZN = cmat('n', 4, 4)
    ps = it.run_paths(lambda: it.call('detail::find_bino_like_neutralino', [ZN], file=OS))
    ctx.merge_rules(it)
    for k, (s, r, e) in enumerate(ps):
        ctx.prove('free.path%d' % k, s.pc, bino_claim(ZN, r), check_vacuity=False)
    ctx.record('free.paths', PROVED if len(ps) >= 4 else FAILED, 'B', 0, '%d paths' % len(ps))
    # member
    stubs = {'MSSMNoFV_onshell_mass_eigenstates::calculate_MChi': noop, 'calculate_MChi': noop}
    it2 = Interp(ctx.w, mode='sym', stubs=stubs)
    m = it2.new_object('MSSMNoFV_onshell', symbolic_fields(None, prefix='m.'))
    ZP = cmat('p', 4, 4)
    ZD = cmat('d', 4, 4)
    m.f['physical'].f['ZN'] = ZP
    m.f['ZN'] = ZD
    # pole matrix filled: some entry with |.| >= 1/2  (a unitary matrix has one in every column)
    filled = [mod2(ZP.get(0, 0)) >= Fr(1, 4)]
    it2.assumptions = list(filled)
    ps = it2.run_paths(lambda: it2.call_method(m, 'find_bino_like_neutralino', []), max_paths=3000)
    ctx.merge_rules(it2)
    bad = 0
    for k, (s, r, e) in enumerate(ps):
        st = ctx.prove('member.pole.path%d' % k, filled + s.pc, bino_claim(ZP, r), check_vacuity=False)
    ctx.record('member.pole.paths', PROVED if ps else ERROR, 'B', 0, '%d feasible paths with a filled pole mixing matrix' % len(ps))

# ------------------------------------------------------------------------------------------------ inversion identities
def model(it, prefix='m.'):
    return it.new_object('MSSMNoFV_onshell', symbolic_fields(None, prefix=prefix))

@obligation('C05.inversion.ml2', fns=[(OS, 'MSSMNoFV_onshell::convert_ml2'), (ME, 'MSSMNoFV_onshell_mass_eigenstates::get_mass_matrix_SvmL')])
def _(ctx):
    """ensures: after convert_ml2 the (real) sneutrino mass matrix equals MSvmL_pole^2 exactly, for all couplings and VEVs"""
    stubs = {'MSSMNoFV_onshell_mass_eigenstates::calculate_MSvmL': noop, 'calculate_MSvmL': noop, 'std::isfinite': lambda it, a, t: True}
    it = Interp(ctx.w, mode='sym', stubs=stubs, div_sides=False)
    m = model(it)
    m.f['verbose_output'] = False
    pole = m.f['physical'].f['MSvmL']
    def thunk():
        it.call_method(m, 'convert_ml2', [])
        return it.call_method(m, 'get_mass_matrix_SvmL', [])
    ps = it.run_paths(thunk, max_paths=20)
    ctx.merge_rules(it)
    for k, (s, r, e) in enumerate(ps):
        ctx.prove_ring('path%d' % k, [(r, z3real(pole) * z3real(pole))])
    ctx.record('paths', PROVED if ps else ERROR, 'B', 0, '%d paths' % len(ps))

@obligation('C05.inversion.fixed_point_entries', fns=[(ME, 'MSSMNoFV_onshell_mass_eigenstates::get_mass_matrix_Cha'), (ME, 'MSSMNoFV_onshell_mass_eigenstates::get_mass_matrix_Chi'),
                                                     (ME, 'MSSMNoFV_onshell_mass_eigenstates::get_mass_matrix_Sm'), (OS, 'MSSMNoFV_onshell::convert_me2_fpi_modify'),
                                                     (OS, 'MSSMNoFV_onshell::convert_Mu_M1_M2')])
def _(ctx):
    """ensures: the entries the fixed-point iterations assign are the entries of the real mass matrices: X_cha(0,0) == MassWB, X_cha(1,1) == Mu,
    Y_chi(0,0) == MassB, and M_smu(1,1) == me2(1,1) + (ymu^2 vd^2/2 - 0.15 g1^2 vd^2 + 0.15 g1^2 vu^2), the term convert_me2_fpi_modify subtracts"""
    it = Interp(ctx.w, mode='sym', div_sides=False)
    m = model(it)
    f = m.f
    X = it.run_paths(lambda: it.call_method(m, 'get_mass_matrix_Cha', []))[0][1]
    Y = it.run_paths(lambda: it.call_method(m, 'get_mass_matrix_Chi', []))[0][1]
    S = it.run_paths(lambda: it.call_method(m, 'get_mass_matrix_Sm', []))[0][1]
    ctx.merge_rules(it)
    ctx.prove_ring('Cha00_is_MassWB', [(X.get(0, 0), f['MassWB'])])
    ctx.prove_ring('Cha11_is_Mu', [(X.get(1, 1), f['Mu'])])
    ctx.prove_ring('Chi00_is_MassB', [(Y.get(0, 0), f['MassB'])])
    ye = f['Ye'].get(1, 1)
    ymu2 = mod2(ye) if isinstance(ye, Cx) else z3real(ye) * z3real(ye)
    g1, vd, vu = z3real(f['g1']), z3real(f['vd']), z3real(f['vu'])
    me211 = z3real(f['me2'].get(1, 1))
    ctx.prove_ring('Sm11', [(S.get(1, 1), me211 + (ymu2 * vd * vd / 2 - Fr(15, 100) * g1 * g1 * vd * vd + Fr(15, 100) * g1 * g1 * vu * vu))])
    # the code subtracts the same term (extracted from the real loop body by running one iteration with the spectrum havocked)
    sub = []
    def set_me2(it_, a, t):
        sub.append(list(a))
        return None
    stubs = {'MSSMNoFV_onshell_mass_eigenstates::calculate_MSm': noop, 'calculate_MSm': noop, 'std::isfinite': lambda it_, a, t: True,
             'find_right_like_smuon': lambda it_, a, t: 0}
    it2 = Interp(ctx.w, mode='sym', stubs=stubs, div_sides=False, feasibility=False)
    m2 = model(it2)
    m2.f['verbose_output'] = False
    cells = {}
    orig_set = None
    def thunk():
        return it2.call_method(m2, 'convert_me2_fpi_modify', [z3.Real('goal'), 1])
    ps = it2.run_paths(thunk, max_paths=64)
    ctx.merge_rules(it2)
    # find a path that performed one update: me2(1,1) differs from its initial symbol
    me0 = z3.Real('m.me2(1,1)')
    upd = None
    for s, r, e in ps:
        v = z3real(m2.f['me2'].get(1, 1)) if False else None
    # the final object state is shared between paths; re-run a single straight path instead
    it3 = Interp(ctx.w, mode='sym', stubs=stubs, div_sides=False, feasibility=False)
    m3 = model(it3)
    m3.f['verbose_output'] = False
    it3.prefix = []
    seen = []
    stubs3 = dict(stubs)
    def set_me2_rec(it_, a, this):
        seen.append(a)
        this.f['me2'].set(a[0], a[1], a[2])
        return None
    it3.stubs['MSSMNoFV_onshell_mass_eigenstates::set_me2'] = set_me2_rec
    it3.stubs['set_me2'] = set_me2_rec
    ps3 = it3.run_paths(lambda: it3.call_method(m3, 'convert_me2_fpi_modify', [z3.Real('goal'), 1]), max_paths=64)
    ctx.merge_rules(it3)
    if not seen:
        ctx.record('me2_update', ERROR, 'B', 0, 'no call of set_me2 observed in one iteration of the fixed-point loop')
        return
    a = seen[0]
    f3 = m3.f
    ZM = f3['ZM']
    pole = f3['physical'].f['MSm']
    g = lambda i, j: z3real(ZM.get(i, j))
    # M = ZM^T diag(goal^2) ZM with goal = pole masses (sort and selection stubbed: identity / index 0)
    p0, p1 = z3real(pole.get(0, 0) if hasattr(pole, 'get') else pole[0]), z3real(pole.get(1, 0) if hasattr(pole, 'get') else pole[1])
    M11 = g(0, 1) * g(0, 1) * p0 * p0 + g(1, 1) * g(1, 1) * p1 * p1
    ye3 = f3['Ye'].get(1, 1)
    ymu2_3 = mod2(ye3) if isinstance(ye3, Cx) else z3real(ye3) * z3real(ye3)
    g1_3, vd3, vu3 = z3real(f3['g1']), z3real(f3['vd']), z3real(f3['vu'])
    want = M11 - (ymu2_3 * vd3 * vd3 / 2 - Fr(15, 100) * g1_3 * g1_3 * vd3 * vd3 + Fr(15, 100) * g1_3 * g1_3 * vu3 * vu3)
    ok = a[0] == 1 and a[1] == 1
    ctx.record('me2_update.index', PROVED if ok else FAILED, 'B', 0, 'set_me2(%s,%s,.)' % (a[0], a[1]))
    # the pole masses are sorted first (std::sort on two elements = (min, max)); take them ascending: p0 <= p1
    val = z3real(a[2])
    conds = []
    def walk(t):
        if z3.is_app(t) and t.decl().kind() == z3.Z3_OP_ITE:
            c = t.arg(0)
            if not any(z3.eq(c, o) for o in conds):
                conds.append(c)
        for ch in t.children():
            walk(ch)
    walk(val)
    sv = z3.Solver()
    for c in conds:
        sv.push()
        sv.add(p0 <= p1, z3.Not(c))
        only_order = sv.check() == z3.unsat
        sv.pop()
        if not only_order:
            ctx.record('me2_update.value', UNDECIDED, 'B', 0, 'unexpected case split %s in the update' % c)
            return
    val = z3.simplify(z3.substitute(val, *[(c, z3.BoolVal(True)) for c in conds]))
    ctx.prove_ring('me2_update.value', [(val, want)])

# ------------------------------------------------------------------------------------------------ warn-or-fit
FLAG_METHODS = ['flag_no_convergence_me2', 'unflag_no_convergence_me2', 'flag_no_convergence_Mu_MassB_MassWB', 'unflag_no_convergence_Mu_MassB_MassWB',
                'clear', 'clear_warnings', 'clear_problems', 'flag_tachyon']

def flag_stubs(trace):
    st = {}
    for n in FLAG_METHODS:
        def mk(n):
            def f(it, a, this):
                it.sym.effects.append((n, tuple(a)))
                return None
            return f
        st['MSSMNoFV_onshell_problems::' + n] = mk(n)
    return st

@obligation('C05.warn_or_fit.me2', fns=[(OS, 'MSSMNoFV_onshell::convert_me2')])
def _(ctx):
    """ensures (callees convert_me2_fpi / convert_me2_root replaced by 'returns the achieved precision'): on every path exactly one flag operation happens,
    on the me2 flag only: flag_no_convergence_me2(achieved, max_iterations) if the finally achieved precision exceeds the goal, unflag_no_convergence_me2() otherwise;
    the root finder is tried exactly when the fixed-point iteration missed the goal"""
    p1, p2, goal = z3.Reals('p_fpi p_root goal')
    calls = []
    stubs = flag_stubs(None)
    stubs['MSSMNoFV_onshell::convert_me2_fpi'] = lambda it, a, t: (it.sym.effects.append(('fpi', tuple(a))), p1)[1]
    stubs['MSSMNoFV_onshell::convert_me2_root'] = lambda it, a, t: (it.sym.effects.append(('root', tuple(a))), p2)[1]
    it = Interp(ctx.w, mode='sym', stubs=stubs)
    m = model(it)
    ps = it.run_paths(lambda: it.call_method(m, 'convert_me2', [goal, 7]), max_paths=20)
    ctx.merge_rules(it)
    for k, (s, r, e) in enumerate(ps):
        eff = [x for x in s.effects if isinstance(x, tuple) and x and isinstance(x[0], str)]
        names = [x[0] for x in eff]
        flags = [x for x in eff if x[0] in FLAG_METHODS]
        final = p2 if 'root' in names else p1
        pc = z3.And(*s.pc) if s.pc else z3.BoolVal(True)
        ok_struct = len(flags) == 1 and flags[0][0] in ('flag_no_convergence_me2', 'unflag_no_convergence_me2') and names[0] == 'fpi'
        if not ok_struct:
            ctx.record('path%d' % k, FAILED, 'B', 0, 'flag operations on this path: %s (expected exactly one, on the me2 flag)' % (names,))
            continue
        flagged = flags[0][0] == 'flag_no_convergence_me2'
        claims = [(final > goal) == z3.BoolVal(flagged), ('root' in names) == z3.BoolVal(True) if False else z3.BoolVal(True)]
        claims.append(z3.BoolVal('root' in names) == (p1 > goal))
        if flagged:
            claims.append(z3real(flags[0][1][0]) == final)
        ctx.prove('path%d' % k, s.pc, z3.And(*claims), check_vacuity=False)
    ctx.record('paths', PROVED if len(ps) == 3 else FAILED, 'B', 0, '%d paths (fit by FPI / fit by root finder / no fit)' % len(ps))

def spectrum_stubs():
    """contracts of the spectrum routines used inside the Mu/M1/M2 iteration: the chargino/neutralino masses are FUNCTIONS of the current parameters
    (same parameters -> same masses); mixing matrices are arbitrary"""
    cnt = [0]
    def pars(this):
        f = this.f
        return [f['MassB'], f['MassWB'], f['Mu'], f['g1'], f['g2'], f['vd'], f['vu']]
    def calc_cha(it, a, this):
        cnt[0] += 1
        this.f['MCha'] = Mat(2, 1, [[it.uf('MCha%d' % i, *pars(this))] for i in range(2)], 'array', False)
        this.f['UM'] = cmat('um%d_' % cnt[0], 2, 2)
        this.f['UP'] = cmat('up%d_' % cnt[0], 2, 2)
        return None
    def calc_chi(it, a, this):
        cnt[0] += 1
        this.f['MChi'] = Mat(4, 1, [[it.uf('MChi%d' % i, *pars(this))] for i in range(4)], 'array', False)
        this.f['ZN'] = cmat('zn%d_' % cnt[0], 4, 4)
        return None
    def calc_all(it, a, this):
        calc_cha(it, a, this)
        calc_chi(it, a, this)
        return None
    return {'MSSMNoFV_onshell_mass_eigenstates::calculate_MCha': calc_cha, 'MSSMNoFV_onshell_mass_eigenstates::calculate_MChi': calc_chi,
            'MSSMNoFV_onshell_mass_eigenstates::calculate_DRbar_masses': calc_all, 'calculate_MCha': calc_cha, 'calculate_MChi': calc_chi,
            'calculate_DRbar_masses': calc_all}, calc_all

def make_mu_loop(n_it):
    @obligation('C05.warn_or_fit.Mu_M1_M2.max_iterations_%d' % n_it, fns=[(OS, 'MSSMNoFV_onshell::convert_Mu_M1_M2')])
    def ob(ctx):
        """ensures (BOUNDED in the iteration count: max_iterations = %d; spectrum routines replaced by 'masses are functions of the current parameters', bino index 0):
        on every path exactly one flag operation, on the Mu/M1/M2 flag; if the flag is cleared, the FINAL spectrum reproduces both chargino pole masses and the
        bino-like neutralino pole mass within the goal; if it is set, the reported precision is the distance of the final spectrum from those pole masses""" % n_it
        goal = z3.Real('goal')
        stubs, calc_all = spectrum_stubs()
        stubs.update(flag_stubs(None))
        stubs['find_bino_like_neutralino'] = lambda it, a, t: 0
        stubs['MSSMNoFV_onshell::find_bino_like_neutralino'] = lambda it, a, t: 0
        it = Interp(ctx.w, mode='sym', stubs=stubs, div_sides=False)
        m = model(it)
        m.f['verbose_output'] = False
        pole_cha = m.f['physical'].f['MCha']
        pole_chi = m.f['physical'].f['MChi']
        def thunk():
            calc_all(it, [], m)
            it.call_method(m, 'convert_Mu_M1_M2', [goal, n_it])
            return (m.f['MCha'], m.f['MChi'])
        ps = it.run_paths(thunk, max_paths=4000)
        ctx.merge_rules(it)
        absz = lambda t: z3.If(t >= 0, t, -t)
        for k, (s, r, e) in enumerate(ps):
            flags = [x for x in s.effects if isinstance(x, tuple) and x and x[0] in FLAG_METHODS]
            if len(flags) != 1 or flags[0][0] not in ('flag_no_convergence_Mu_MassB_MassWB', 'unflag_no_convergence_Mu_MassB_MassWB'):
                ctx.record('path%d' % k, FAILED, 'B', 0, 'flag operations on this path: %s (expected exactly one, on the Mu/M1/M2 flag)' % ([x[0] for x in flags],))
                continue
            cha, chi = r
            dist = [absz(z3real(pole_cha.get(i, 0)) - z3real(cha.get(i, 0))) for i in range(2)] + [absz(z3real(pole_chi.get(0, 0)) - z3real(chi.get(0, 0)))]
            if flags[0][0].startswith('unflag'):
                claim = z3.And(*[d <= goal for d in dist])
            else:
                p = z3real(flags[0][1][0])
                claim = z3.And(p > goal, z3.Or(*[p == d for d in dist]), z3.And(*[p >= d for d in dist]))
            ctx.prove('path%d' % k, s.pc + s.axioms, claim, check_vacuity=False)
        ctx.record('paths', PROVED if ps else ERROR, 'B', 0, '%d paths' % len(ps))
    return ob

for _n in (0, 1, 2):
    make_mu_loop(_n)

# ------------------------------------------------------------------------------------------------ preservation of the fitted masses by the later steps
from gm2v.cxx import ExprStmt, Call, Id, Member

def step_sequence(w):
    """the ordered calls that make up convert_to_onshell (extracted from the real body)"""
    fd = [f for f in w.find('MSSMNoFV_onshell::convert_to_onshell', OS)][0]
    seq = []
    for st in w.body(fd).stmts if hasattr(w.body(fd), 'stmts') else w.body(fd):
        if isinstance(st, ExprStmt) and isinstance(st.e, Call):
            f = st.e.f
            if isinstance(f, Id):
                seq.append(f.name)
            elif isinstance(f, Member):
                inner = f.e
                seq.append((inner.f.name if isinstance(inner, Call) and isinstance(inner.f, Id) else '?') + '().' + f.name)
    return seq

def snapshot(obj):
    out = {}
    for k, v in obj.f.items():
        if isinstance(v, Obj):
            for k2, v2 in snapshot(v).items():
                out[k + '.' + k2] = v2
        elif isinstance(v, Mat):
            for i in range(v.r):
                for j in range(v.c):
                    out['%s(%d,%d)' % (k, i, j)] = v.d[i][j]
        else:
            out[k] = v
    return out

def same(a, b):
    if isinstance(a, Cx) or isinstance(b, Cx):
        if not (isinstance(a, Cx) and isinstance(b, Cx)):
            return False
        return same(a.re, b.re) and same(a.im, b.im)
    if is_sym(a) or is_sym(b):
        try:
            return z3.eq(z3.simplify(z3real(a)), z3.simplify(z3real(b)))
        except Exception:
            return False
    return a == b

def step_stubs():
    """contracts of the diagonalisations inside the later steps: they write masses and mixings only (arbitrary values)"""
    cnt = [0]
    def havoc(*names):
        def f(it, a, this):
            cnt[0] += 1
            for n in names:
                v = this.f[n]
                if isinstance(v, Mat):
                    this.f[n] = Mat(v.r, v.c, [[(Cx(z3.Real('hv%d_%s%d%dr' % (cnt[0], n, i, j)), z3.Real('hv%d_%s%d%di' % (cnt[0], n, i, j))) if v.cplx else
                                                 z3.Real('hv%d_%s%d%d' % (cnt[0], n, i, j))) for j in range(v.c)] for i in range(v.r)], v.kind, v.cplx)
                else:
                    this.f[n] = z3.Real('hv%d_%s' % (cnt[0], n))
            return None
        return f
    st = {}
    for meth, names in (('calculate_MSm', ('MSm', 'ZM')), ('calculate_MSvmL', ('MSvmL',)), ('calculate_MCha', ('MCha', 'UM', 'UP')), ('calculate_MChi', ('MChi', 'ZN'))):
        st['MSSMNoFV_onshell_mass_eigenstates::' + meth] = havoc(*names)
        st[meth] = havoc(*names)
    st['std::isfinite'] = lambda it, a, t: True
    st['find_right_like_smuon'] = lambda it, a, t: 0
    # contract of the bracketing root finder: returns some bracket (it works on a COPY of the model held by the functor)
    st['boost::math::tools::toms748_solve'] = lambda it, a, t: (z3.Real('root_lo'), z3.Real('root_hi'))
    for n in ('Iabc', 'abs_sqrt', 'Fa', 'Fb'):
        st[n] = (lambda n: (lambda it, a, t: it.uf('fn_' + n, *a)))(n)
    return st

def writes_of(ctx, step):
    """fields of the model that `step' can change (any path), by symbolic execution with the diagonalisations havocking masses/mixings"""
    stubs = step_stubs()
    stubs.update(flag_stubs(None))
    it = Interp(ctx.w, mode='sym', stubs=stubs, div_sides=False, feasibility=False)
    m = model(it)
    m.f['verbose_output'] = False
    before = snapshot(m)
    args = {'convert_me2': [z3.Real('goal'), 1], 'convert_Mu_M1_M2': [z3.Real('goal'), 1]}.get(step, [])
    written = set()
    def thunk():
        mm = deep_copy(m)
        it.call_method(mm, step, list(args))
        return snapshot(mm)
    ps = it.run_paths(thunk, max_paths=500)
    ctx.merge_rules(it)
    for s, after, e in ps:
        if after is None:
            continue
        for k, v in after.items():
            if k not in before or not same(before[k], v):
                written.add(k)
    return written, len(ps)

def reads_of(ctx, getter):
    it = Interp(ctx.w, mode='sym', div_sides=False)
    m = model(it, prefix='')
    ps = it.run_paths(lambda: it.call_method(m, getter, []))
    syms = set()
    def walk(t):
        if z3.is_const(t) and t.decl().kind() == z3.Z3_OP_UNINTERPRETED:
            syms.add(t.decl().name())
        for c in t.children():
            walk(c)
    for s, r, e in ps:
        if isinstance(r, Mat):
            for row in r.d:
                for x in row:
                    for y in ((x.re, x.im) if isinstance(x, Cx) else (x,)):
                        if is_sym(y):
                            walk(z3real(y))
        elif is_sym(r):
            walk(z3real(r))
    ctx.merge_rules(it)
    return syms

FIT_REPLAY = r'''
#include "gm2calc/MSSMNoFV_onshell.hpp"
#include "gm2calc/gm2_error.hpp"
#include <cstdio>
#include <cmath>
#include <algorithm>
// the SLHA-type point of the repository's own conversion test (test_MSSMNoFV.cpp: setup_slha), for several tan(beta) and precision goals
int main() {
   int bad = 0;
   for (double tb : {5.0, 20.0, 40.0}) for (double eps : {1e-4, 1e-6, 1e-8, 1e-10}) {
      gm2calc::MSSMNoFV_onshell model;
      const double Pi = 3.141592653589793;
      const Eigen::Matrix<double,3,3> one = Eigen::Matrix<double,3,3>::Identity();
      model.set_alpha_MZ(0.0077552); model.set_alpha_thompson(0.00729735); model.set_g3(std::sqrt(4 * Pi * 0.1184));
      model.get_physical().MFt = 173.34; model.get_physical().MFb = 4.18; model.get_physical().MFm = 0.1056583715; model.get_physical().MFtau = 1.777;
      model.get_physical().MVWm = 80.385; model.get_physical().MVZ = 91.1876;
      model.get_physical().MSvmL = 5.18860573e+02; model.get_physical().MSm(0) = 5.05095249e+02; model.get_physical().MSm(1) = 5.25187016e+02;
      model.get_physical().MChi(0) = 2.01611468e+02; model.get_physical().MChi(1) = 4.10040273e+02; model.get_physical().MChi(2) = 5.16529941e+02; model.get_physical().MChi(3) = 5.45628749e+02;
      model.get_physical().MCha(0) = 4.09989890e+02; model.get_physical().MCha(1) = 5.46057190e+02; model.get_physical().MAh(1) = 1.5e+03;
      model.set_TB(tb); model.set_Mu(500); model.set_MassB(200); model.set_MassWB(400); model.set_MassG(2000);
      model.set_mq2(7000. * 7000 * one); model.set_ml2(0, 0, 500. * 500); model.set_ml2(1, 1, 500. * 500); model.set_ml2(2, 2, 500. * 500);
      model.set_md2(7000. * 7000 * one); model.set_mu2(7000. * 7000 * one);
      model.set_me2(0, 0, 500. * 500); model.set_me2(1, 1, 500. * 500); model.set_me2(2, 2, 500. * 500);
      model.set_Au(2, 2, 0); model.set_Ad(2, 2, 0); model.set_Ae(1, 1, 0); model.set_Ae(2, 2, 0); model.set_scale(1000);
      try { model.convert_to_onshell(eps, 1000); } catch (const gm2calc::Error& e) { continue; }
      if (model.get_problems().have_warning()) continue;
      const int r = std::norm(model.get_ZM()(0, 1)) >= std::norm(model.get_ZM()(1, 1)) ? 0 : 1;   // mostly right-handed smuon
      double pole[2] = {model.get_physical().MSm(0), model.get_physical().MSm(1)};
      std::sort(pole, pole + 2);
      const double d_smu = std::fabs(model.get_MSm(r) - pole[r]);
      const double d_cha = std::fmax(std::fabs(model.get_MCha(0) - model.get_physical().MCha(0)), std::fabs(model.get_MCha(1) - model.get_physical().MCha(1)));
      const double d_chi = std::fabs(model.get_MChi(0) - model.get_physical().MChi(0));
      const double d_snu = std::fabs(model.get_MSvmL() - model.get_physical().MSvmL);
      const bool off = d_smu > eps || d_cha > eps || d_chi > eps || d_snu > eps;
      if (off) bad++;
      std::printf("%s tan(beta)=%g precision goal=%g, no warning: |MSm(right-like) - pole| = %.3e, |MCha - pole| = %.3e, |MChi(bino) - pole| = %.3e, |MSvmL - pole| = %.3e\n",
                  off ? "OFF" : "ok ", tb, eps, d_smu, d_cha, d_chi, d_snu);
   }
   return bad ? 1 : 0;
}
'''

def fit_replay(model_, wd):
    from gm2v import native
    import subprocess
    exe = native.build_against_library(wd, FIT_REPLAY)
    r = subprocess.run([exe], capture_output=True, text=True, timeout=600)
    return r.returncode == 1, r.stdout.strip()[-3000:]

FITS = [('convert_Mu_M1_M2', ['get_mass_matrix_Cha', 'get_mass_matrix_Chi'], 'chargino and neutralino'),
        ('convert_ml2', ['get_mass_matrix_SvmL'], 'muon sneutrino'),
        ('convert_me2', ['get_mass_matrix_Sm'], 'smuon')]

def make_preservation(fit, getters, what):
    @obligation('C05.preserved.%s' % fit, fns=[(OS, 'MSSMNoFV_onshell::convert_to_onshell'), (OS, 'MSSMNoFV_onshell::' + fit)] + [(ME, 'MSSMNoFV_onshell_mass_eigenstates::' + g) for g in getters], replay=fit_replay)
    def ob(ctx):
        """frame: every step of convert_to_onshell after the LAST call of this fit (up to the final spectrum calculation) writes no model field that the
        fitted mass matrix reads -- so the fitted masses are still the pole masses in the final spectrum"""
        seq = step_sequence(ctx.w)
        if fit not in seq:
            ctx.record('sequence', ERROR, 'B', 0, 'extraction: %s not found in convert_to_onshell: %s' % (fit, seq))
            return
        last = max(i for i, n in enumerate(seq) if n == fit)
        later = [n for n in seq[last + 1:] if n not in ('calculate_DRbar_masses', 'check_problems', 'get_problems().clear_problems')]
        ctx.record('sequence', PROVED, 'B', 0, 'steps after the fit: %s' % later)
        reads = set()
        for g in getters:
            reads |= reads_of(ctx, g)
        for step in sorted(set(later)):
            wr, npaths = writes_of(ctx, step)
            # compare on the level of fields/entries: symbols are named like the snapshot keys
            hit = sorted(k for k in wr if k in reads or k.split('(')[0] in {r.split('(')[0] for r in reads} and k in reads)
            ctx.record('step.%s' % step, FAILED if hit else PROVED, 'B', 0,
                       ('%s rewrites %s, which the %s mass matrix reads (%d paths)' % (step, hit, what, npaths)) if hit else
                       '%s writes %d fields, none read by the %s mass matrix' % (step, len(wr), what), model={'_written_and_read': hit} if hit else None,
                       solver='frame inference (symbolic execution)')
    return ob

for _f in FITS:
    make_preservation(*_f)


def fidelity(tier, seed):
    """A-FRONT guard: MSSM a_mu and mass-matrix functions, interpreter (float mode) vs compiled real code on real spectra"""
    from gm2v import fidelity as _fid
    return _fid.mssm_model_guard(seed=seed)
