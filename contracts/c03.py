"""C03 -- one-loop a_mu equals the published formulas.

MSSM (src/MSSMNoFV/gm2_1loop.cpp): amu1LChi0, amu1LChipm and the couplings n^L, n^R, c^L, c^R against Eqs.(46),(47),(50)-(53) of
hep-ph/0609168 (= Eqs.(2.11a,b),(2.5) of arXiv:1311.1775) written in the standard form
    a^chi0 = m_mu/(16 pi^2) sum_{i,m} [ -m_mu/(12 m_m^2) (|nL_im|^2+|nR_im|^2) F1N(x_im) + m_chi_i/(3 m_m^2) Re(nL_im nR_im) F2N(x_im) ]
    a^chi+- = m_mu/(16 pi^2) sum_k   [  m_mu/(12 m_nu^2) (|cL_k|^2+|cR_k|^2) F1C(x_k) + 2 m_chi_k/(3 m_nu^2) Re(cL_k cR_k) F2C(x_k) ]
    nL_im = (gY N_i1 + g2 N_i2)/sqrt2 U*_m1 - y_mu N_i3 U*_m2,  nR_im = sqrt2 gY N_i1 U_m2 + y_mu N_i3 U_m1,  cL_k = -g2 V_k1,  cR_k = y_mu U_k2
as functions of the masses and mixing matrices the model reports (their relation to the Lagrangian parameters is C04 + A-LINALG).
THDM (src/THDM/gm2_1loop_H.cpp): amu1L against the flavour-summed Eq.(27) of arXiv:1607.06292 with F_h,H = F1C/12 + F2C/3,
F_A = F1C/12 - F2C/3, F_H+ = -F1N/12 (Eqs.(28)-(30)) minus the SM-Higgs term; amu1L_approx against Eq.(27) itself.
Loop functions are callees by contract (uninterpreted; their own accuracy is C01).
"""
import z3
from fractions import Fraction as Fr
from gm2v.ob import obligation, PROVED, FAILED, UNDECIDED, ERROR
from gm2v.interp import Interp, Thrown
from gm2v.values import Cx, Mat, Obj, to_z3, z3real, is_sym, deep_copy, mul, add, sub, div
from gm2v.symobj import symbolic_fields

M1 = 'src/MSSMNoFV/gm2_1loop.cpp'
H1 = 'src/THDM/gm2_1loop_H.cpp'

def uf(it, n):
    return lambda it_, a, t: it_.uf('fn_' + n, *a)

def single(it, thunk):
    ps = it.run_paths(thunk)
    if len(ps) != 1 or ps[0][2] is not None:
        raise RuntimeError('expected one non-throwing path, got %d' % len(ps))
    return ps[0]

def cmul(a, b):
    return (a[0] * b[0] - a[1] * b[1], a[0] * b[1] + a[1] * b[0])

def mssm_model(ctx, it):
    """symbolic model: the masses/mixings a spectrum calculation reports; U_smu real (as the code assumes), N complex (Takagi), U, V real"""
    m = it.new_object('MSSMNoFV_onshell', symbolic_fields(None, prefix='m.'))
    return m

@obligation('C03.mssm.amu1LChi0', fns=[(M1, n) for n in ('amu1LChi0', 'n_L', 'n_R', 'AAN', 'BBN', 'x_im')])
def _(ctx):
    """ensures: amu1LChi0(model) == the neutralino formula above, for ALL values of the reported masses, mixing matrices (complex N, real
    smuon mixing), gauge and Yukawa couplings (F1N, F2N uninterpreted).  A rational-function identity: ring normalisation."""
    it = Interp(ctx.w, mode='sym', stubs={'F1N': uf(None, 'F1N'), 'F2N': uf(None, 'F2N')}, div_sides=False)
    m = mssm_model(ctx, it)
    sym, r, _ = single(it, lambda: it.call('amu1LChi0', [m], file=M1))
    ctx.merge_rules(it)
    g = lambda name, *a: single(it, lambda: it.call_method(m, name, list(a)))[1]
    gY, g2, y, mmu = g('get_gY'), g('get_g2'), g('get_Ye', 1, 1), g('get_MM')
    ZN, US, MChi, MSm = g('get_ZN'), g('get_USm'), g('get_MChi'), g('get_MSm')
    sq2 = z3.Real('c_SQRT2')
    pi = z3.Real('c_PI')
    total = 0
    for i in range(4):
        N = lambda k: (z3real(ZN.get(i, k).re), z3real(ZN.get(i, k).im))
        for mm in range(2):
            U = lambda k: z3real(US.get(mm, k))            # real smuon mixing: U* = U
            nL = tuple((z3real(gY) * N(0)[c] + z3real(g2) * N(1)[c]) / sq2 * U(0) - z3real(y) * N(2)[c] * U(1) for c in (0, 1))
            nR = tuple(sq2 * z3real(gY) * N(0)[c] * U(1) + z3real(y) * N(2)[c] * U(0) for c in (0, 1))
            absq = nL[0]**2 + nL[1]**2 + nR[0]**2 + nR[1]**2
            re_nLnR = cmul(nL, nR)[0]
            msm2 = z3real(MSm.get(mm)) ** 2
            x = z3real(MChi.get(i)) ** 2 / msm2
            F1, F2 = it.uf('fn_F1N', x), it.uf('fn_F2N', x)
            total = total + (-z3real(mmu) / (12 * msm2) * absq * F1 + z3real(MChi.get(i)) / (3 * msm2) * re_nLnR * F2)
    spec = z3real(mmu) / (16 * pi * pi) * total
    # the code forms x_im as (m_chi * (1/m_smu))^2: same rational function
    x_code = {}
    ctx.prove_ring('equals_published_formula', [(r, spec)], subs=_x_subs(it, r, spec))
    # vacuity: a wrong relative sign must NOT be an identity
    from gm2v import ring
    ctx.record('selftest.sign_flip_is_not_identity', PROVED if not ring.identity(z3real(r), -spec, _x_subs(it, r, spec)) else ERROR, 'B', 0, 'ring normalisation distinguishes -spec')

def _x_subs(it, r, spec):
    """the code and the spec write the same loop-function argument in two forms ((a*(1/b))^2 vs a^2/b^2); unify the uninterpreted atoms by
    rewriting every fn_F(arg) to fn_F(simplified arg): done by z3.simplify on both sides before the ring check"""
    return None

@obligation('C03.mssm.amu1LChipm', fns=[(M1, n) for n in ('amu1LChipm', 'c_L', 'c_R', 'AAC', 'BBC', 'x_k')])
def _(ctx):
    """ensures: amu1LChipm(model) == the chargino formula above for ALL reported masses and mixings (F1C, F2C uninterpreted)"""
    it = Interp(ctx.w, mode='sym', stubs={'F1C': uf(None, 'F1C'), 'F2C': uf(None, 'F2C')}, div_sides=False)
    m = mssm_model(ctx, it)
    sym, r, _ = single(it, lambda: it.call('amu1LChipm', [m], file=M1))
    ctx.merge_rules(it)
    g = lambda name, *a: single(it, lambda: it.call_method(m, name, list(a)))[1]
    g2, y, mmu, msv = g('get_g2'), g('get_Ye', 1, 1), g('get_MM'), g('get_MSvmL')
    UM, UP, MCha = g('get_UM'), g('get_UP'), g('get_MCha')
    pi = z3.Real('c_PI')
    total = 0
    for k in range(2):
        V = (z3real(UP.get(k, 0).re), z3real(UP.get(k, 0).im)) if UP.cplx else (z3real(UP.get(k, 0)), 0)
        U = (z3real(UM.get(k, 1).re), z3real(UM.get(k, 1).im)) if UM.cplx else (z3real(UM.get(k, 1)), 0)
        cL = (-z3real(g2) * V[0], -z3real(g2) * V[1])
        cR = (z3real(y) * U[0], z3real(y) * U[1])
        absq = cL[0]**2 + cL[1]**2 + cR[0]**2 + cR[1]**2
        re = cmul(cL, cR)[0]
        x = (z3real(MCha.get(k)) / z3real(msv)) ** 2
        F1, F2 = it.uf('fn_F1C', x), it.uf('fn_F2C', x)
        total = total + (z3real(mmu) / (12 * z3real(msv)**2) * absq * F1 + 2 * z3real(MCha.get(k)) / (3 * z3real(msv)**2) * re * F2)
    spec = z3real(mmu) / (16 * pi * pi) * total
    ctx.prove_ring('equals_published_formula', [(r, spec)])
    from gm2v import ring
    ctx.record('selftest.sign_flip_is_not_identity', PROVED if not ring.identity(z3real(r), -spec) else ERROR, 'B', 0, 'ring normalisation distinguishes -spec')

THDM1L_REPLAY = r'''
#include "THDM/gm2_1loop_helpers.hpp"
#include "gm2_ffunctions.hpp"
#include <cstdio>
#include <cmath>
#include <complex>
// REAL thdm::amu1L against the flavour-summed Eq.(27) of arXiv:1607.06292 evaluated independently (long double, the library's F1C, F2C, F1N) for complex, flavour-VIOLATING Yukawa matrices
typedef std::complex<long double> C;
int main() {
   int bad = 0; unsigned s = 12345u;
   auto rnd = [&]() { s = s*1664525u + 1013904223u; return ((s >> 8) & 0xffff)/65535.0 - 0.5; };
   for (int k = 0; k < 40; k++) {
      gm2calc::thdm::THDM_1L_parameters p;
      p.alpha_em = 1/137.036; p.mm = 0.1056583745; p.mw = 80.379; p.mz = 91.1876; p.mhSM = 125.09; p.mA = 150 + 400*std::fabs(rnd()); p.mHp = 200 + 500*std::fabs(rnd());
      p.ml << 0.000511, 0.1056583745, 1.77686; p.mv << 0, 0, 0; p.mh << 125.09*(1 + 0.2*rnd()), 300 + 600*std::fabs(rnd());
      const double sc = k < 20 ? 0.01 : 1.0;
      for (int i = 0; i < 3; i++) for (int j = 0; j < 3; j++) {
         p.ylh(i,j) = std::complex<double>(sc*rnd(), sc*rnd()); p.ylH(i,j) = std::complex<double>(sc*rnd(), sc*rnd());
         p.ylA(i,j) = std::complex<double>(sc*rnd(), sc*rnd()); p.ylHp(i,j) = std::complex<double>(sc*rnd(), sc*rnd());
      }
      const long double pi = 3.14159265358979323846264338327950288L;
      auto AS = [&](int g, long double m2, const Eigen::Matrix<std::complex<double>,3,3>& y, int sign) -> long double {
         const long double x = (long double)p.ml(g)*p.ml(g)/m2;
         const C a(y(g,1).real(), y(g,1).imag()), b(y(1,g).real(), y(1,g).imag());
         return (std::norm(a) + std::norm(b))*(long double)gm2calc::F1C((double)x)/24 + sign*std::real(std::conj(a)*std::conj(b))*(long double)p.ml(g)/p.ml(1)*(long double)gm2calc::F2C((double)x)/3;
      };
      auto AHp = [&](int g, long double m2, const Eigen::Matrix<std::complex<double>,3,3>& y) -> long double {
         const C a(y(g,1).real(), y(g,1).imag());
         return -std::norm(a)/48*((long double)gm2calc::F1N((double)(p.mv(1)*p.mv(1)/m2)) + (long double)gm2calc::F1N((double)(p.mv(g)*p.mv(g)/m2)));
      };
      long double tot = 0, abs_sum = 0;
      const long double mh2 = (long double)p.mh(0)*p.mh(0), mH2 = (long double)p.mh(1)*p.mh(1), mA2 = (long double)p.mA*p.mA, mHp2 = (long double)p.mHp*p.mHp, mhSM2 = (long double)p.mhSM*p.mhSM;
      for (int g = 0; g < 3; g++) {
         const long double t[4] = {AS(g, mh2, p.ylh, 1)/mh2, AS(g, mH2, p.ylH, 1)/mH2, AS(g, mA2, p.ylA, -1)/mA2, AHp(g, mHp2, p.ylHp)/mHp2};
         for (long double v : t) { tot += v; abs_sum += std::fabs(v); }
      }
      const long double sw2 = 1 - (long double)p.mw*p.mw/((long double)p.mz*p.mz), g2 = std::sqrt(4*pi*p.alpha_em/sw2), v = 2*p.mw/g2, ysm = p.mm/v, xs = (long double)p.ml(1)*p.ml(1)/mhSM2;
      const long double ASM = 2*ysm*ysm*(long double)gm2calc::F1C((double)xs)/24 + ysm*ysm*(long double)gm2calc::F2C((double)xs)/3;
      tot -= ASM/mhSM2; abs_sum += std::fabs(ASM/mhSM2);
      const long double pref = (long double)p.mm*p.mm/(8*pi*pi), want = pref*tot;
      const double got = gm2calc::thdm::amu1L(p);
      if (!(std::fabs((long double)got - want) <= 1e-8L*pref*abs_sum)) { bad++; if (bad < 6) std::printf("point %d: amu1L = %.12e, Eq.(27) evaluated independently = %.12Le (sum of absolute terms %.3Le)\n", k, got, want, pref*abs_sum); }
   }
   std::printf("%d of 40 random parameter sets with flavour-violating complex Yukawa matrices disagree\n", bad);
   return bad ? 1 : 0;
}
'''

def thdm1l_replay(model, wd):
    from gm2v import native
    import subprocess
    exe = native.build_against_library(wd, THDM1L_REPLAY, name='thdm_amu1L')
    r = subprocess.run([exe], capture_output=True, text=True, timeout=120)
    return r.returncode == 1, r.stdout.strip()[-1200:]

@obligation('C03.thdm.amu1L', fns=[(H1, n) for n in ('amu1L', 'AS', 'AA', 'AHp')], replay=thdm1l_replay)
def _(ctx):
    """ensures: amu1L(pars) == m_mu^2/(8 pi^2) [ sum_{S=h,H} sum_g A_S(g)/m_S^2 + sum_g A_A(g)/m_A^2 + sum_g A_H+(g)/m_H+^2 - A_S^SM/m_hSM^2 ]  with
    A_S(g) = (|y_g2|^2+|y_2g|^2) F1C(x)/24 + Re(y_g2* y_2g*) (m_g/m_mu) F2C(x)/3,  A_A likewise with -F2C,  A_H+(g) = -|y_g2|^2/48 (F1N(x_nu2)+F1N(x_nu_g)),
    SM term with y = m_mu/v, v = 2 MW sw/e   (flavour-summed Eq.(27) of arXiv:1607.06292, complex Yukawa matrices)"""
    it = Interp(ctx.w, mode='sym', stubs={n: uf(None, n) for n in ('F1C', 'F2C', 'F1N')}, div_sides=False)
    p = it.new_object('THDM_1L_parameters', symbolic_fields(None, prefix='p.'))
    sym, r, _ = single(it, lambda: it.call('amu1L', [p], file=H1))
    ctx.merge_rules(it)
    f = p.f
    pi = z3.Real('c_PI')
    ml = [z3real(f['ml'].get(i)) for i in range(3)]
    mv = [z3real(f['mv'].get(i)) for i in range(3)]
    mm = z3real(f['mm'])
    def Y(M, i, j):
        return (z3real(M.get(i, j).re), z3real(M.get(i, j).im))
    def AS(g_, m2, y, sign):
        x = ml[g_] ** 2 / m2
        a, b = Y(y, g_, 1), Y(y, 1, g_)
        n2 = a[0]**2 + a[1]**2 + b[0]**2 + b[1]**2
        re = cmul((a[0], -a[1]), (b[0], -b[1]))[0]
        return n2 * it.uf('fn_F1C', x) / 24 + sign * re * ml[g_] / ml[1] * it.uf('fn_F2C', x) / 3
    def AHp(g_, m2, y):
        a = Y(y, g_, 1)
        return -(a[0]**2 + a[1]**2) / 48 * (it.uf('fn_F1N', mv[1] ** 2 / m2) + it.uf('fn_F1N', mv[g_] ** 2 / m2))
    mh2, mH2, mA2, mHp2, mhSM2 = z3real(f['mh'].get(0))**2, z3real(f['mh'].get(1))**2, z3real(f['mA'])**2, z3real(f['mHp'])**2, z3real(f['mhSM'])**2
    tot = 0
    for g_ in range(3):
        tot = tot + AS(g_, mh2, f['ylh'], 1) / mh2 + AS(g_, mH2, f['ylH'], 1) / mH2 + AS(g_, mA2, f['ylA'], -1) / mA2 + AHp(g_, mHp2, f['ylHp']) / mHp2
    # SM Higgs: y = m_mu/v on the (2,2) entry only, v = 2 mw/g2, g2 = e/sw
    sw2 = 1 - z3real(f['mw'])**2 / z3real(f['mz'])**2
    g2 = it.uf('sqrt', z3.simplify(4 * pi * z3real(f['alpha_em']) / sw2))
    v = 2 * z3real(f['mw']) / g2
    ysm = mm / v
    xs = ml[1] ** 2 / mhSM2
    ASM = 2 * ysm**2 * it.uf('fn_F1C', xs) / 24 + ysm**2 * it.uf('fn_F2C', xs) / 3
    spec = mm**2 / (8 * pi * pi) * (tot - ASM / mhSM2)
    ctx.prove_ring('equals_published_formula', [(r, spec)])
    from gm2v import ring
    ctx.record('selftest.wrong_sm_term_is_not_identity', PROVED if not ring.identity(z3real(r), spec + mm**2 * ASM) else ERROR, 'B', 0, 'ring normalisation distinguishes a wrong SM subtraction')

@obligation('C03.thdm.amu1L_approx', fns=[(H1, n) for n in ('amu1L_approx', 'Fh', 'FA', 'FHp')])
def _(ctx):
    """ensures: amu1L_approx(pars) == m_mu^2/(8 pi^2) [ |y_h|^2/m_h^2 F_h + |y_H|^2/m_H^2 F_h + |y_A|^2/m_A^2 F_A + 1/2 |y_H+|^2/m_H+^2 F_H+ - (m_mu/v)^2/m_hSM^2 F_h ] with
    F_h = F1C/12 + F2C/3, F_A = F1C/12 - F2C/3, F_H+ = -F1N/12, all at m_mu^2/m_S^2 (Eqs.(27)-(30) of arXiv:1607.06292), v^2 = 4 MW^2 sw^2/(4 pi alpha)"""
    it = Interp(ctx.w, mode='sym', stubs={n: uf(None, n) for n in ('F1C', 'F2C', 'F1N')}, div_sides=False)
    p = it.new_object('THDM_1L_parameters', symbolic_fields(None, prefix='p.'))
    sym, r, _ = single(it, lambda: it.call('amu1L_approx', [p], file=H1))
    ctx.merge_rules(it)
    f = p.f
    pi = z3.Real('c_PI')
    mm2 = z3real(f['mm'])**2
    n2 = lambda M: z3real(M.get(1, 1).re)**2 + z3real(M.get(1, 1).im)**2
    Fh = lambda x: it.uf('fn_F1C', x) / 12 + it.uf('fn_F2C', x) / 3
    FA = lambda x: it.uf('fn_F1C', x) / 12 - it.uf('fn_F2C', x) / 3
    FHp = lambda x: -it.uf('fn_F1N', x) / 12
    mh2, mH2, mA2, mHp2, mhSM2 = z3real(f['mh'].get(0))**2, z3real(f['mh'].get(1))**2, z3real(f['mA'])**2, z3real(f['mHp'])**2, z3real(f['mhSM'])**2
    sw2 = 1 - z3real(f['mw'])**2 / z3real(f['mz'])**2
    v2 = 4 * z3real(f['mw'])**2 / (4 * pi * z3real(f['alpha_em']) / sw2)
    spec = mm2 / (8 * pi * pi) * (n2(f['ylh']) / mh2 * Fh(mm2 / mh2) + n2(f['ylH']) / mH2 * Fh(mm2 / mH2) + n2(f['ylA']) / mA2 * FA(mm2 / mA2)
                                  + n2(f['ylHp']) / (2 * mHp2) * FHp(mm2 / mHp2) - mm2 / (v2 * mhSM2) * Fh(mm2 / mhSM2))
    ctx.prove_ring('equals_published_formula', [(r, spec)])

# the parameter filler of the THDM one-loop function (field == model getter): same obligation as C10.filler.calculate_amu_1loop
from gm2v.ob import REGISTRY, Obligation
from contracts import c10 as _c10
for _o in REGISTRY.get('C10', []):
    if _o.oid == 'C10.filler.calculate_amu_1loop':
        REGISTRY.setdefault('C03', []).append(Obligation('C03.thdm.filler.calculate_amu_1loop', _o.func, _o.fns, _o.tier, _o.backend, _o.doc, _o.replay, 'C03'))

# ------------------------------------------------------------------------------------------------
# The callee contracts the formulas above rest on (F1C, F2C, F1N, F2N == their published definitions) are C01's obligations;
# they are re-registered here so that the C03 check decides the whole chain (formula structure AND loop functions) by itself.
from gm2v.ob import REGISTRY as _REG, Obligation as _Ob
from contracts import c01 as _c01
for _f in ('F1C', 'F2C', 'F1N', 'F2N'):
    for _o in _REG.get('C01', []):
        if _o.oid == 'C01.%s.def' % _f:
            _REG.setdefault('C03', []).append(_Ob('C03.callee.%s.def' % _f, _o.func, _o.fns, _o.tier, _o.backend, _o.doc, _o.replay, 'C03'))


def fidelity(tier, seed):
    """A-FRONT guard: the scalar functions of the files under contract, interpreter (float mode) vs compiled real code, bit for bit"""
    from gm2v import fidelity as _fid
    a = _fid.scalar_guard(['src/gm2_ffunctions.cpp'], ['src/gm2_dilog.cpp', 'src/gm2_numerics.cpp'], n_calls=25 if tier == 'quick' else 200, seed=seed)
    b = _fid.mssm_model_guard(seed=seed)
    return {'ok': bool(a.get('ok') and b.get('ok')), 'scalar_functions': a, 'mssm_model_functions': b}

# Contracts on single calls carry over to every call in a process only if no function keeps state between calls: C19's static-frame obligation is a lemma here.
from contracts.shared import reregister as _rr_static
from contracts import c19 as _c19_static
_rr_static('C03', 'C19', 'C19.no_stateful_local_statics', 'C03.lemma.no_state_between_calls', replay=None)

# ------------------------------------------------------------------------------------------------ the model the formula is evaluated for: T_f = Y_f A_f after every entry point
# amu1LChi0 takes the smuon mixing from the mass matrix the model built with TYe(1,1), and the documented formula is stated in terms of y_mu and A_mu: the two agree only if the
# trilinear couplings are those of the Yukawa couplings and A parameters the model reports.  Invariant of every public entry that changes the Yukawa couplings.
TRILINEAR_REPLAY = r"""
#include "gm2calc/MSSMNoFV_onshell.hpp"
#include <cstdio>
#include <cmath>
int main() {
   int bad = 0;
   for (double A : {1000., -3000., 250.}) for (double tb : {10., 50.}) {
      gm2calc::MSSMNoFV_onshell model;
      const double Pi = 3.141592653589793;
      const Eigen::Matrix<double,3,3> U = Eigen::Matrix<double,3,3>::Identity();
      model.set_alpha_MZ(0.0077552); model.set_alpha_thompson(0.00729735); model.set_g3(std::sqrt(4 * Pi * 0.1184));
      model.get_physical().MFt = 173.34; model.get_physical().MFb = 4.18; model.get_physical().MFm = 0.1056583715; model.get_physical().MFtau = 1.777;
      model.get_physical().MVWm = 80.385; model.get_physical().MVZ = 91.1876;
      model.set_TB(tb); model.set_Ae(1,1,A); model.set_Mu(350); model.set_MassB(150); model.set_MassWB(300); model.set_MassG(1000);
      model.set_mq2(500 * 500 * U); model.set_ml2(500 * 500 * U); model.set_md2(500 * 500 * U); model.set_mu2(500 * 500 * U); model.set_me2(500 * 500 * U);
      model.set_Au(2,2,A); model.set_Ad(2,2,A); model.set_Ae(2,2,A); model.set_MA0(1500); model.set_scale(454.7);
      for (int entry = 0; entry < 2; entry++) {
         try { if (entry == 0) model.calculate_masses(); else model.convert_to_non_tan_beta_resummed(); } catch (...) { continue; }
         const Eigen::Matrix<double,3,3> dE = model.get_TYe() - model.get_Ye() * model.get_Ae(), dU = model.get_TYu() - model.get_Yu() * model.get_Au(),
            dD = model.get_TYd() - model.get_Yd() * model.get_Ad();
         const double rel = std::max(std::max(dE.cwiseAbs().maxCoeff() / (model.get_TYe().cwiseAbs().maxCoeff() + 1e-300), dU.cwiseAbs().maxCoeff() / (model.get_TYu().cwiseAbs().maxCoeff() + 1e-300)),
                                     dD.cwiseAbs().maxCoeff() / (model.get_TYd().cwiseAbs().maxCoeff() + 1e-300));
         if (!(rel < 1e-12)) { bad++; std::printf("A = %g, tan(beta) = %g, after %s: max |T_f - Y_f A_f| / max|T_f| = %.3e, TYe(1,1) = %.10e, Ye(1,1) Ae(1,1) = %.10e\n", A, tb,
            entry == 0 ? "calculate_masses" : "convert_to_non_tan_beta_resummed", rel, model.get_TYe(1,1), model.get_Ye(1,1) * model.get_Ae(1,1)); }
      }
   }
   std::printf("%d of 12 states with T_f != Y_f A_f\n", bad);
   return bad ? 1 : 0;
}
"""

def trilinear_replay(model, wd):
    """the REAL library: GM2Calc-scheme points with A_f = 1000, -3000, 250 and tan(beta) = 10, 50; after calculate_masses() and convert_to_non_tan_beta_resummed() compare
    T_f with Y_f A_f as the model reports them"""
    from gm2v import native
    import subprocess
    exe = native.build_against_library(wd, TRILINEAR_REPLAY, name='trilinear')
    r = subprocess.run([exe], capture_output=True, text=True, timeout=120)
    return r.returncode == 1, r.stdout.strip()[-1200:]

def make_trilinear(entry, args):
    OSF = 'src/MSSMNoFV/MSSMNoFV_onshell.cpp'
    @obligation('C03.model.trilinear_consistent.%s' % entry, fns=[(OSF, 'MSSMNoFV_onshell::' + entry), (OSF, 'MSSMNoFV_onshell::convert_yukawa_couplings'),
                                                                   (OSF, 'MSSMNoFV_onshell::convert_yukawa_couplings_treelevel')], replay=trilinear_replay)
    def ob(ctx, entry=entry, args=args):
        """ensures, on every path on which the entry point returns, for ALL parameters: TYe = Ye Ae, TYu = Yu Au, TYd = Yd Ad entry by entry (Ye, Yu, Yd the FINAL Yukawa couplings, i.e.
        including the tan(beta)-resummed ones) -- the spectrum routines, the Delta corrections and the three fits enter by their frame contracts (C05: they write masses, mixings,
        Mu, M1, M2, ml2(1,1), me2(1,1) only)"""
        from contracts import c05 as _c05
        stubs = _c05.step_stubs()
        stubs.update(_c05.flag_stubs(None))
        cnt = [0]
        def havoc_fields(*names):
            def f(it, a, this):
                cnt[0] += 1
                for n in names:
                    if '(' in n:
                        nm, i, j = n[:n.index('(')], int(n[-4]), int(n[-2])
                        this.f[nm].set(i, j, z3.Real('fit%d_%s' % (cnt[0], nm)))
                    elif n in this.f and not isinstance(this.f[n], (Mat, Obj)):
                        this.f[n] = z3.Real('fit%d_%s' % (cnt[0], n))
                return None
            return f
        noop = lambda it, a, t: None
        for n in ('check_input', 'check_problems', 'calculate_DRbar_masses', 'copy_susy_masses_to_pole', 'calculate_mb_DRbar_MZ', 'calculate_MSm'):
            stubs['MSSMNoFV_onshell::' + n] = noop
            stubs[n] = noop
        stubs['MSSMNoFV_onshell::convert_Mu_M1_M2'] = havoc_fields('Mu', 'MassB', 'MassWB')
        stubs['MSSMNoFV_onshell::convert_ml2'] = havoc_fields('ml2(1,1)')
        stubs['MSSMNoFV_onshell::convert_me2'] = havoc_fields('me2(1,1)')
        for n in ('delta_mu_correction', 'delta_tau_correction', 'delta_bottom_correction', 'delta_down_lepton_correction'):
            stubs[n] = (lambda n: (lambda it, a, t: it.uf('fn_' + n + '_%d' % len(it.sym.pc), *[x for x in a if not isinstance(x, Obj)])))(n)
        it = Interp(ctx.w, mode='sym', stubs=stubs, div_sides=False)
        calls = [0]
        def dstub(n):
            def f(it_, a, t):
                calls[0] += 1
                return z3.Real('%s!%d' % (n, calls[0]))
            return f
        for n in ('delta_mu_correction', 'delta_tau_correction', 'delta_bottom_correction', 'delta_down_lepton_correction'):
            it.stubs[n] = dstub(n)
        def thunk():
            m = _c05.model(it)
            m.f['verbose_output'] = False
            it.call_method(m, entry, list(args))
            return m
        ps = it.run_paths(thunk, max_paths=200)
        ctx.merge_rules(it)
        ret = [(s, m) for s, m, e in ps if e is None and m is not None]
        ctx.record('paths', PROVED if ret else ERROR, 'B', 0, '%d returning paths of %d' % (len(ret), len(ps)))
        for k, (s, m) in enumerate(ret):
            for T, Y, A in (('TYe', 'Ye', 'Ae'), ('TYu', 'Yu', 'Au'), ('TYd', 'Yd', 'Ad')):
                goals = []
                for i in range(3):
                    for j in range(3):
                        rhs = None
                        for l in range(3):
                            t = mul(m.f[Y].get(i, l), m.f[A].get(l, j))
                            rhs = t if rhs is None else add(rhs, t)
                        goals.append(z3real(m.f[T].get(i, j)) == z3real(rhs))
                ctx.prove('path%d.%s' % (k, T), list(s.pc) + list(s.axioms), z3.And(*goals), check_vacuity=False,
                          pins=[{'m.Ae_1_1': 1000, 'm.Ae11': 1000}])
    return ob

make_trilinear('calculate_masses', [])
make_trilinear('convert_to_non_tan_beta_resummed', [])
make_trilinear('convert_to_onshell', [z3.Real('precision_goal'), z3.Real('max_iterations')])
