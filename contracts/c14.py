"""C14 -- the command-line program is total and memory-safe on arbitrary input: the part that contracts can decide.

Decided here (same obligations as in contracts/c13.py and c16.py, re-registered under C14):
  * every float->int conversion that the input readers execute is defined (value in the range of int) -- read_integer
  * option readers accept exactly their documented values
  * SLHA block readers never index a line beyond its fields, matrix/vector fills write in bounds only, unknown indices are ignored
  * numeric token conversion never lets a non-numeric / partially numeric / overflowing token through and throws only EReadError
  * no exception class raised inside main()'s try block escapes its handlers (no std::terminate on malformed input);
    every failure exit is accompanied by a diagnostic (print_error: SPINFO[4] for the SLHA formats, stderr otherwise);
    fill_block_entry (callee of print_error/print_warnings) writes exactly the named block's entry and leaves all other blocks unchanged
NOT decided (stated in DESIGN.md): termination/time bounds, leaks, uninitialised reads, the SLHAea tokenizer on arbitrary bytes,
signals -- these need execution-based techniques.
"""
from gm2v.ob import REGISTRY, Obligation
from contracts import c13 as _c13
from contracts import c16 as _c16
from contracts import c15 as _c15

def _clone(prop_from, oid, new_oid):
    for o in REGISTRY.get(prop_from, []):
        if o.oid == oid:
            REGISTRY.setdefault('C14', []).append(Obligation(new_oid, o.func, o.fns, o.tier, o.backend, o.doc, o.replay, 'C14'))
            return
    raise RuntimeError('obligation %s not found' % oid)

_clone('C13', 'C13.read_integer', 'C14.read_integer')
_clone('C13', 'C13.read_bool', 'C14.read_bool')
_clone('C13', 'C13.convert_to.whole_token', 'C14.convert_to.whole_token')
_clone('C13', 'C13.blocks.read_scale_and_match', 'C14.blocks.read_scale_and_match')
_clone('C13', 'C13.blocks.every_block_in_order', 'C14.blocks.fills_in_bounds')
_clone('C13', 'C13.program.no_uncaught_exception', 'C14.program.no_uncaught_exception')
_clone('C16', 'C16.program.exit_status', 'C14.program.failure_has_diagnostic')
# the SPINFO diagnostics of the SLHA output formats are written through fill_block_entry: its frame contract carries 'the diagnostic ends up in SPINFO and nowhere else'
_clone('C15', 'C15.fill_block_entry', 'C14.callee.fill_block_entry')

# ---------------------------------------------------------------------------------------------------
# "every failure exit is accompanied by a diagnostic", for the exits that are NOT exceptions: MSSMNoFV_setup::run returns EXIT_FAILURE when the model has a problem
# (force-output runs).  Executed with the REAL writer of each output format; diagnostics are the std::cerr effects of run and the SPINFO entries the writer fills.
# ---------------------------------------------------------------------------------------------------
import z3 as _z3
from gm2v.ob import obligation as _obligation, PROVED as _PROVED, FAILED as _FAILED, ERROR as _ERROR
from gm2v.interp import Interp as _Interp
from gm2v.values import Obj as _Obj

def _replay_run_diag(model, wd):
    """the REAL program on input/example.gm2 with tan(beta) = 1e8 (stau tachyon: a problem without a warning), force output on, every output format:
    exit 1 must come with a message on stderr or SPINFO[3]/SPINFO[4] on stdout"""
    from gm2v import native
    from gm2v.world import REPO
    import subprocess, re, os
    exe = native.build_gm2calc()
    src = open(os.path.join(REPO, 'input', 'example.gm2')).read()
    bad = []
    for fmt in range(5):
        inp = re.sub(r'(?m)^(\s*0\s+)\d(\s+# output format)', r'\g<1>%d\2' % fmt, src, 1)
        inp = re.sub(r'(?m)^(\s*3\s+)\d(\s+# force output)', r'\g<1>1\2', inp, 1)
        # tan(beta) = 1e8: stau tachyon (a problem without a convergence warning), output forced
        inp = re.sub(r'(?m)^(\s*3\s+)\S+(\s+# tan\(beta\))', r'\g<1>1.0E+08\2', inp, 1)
        r = subprocess.run([exe, '--gm2calc-input-file=-'], input=inp, capture_output=True, text=True, timeout=120)
        spinfo = re.search(r'(?mi)^Block SPINFO.*\n((?:[ \t]+.*\n)*)', r.stdout)
        has_sp = bool(spinfo and re.search(r'(?m)^\s*[34]\s+\S', spinfo.group(1)))
        if r.returncode != 0 and not r.stderr.strip() and not has_sp:
            bad.append('output format %d: exit %d without any diagnostic (stderr empty, no SPINFO[3]/[4])' % (fmt, r.returncode))
    return bool(bad), 'gm2calc.x on input/example.gm2 with tan(beta) = 1e8 (stau tachyon) and force output: ' + ('; '.join(bad) if bad else 'every failure exit carries a diagnostic')

@_obligation('C14.program.failure_has_diagnostic.mssm_run', fns=[('src/gm2calc.cpp', 'MSSMNoFV_setup::run'), ('src/gm2calc.cpp', 'SLHA_writer::operator()')], replay=_replay_run_diag)
def _(ctx):
    """ensures, for every output format and every combination (problem, warning): if MSSMNoFV_setup::run returns EXIT_FAILURE then a diagnostic was emitted --
    a std::cerr output of run itself or, for the SLHA output formats, an SPINFO[3]/SPINFO[4] entry filled by the real writer (stdout of the other formats carries no diagnostics)"""
    from contracts.c15 import ghost_env, options as mk_options
    E = ctx.w.enumerators
    for fmt in ('Minimal', 'Detailed', 'NMSSMTools', 'SPheno', 'GM2Calc'):
        for prob in (False, True):
            for warn in (False, True):
                fills = []
                stubs = {'::have_problem': lambda i, a, t: prob, '::have_warning': lambda i, a, t: warn, '::get_warnings': lambda i, a, t: 'warnings',
                         '::do_force_output': lambda i, a, t: None, '::set_verbose_output': lambda i, a, t: None,
                         '::fill_block_entry': lambda i, a, t: fills.append(tuple(a)), '::write_to_stream': lambda i, a, t: fills.append(('WRITE',)),
                         'calculate_amu': lambda i, a, t: _z3.Real('AMU'), 'calculate_uncertainty': lambda i, a, t: _z3.Real('DAMU')}
                it = _Interp(ctx.w, mode='sym', stubs=stubs)
                probs = _Obj('MSSMNoFV_onshell_problems', {})
                it.stubs['::get_problems'] = lambda i, a, t, probs=probs: (probs if isinstance(t, _Obj) and t.cls.startswith('MSSMNoFV_onshell') and t.cls != 'MSSMNoFV_onshell_problems' else 'problems')
                it.unknown_call = lambda s, args: NotImplemented
                o = mk_options(it, calculate_uncertainty=True, output_format=E.get('Config_options::' + fmt, E.get(fmt)))
                if fmt in ('NMSSMTools', 'SPheno', 'GM2Calc'):
                    wobj = _Obj('SLHA_writer', {})
                    writer = lambda *a, wobj=wobj, it=it: it.call_method(wobj, 'operator()', list(a[-3:]))
                else:
                    writer = lambda *a: None          # Minimal / Detailed writers print numbers only: no diagnostics on stdout
                s = _Obj('MSSMNoFV_setup', {'options': o, 'reader': (lambda *a: None), 'writer': writer})
                old = it.construct
                it.construct = lambda ty, args, braced, old=old: (_Obj('MSSMNoFV_onshell', {}) if ty.name.endswith('MSSMNoFV_onshell') else old(ty, args, braced))
                oldz = it.zero_of_type
                it.zero_of_type = lambda ty, path=None, symbolic=None, oldz=oldz: (_Obj('MSSMNoFV_onshell', {}) if ty.name.endswith('MSSMNoFV_onshell') else oldz(ty, path, symbolic))
                tag = '%s.problem_%s.warning_%s' % (fmt, prob, warn)
                try:
                    ps = it.run_paths(lambda: it.call_method(s, 'run', [_Obj('GM2_slha_io', {})]))
                except Exception as e:
                    ctx.record(tag, _ERROR, 'B', 0, 'execution: %s' % e)
                    continue
                ctx.merge_rules(it)
                for k, (sym, r, exc) in enumerate(ps):
                    cerr = [e for e in sym.effects if str(e[0]).startswith('out:') and 'cerr' in str(e[0])]
                    spinfo = [f for f in fills if len(f) == 3 and f[0] == 'SPINFO' and f[1] in (3, 4)]
                    failure = (exc is not None) or (r == 1)
                    ok = (not failure) or bool(cerr) or bool(spinfo)
                    ctx.record(tag if len(ps) == 1 else '%s.path%d' % (tag, k), _PROVED if ok else _FAILED, 'B', 0,
                               'returns %s; std::cerr outputs: %d; SPINFO[3/4] entries: %d' % (r if exc is None else 'exception', len(cerr), len(spinfo)),
                               model=None if ok else {'_format': fmt})
