"""C14 -- the command-line program is total and memory-safe on arbitrary input: the part that contracts can decide.

Decided here (same obligations as in contracts/c13.py and c16.py, re-registered under C14):
  * every float->int conversion that the input readers execute is defined (value in the range of int) -- read_integer
  * option readers accept exactly their documented values
  * SLHA block readers never index a line beyond its fields, matrix/vector fills write in bounds only, unknown indices are ignored
  * numeric token conversion never lets a non-numeric / partially numeric / overflowing token through and throws only EReadError
  * no exception class raised inside main()'s try block escapes its handlers (no std::terminate on malformed input);
    every failure exit is accompanied by a diagnostic (print_error: SPINFO[4] for the SLHA formats, stderr otherwise);
    fill_block_entry (callee of print_error/print_warnings) writes exactly the named block's entry and leaves all other blocks unchanged
NOT decided (stated in DESIGN.md): termination/time bounds, leaks, uninitialised reads, the SLHAea tokenizer on arbitrary bytes,
signals -- these need execution-based techniques.
"""
from gm2v.ob import REGISTRY, Obligation
from contracts import c13 as _c13
from contracts import c16 as _c16
from contracts import c15 as _c15

def _clone(prop_from, oid, new_oid):
    for o in REGISTRY.get(prop_from, []):
        if o.oid == oid:
            REGISTRY.setdefault('C14', []).append(Obligation(new_oid, o.func, o.fns, o.tier, o.backend, o.doc, o.replay, 'C14'))
            return
    raise RuntimeError('obligation %s not found' % oid)

_clone('C13', 'C13.read_integer', 'C14.read_integer')
_clone('C13', 'C13.read_bool', 'C14.read_bool')
_clone('C13', 'C13.convert_to.whole_token', 'C14.convert_to.whole_token')
_clone('C13', 'C13.blocks.read_scale_and_match', 'C14.blocks.read_scale_and_match')
_clone('C13', 'C13.blocks.every_block_in_order', 'C14.blocks.fills_in_bounds')
_clone('C13', 'C13.program.no_uncaught_exception', 'C14.program.no_uncaught_exception')
_clone('C16', 'C16.program.exit_status', 'C14.program.failure_has_diagnostic')
# the SPINFO diagnostics of the SLHA output formats are written through fill_block_entry: its frame contract carries 'the diagnostic ends up in SPINFO and nowhere else'
_clone('C15', 'C15.fill_block_entry', 'C14.callee.fill_block_entry')
