"""C04 -- the MSSM tree-level spectrum is the exact spectrum of the MSSM mass matrices.

Contracts on src/MSSMNoFV/MSSMNoFV_onshell_mass_eigenstates.cpp.  The independent expressions below are written from the MSSM
Lagrangian (SLHA conventions, GUT-normalised g1: gY^2 = 3/5 g1^2), NOT from the generated code:
  sfermion f with isospin T3, charge Q, Yukawa y_f, vev v_f in {vd, vu}, v_o the other vev:
     M2_LL = m2_L + m_f^2 + (T3 - Q sW^2) MZ^2 cos(2 beta),   M2_RR = m2_R + m_f^2 + Q sW^2 MZ^2 cos(2 beta),
     M2_LR = (v_f T_f - v_o y_f mu)/sqrt2,   m_f = y_f v_f/sqrt2,
     sW^2 MZ^2 cos 2beta = gY^2 (vd^2 - vu^2)/4,   MZ^2 cos 2beta = (g2^2 + gY^2)(vd^2 - vu^2)/4
  sneutrino: m2_L + MZ^2 cos(2beta)/2;  MZ^2 = (g2^2+gY^2)(vd^2+vu^2)/4;  MW^2 = g2^2 (vd^2+vu^2)/4
  neutralino (bino, wino, hd, hu) and chargino matrices in SLHA convention.
The eigen-solvers enter only through assumption A-LINALG.
"""
from fractions import Fraction as Fr
import z3
from gm2v.ob import obligation, PROVED, FAILED, UNDECIDED, ERROR
from gm2v.interp import Interp, Thrown
from gm2v.values import Cx, Mat, Obj, to_z3, z3real, is_sym, deep_copy
from gm2v.symobj import symbolic_fields
from gm2v.specs import absz

ME = 'src/MSSMNoFV/MSSMNoFV_onshell_mass_eigenstates.cpp'
CLS = 'MSSMNoFV_onshell_mass_eigenstates'

def model(ctx, it, register=()):
    m = it.new_object('MSSMNoFV_onshell', symbolic_fields(None, prefix=''))
    for nm in register:
        ctx.vars[nm] = m.f[nm]
    return m

def single(it, thunk):
    ps = it.run_paths(thunk)
    if len(ps) != 1 or ps[0][2] is not None:
        raise RuntimeError('expected one non-throwing path, got %d' % len(ps))
    return ps[0]

# (matrix getter, soft L, soft R, Yukawa, trilinear, generation index, T3, Q, 'd' (couples to vd) or 'u')
SFERMIONS = [
    ('Sd', 'mq2', 'md2', 'Yd', 'TYd', 0, Fr(-1, 2), Fr(-1, 3), 'd'), ('Ss', 'mq2', 'md2', 'Yd', 'TYd', 1, Fr(-1, 2), Fr(-1, 3), 'd'),
    ('Sb', 'mq2', 'md2', 'Yd', 'TYd', 2, Fr(-1, 2), Fr(-1, 3), 'd'),
    ('Su', 'mq2', 'mu2', 'Yu', 'TYu', 0, Fr(1, 2), Fr(2, 3), 'u'), ('Sc', 'mq2', 'mu2', 'Yu', 'TYu', 1, Fr(1, 2), Fr(2, 3), 'u'),
    ('St', 'mq2', 'mu2', 'Yu', 'TYu', 2, Fr(1, 2), Fr(2, 3), 'u'),
    ('Se', 'ml2', 'me2', 'Ye', 'TYe', 0, Fr(-1, 2), Fr(-1), 'd'), ('Sm', 'ml2', 'me2', 'Ye', 'TYe', 1, Fr(-1, 2), Fr(-1), 'd'),
    ('Stau', 'ml2', 'me2', 'Ye', 'TYe', 2, Fr(-1, 2), Fr(-1), 'd'),
]
SNEUTRINOS = [('SveL', 0), ('SvmL', 1), ('SvtL', 2)]

def gauge(m):
    g1, g2, vd, vu = m.f['g1'], m.f['g2'], m.f['vd'], m.f['vu']
    gY2 = Fr(3, 5) * g1 * g1
    return g1, g2, vd, vu, gY2

def replay_matrix_entry(model, wd):
    """real get_mass_matrix_X()(i,j) at the counterexample's Lagrangian parameters against the value the contract demands there"""
    from gm2v import fidelity
    goal = (model or {}).get('_goal', '')
    parts = goal.split('.')
    nm = parts[2] if len(parts) > 2 else ''
    ent = parts[3] if len(parts) > 3 else ''
    if nm in ('SveL', 'SvmL', 'SvtL', 'VZ', 'VWm', 'Glu') or nm.startswith('F'):
        expr = 'm.get_mass_matrix_%s()' % nm
    else:
        ij = {'LL': (0, 0), 'RR': (1, 1), 'LR': (0, 1)}.get(ent)
        if ij is None:
            mm = __import__('re').match(r'e?(\d)(\d)', ent)
            ij = (int(mm.group(1)), int(mm.group(2))) if mm else (0, 0)
        expr = 'std::real(m.get_mass_matrix_%s()(%d,%d))' % (nm, ij[0], ij[1])
    return fidelity.replay_equality(wd, 'MSSMNoFV_onshell', model, expr)

@obligation('C04.sfermion_mass_matrices', replay=replay_matrix_entry, fns=[(ME, CLS + '::get_mass_matrix_' + s[0]) for s in SFERMIONS] + [(ME, CLS + '::get_mass_matrix_' + s[0]) for s in SNEUTRINOS])
def _(ctx):
    """ensures (for ALL real Lagrangian parameters): every entry of the nine 2x2 sfermion mass matrices and the three sneutrino masses
    squared equals the Lagrangian expression above; the matrices are symmetric.  One generic spec with the generation index g covers all
    three generations, hence exchanging the parameters of two generations exchanges the matrices."""
    it = Interp(ctx.w, mode='sym')
    m = model(ctx, it)
    g1, g2, vd, vu, gY2 = gauge(m)
    isq2 = z3.Real('c_ISQRT2')
    cos2b_mz2 = (g2 * g2 + gY2) * (vd * vd - vu * vu) / 4
    sw2_cos2b_mz2 = gY2 * (vd * vd - vu * vu) / 4
    for (nm, sl, sr, yk, tr, g, T3, Q, ud) in SFERMIONS:
        sym, M, _ = single(it, lambda: it.call('get_mass_matrix_' + nm, [], this=m))
        vf, vo = (vd, vu) if ud == 'd' else (vu, vd)
        y = m.f[yk].get(g, g)
        mf2 = y * y * vf * vf / 2
        LL = m.f[sl].get(g, g) + mf2 + T3 * cos2b_mz2 - Q * sw2_cos2b_mz2
        RR = m.f[sr].get(g, g) + mf2 + Q * sw2_cos2b_mz2
        LR = isq2 * (vf * m.f[tr].get(g, g) - vo * y * m.f['Mu'])
        ax = sym.axioms
        ctx.prove(nm + '.LL', ax, z3real(M.get(0, 0)) == LL, check_vacuity=False)
        ctx.prove(nm + '.RR', ax, z3real(M.get(1, 1)) == RR, check_vacuity=False)
        ctx.prove(nm + '.LR', ax, z3.And(z3real(M.get(0, 1)) == LR, z3real(M.get(1, 0)) == LR), check_vacuity=False)
    for (nm, g) in SNEUTRINOS:
        sym, M, _ = single(it, lambda: it.call('get_mass_matrix_' + nm, [], this=m))
        ctx.prove(nm, sym.axioms, z3real(M) == m.f['ml2'].get(g, g) + cos2b_mz2 / 2, check_vacuity=False)
    ctx.merge_rules(it)

@obligation('C04.gauge_fermion_ino_matrices', replay=replay_matrix_entry, fns=[(ME, CLS + '::get_mass_matrix_' + n) for n in ('VZ', 'VWm', 'Chi', 'Cha', 'Fd', 'Fs', 'Fb', 'Fu', 'Fc', 'Ft', 'Fe', 'Fm', 'Ftau', 'Glu')])
def _(ctx):
    """ensures: MZ^2 = (g2^2 + 3/5 g1^2)(vd^2+vu^2)/4, MW^2 = g2^2 (vd^2+vu^2)/4, fermion masses y_f v_f/sqrt2, gluino mass M3,
    neutralino matrix (bino, wino, Hd, Hu basis) and chargino matrix in SLHA convention, entry by entry; trace and determinant relations follow"""
    it = Interp(ctx.w, mode='sym')
    m = model(ctx, it)
    g1, g2, vd, vu, gY2 = gauge(m)
    isq2 = z3.Real('c_ISQRT2')
    pre = [g2 != 0]
    it.assumptions = pre
    def get(n):
        return single(it, lambda: it.call('get_mass_matrix_' + n, [], this=m))
    sym, r, _ = get('VZ')
    ctx.prove('VZ', pre + sym.axioms, z3real(r) == (g2 * g2 + gY2) * (vd * vd + vu * vu) / 4, tactics=('nlsat', 'default'))
    ctx.sides('VZ', sym, pre)
    sym, r, _ = get('VWm')
    ctx.prove('VWm', sym.axioms, z3real(r) == g2 * g2 * (vd * vd + vu * vu) / 4, check_vacuity=False)
    sym, r, _ = get('Glu')
    ctx.prove('Glu', sym.axioms, z3real(r) == m.f['MassG'], check_vacuity=False)
    for n, yk, g, v in (('Fd', 'Yd', 0, vd), ('Fs', 'Yd', 1, vd), ('Fb', 'Yd', 2, vd), ('Fu', 'Yu', 0, vu), ('Fc', 'Yu', 1, vu), ('Ft', 'Yu', 2, vu),
                        ('Fe', 'Ye', 0, vd), ('Fm', 'Ye', 1, vd), ('Ftau', 'Ye', 2, vd)):
        sym, r, _ = get(n)
        ctx.prove(n, sym.axioms, z3real(r) == isq2 * v * m.f[yk].get(g, g), check_vacuity=False)
    sym, X, _ = get('Chi')
    gY = z3.Real('gY')
    c320 = z3.Real('c_SQRT3_20')       # sqrt(3/20) = sqrt(3/5)/2
    want = [[m.f['MassB'], 0, -c320 * g1 * vd, c320 * g1 * vu],
            [0, m.f['MassWB'], g2 * vd / 2, -g2 * vu / 2],
            [-c320 * g1 * vd, g2 * vd / 2, 0, -m.f['Mu']],
            [c320 * g1 * vu, -g2 * vu / 2, -m.f['Mu'], 0]]
    ctx.prove('Chi', sym.axioms, z3.And(*[z3real(X.get(i, j)) == want[i][j] for i in range(4) for j in range(4)]), check_vacuity=False)
    ctx.prove('Chi.bino_higgsino_coupling_is_gY/2', sym.axioms + [c320 > 0, c320 * c320 == Fr(3, 20)], 4 * c320 * c320 * g1 * g1 == gY2, check_vacuity=False)
    sym, X, _ = get('Cha')
    want = [[m.f['MassWB'], isq2 * g2 * vu], [isq2 * g2 * vd, m.f['Mu']]]
    ctx.prove('Cha', sym.axioms, z3.And(*[z3real(X.get(i, j)) == want[i][j] for i in range(2) for j in range(2)]), check_vacuity=False)
    ctx.merge_rules(it)

@obligation('C04.ewsb_and_higgs_sum_rules', fns=[(ME, CLS + '::solve_ewsb_tree_level_via_soft_higgs_masses'), (ME, CLS + '::get_ewsb_eq_hh_1'), (ME, CLS + '::get_ewsb_eq_hh_2'),
                                                (ME, CLS + '::get_mass_matrix_hh'), (ME, CLS + '::get_mass_matrix_Ah'), (ME, CLS + '::get_mass_matrix_Hpm')])
def _(ctx):
    """after solve_ewsb_tree_level (vd, vu, g2 != 0): both EWSB equations vanish; with mA^2 := B mu (vd^2+vu^2)/(vd vu):
    tr M2_hh = mA^2 + MZ^2 (m_h^2 + m_H^2 = m_A^2 + m_Z^2), det M2_hh = mA^2 MZ^2 cos^2(2 beta);
    M2_Ah: eigenvalues {MZ^2 (Goldstone, eigenvector (cos b, -sin b)... by trace/det), mA^2};
    M2_Hpm: trace = 2 MW^2 + mA^2, det = MW^2 (mA^2 + MW^2)   (m_H+^2 = m_A^2 + m_W^2, Goldstone at MW^2)"""
    it = Interp(ctx.w, mode='sym')
    m = model(ctx, it)
    g1, g2, vd, vu, gY2 = gauge(m)
    pre = [vd > 0, vu > 0, g2 > 0, g1 > 0]
    it.assumptions = pre
    def run():
        m2 = deep_copy(m)
        err = it.call('solve_ewsb_tree_level', [], this=m2)
        return (err, it.call('get_ewsb_eq_hh_1', [], this=m2), it.call('get_ewsb_eq_hh_2', [], this=m2), it.call('get_mass_matrix_hh', [], this=m2),
                it.call('get_mass_matrix_Ah', [], this=m2), it.call('get_mass_matrix_Hpm', [], this=m2))
    sym, (err, e1, e2, Mh, MA, MP), _ = single(it, run)
    ctx.merge_rules(it)
    ax = pre + sym.axioms
    ctx.record('no_error', PROVED if err == 0 else FAILED, 'B', 0, 'solve_ewsb_tree_level returns %s (real arithmetic: always finite)' % err)
    ctx.prove('ewsb_eqs_vanish', ax, z3.And(z3real(e1) == 0, z3real(e2) == 0), tactics=('nlsat', 'default'))
    mz2 = (g2 * g2 + gY2) * (vd * vd + vu * vu) / 4
    mw2 = g2 * g2 * (vd * vd + vu * vu) / 4
    mA2 = m.f['BMu'] * (vd * vd + vu * vu) / (vd * vu)
    c2b = (vd * vd - vu * vu) / (vd * vd + vu * vu)
    tr = lambda M: z3real(M.get(0, 0)) + z3real(M.get(1, 1))
    det = lambda M: z3real(M.get(0, 0)) * z3real(M.get(1, 1)) - z3real(M.get(0, 1)) * z3real(M.get(1, 0))
    tac = ('nlsat', 'default')
    ctx.prove('hh.trace', ax, tr(Mh) == mA2 + mz2, tactics=tac)
    ctx.prove('hh.det', ax, det(Mh) == mA2 * mz2 * c2b * c2b, tactics=tac)
    ctx.prove('hh.symmetric', ax, z3real(Mh.get(0, 1)) == z3real(Mh.get(1, 0)), tactics=tac)
    ctx.prove('Ah.trace', ax, tr(MA) == mA2 + mz2, tactics=tac)
    ctx.prove('Ah.det', ax, det(MA) == mA2 * mz2, tactics=tac)
    ctx.prove('Hpm.trace', ax, tr(MP) == mA2 + 2 * mw2, tactics=tac)
    ctx.prove('Hpm.det', ax, det(MP) == mw2 * (mA2 + mw2), tactics=tac)
    ctx.sides('ewsb', sym, pre)

# ---------------------------------------------------------------------------------------------------
from contracts.c08 import linalg_hermitian_stub

FLAGGING = ['Sm', 'Stau', 'Sb', 'St', 'hh', 'Ah', 'Hpm']
NONFLAGGING = ['Sd', 'Su', 'Se', 'Ss', 'Sc']
ARR = {'Sm': 'MSm', 'Stau': 'MStau', 'Sb': 'MSb', 'St': 'MSt', 'hh': 'Mhh', 'Ah': 'MAh', 'Hpm': 'MHpm', 'Sd': 'MSd', 'Su': 'MSu', 'Se': 'MSe', 'Ss': 'MSs', 'Sc': 'MSc'}

def make_tachyon(nm, pid='C04'):
    @obligation('%s.tachyon.%s' % (pid, nm), fns=[(ME, CLS + '::calculate_M' + nm)])
    def ob(ctx, nm=nm):
        """for ANY symmetric 2x2 mass matrix (eigen-solver by A-LINALG: eigenvalues w ordered by |w|): a tachyon is flagged on exactly the
        paths on which some eigenvalue is negative, and the stored masses are sqrt(|w_i|) >= 0 in the solver's order"""
        a, b, c = ctx.reals('m00 m01 m11')
        flagged = []
        it = Interp(ctx.w, mode='sym')
        M = Mat(2, 2, [[a, b], [b, c]], 'matrix', False)
        handed = []
        def solver(i, ar, t):
            handed.append(ar[0].copy())
            return linalg_hermitian_stub(i, ar, t)
        it.stubs.update({'fs_diagonalize_hermitian': solver,
                         CLS + '::get_mass_matrix_' + nm: lambda i, ar, t: M,
                         '::flag_tachyon': lambda i, ar, t: flagged.append(ar[0])})
        m = it.new_object('MSSMNoFV_onshell')
        def run():
            del flagged[:]
            del handed[:]
            it.call('calculate_M' + nm, [], this=m)
            return (m.f[ARR[nm]].copy(), list(flagged), list(handed))
        paths = it.run_paths(run)
        ctx.merge_rules(it)
        ctx.assume_note('A-LINALG: fs_diagonalize_hermitian(m,w,z): z orthogonal, z m z^T = diag(w), |w0|<=|w1|')
        if nm in FLAGGING and len(paths) < 2:
            ctx.record('paths', ERROR, 'B', 0, 'expected a flagging and a non-flagging path, got %d' % len(paths))
        for k, (sym, (Ms, fl, hd), exc) in enumerate(paths):
            # the spectrum is the spectrum OF THE MASS MATRIX: what is handed to the eigen-solver is get_mass_matrix_X(), entry by entry, on every path
            same = len(hd) == 1 and hd[0].r == 2 and hd[0].c == 2
            if same:
                ctx.prove('path%d.solver_receives_mass_matrix' % k, sym.pc, z3.And(*[z3real(hd[0].get(i, j)) == z3real(M.get(i, j)) for i in range(2) for j in range(2)]), check_vacuity=False,
                          pins=[{'m00': 250000, 'm01': Fr(1, 100), 'm11': 160000}, {'m00': 250000, 'm01': 3000, 'm11': 160000}, {'m00': 4, 'm01': 1, 'm11': 9}])
            else:
                ctx.record('path%d.solver_receives_mass_matrix' % k, FAILED, 'B', 0, 'the eigen-solver is called %d times' % len(hd))
            W = [z3.Real('eig%d_w%d' % (sym.linalg_k, i)) for i in range(2)]
            anyneg = z3.Or(W[0] < 0, W[1] < 0)
            if nm in FLAGGING:
                ctx.prove('path%d.flag_iff_negative' % k, sym.pc, anyneg if fl else z3.Not(anyneg), check_vacuity=False,
                          pins=[{'eig%d_w0' % sym.linalg_k: x, 'eig%d_w1' % sym.linalg_k: y} for x, y in [(1, -2), (-1, 2), (-1, -2), (1, 2)]])
                ctx.record('path%d.flag_name' % k, PROVED if (not fl or fl == [nm]) else FAILED, 'B', 0, 'flag_tachyon arguments: %s' % (fl,))
            else:
                ctx.record('path%d.no_flag' % k, PROVED if not fl else FAILED, 'B', 0, 'this sector is not monitored; flags: %s' % (fl,))
            sq = [a_ for a_ in sym.axioms if 'sqrt' in str(a_)]
            ctx.prove('path%d.masses' % k, sym.pc + sq, z3.And(*[z3.And(z3real(Ms.get(i)) >= 0, z3real(Ms.get(i)) * z3real(Ms.get(i)) == absz(W[i])) for i in range(2)]),
                      check_vacuity=False, tactics=('nlsat', 'default'))
    return ob

for _nm in FLAGGING + NONFLAGGING:
    make_tachyon(_nm)

@obligation('C04.tachyon.SvmL', fns=[(ME, CLS + '::calculate_MSvmL')])
def _(ctx):
    """muon sneutrino: flagged iff its squared mass is negative; stored mass sqrt(|m^2|)"""
    x = ctx.real('m2')
    flagged = []
    it = Interp(ctx.w, mode='sym')
    it.stubs.update({CLS + '::get_mass_matrix_SvmL': lambda i, ar, t: x, '::flag_tachyon': lambda i, ar, t: flagged.append(ar[0])})
    m = it.new_object('MSSMNoFV_onshell')
    def run():
        del flagged[:]
        it.call('calculate_MSvmL', [], this=m)
        return (m.f['MSvmL'], list(flagged))
    for k, (sym, (ms, fl), exc) in enumerate(it.run_paths(run)):
        ctx.prove('path%d.flag_iff_negative' % k, sym.pc, (x < 0) if fl else z3.Not(x < 0), check_vacuity=False)
        ctx.prove('path%d.mass' % k, sym.pc + sym.axioms, z3.And(z3real(ms) >= 0, z3real(ms) * z3real(ms) == absz(x)), check_vacuity=False, tactics=('nlsat', 'default'))
    ctx.merge_rules(it)

@obligation('C04.soft_higgs_masses_restored', fns=[(ME, CLS + '::calculate_DRbar_masses'), ('src/gm2_raii.hpp', 'make_raii_save')])
def _(ctx):
    """frame: calculate_DRbar_masses() eliminates mHd2, mHu2 by the tree-level EWSB conditions for the spectrum but restores both to
    their values at entry (RAII save), and writes no other Lagrangian parameter"""
    it = Interp(ctx.w, mode='sym')
    m = model(ctx, it)
    g1, g2, vd, vu, gY2 = gauge(m)
    pre = [vd > 0, vu > 0]
    it.assumptions = pre
    seen = {}
    def calc_stub(name):
        def st(i, a, t):
            # record the soft Higgs masses the spectrum calculation actually sees
            seen.setdefault('mHd2', t.f['mHd2'])
            seen.setdefault('mHu2', t.f['mHu2'])
            return None
        return st
    for f in ctx.w.funcs:
        if f.startswith(CLS + '::calculate_M') and f != CLS + '::calculate_DRbar_masses':
            it.stubs[f] = calc_stub(f)
    it.stubs[CLS + '::reorder_DRbar_masses'] = lambda i, a, t: None
    params = ['mHd2', 'mHu2', 'Mu', 'BMu', 'vd', 'vu', 'g1', 'g2', 'g3', 'MassB', 'MassWB', 'MassG', 'mq2', 'ml2', 'md2', 'mu2', 'me2', 'Yu', 'Yd', 'Ye', 'TYu', 'TYd', 'TYe']
    before = {k: deep_copy(m.f[k]) for k in params}
    sym, _, _ = single(it, lambda: it.call('calculate_DRbar_masses', [], this=m))
    ctx.merge_rules(it)
    from contracts.c09 import eq_values
    for k in params:
        same = z3.is_true(z3.simplify(eq_values(before[k], m.f[k])))
        ctx.record('unchanged.' + k, PROVED if same else FAILED, 'B', 0, '%s after == %s at entry' % (k, k))
    # and the spectrum was computed with the EWSB-eliminated values (not with the input ones)
    used = seen.get('mHd2')
    ctx.record('spectrum_uses_ewsb_solution', PROVED if (used is not None and not z3.is_true(z3.simplify(z3real(used) == z3real(before['mHd2'])))) else FAILED, 'B', 0,
               'mHd2 seen by the calculate_M* routines: %s' % (str(used)[:80],))
    n = ctx.rule_counts.get('raii-save', 0)
    ctx.record('raii_rule_fired', PROVED if n >= 2 else ERROR, 'B', 0, 'make_raii_save fired %d times (must-fire rule: >= 2)' % n)

@obligation('C04.goldstone_reordering', fns=[(ME, CLS + '::reorder_DRbar_masses'), ('src/gm2_eigen_utils.hpp', 'move_goldstone_to'), ('src/gm2_eigen_utils.hpp', 'closest_index')])
def _(ctx):
    """requires: MAh = sort(MZ, mA), MHpm = sort(MW, mH+).  ensures: MAh = (MZ, mA), MHpm = (MW, mH+) -- Goldstone modes at index 0 --
    and the ROWS of ZA, ZP are permuted exactly like the masses (so that Z^T diag(M^2) Z is unchanged)"""
    mz, mw, mA, mHp = ctx.reals('MVZ MVWm mA mHp')
    pre = [mz > 0, mw > 0, mA > 0, mHp > 0, mw < mz]
    it = Interp(ctx.w, mode='sym', assumptions=pre)
    th = it.new_object('MSSMNoFV_onshell', symbolic_fields(None, prefix='r.'))
    th.f['MVZ'], th.f['MVWm'] = mz, mw
    lo = lambda a, b: z3.If(a <= b, a, b)
    hi = lambda a, b: z3.If(a <= b, b, a)
    th.f['MAh'] = Mat(2, 1, [[lo(mz, mA)], [hi(mz, mA)]], 'array', False)
    th.f['MHpm'] = Mat(2, 1, [[lo(mw, mHp)], [hi(mw, mHp)]], 'array', False)
    za0, zp0 = th.f['ZA'].copy(), th.f['ZP'].copy()
    def run():
        t2 = Obj(th.cls, {k: (v.copy() if isinstance(v, Mat) else v) for k, v in th.f.items()})
        it.call('reorder_DRbar_masses', [], this=t2)
        return t2
    paths = it.run_paths(run)
    ctx.merge_rules(it)
    for k, (sym, t2, exc) in enumerate(paths):
        ax = pre + sym.pc
        A, H = t2.f['MAh'], t2.f['MHpm']
        ctx.prove('path%d.MAh' % k, ax, z3.And(z3real(A.get(0)) == mz, z3real(A.get(1)) == mA))
        ctx.prove('path%d.MHpm' % k, ax, z3.And(z3real(H.get(0)) == mw, z3real(H.get(1)) == mHp))
        for nm, z0, sw in (('ZA', za0, z3.Not(mz <= mA)), ('ZP', zp0, z3.Not(mw <= mHp))):
            z = t2.f[nm]
            ctx.prove('path%d.%s' % (k, nm), ax, z3.If(sw, z3.And(*[z3real(z.get(0, j)) == z3real(z0.get(1, j)) for j in range(2)] + [z3real(z.get(1, j)) == z3real(z0.get(0, j)) for j in range(2)]),
                                                       z3.And(*[z3real(z.get(i, j)) == z3real(z0.get(i, j)) for i in range(2) for j in range(2)])))


@obligation('C04.goldstone_reordering.rounded_spectrum', fns=[(ME, CLS + '::reorder_DRbar_masses'), ('src/gm2_eigen_utils.hpp', 'move_goldstone_to'), ('src/gm2_eigen_utils.hpp', 'closest_index')])
def _(ctx):
    """the same contract for a spectrum as the eigen-solver really delivers it (accurate to its error bound, not exact): requires MAh = sort(gZ, mA), MHpm = sort(gW, mH+) with
    |gZ - MZ| <= 1e-9 MZ, |gW - MW| <= 1e-9 MW and the physical masses further away than that.  ensures: the Goldstone states sit at index 0, the physical ones at index 1"""
    mz, mw, mA, mHp, gz, gw = ctx.reals('MVZ MVWm mA mHp gZ gW')
    d = Fr(1, 10**9)
    absz_ = lambda t: z3.If(t >= 0, t, -t)
    pre = [mz > 0, mw > 0, mA > 0, mHp > 0, mw < mz, gz > 0, gw > 0, absz_(gz - mz) <= d * mz, absz_(gw - mw) <= d * mw, absz_(mA - mz) > 3 * d * mz, absz_(mHp - mw) > 3 * d * mw]
    it = Interp(ctx.w, mode='sym', assumptions=pre)
    th = it.new_object('MSSMNoFV_onshell', symbolic_fields(None, prefix='r.'))
    th.f['MVZ'], th.f['MVWm'] = mz, mw
    lo = lambda a, b: z3.If(a <= b, a, b)
    hi = lambda a, b: z3.If(a <= b, b, a)
    th.f['MAh'] = Mat(2, 1, [[lo(gz, mA)], [hi(gz, mA)]], 'array', False)
    th.f['MHpm'] = Mat(2, 1, [[lo(gw, mHp)], [hi(gw, mHp)]], 'array', False)
    def run():
        t2 = Obj(th.cls, {k: (v.copy() if isinstance(v, Mat) else v) for k, v in th.f.items()})
        it.call('reorder_DRbar_masses', [], this=t2)
        return t2
    paths = it.run_paths(run)
    ctx.merge_rules(it)
    for k, (sym, t2, exc) in enumerate(paths):
        ax = pre + sym.pc
        A, H = t2.f['MAh'], t2.f['MHpm']
        ctx.prove('path%d.MAh' % k, ax, z3.And(z3real(A.get(0)) == gz, z3real(A.get(1)) == mA))
        ctx.prove('path%d.MHpm' % k, ax, z3.And(z3real(H.get(0)) == gw, z3real(H.get(1)) == mHp))
    ctx.record('paths', PROVED if paths else ERROR, 'B', 0, '%d paths' % len(paths))

def fidelity(tier, seed):
    """A-FRONT guard: MSSM a_mu and mass-matrix functions, interpreter (float mode) vs compiled real code on real spectra"""
    from gm2v import fidelity as _fid
    return _fid.mssm_model_guard(seed=seed)

# Contracts on single calls carry over to every call in a process only if no function keeps state between calls: C19's static-frame obligation is a lemma here.
from contracts.shared import reregister as _rr_static
from contracts import c19 as _c19_static
_rr_static('C04', 'C19', 'C19.no_stateful_local_statics', 'C04.lemma.no_state_between_calls', replay=None)

# ---------------------------------------------------------------------------------------------------
# the bookkeeping behind "tachyon flag <=> negative m^2": MSSMNoFV_onshell_problems::flag_tachyon keeps a SET of sector names
# ---------------------------------------------------------------------------------------------------
SECTORS = ['SvmL', 'Sm', 'Stau', 'Sb', 'St', 'hh', 'Ah', 'Hpm']
PB = 'src/MSSMNoFV/MSSMNoFV_onshell_problems.cpp'

FLAG_REPLAY = r'''
#include "gm2calc/MSSMNoFV_onshell_problems.hpp"
#include <cstdio>
#include <string>
#include <sstream>
// REAL MSSMNoFV_onshell_problems: every order of flagging two or three sectors must report all of them
int main() {
   const char* s[] = {"SvmL", "Sm", "Stau", "Sb", "St", "hh", "Ah", "Hpm"};
   int bad = 0;
   for (int i = 0; i < 8; i++) for (int j = 0; j < 8; j++) for (int k = 0; k < 8; k++) {
      gm2calc::MSSMNoFV_onshell_problems p;
      p.flag_tachyon(s[i]); p.flag_tachyon(s[j]); p.flag_tachyon(s[k]);
      const std::string txt = p.get_problems();
      for (int m : {i, j, k}) if (txt.find(std::string(s[m]) + " tachyon") == std::string::npos && txt.find(s[m]) == std::string::npos) {
         bad++; if (bad < 6) std::printf("flagged %s, %s, %s: report \"%s\" does not mention %s\n", s[i], s[j], s[k], txt.c_str(), s[m]);
      }
   }
   std::printf("%d missing sector names in the problem reports\n", bad);
   return bad ? 1 : 0;
}
'''

def replay_flag(model, wd):
    from gm2v import native
    import subprocess
    exe = native.build_against_library(wd, FLAG_REPLAY, name='flag_tachyon')
    r = subprocess.run([exe], capture_output=True, text=True, timeout=120)
    return r.returncode == 1, r.stdout.strip()[-1200:]

def make_flag_contract(prop, cls='MSSMNoFV_onshell_problems', file=PB, sectors=None, tag='flag_tachyon', replay=replay_flag):
    SECTORS_ = list(sectors or SECTORS)
    @obligation('%s.problems.%s' % (prop, tag), fns=[(file, cls + '::flag_tachyon'), (file, cls + '::have_tachyon')], replay=replay)
    def _(ctx, SECTORS=SECTORS_, cls=cls):
        """ensures (exhaustive over all sets S of the monitored sectors and every sector name n): after flag_tachyon(n) on a problems object whose list holds exactly S,
        the list holds exactly S + {n} (nothing lost, nothing doubled), have_tachyon() and have_problem() are true; clear() empties it"""
        import itertools
        bad = []
        n_runs = 0
        for r in range(0, 9):
            for S in itertools.combinations(sorted(SECTORS), r):
                for n in SECTORS:
                    it = Interp(ctx.w, mode='sym')
                    p = it.new_object(cls)
                    lf = [k_ for k_, v_ in p.f.items() if isinstance(v_, list)]      # the container of flagged names, whatever the member is called
                    if len(lf) != 1:
                        ctx.record('set_semantics', ERROR, 'B', 0, 'expected one container member in %s, found %s' % (cls, lf))
                        return
                    LF = lf[0]
                    p.f[LF] = list(S)
                    it.run_single(lambda: it.call_method(p, 'flag_tachyon', [n]))
                    n_runs += 1
                    got = list(p.f[LF])
                    ht = it.run_single(lambda: it.call_method(p, 'have_tachyon', []))
                    hp = it.run_single(lambda: it.call_method(p, 'have_problem', []))
                    if sorted(got) != sorted(set(S) | {n}) or len(got) != len(set(got)) or ht is not True or hp is not True:
                        bad.append('list %s, flag_tachyon(%s) -> %s (have_tachyon %s)' % (list(S), n, got, ht))
                ctx.merge_rules(it) if r == 0 else None
        ctx.record('set_semantics', PROVED if not bad else FAILED, 'B', 0, '%d executions; %s' % (n_runs, bad[0] if bad else 'every previous name kept, the new one added once'),
                   solver='exhaustive concrete execution of the extracted code')
        it = Interp(ctx.w, mode='sym')
        p = it.new_object(cls)
        LF = [k_ for k_, v_ in p.f.items() if isinstance(v_, list)][0]
        p.f[LF] = ['Ah', 'hh']
        it.run_single(lambda: it.call_method(p, 'clear', []))
        ok = list(p.f[LF]) == [] and it.run_single(lambda: it.call_method(p, 'have_tachyon', [])) is False
        ctx.record('clear', PROVED if ok else FAILED, 'B', 0, 'clear() leaves %s' % (p.f[LF],))

make_flag_contract('C04')

# the gaugino sectors: what reaches the decomposition routine is the mass matrix itself (same statement as `solver_receives_mass_matrix` of the 2x2 scalar sectors)
from contracts.shared import make_solver_input as _msi
def make_solver_input(nm, solver, n, prop='C04', cls=None, file=None, model_cls='MSSMNoFV_onshell'):
    return _msi(nm, solver, n, prop, cls or CLS, file or ME, model_cls)

make_solver_input('Cha', 'fs_svd', 2)
make_solver_input('Chi', 'fs_diagonalize_symmetric', 4)

# C07: the 1/k^2 scaling presupposes that the spectrum entering a_mu is the spectrum of the (homogeneous) mass matrices: a dimensionally consistent but scale-dependent
# shortcut between the mass matrix and the solver breaks it without violating the units contract.  The sector contracts are callee contracts of C07.
for _nm in ('Sm', 'Stau', 'Sb', 'St'):
    make_tachyon(_nm, 'C07')
from contracts.shared import reregister as _rr_c07
_rr_c07('C07', 'C04', 'C04.spectrum.solver_input.Cha', 'C07.callee.solver_input.Cha')
_rr_c07('C07', 'C04', 'C04.spectrum.solver_input.Chi', 'C07.callee.solver_input.Chi')

# the remaining 1x1 sectors (not tachyon-monitored): the stored mass is sqrt(|m^2|) >= 0 on every path, no flag is raised
def make_scalar_sector(nm, field):
    @obligation('C04.scalar_sector.%s' % nm, fns=[(ME, CLS + '::calculate_M' + nm)])
    def ob(ctx, nm=nm, field=field):
        """ensures for ANY value m2 of the 1x1 mass matrix: the stored mass M satisfies M >= 0 and M^2 == |m2|; no tachyon flag (this sector is not monitored)"""
        x = ctx.real('m2')
        flagged = []
        it = Interp(ctx.w, mode='sym')
        it.stubs.update({CLS + '::get_mass_matrix_' + nm: lambda i, ar, t: x, '::flag_tachyon': lambda i, ar, t: flagged.append(ar[0])})
        m = it.new_object('MSSMNoFV_onshell')
        def run():
            del flagged[:]
            it.call('calculate_M' + nm, [], this=m)
            return (m.f[field], list(flagged))
        paths = it.run_paths(run)
        ctx.merge_rules(it)
        for k, (sym, (ms, fl), exc) in enumerate(paths):
            ctx.prove('path%d.mass' % k, sym.pc + sym.axioms, z3.And(z3real(ms) >= 0, z3real(ms) * z3real(ms) == absz(x)), check_vacuity=False, tactics=('nlsat', 'default'),
                      pins=[{'m2': -2165}, {'m2': 2165}, {'m2': 0}])
            ctx.record('path%d.no_flag' % k, PROVED if not fl else FAILED, 'B', 0, 'flags: %s' % (fl,))
        ctx.record('paths', PROVED if paths else ERROR, 'B', 0, '%d path(s)' % len(paths))
    return ob

for _nm, _field in (('SveL', 'MSveL'), ('SvtL', 'MSvtL'), ('VZ', 'MVZ'), ('VWm', 'MVWm')):
    make_scalar_sector(_nm, _field)
