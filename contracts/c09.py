"""C09 -- THDM Yukawa parametrisations are equivalent where they describe the same theory.

Contracts on src/THDM/THDM.cpp: get_zeta_u/d/l (Table 1 of arXiv:1607.06292), get_rho_u/d/l, the twelve Yukawa getters
get_y{u,d,l}{h,H,A,Hp}, init_yukawas and validate.  Every a_mu routine reads the Yukawa sector only through these getters
(and get_zeta_l for the bosonic part), so equality of all getters between two parametrisations carries C09.
"""
from fractions import Fraction as Fr
import z3
from gm2v.ob import obligation, PROVED, FAILED, UNDECIDED, ERROR
from gm2v.interp import Interp, Thrown
from gm2v.values import Cx, Mat, Obj, to_z3, z3real, is_sym, mul, add, sub, div, deep_copy
from gm2v.symobj import symbolic_fields

TH = 'src/THDM/THDM.cpp'
T1, T2, TX, TY, AL, GEN = 1, 2, 3, 4, 5, 6
NAMES = {1: 'type_1', 2: 'type_2', 3: 'type_X', 4: 'type_Y', 5: 'aligned', 6: 'general'}
GETTERS_Y = ['get_y%s%s' % (f, s) for f in 'udl' for s in ('h', 'H', 'A', 'Hp')]

def base_model(ctx, it):
    th = it.new_object('THDM', symbolic_fields(None, prefix='', real_only=('Pi_u', 'Pi_d', 'Pi_l')))
    v1, v2 = th.f['v1'], th.f['v2']
    for nm in ('v1', 'v2', 'zeta_u', 'zeta_d', 'zeta_l'):
        ctx.vars[nm] = th.f[nm]
    return th, [v1 > 0, v2 > 0]

def clone(th, **over):
    o = deep_copy(th)
    for k, v in over.items():
        o.f[k] = v
    return o

def mass_stubs(it):
    """callee contracts: get_mu/md/ml(scale) return masses that do not depend on the Yukawa parametrisation (C20.running_bypass);
    the mixing-angle getters depend on ZH, v1, v2 only (C08.mixing_angle)"""
    def mk(nm):
        def stub(it_, args, this):
            sc = args[0] if args else 0
            return Mat(3, 1, [[it_.uf('%s_%d' % (nm, i), sc)] for i in range(3)], 'matrix', False)
        return stub
    it.stubs.update({'THDM::get_mu': mk('run_mu'), 'THDM::get_md': mk('run_md'), 'THDM::get_ml': mk('run_ml'),
                     'THDM_mass_eigenstates::get_sin_beta_minus_alpha': lambda i, a, t: z3.Real('sba'),
                     'THDM_mass_eigenstates::get_cos_beta_minus_alpha': lambda i, a, t: z3.Real('cba')})

def eq_values(a, b):
    """structural equality of two interpreter values as a z3 formula"""
    if isinstance(a, Mat):
        return z3.And(*[eq_values(x, y) for x, y in zip(a.elems(), b.elems())])
    if isinstance(a, Cx) or isinstance(b, Cx):
        a = a if isinstance(a, Cx) else Cx(a, 0)
        b = b if isinstance(b, Cx) else Cx(b, 0)
        return z3.And(z3real(a.re) == z3real(b.re), z3real(a.im) == z3real(b.im))
    return z3real(a) == z3real(b)

def one(it, thunk):
    ps = it.run_paths(thunk)
    ok = [p for p in ps if p[2] is None]
    if len(ok) != 1 or len(ps) != 1:
        raise RuntimeError('expected a single path, got %d (%d throwing)' % (len(ps), len(ps) - len(ok)))
    return ok[0]

TABLE = {   # Table 1 of arXiv:1607.06292: (zeta_u, zeta_d, zeta_l) as functions of tan(beta); 'cot' = 1/tan(beta), 'mtan' = -tan(beta)
    T1: ('cot', 'cot', 'cot'), T2: ('cot', 'mtan', 'mtan'), TX: ('cot', 'cot', 'mtan'), TY: ('cot', 'mtan', 'cot'),
}

def table_value(kind, tb):
    return 1 / tb if kind == 'cot' else -tb

def replay_zeta(model, wd):
    """real THDM::get_zeta_f() for the Yukawa type named in the failed goal, at the counterexample's VEVs and stored zeta_f, against Table 1"""
    from gm2v import fidelity
    goal = (model or {}).get('_goal', '')
    parts = goal.split('.')
    tname, getter = (parts[2], parts[3]) if len(parts) > 3 else ('type_2', 'zeta_l')
    code = {'type_1': 1, 'type_2': 2, 'type_X': 3, 'type_Y': 4, 'aligned': 5, 'general': 6}.get(tname, 2)
    f = dict((model or {}).get('_float', {}))
    vals = {k: v for k, v in f.items()}
    vals.setdefault('v1', 100.0); vals.setdefault('v2', 225.0)
    out, n = fidelity.native_model_eval(wd, 'THDM', vals, ['m.get_%s()' % getter], pre_stmts='   m.yukawa_type = static_cast<gm2calc::thdm::Yukawa_type>(%d);' % code)
    viol = (model or {}).get('_violated_equality') or {}
    want = viol.get('contract_side')
    real = out[0] if out else None
    if want is None or not isinstance(real, float):
        return None, 'real get_%s() = %r; the verifier gave no evaluated equality' % (getter, real)
    return abs(real - want) > 1e-9 * max(abs(real), abs(want), 1e-300), 'real THDM(%s).get_%s() = %r at v1=%r v2=%r; Table 1 of arXiv:1607.06292 demands %r' % (
        tname, getter, real, vals.get('v1'), vals.get('v2'), want)

@obligation('C09.zeta_table', replay=replay_zeta, fns=[(TH, 'THDM::get_zeta_u'), (TH, 'THDM::get_zeta_d'), (TH, 'THDM::get_zeta_l')])
def _(ctx):
    """get_zeta_f() == Table 1 of arXiv:1607.06292 for types I, II, X, Y (functions of tan beta only); == the stored zeta_f for the
    aligned type; == 0 for the general type (where zeta_f is documented as ignored)"""
    it = Interp(ctx.w, mode='sym')
    th, pre = base_model(ctx, it)
    tb = th.f['v2'] / th.f['v1']
    for yt in NAMES:
        m = clone(th, yukawa_type=yt)
        for k, f in enumerate('udl'):
            sym, r, _ = one(it, lambda: it.call('get_zeta_' + f, [], this=m))
            if yt in TABLE:
                want = table_value(TABLE[yt][k], tb)
            elif yt == AL:
                want = th.f['zeta_' + f]
            else:
                want = z3.RealVal(0)
            ctx.prove('%s.zeta_%s' % (NAMES[yt], f), pre + sym.pc + sym.axioms, z3real(r) == want, check_vacuity=False)
    ctx.merge_rules(it)

def all_getters(it, m, with_y=True):
    out = {}
    ax = []
    I3 = None
    for f in 'udl':
        sym, r, _ = one(it, lambda: it.call('get_zeta_' + f, [], this=m))
        out['zeta_' + f] = r
        ax += sym.axioms
        mass = Mat(3, 3, [[z3.Real('m%s_%d%d' % (f, i, j)) if i == j else 0 for j in range(3)] for i in range(3)], 'matrix', False)
        sym, r, _ = one(it, lambda: it.call('get_rho_' + f, [mass], this=m))
        out['rho_' + f] = r
        ax += sym.axioms
    if with_y:
        for g in GETTERS_Y:
            sym, r, _ = one(it, lambda: it.call(g, [], this=m))
            out[g] = r
            ax += sym.axioms
    return out, ax

def make_type_vs_aligned(yt):
    @obligation('C09.%s_equals_aligned' % NAMES[yt], fns=[(TH, 'THDM::get_rho_u'), (TH, 'THDM::get_rho_d'), (TH, 'THDM::get_rho_l')] + [(TH, 'THDM::' + g) for g in GETTERS_Y])
    def ob(ctx, yt=yt):
        """lemma: a model of this type and the flavour-aligned model with zeta_f := Table-1 value and Delta_f := 0 (all else equal) return
        identical zeta_f, rho_f and all twelve Yukawa matrices y_f^{h,H,A,H+}"""
        it = Interp(ctx.w, mode='sym')
        mass_stubs(it)
        th, pre = base_model(ctx, it)
        tb = th.f['v2'] / th.f['v1']
        Z = Mat.fill(3, 3, 0, 'matrix', False)
        a = clone(th, yukawa_type=yt, Delta_u=Z.copy(), Delta_d=Z.copy(), Delta_l=Z.copy())
        b = clone(th, yukawa_type=AL, Delta_u=Z.copy(), Delta_d=Z.copy(), Delta_l=Z.copy(),
                  zeta_u=table_value(TABLE[yt][0], tb), zeta_d=table_value(TABLE[yt][1], tb), zeta_l=table_value(TABLE[yt][2], tb))
        ga, ax1 = all_getters(it, a)
        gb, ax2 = all_getters(it, b)
        ctx.merge_rules(it)
        for k in ga:
            ctx.prove(k, pre + ax1 + ax2, eq_values(ga[k], gb[k]), check_vacuity=False)
    return ob

for _yt in TABLE:
    make_type_vs_aligned(_yt)

@obligation('C09.aligned_equals_general', fns=[(TH, 'THDM::get_rho_u'), (TH, 'THDM::get_rho_d'), (TH, 'THDM::get_rho_l')] + [(TH, 'THDM::' + g) for g in GETTERS_Y])
def _(ctx):
    """lemma: the aligned model (zeta_f, Delta_f arbitrary real 3x3) and the general model whose Pi_f encode the same couplings,
    Pi_f := cos(beta) (sqrt2 M_f (zeta_f + tan beta)/v + Delta_f), return identical rho_f and Yukawa matrices (running couplings off:
    the mass getters are scale independent)"""
    it = Interp(ctx.w, mode='sym')
    mass_stubs(it)
    # running off: masses independent of the scale
    for f in 'udl':
        it.stubs['THDM::get_m' + f] = (lambda f: (lambda it_, args, this: Mat(3, 1, [[z3.Real('mass_%s_%d' % (f, i))] for i in range(3)], 'matrix', False)))(f)
    th, pre = base_model(ctx, it)
    v1, v2 = th.f['v1'], th.f['v2']
    # cos(beta), v as the code computes them
    al = clone(th, yukawa_type=AL)
    symc, cb, _ = one(it, lambda: it.call('get_cos_beta', [], this=al))
    symv, v, _ = one(it, lambda: it.call('get_v', [], this=al))
    tb = v2 / v1
    sq2 = z3.Real('c_SQRT2')
    enc = {}
    for f in 'udl':
        mass = [z3.Real('mass_%s_%d' % (f, i)) for i in range(3)]
        D = th.f['Delta_' + f]
        P = Mat(3, 3, [[Cx(z3real(cb) * ((sq2 * mass[i] * (th.f['zeta_' + f] + tb) / z3real(v) if i == j else 0) + z3real(D.get(i, j))), 0) for j in range(3)] for i in range(3)], 'matrix', True)
        enc['Pi_' + f] = P
    ge = clone(th, yukawa_type=GEN, **enc)
    ax0 = symc.axioms + symv.axioms
    outs = []
    for m in (al, ge):
        o = {}
        ax = []
        for f in 'udl':
            mass = Mat(3, 3, [[z3.Real('mass_%s_%d' % (f, i)) if i == j else 0 for j in range(3)] for i in range(3)], 'matrix', False)
            sym, r, _ = one(it, lambda: it.call('get_rho_' + f, [mass], this=m))
            o['rho_' + f] = r
            ax += sym.axioms
        for g in GETTERS_Y:
            sym, r, _ = one(it, lambda: it.call(g, [], this=m))
            o[g] = r
            ax += sym.axioms
        outs.append((o, ax))
    ctx.merge_rules(it)
    (oa, axa), (og, axg) = outs
    for k in oa:
        ctx.prove(k, pre + ax0 + axa + axg, eq_values(oa[k], og[k]), check_vacuity=False, tactics=('nlsat', 'default'))

IGNORED = {   # per type: data members documented as ignored (README, THDM::validate)
    T1: ['zeta_u', 'zeta_d', 'zeta_l'], T2: ['zeta_u', 'zeta_d', 'zeta_l'], TX: ['zeta_u', 'zeta_d', 'zeta_l'], TY: ['zeta_u', 'zeta_d', 'zeta_l'],
    AL: [], GEN: ['zeta_u', 'zeta_d', 'zeta_l', 'Delta_u', 'Delta_d', 'Delta_l'],
}

def fresh_like(v, tag):
    if isinstance(v, Mat):
        return Mat(v.r, v.c, [[fresh_like(x, '%s_%d%d' % (tag, i, j)) for j, x in enumerate(row)] for i, row in enumerate(v.d)], v.kind, v.cplx)
    if isinstance(v, Cx):
        return Cx(z3.Real(tag + '.re'), z3.Real(tag + '.im'))
    return z3.Real(tag)

def make_independence(yt):
    @obligation('C09.%s.ignored_parameters' % NAMES[yt], fns=[(TH, 'THDM::get_zeta_u'), (TH, 'THDM::get_zeta_d'), (TH, 'THDM::get_zeta_l'), (TH, 'THDM::get_rho_u'),
                                                              (TH, 'THDM::get_rho_d'), (TH, 'THDM::get_rho_l'), (TH, 'THDM::init_yukawas')])
    def ob(ctx, yt=yt):
        """relational frame: two models of this type that differ ONLY in the parameters documented as ignored for it return identical
        zeta_f, rho_f and Yukawa matrices, and init_yukawas() leaves identical Gamma_f (and, unless general, identical Pi_f) whatever Pi_f held before"""
        it = Interp(ctx.w, mode='sym')
        mass_stubs(it)
        th, pre = base_model(ctx, it)
        a = clone(th, yukawa_type=yt)
        over = {k: fresh_like(th.f[k], 'other_' + k) for k in IGNORED[yt]}
        if yt != GEN:
            for f in 'udl':
                over['Pi_' + f] = fresh_like(th.f['Pi_' + f], 'other_Pi_' + f)
        b = clone(th, yukawa_type=yt, **over)
        # Pi_f of a non-general model is what init_yukawas writes
        def init(m):
            sym, _, _ = one(it, lambda: it.call('init_yukawas', [], this=m))
            return sym.axioms + [z3real(c) for g_, c, d_ in sym.sides if is_sym(c)]
        axi = init(a) + init(b)
        ga, ax1 = all_getters(it, a)
        gb, ax2 = all_getters(it, b)
        ctx.merge_rules(it)
        for k in ga:
            ctx.prove(k, pre + axi + ax1 + ax2, eq_values(ga[k], gb[k]), check_vacuity=False)
        names = ['Gamma_u', 'Gamma_d', 'Gamma_l'] + ([] if yt == GEN else ['Pi_u', 'Pi_d', 'Pi_l'])
        for nm in names:
            ctx.prove('after_init.' + nm, pre + axi, eq_values(a.f[nm], b.f[nm]), check_vacuity=False)
    return ob

for _yt in NAMES:
    make_independence(_yt)

@obligation('C09.validate_only_warns', fns=[(TH, 'THDM::validate')])
def _(ctx):
    """validate(): never throws, changes no data member, its only effects are WARNING diagnostics (explored for all six types with
    every ignored parameter set and unset)"""
    n = 0
    for yt in NAMES:
        for nz in (False, True):
            it = Interp(ctx.w, mode='sym')
            th = it.new_object('THDM')
            th.f['yukawa_type'] = yt
            if nz:
                one_ = Mat.fill(3, 3, Fr(1, 2), 'matrix', False)
                th.f.update(zeta_u=Fr(1), zeta_d=Fr(2), zeta_l=Fr(3), Delta_u=one_.copy(), Delta_d=one_.copy(), Delta_l=one_.copy())
                th.f['Pi_u'] = Mat.fill(3, 3, Cx(Fr(1, 3), 0), 'matrix', True)
                th.f['Pi_d'] = th.f['Pi_u'].copy()
                th.f['Pi_l'] = th.f['Pi_u'].copy()
            before = repr({k: repr(v) for k, v in th.f.items() if not isinstance(v, Obj)})
            try:
                ps = it.run_paths(lambda: it.call('validate', [], this=th))
            except Thrown as t:
                ctx.record('%s.%s' % (NAMES[yt], nz), FAILED, 'B', 0, 'validate throws %s' % t.cls)
                continue
            for sym, r, exc in ps:
                n += 1
                after = repr({k: repr(v) for k, v in th.f.items() if not isinstance(v, Obj)})
                kinds = {e[0] for e in sym.effects}
                ok = exc is None and before == after and kinds <= {'WARNING'}
                # which warnings are expected
                ctx.record('%s.params_%s.path%d' % (NAMES[yt], 'set' if nz else 'unset', n), PROVED if ok else FAILED, 'B', 0,
                           'exception=%s state_changed=%s effects=%s' % (exc, before != after, sorted(kinds)))
            ctx.merge_rules(it)


def fidelity(tier, seed):
    """A-FRONT guard: THDM a_mu functions and getters, interpreter (float mode) vs compiled real code on real models"""
    from gm2v import fidelity as _fid
    return _fid.thdm_model_guard(seed=seed)

# ------------------------------------------------------------------------------------------------ constructors
CTOR_REPLAY = r'''
#include <cstdio>
#include <cmath>
#include <complex>
#include <Eigen/Core>
#define private public
#include "gm2calc/THDM.hpp"
#undef private
#include "gm2calc/SM.hpp"
#include "gm2calc/gm2_error.hpp"
// both REAL constructors with pairwise different zeta_f / Delta_f in the flavour-aligned type: the model must report what the basis carried
int main() {
   int bad = 0;
   Eigen::Matrix<double,3,3> Du, Dd, Dl;
   Du << 0.01, 0.02, 0.03, 0.04, 0.05, 0.06, 0.07, 0.08, 0.09; Dd = -2 * Du; Dl = 3 * Du.transpose();
   gm2calc::SM sm;
   for (int which = 0; which < 2; which++) {
      try {
         gm2calc::thdm::Gauge_basis g; gm2calc::thdm::Mass_basis m;
         g.yukawa_type = m.yukawa_type = gm2calc::thdm::Yukawa_type::aligned;
         g.zeta_u = m.zeta_u = 0.5; g.zeta_d = m.zeta_d = -2.0; g.zeta_l = m.zeta_l = 3.0;
         g.Delta_u = m.Delta_u = Du; g.Delta_d = m.Delta_d = Dd; g.Delta_l = m.Delta_l = Dl;
         g.lambda << 0.7, 0.6, 0.5, 0.4, 0.3, 0.2, 0.1; g.tan_beta = 3; g.m122 = 40000;
         m.mh = 125; m.mH = 400; m.mA = 420; m.mHp = 440; m.sin_beta_minus_alpha = 0.995; m.tan_beta = 3; m.m122 = 40000;
         const gm2calc::THDM th = which ? gm2calc::THDM(m, sm) : gm2calc::THDM(g, sm);
         const char* nm = which ? "mass basis" : "gauge basis";
         if (th.get_zeta_u() != 0.5) { bad++; std::printf("%s: get_zeta_u() = %g, basis 0.5\\n", nm, th.get_zeta_u()); }
         if (th.get_zeta_d() != -2.0) { bad++; std::printf("%s: get_zeta_d() = %g, basis -2\\n", nm, th.get_zeta_d()); }
         if (th.get_zeta_l() != 3.0) { bad++; std::printf("%s: get_zeta_l() = %g, basis 3\\n", nm, th.get_zeta_l()); }
         if ((th.Delta_u - Du).cwiseAbs().maxCoeff() != 0) { bad++; std::printf("%s: Delta_u differs\\n", nm); }
         if ((th.Delta_d - Dd).cwiseAbs().maxCoeff() != 0) { bad++; std::printf("%s: Delta_d differs\\n", nm); }
         if ((th.Delta_l - Dl).cwiseAbs().maxCoeff() != 0) { bad++; std::printf("%s: Delta_l differs\\n", nm); }
      } catch (const gm2calc::Error& e) { std::printf("exception: %s\\n", e.what()); }
   }
   std::printf("%d members differ from the basis\\n", bad);
   return bad ? 1 : 0;
}
'''

def ctor_replay(model, wd):
    from gm2v import native
    import subprocess
    exe = native.build_against_library(wd, CTOR_REPLAY)
    r = subprocess.run([exe], capture_output=True, text=True, timeout=120)
    return r.returncode == 1, r.stdout.strip()[-1200:]

def make_ctor(basis_cls):
    @obligation('C09.constructor.%s' % basis_cls, fns=[(TH, 'THDM::THDM')], replay=ctor_replay)
    def ob(ctx):
        """ensures (both constructors; init_gauge_couplings / set_basis by their own contracts, C08): after THDM(basis, sm, config) the members that parametrise the
        Yukawa sector are exactly the documented fields of the basis: yukawa_type, zeta_u, zeta_d, zeta_l, Delta_u, Delta_d, Delta_l (each from the field of the same
        name), the SM input and the configuration are the ones passed, init_gauge_couplings() runs before set_basis(basis), and set_basis receives that same basis"""
        calls = []
        def rec(name):
            def st(it_, a, t):
                calls.append((name, a[0] if a else None))
                return None
            return st
        it = Interp(ctx.w, mode='sym', stubs={'THDM::init_gauge_couplings': rec('init_gauge_couplings'), 'THDM::set_basis': rec('set_basis'),
                                              'init_gauge_couplings': rec('init_gauge_couplings'), 'set_basis': rec('set_basis')})
        fds = [f for f in ctx.w.find('THDM::THDM', TH) if len(f.params) == 3 and basis_cls in str(f.params[0].type.name)]
        if len(fds) != 1:
            ctx.record('extraction', ERROR, 'B', 0, '%d constructors THDM(%s, SM, Config)' % (len(fds), basis_cls))
            return
        th = it.new_object('THDM')
        basis = it.new_object(basis_cls, symbolic_fields(None, prefix='basis.'))
        basis.f['yukawa_type'] = z3.Real('basis.yukawa_type')
        sm = it.new_object('SM', symbolic_fields(None, prefix='sm.'))
        cfg = it.new_object('Config', symbolic_fields(None, prefix='cfg.'))
        cfg.f['force_output'], cfg.f['running_couplings'] = z3.Bool('cfg.force_output'), z3.Bool('cfg.running_couplings')
        ps = it.run_paths(lambda: (calls.__delitem__(slice(None)), it.invoke(fds[0], [basis, sm, cfg], th))[1])
        ctx.merge_rules(it)
        if len(ps) != 1 or ps[0][2] is not None:
            ctx.record('paths', FAILED, 'B', 0, 'expected one exception-free path through the constructor, got %s' % [(str(p[2])) for p in ps])
            return
        def same(a, b):
            if isinstance(a, Mat) and isinstance(b, Mat):
                return (a.r, a.c) == (b.r, b.c) and all(same(x, y) for x, y in zip(a.elems(), b.elems()))
            if isinstance(a, Obj) and isinstance(b, Obj):
                return a.cls == b.cls and set(a.f) == set(b.f) and all(same(a.f[k], b.f[k]) for k in a.f)
            if isinstance(a, Cx) or isinstance(b, Cx):
                from gm2v.values import cx as _cx
                a, b = _cx(a), _cx(b)
                return same(a.re, b.re) and same(a.im, b.im)
            if is_sym(a) or is_sym(b):
                try:
                    return z3.eq(z3.simplify(to_z3(a)), z3.simplify(to_z3(b)))
                except Exception:
                    return False
            return a == b
        for fld in ('yukawa_type', 'zeta_u', 'zeta_d', 'zeta_l', 'Delta_u', 'Delta_d', 'Delta_l'):
            ok = same(th.f[fld], basis.f[fld])
            ctx.record('member.%s' % fld, PROVED if ok else FAILED, 'B', 0, 'this->%s == basis.%s' % (fld, fld) if ok else 'this->%s is %s, not basis.%s' % (fld, str(th.f[fld])[:80], fld),
                       model=None if ok else {'_float': {'basis.zeta_u': 0.5, 'basis.zeta_d': -2.0, 'basis.zeta_l': 3.0}})
        ctx.record('member.sm', PROVED if same(th.f['sm'], sm) else FAILED, 'B', 0, 'this->sm is a copy of the SM object passed')
        ctx.record('member.config', PROVED if same(th.f['config'], cfg) else FAILED, 'B', 0, 'this->config is a copy of the configuration passed')
        order = [c[0] for c in calls]
        ok = order == ['init_gauge_couplings', 'set_basis'] and calls[1][1] is not None and same(calls[1][1], basis)
        ctx.record('body', PROVED if ok else FAILED, 'B', 0, 'calls in the body: %s; set_basis receives the constructor\'s basis: %s' % (order, ok))
    return ob

make_ctor('Gauge_basis')
make_ctor('Mass_basis')

# Contracts on single calls carry over to every call in a process only if no function keeps state between calls: C19's static-frame obligation is a lemma here.
from contracts.shared import reregister as _rr_static
from contracts import c19 as _c19_static
_rr_static('C09', 'C19', 'C19.no_stateful_local_statics', 'C09.lemma.no_state_between_calls', replay=None)

# ------------------------------------------------------------------------------------------------ the twelve Yukawa getters: published form
YGET_REPLAY = r'''
#include <cstdio>
#include <cmath>
#include <complex>
#include <Eigen/Core>
#define private public
#include "gm2calc/THDM.hpp"
#undef private
#include "gm2calc/SM.hpp"
#include "gm2calc/gm2_error.hpp"
// mass-basis points on BOTH sides of the alignment limit (sin(beta-alpha) of either sign): the twelve Yukawa getters of the REAL model against
// Y^h = M s + rho c / sqrt2, Y^H = M c - rho s / sqrt2 with ONE pair (s, c) = (sin, cos)(beta - alpha) for up-, down-type quarks and leptons
typedef Eigen::Matrix<std::complex<double>,3,3> M3;
int main() {
   int bad = 0;
   gm2calc::SM sm;
   for (double sba : {0.999, -0.999, 0.6, -0.6, 1.0, -1.0}) for (int type = 1; type <= 5; type++) {
      gm2calc::thdm::Mass_basis b; b.yukawa_type = gm2calc::thdm::int_to_cpp_yukawa_type(type);
      b.mh = 125; b.mH = 400; b.mA = 420; b.mHp = 440; b.sin_beta_minus_alpha = sba; b.tan_beta = 3; b.m122 = 40000; b.zeta_u = 0.3; b.zeta_d = -0.2; b.zeta_l = 0.5;
      try {
         gm2calc::thdm::Config cfg; cfg.running_couplings = false;
         const gm2calc::THDM th(b, sm, cfg);
         const double s = th.get_sin_beta_minus_alpha(), c = th.get_cos_beta_minus_alpha(), v = th.get_v(), r2 = std::sqrt(2.0);
         M3 mu = M3::Zero(), md = M3::Zero(), ml = M3::Zero();
         for (int i = 0; i < 3; i++) { mu(i, i) = th.get_mu(0.0)(i); md(i, i) = th.get_md(0.0)(i); ml(i, i) = th.get_ml(0.0)(i); }
         // rho_f recovered from the A couplings (published: Y^A_u = rho_u/sqrt2, Y^A_d,l = -rho_d,l/sqrt2)
         const M3 ru = th.get_yuA() * r2, rd = -th.get_ydA() * r2, rl = -th.get_ylA() * r2;
         const double d[6] = {(th.get_yuh() - (s * mu / v + c * ru / r2)).cwiseAbs().maxCoeff(), (th.get_ydh() - (s * md / v + c * rd / r2)).cwiseAbs().maxCoeff(), (th.get_ylh() - (s * ml / v + c * rl / r2)).cwiseAbs().maxCoeff(),
                              (th.get_yuH() - (c * mu / v - s * ru / r2)).cwiseAbs().maxCoeff(), (th.get_ydH() - (c * md / v - s * rd / r2)).cwiseAbs().maxCoeff(), (th.get_ylH() - (c * ml / v - s * rl / r2)).cwiseAbs().maxCoeff()};
         for (int i = 0; i < 6; i++) if (!(d[i] <= 1e-12)) { bad++; std::printf("input sin(beta-alpha)=%g type %d: getter %d (0..2: y^h u,d,l; 3..5: y^H u,d,l) off by %.3g (model reports s=%.6g c=%.6g)\n", sba, type, i, d[i], s, c); }
      } catch (const gm2calc::Error& e) { std::printf("exception: %s\n", e.what()); }
   }
   std::printf("%d getters out of contract\n", bad);
   return bad ? 1 : 0;
}
'''

def yget_replay(model, wd):
    from gm2v import native
    import subprocess
    exe = native.build_against_library(wd, YGET_REPLAY)
    r = subprocess.run([exe], capture_output=True, text=True, timeout=300)
    return r.returncode == 1, r.stdout.strip()[-1500:]

@obligation('C09.yukawa_getters.published_form', fns=[(TH, 'THDM::get_y%s%s' % (f, s)) for f in 'udl' for s in ('h', 'H', 'A', 'Hp')], replay=yget_replay)
def _(ctx):
    """ensures for ALL values of the mixing-angle getters (no relation between them assumed), masses, rho_f and CKM entries (arXiv:1607.06292, Eqs. for Y_f^S):
    Y_f^h = M_f s/v + rho_f c/sqrt2,  Y_f^H = M_f c/v - rho_f s/sqrt2  with the SAME (s, c) = (get_sin_beta_minus_alpha(), get_cos_beta_minus_alpha()) for f = u, d, l and
    M_f = diag(get_m_f(mass of that Higgs boson));  Y_u^A = rho_u/sqrt2, Y_d^A = -rho_d/sqrt2, Y_l^A = -rho_l/sqrt2;  Y_u^H+ = -rho_u^dagger V_CKM, Y_d^H+ = V_CKM rho_d, Y_l^H+ = rho_l"""
    it = Interp(ctx.w, mode='sym', div_sides=False)
    th = it.new_object('THDM', symbolic_fields(None, prefix=''))
    S, C, V = z3.Real('sba'), z3.Real('cba'), z3.Real('vev')
    rho = {f: Mat(3, 3, [[Cx(z3.Real('rho_%s%d%dr' % (f, i, j)), z3.Real('rho_%s%d%di' % (f, i, j))) for j in range(3)] for i in range(3)], 'matrix', True) for f in 'udl'}
    def mk(nm):
        def stub(it_, args, this):
            sc = args[0] if args else 0
            return Mat(3, 1, [[it_.uf('%s_%d' % (nm, i), sc)] for i in range(3)], 'matrix', False)
        return stub
    it.stubs.update({'THDM::get_mu': mk('run_mu'), 'THDM::get_md': mk('run_md'), 'THDM::get_ml': mk('run_ml'),
                     'THDM_mass_eigenstates::get_sin_beta_minus_alpha': lambda i, a, t: S, 'THDM_mass_eigenstates::get_cos_beta_minus_alpha': lambda i, a, t: C,
                     'THDM_mass_eigenstates::get_v': lambda i, a, t: V,
                     'THDM::get_rho_u': lambda i, a, t: deep_copy(rho['u']), 'THDM::get_rho_d': lambda i, a, t: deep_copy(rho['d']), 'THDM::get_rho_l': lambda i, a, t: deep_copy(rho['l'])})
    ckm = th.f['sm'].f['ckm']
    r2 = z3.Real('c_SQRT2')
    boson = {'h': ('Mhh', 0), 'H': ('Mhh', 1), 'A': ('MAh', 1), 'Hp': ('MHm', 1)}
    def cpx(x):
        return (z3real(x.re), z3real(x.im)) if isinstance(x, Cx) else (z3real(x), z3.RealVal(0))
    for f in 'udl':
        for s in ('h', 'H', 'A', 'Hp'):
            nm = 'get_y%s%s' % (f, s)
            try:
                sym, r, exc = one(it, lambda: it.call_method(th, nm, []))
            except Exception as e:
                ctx.record(nm, ERROR, 'B', 0, 'extraction: %s' % e)
                continue
            fld, idx = boson[s]
            mass = th.f[fld].get(idx, 0)
            M = [it.uf('run_m%s_%d' % (f, i), mass) for i in range(3)]
            pairs = []
            R = rho[f]
            for i in range(3):
                for j in range(3):
                    got = cpx(r.get(i, j))
                    rr, ri = cpx(R.get(i, j))
                    mij = z3real(M[i]) if i == j else z3.RealVal(0)
                    if s == 'h':
                        want = (S * mij / V + C * rr / r2, C * ri / r2)
                    elif s == 'H':
                        want = (C * mij / V - S * rr / r2, -S * ri / r2)
                    elif s == 'A':
                        sg = 1 if f == 'u' else -1
                        want = (sg * rr / r2, sg * ri / r2)
                    else:
                        if f == 'l':
                            want = (rr, ri)
                        elif f == 'd':
                            wr, wi = z3.RealVal(0), z3.RealVal(0)
                            for k in range(3):
                                cr, ci = cpx(ckm.get(i, k))
                                pr, pi_ = cpx(R.get(k, j))
                                wr, wi = wr + cr * pr - ci * pi_, wi + cr * pi_ + ci * pr
                            want = (wr, wi)
                        else:
                            wr, wi = z3.RealVal(0), z3.RealVal(0)
                            for k in range(3):
                                pr, pi_ = cpx(R.get(k, i))           # (rho^dagger)_{ik} = conj(rho_{ki})
                                cr, ci = cpx(ckm.get(k, j))
                                wr, wi = wr - (pr * cr + pi_ * ci), wi - (pr * ci - pi_ * cr)
                            want = (wr, wi)
                    pairs += [(got[0], want[0]), (got[1], want[1])]
            st = ctx.prove_ring(nm, pairs, relations=[r2 * r2 - 2, z3.Real('c_ISQRT2') * r2 - 1])
            if st == UNDECIDED:
                # not an identity modulo the relations of the constants: look for a point (standard interpretation of sqrt etc.) where the two sides differ
                from gm2v import numeval
                import random, mpmath
                rng = random.Random(7)
                res = ctx.results[-1]
                for trial in range(6):
                    env = {}
                    names = set()
                    for a_, b_ in pairs:
                        numeval.free_vars(a_, names); numeval.free_vars(b_, names)
                    for n_ in sorted(names):
                        env[n_] = Fr(rng.randint(-9, 9), 10) if n_ not in ('vev',) else Fr(246)
                    env['sba'], env['cba'] = (Fr(-3, 5), Fr(4, 5)) if trial % 2 == 0 else (Fr(3, 5), Fr(4, 5))
                    env['c_SQRT2'] = mpmath.sqrt(2); env['c_ISQRT2'] = 1 / mpmath.sqrt(2)
                    try:
                        xuf = {'run_m%s_%d' % (f_, i_): (lambda *a, k=(3 * 'udl'.index(f_) + i_): mpmath.mpf(k + 1) / 7) for f_ in 'udl' for i_ in range(3)}
                        bad_pair = next(((a_, b_) for a_, b_ in pairs if abs(numeval.ev(a_, env, xuf) - numeval.ev(b_, env, xuf)) > mpmath.mpf(10) ** -20), None)
                    except numeval.CannotEval:
                        continue
                    if bad_pair is not None:
                        res.status = FAILED
                        res.detail = 'the getter differs from the published form, e.g. at sin(beta-alpha) = %s, cos(beta-alpha) = %s: code %s, published %s' % (
                            env['sba'], env['cba'], mpmath.nstr(numeval.ev(bad_pair[0], env, xuf), 12), mpmath.nstr(numeval.ev(bad_pair[1], env, xuf), 12))
                        res.solver = 'numeric evaluation (mpmath) at a sample point'
                        res.model = {'_float': {'sba': float(env['sba']), 'cba': float(env['cba'])}}
                        break
    ctx.merge_rules(it)

from contracts.shared import reregister as _rr2

# ---------------------------------------------------------------------------------------------------
# frame of init_yukawas: which members it may write, per parametrisation.  In the general THDM the Pi_f ARE the inputs the coupling getters read (get_rho_f): the
# initialisation must not touch them; in the aligned model zeta_f and Delta_f are the inputs.
# ---------------------------------------------------------------------------------------------------
INIT_REPLAY = r'''
#include "gm2calc/THDM.hpp"
#include "gm2calc/SM.hpp"
#include "gm2calc/gm2_error.hpp"
#include <cstdio>
#include <cmath>
#include <complex>
// REAL constructor, general THDM with a non-trivial CKM matrix: the model must report back the Pi_f it was given
int main() {
   int bad = 0;
   for (double tb : {0.8, 3.0, 20.0}) {
      gm2calc::thdm::Mass_basis b; b.yukawa_type = gm2calc::thdm::Yukawa_type::general;
      b.mh = 125; b.mH = 400; b.mA = 420; b.mHp = 440; b.sin_beta_minus_alpha = 0.999; b.tan_beta = tb; b.m122 = 40000;
      b.Pi_u << 0.01, 0.002, 0.003, 0.004, 0.05, 0.006, 0.007, 0.008, 0.9;
      b.Pi_d << 0.001, 0.0002, 0.0003, 0.0004, 0.005, 0.0006, 0.0007, 0.0008, 0.02;
      b.Pi_l << 0.0001, 0.002, 0.0003, 0.0004, 0.005, 0.0006, 0.0007, 0.0008, 0.01;
      gm2calc::SM sm;
      const gm2calc::THDM m(b, sm);
      const char* nm[3] = {"Pi_u", "Pi_d", "Pi_l"};
      const Eigen::Matrix<std::complex<double>,3,3> got[3] = {m.get_Pi_u(), m.get_Pi_d(), m.get_Pi_l()};
      const Eigen::Matrix<double,3,3> want[3] = {b.Pi_u, b.Pi_d, b.Pi_l};
      for (int f = 0; f < 3; f++) for (int i = 0; i < 3; i++) for (int j = 0; j < 3; j++)
         if (std::abs(got[f](i,j) - want[f](i,j)) > 1e-14) { bad++; if (bad < 6) std::printf("tan(beta)=%g: %s(%d,%d) given %g, model holds (%g,%g)\n", tb, nm[f], i, j, want[f](i,j), got[f](i,j).real(), got[f](i,j).imag()); }
   }
   std::printf("%d entries of the input Pi_f not reported back by the general THDM\n", bad);
   return bad ? 1 : 0;
}
'''

def init_replay(model, wd):
    from gm2v import native
    import subprocess
    exe = native.build_against_library(wd, INIT_REPLAY, name='init_yukawas')
    r = subprocess.run([exe], capture_output=True, text=True, timeout=120)
    return r.returncode == 1, r.stdout.strip()[-1200:]

@obligation('C09.init_yukawas.frame', fns=[(TH, 'THDM::init_yukawas')], replay=init_replay)
def _(ctx):
    """ensures, for every Yukawa type and all parameter values: init_yukawas writes only Gamma_u, Gamma_d, Gamma_l and -- except in the general THDM -- Pi_u, Pi_d, Pi_l;
    in the general THDM the input matrices Pi_f are left exactly as given; zeta_f, Delta_f, the vevs, the SM object and every other member are never written"""
    from contracts.c19 import snapshot
    names = {1: 'type_1', 2: 'type_2', 3: 'type_X', 4: 'type_Y', 5: 'aligned', 6: 'general'}
    for yt, nm in names.items():
        it = Interp(ctx.w, mode='sym', div_sides=False)
        th = it.new_object('THDM', symbolic_fields(None, prefix=''))
        th.f['yukawa_type'] = yt
        before = snapshot(th)
        ps = it.run_paths(lambda: it.call('init_yukawas', [], this=th))
        ctx.merge_rules(it)
        after = snapshot(th)
        allowed = {'Gamma_u', 'Gamma_d', 'Gamma_l'} | (set() if yt == 6 else {'Pi_u', 'Pi_d', 'Pi_l'})
        changed = sorted(k for k in before if before[k] != after.get(k) and k.split('.')[0] not in allowed)
        ctx.record(nm, PROVED if (ps and not changed) else FAILED, 'B', 0, '%d path(s); members written outside the frame: %s' % (len(ps), changed or 'none'),
                   model=None if not changed else {'_type': nm})
